(* C19 / C15 over the CLI world (Model/CliWorld.v): the laws of ONE invocation (cli_step).
   The laws of whole histories (cli_run) are in Proofs/CliWorldHistory.v. *)
From Coq Require Import NArith ZArith List Bool Lia.
From DS Require Import Base PyStr Values TabParse Interp Options Constants Cli CliWorld.
From DS Require Import SmallProofs MoreProofs StartLaws CliWorldSpec.
Import ListNotations.

(* ------------------------------------------------------------------ paths *)
Lemma path_eqb_eq : forall a b : path, path_eqb a b = true <-> a = b.
Proof. exact list_eqb_str_eq. Qed.

Lemma path_eqb_neq : forall a b : path, path_eqb a b = false <-> a <> b.
Proof.
  intros a b. split.
  - intros H E. apply path_eqb_eq in E. rewrite E in H. discriminate.
  - intros H. destruct (path_eqb a b) eqn:E; [|reflexivity]. apply path_eqb_eq in E. contradiction.
Qed.

Lemma path_eqb_sym : forall a b : path, path_eqb a b = path_eqb b a.
Proof.
  intros a b. destruct (path_eqb a b) eqn:E.
  - apply path_eqb_eq in E. subst. symmetry. apply path_eqb_refl.
  - symmetry. apply path_eqb_neq. apply path_eqb_neq in E. intro H. apply E. symmetry. exact H.
Qed.

Lemma write_same : forall fs p s, write fs p s p = Some s.
Proof. intros fs p s. unfold write. rewrite path_eqb_refl. reflexivity. Qed.

Lemma write_other : forall fs p s q, q <> p -> write fs p s q = fs q.
Proof. intros fs p s q H. unfold write. apply path_eqb_neq in H. rewrite H. reflexivity. Qed.

Lemma set_cfg_same : forall c d y, set_cfg c d y d = Some y.
Proof. intros c d y. unfold set_cfg. rewrite path_eqb_refl. reflexivity. Qed.

Lemma set_cfg_other : forall c d y q, q <> d -> set_cfg c d y q = c q.
Proof. intros c d y q H. unfold set_cfg. apply path_eqb_neq in H. rewrite H. reflexivity. Qed.

Lemma parent_snoc : forall (p : path) x, parent (p ++ [x]) = p.
Proof. intros p x. unfold parent. apply removelast_last. Qed.

Lemma new_main_file_snoc : forall dir name, new_main_file dir name = new_project_dir dir name ++ [main_name].
Proof. reflexivity. Qed.

Lemma parent_new_main_file : forall dir name, parent (new_main_file dir name) = new_project_dir dir name.
Proof. intros dir name. rewrite new_main_file_snoc. apply parent_snoc. Qed.

(* ------------------------------------------------------------------ options <-> yaml *)
Lemma options_yaml_round_trip : forall o, options_of_yaml (yaml_of_options o) = o.
Proof. intros [a b c d e]. reflexivity. Qed.

Lemma global_meaning_full : forall o, global_meaning (Some (yaml_of_options o)) = o.
Proof. intro o. cbn [global_meaning]. apply options_yaml_round_trip. Qed.

Lemma meaning_cfg_full : forall o, meaning_cfg (Some (yaml_of_options o)) = Some o.
Proof. intro o. cbn [meaning_cfg option_map]. rewrite options_yaml_round_trip. reflexivity. Qed.

(* the compiler's options depend on the project file only through its meaning *)
Lemma calculate_options_meaning : forall g p1 p2,
  meaning_cfg p1 = meaning_cfg p2 -> calculate_options g p1 = calculate_options g p2.
Proof.
  intros g [y1|] [y2|] H; cbn [meaning_cfg option_map] in H; try discriminate; [|reflexivity].
  assert (E : options_of_yaml y1 = options_of_yaml y2) by congruence.
  unfold calculate_options. rewrite E. reflexivity.
Qed.

Lemma rewritten_config_meaning : forall g p1 p2,
  meaning_cfg p1 = meaning_cfg p2 -> rewritten_config g p1 = rewritten_config g p2.
Proof.
  intros g [y1|] [y2|] H; cbn [meaning_cfg option_map] in H; try discriminate; [|reflexivity].
  assert (E : options_of_yaml y1 = options_of_yaml y2) by congruence.
  unfold rewritten_config. rewrite E. reflexivity.
Qed.

Lemma rewritten_config_some : forall g proj p,
  rewritten_config g proj = Some p -> exists y, proj = Some y /\ p = options_of_yaml y.
Proof.
  intros g [y|] p H.
  - exists y. split; [reflexivity|]. exact (rewritten_config_same_meaning g y p H).
  - unfold rewritten_config in H. destruct (use_project_config g); discriminate.
Qed.

(* ------------------------------------------------------------------ load_global *)
Lemma load_global_spec : forall w,
  load_global w =
  (mkCW (w_files w) (w_cfg w) (Some (yaml_of_options (global_meaning (w_global w)))) (w_dirs w),
   global_meaning (w_global w)).
Proof. intro w. unfold load_global, global_meaning. destruct (w_global w); reflexivity. Qed.

Lemma load_global_idempotent : forall w, load_global (fst (load_global w)) = load_global w.
Proof.
  intro w. rewrite (load_global_spec w). cbn [fst]. rewrite load_global_spec.
  cbn [w_files w_cfg w_global w_dirs]. rewrite global_meaning_full. reflexivity.
Qed.

Lemma load_global_meaning : forall w,
  global_meaning (w_global (fst (load_global w))) = global_meaning (w_global w).
Proof. intro w. rewrite load_global_spec. cbn [fst w_global]. apply global_meaning_full. Qed.

(* ------------------------------------------------------------------ normalised *)
Lemma normalised_files : forall w f l c, w_files (normalised w f l c) = w_files w.
Proof. reflexivity. Qed.

Lemma normalised_dirs : forall w f l c, w_dirs (normalised w f l c) = w_dirs w.
Proof. reflexivity. Qed.

Lemma normalised_global : forall w f l c,
  w_global (normalised w f l c) = Some (yaml_of_options (global_meaning (w_global w))).
Proof. reflexivity. Qed.

(* the project config of FILE is rewritten with the options read from it; nothing else changes *)
Lemma normalised_cfg : forall w f l c d,
  w_cfg (normalised w f l c) d = w_cfg w d \/
  (d = parent f /\ exists y, w_cfg w d = Some y /\
                             w_cfg (normalised w f l c) d = Some (yaml_of_options (options_of_yaml y))).
Proof.
  intros w f l c d. unfold normalised. cbn [w_cfg].
  destruct (rewritten_config _ (w_cfg w (parent f))) as [p|] eqn:Hr; [|left; reflexivity].
  apply rewritten_config_some in Hr. destruct Hr as [y [Hy ->]].
  destruct (path_eqb d (parent f)) eqn:E.
  - apply path_eqb_eq in E. subst d. right. split; [reflexivity|]. exists y. split; [exact Hy|].
    apply set_cfg_same.
  - left. unfold set_cfg. rewrite E. reflexivity.
Qed.

Lemma normalised_cfg_meaning : forall w f l c d,
  meaning_cfg (w_cfg (normalised w f l c) d) = meaning_cfg (w_cfg w d).
Proof.
  intros w f l c d. destruct (normalised_cfg w f l c d) as [H|[_ [y [H1 H2]]]].
  - rewrite H. reflexivity.
  - rewrite H1, H2. rewrite meaning_cfg_full. reflexivity.
Qed.

Lemma normalised_cfg_none : forall w f l c d, w_cfg w d = None -> w_cfg (normalised w f l c) d = None.
Proof.
  intros w f l c d H. destruct (normalised_cfg w f l c d) as [H1|[_ [y [H1 _]]]].
  - rewrite H1. exact H.
  - rewrite H in H1. discriminate.
Qed.

(* a full project config is rewritten to itself *)
Lemma normalised_cfg_full : forall w f l c,
  (forall d y, w_cfg w d = Some y -> full_yaml y) ->
  forall d, w_cfg (normalised w f l c) d = w_cfg w d.
Proof.
  intros w f l c Hfull d. destruct (normalised_cfg w f l c d) as [H|[_ [y [H1 H2]]]]; [exact H|].
  rewrite H2, H1. destruct (Hfull d y H1) as [o ->]. rewrite options_yaml_round_trip. reflexivity.
Qed.

(* ------------------------------------------------------------------ 1c: cli_step on a compile *)
Section Step.
Variable fo : FloatOps.

Theorem cli_step_compile : forall w file output limit comments,
  cli_step fo w (OpCompile file output limit comments) = compile_outcome fo w file output limit comments.
Proof.
  intros w file output limit comments.
  unfold cli_step, compile_outcome. rewrite load_global_spec.
  cbn [fst snd w_files w_cfg w_global w_dirs].
  destruct (w_files w file) as [text|]; [|reflexivity].
  unfold effective_options, normalised, flag_options.
  destruct (rewritten_config _ (w_cfg w (parent file))) as [p|]; cbn [w_files w_cfg w_global w_dirs];
    destruct (compile_text fo _ (w_files w) (Some file) text) as [gl [c|e t|k|]]; reflexivity.
Qed.

(* ------------------------------------------------------------------ one invocation, by cases *)
Inductive step_case (w : cworld) : cli_op -> cworld -> cli_report -> Prop :=
| SC_nothing : forall op r,          (* missing file, refused / raising `new` *)
    is_failure r = true -> step_case w op (only_global w) r
| SC_compile_failed : forall file output limit comments r,
    is_failure r = true ->
    step_case w (OpCompile file output limit comments) (normalised w file limit comments) r
| SC_compile_ok : forall file output limit comments text gl c,
    w_files w file = Some text ->
    compile_text fo (effective_options w file limit comments) (w_files w) (Some file) text = (gl, IOk c) ->
    step_case w (OpCompile file output limit comments)
      (mkCW (write (w_files w) output (joined_output c))
            (w_cfg (normalised w file limit comments))
            (w_global (normalised w file limit comments)) (w_dirs w))
      (RSuccess (length (warnings fo c)))
| SC_new : forall dir name,
    isascii_s name = true ->
    forallb valid_project_char (normalise_name name) = true ->
    dir_exists w (new_project_dir dir name) = false ->
    step_case w (OpNew dir name)
      (mkCW (write (w_files w) (new_main_file dir name) hello_world)
            (set_cfg (w_cfg w) (new_project_dir dir name) (yaml_of_options default_options))
            (Some (yaml_of_options (global_meaning (w_global w))))
            (new_project_dir dir name :: w_dirs w))
      RNewCreated.

Lemma cli_step_cases : forall w op, step_case w op (fst (cli_step fo w op)) (snd (cli_step fo w op)).
Proof.
  intros w [file output limit comments|dir name].
  - rewrite cli_step_compile. unfold compile_outcome.
    destruct (w_files w file) as [text|] eqn:Hf; [|apply SC_nothing; reflexivity].
    destruct (compile_text fo _ (w_files w) (Some file) text) as [gl [c|e t|k|]] eqn:Hc; cbn [fst snd].
    + eapply SC_compile_ok; eassumption.
    + apply SC_compile_failed. reflexivity.
    + apply SC_compile_failed. reflexivity.
    + apply SC_compile_failed. reflexivity.
  - unfold cli_step. rewrite load_global_spec.
    destruct (isascii_s name) eqn:Ha; cbn [negb]; [|apply (SC_nothing w (OpNew dir name) RRaised); reflexivity].
    destruct (forallb valid_project_char (normalise_name name)) eqn:Hv; cbn [negb];
      [|apply (SC_nothing w (OpNew dir name) RNewRefused); reflexivity].
    match goal with |- context [dir_exists ?w1 ?p] => change (dir_exists w1 p) with (dir_exists w (new_project_dir dir name)) end.
    destruct (dir_exists w (new_project_dir dir name)) eqn:Hd;
      [apply (SC_nothing w (OpNew dir name) RNewRefused); reflexivity|].
    cbn [fst snd w_files w_cfg w_global w_dirs]. apply SC_new; assumption.
Qed.

Lemma cli_step_inv : forall w op w' r, cli_step fo w op = (w', r) -> step_case w op w' r.
Proof.
  intros w op w' r H. pose proof (cli_step_cases w op) as Hc. rewrite H in Hc. exact Hc.
Qed.

(* ------------------------------------------------------------------ 1a: frame *)
Theorem step_frame : forall w op w' r q,
  cli_step fo w op = (w', r) -> ~ In q (op_touches op) -> w_files w' q = w_files w q.
Proof.
  intros w op w' r q H Hq. apply cli_step_inv in H.
  destruct H as [op r Hr|file output limit comments r Hr|file output limit comments text gl c Hf Hc|dir name Ha Hv Hd].
  - unfold only_global. rewrite load_global_spec. reflexivity.
  - reflexivity.
  - cbn [w_files]. apply write_other. intro E. apply Hq. left. symmetry. exact E.
  - cbn [w_files]. apply write_other. intro E. apply Hq. left. symmetry. exact E.
Qed.

Corollary step_frame_compile : forall w file output limit comments w' r q,
  cli_step fo w (OpCompile file output limit comments) = (w', r) ->
  path_eqb q output = false -> w_files w' q = w_files w q.
Proof.
  intros w file output limit comments w' r q H Hq. apply (step_frame _ _ _ _ q H).
  cbn [op_touches]. intros [E|[]]. apply path_eqb_neq in Hq. apply Hq. symmetry. exact E.
Qed.

Corollary step_frame_new : forall w dir name w' r q,
  cli_step fo w (OpNew dir name) = (w', r) ->
  path_eqb q (new_main_file dir name) = false -> w_files w' q = w_files w q.
Proof.
  intros w dir name w' r q H Hq. apply (step_frame _ _ _ _ q H).
  cbn [op_touches]. intros [E|[]]. apply path_eqb_neq in Hq. apply Hq. symmetry. exact E.
Qed.

(* the compiled source itself *)
Corollary step_source_unchanged : forall w file output limit comments w' r,
  cli_step fo w (OpCompile file output limit comments) = (w', r) ->
  path_eqb file output = false -> w_files w' file = w_files w file.
Proof. intros w file output limit comments w' r H Hq. exact (step_frame_compile _ _ _ _ _ _ _ file H Hq). Qed.

(* ------------------------------------------------------------------ 1b: all or nothing *)
(* a failure report: no text file changed -- the file system is the same FUNCTION *)
Theorem step_failure_files : forall w op w' r,
  cli_step fo w op = (w', r) -> is_failure r = true -> w_files w' = w_files w.
Proof.
  intros w op w' r H Hr. apply cli_step_inv in H.
  destruct H as [op r _|file output limit comments r _|file output limit comments text gl c Hf Hc|dir name Ha Hv Hd];
    try discriminate.
  - unfold only_global. rewrite load_global_spec. reflexivity.
  - reflexivity.
Qed.

Theorem compile_all_or_nothing : forall w file output limit comments text w' r,
  w_files w file = Some text ->
  cli_step fo w (OpCompile file output limit comments) = (w', r) ->
  match compile_text fo (effective_options w file limit comments) (w_files w) (Some file) text with
  | (_, IOk c) =>
      r = RSuccess (length (warnings fo c)) /\
      w_files w' output = Some (joined_output c) /\
      (forall q, path_eqb q output = false -> w_files w' q = w_files w q)
  | (gl, IErr e t) => r = RError e (err_prints gl t) /\ forall q, w_files w' q = w_files w q
  | (_, ICrash _) => r = RRaised /\ forall q, w_files w' q = w_files w q
  | (_, IUnmod) => r = RRaised /\ forall q, w_files w' q = w_files w q
  end.
Proof.
  intros w file output limit comments text w' r Hf H.
  rewrite cli_step_compile in H. unfold compile_outcome in H. rewrite Hf in H.
  destruct (compile_text fo _ (w_files w) (Some file) text) as [gl [c|e t|k|]];
    injection H as <- <-; cbn [w_files].
  - split; [reflexivity|]. split; [apply write_same|].
    intros q Hq. unfold write. rewrite Hq. reflexivity.
  - split; reflexivity.
  - split; reflexivity.
  - split; reflexivity.
Qed.

(* the report says success exactly when the compiler returned a result *)
Theorem compile_success_iff : forall w file output limit comments text w' r,
  w_files w file = Some text ->
  cli_step fo w (OpCompile file output limit comments) = (w', r) ->
  (is_success r = true <->
   exists gl c, compile_text fo (effective_options w file limit comments) (w_files w) (Some file) text = (gl, IOk c)).
Proof.
  intros w file output limit comments text w' r Hf H.
  pose proof (compile_all_or_nothing _ _ _ _ _ _ _ _ Hf H) as Hc.
  destruct (compile_text fo _ (w_files w) (Some file) text) as [gl [c|e t|k|]].
  - destruct Hc as [-> _]. split; [intros _; exists gl, c; reflexivity|reflexivity].
  - destruct Hc as [-> _]. split; [discriminate|intros [g' [c' E]]; discriminate].
  - destruct Hc as [-> _]. split; [discriminate|intros [g' [c' E]]; discriminate].
  - destruct Hc as [-> _]. split; [discriminate|intros [g' [c' E]]; discriminate].
Qed.

(* read backwards: from the report to what happened *)
Theorem compile_success_inv : forall w file output limit comments w' n,
  cli_step fo w (OpCompile file output limit comments) = (w', RSuccess n) ->
  exists text gl c,
    w_files w file = Some text /\
    compile_text fo (effective_options w file limit comments) (w_files w) (Some file) text = (gl, IOk c) /\
    n = length (warnings fo c) /\
    w_files w' output = Some (joined_output c) /\
    (forall q, path_eqb q output = false -> w_files w' q = w_files w q).
Proof.
  intros w file output limit comments w' n H.
  destruct (w_files w file) as [text|] eqn:Hf.
  - pose proof (compile_all_or_nothing _ _ _ _ _ _ _ _ Hf H) as Hc.
    destruct (compile_text fo _ (w_files w) (Some file) text) as [gl [c|e t|k|]] eqn:E;
      try (destruct Hc as [Hr _]; discriminate).
    destruct Hc as [Hr [Ho Hq]]. injection Hr as ->.
    exists text, gl, c. repeat split; assumption.
  - rewrite cli_step_compile in H. unfold compile_outcome in H. rewrite Hf in H. discriminate.
Qed.

Theorem compile_missing_file : forall w file output limit comments,
  w_files w file = None ->
  cli_step fo w (OpCompile file output limit comments) = (only_global w, RMissingFile).
Proof.
  intros w file output limit comments Hf. rewrite cli_step_compile. unfold compile_outcome. rewrite Hf. reflexivity.
Qed.

(* ------------------------------------------------------------------ 1d: the global config *)
Theorem step_global : forall w op w' r,
  cli_step fo w op = (w', r) -> w_global w' = Some (yaml_of_options (global_meaning (w_global w))).
Proof.
  intros w op w' r H. apply cli_step_inv in H.
  destruct H as [op r _|file output limit comments r _|file output limit comments text gl c Hf Hc|dir name Ha Hv Hd];
    reflexivity.
Qed.

Theorem step_global_meaning : forall w op w' r,
  cli_step fo w op = (w', r) -> global_meaning (w_global w') = global_meaning (w_global w).
Proof. intros w op w' r H. rewrite (step_global _ _ _ _ H). apply global_meaning_full. Qed.

(* ------------------------------------------------------------------ 1e: directories *)
Theorem step_dirs : forall w op w' r,
  cli_step fo w op = (w', r) ->
  w_dirs w' = w_dirs w \/
  (exists dir name, op = OpNew dir name /\ r = RNewCreated /\
                    dir_exists w (new_project_dir dir name) = false /\
                    w_dirs w' = new_project_dir dir name :: w_dirs w).
Proof.
  intros w op w' r H. apply cli_step_inv in H.
  destruct H as [op r _|file output limit comments r _|file output limit comments text gl c Hf Hc|dir name Ha Hv Hd].
  - left. unfold only_global. rewrite load_global_spec. reflexivity.
  - left. reflexivity.
  - left. reflexivity.
  - right. exists dir, name. repeat split. exact Hd.
Qed.

Corollary step_dirs_grow : forall w op w' r d,
  cli_step fo w op = (w', r) -> In d (w_dirs w) -> In d (w_dirs w').
Proof.
  intros w op w' r d H Hd. destruct (step_dirs _ _ _ _ H) as [E|[dir [name [_ [_ [_ E]]]]]]; rewrite E.
  - exact Hd.
  - right. exact Hd.
Qed.

Corollary step_dirs_only_new : forall w op w' r d,
  cli_step fo w op = (w', r) -> In d (w_dirs w') -> In d (w_dirs w) \/ In d (op_new_dirs op).
Proof.
  intros w op w' r d H Hd. destruct (step_dirs _ _ _ _ H) as [E|[dir [name [-> [_ [_ E]]]]]]; rewrite E in Hd.
  - left. exact Hd.
  - destruct Hd as [<-|Hd]; [right; left; reflexivity|left; exact Hd].
Qed.

(* text files are never deleted *)
Lemma step_files_stay : forall w op w' r q,
  cli_step fo w op = (w', r) -> w_files w q <> None -> w_files w' q <> None.
Proof.
  intros w op w' r q H Hq. apply cli_step_inv in H.
  destruct H as [op r _|file output limit comments r _|file output limit comments text gl c Hf Hc|dir name Ha Hv Hd];
    try exact Hq.
  - cbn [w_files]. unfold write. destruct (path_eqb q output); [discriminate|exact Hq].
  - cbn [w_files]. unfold write. destruct (path_eqb q _); [discriminate|exact Hq].
Qed.

Lemma step_dir_exists_mono : forall w op w' r d,
  cli_step fo w op = (w', r) -> dir_exists w d = true -> dir_exists w' d = true.
Proof.
  intros w op w' r d H Hd. unfold dir_exists in *. apply orb_true_iff in Hd. apply orb_true_iff.
  destruct Hd as [Hd|Hd].
  - left. apply existsb_exists in Hd. destruct Hd as [x [Hx Hp]]. apply existsb_exists. exists x.
    split; [exact (step_dirs_grow _ _ _ _ _ H Hx)|exact Hp].
  - right. pose proof (step_files_stay _ _ _ _ d H) as Hs.
    destruct (w_files w d); [|discriminate]. destruct (w_files w' d); [reflexivity|].
    exfalso. apply Hs; [discriminate|reflexivity].
Qed.

(* ------------------------------------------------------------------ 1d: project configs *)
(* what one invocation does to the config of directory d *)
Theorem step_cfg : forall w op w' r d,
  cli_step fo w op = (w', r) ->
  meaning_cfg (w_cfg w' d) = meaning_cfg (w_cfg w d) /\ (w_cfg w d = None -> w_cfg w' d = None)
  \/
  (exists dir name, op = OpNew dir name /\ r = RNewCreated /\ d = new_project_dir dir name /\
                    dir_exists w d = false /\ w_cfg w' d = Some (yaml_of_options default_options)).
Proof.
  intros w op w' r d H. apply cli_step_inv in H.
  destruct H as [op r _|file output limit comments r _|file output limit comments text gl c Hf Hc|dir name Ha Hv Hd].
  - left. unfold only_global. rewrite load_global_spec. split; [reflexivity|intro E; exact E].
  - left. split; [apply normalised_cfg_meaning|apply normalised_cfg_none].
  - left. cbn [w_cfg]. split; [apply normalised_cfg_meaning|apply normalised_cfg_none].
  - cbn [w_cfg]. destruct (path_eqb d (new_project_dir dir name)) eqn:E.
    + apply path_eqb_eq in E. subst d. right. exists dir, name. repeat split; [exact Hd|apply set_cfg_same].
    + left. unfold set_cfg. rewrite E. split; [reflexivity|intro X; exact X].
Qed.

(* a directory that had a config keeps its meaning *)
Theorem step_cfg_meaning : forall w op w' r d y,
  configs_in_existing_dirs w ->
  cli_step fo w op = (w', r) -> w_cfg w d = Some y ->
  meaning_cfg (w_cfg w' d) = Some (options_of_yaml y).
Proof.
  intros w op w' r d y Hwf H Hy.
  destruct (step_cfg _ _ _ _ d H) as [[Hm _]|[dir [name [_ [_ [_ [Hd _]]]]]]].
  - rewrite Hm, Hy. reflexivity.
  - rewrite (Hwf d y Hy) in Hd. discriminate.
Qed.

(* a directory gets a config only through `new`, and then it denotes the defaults *)
Theorem step_cfg_created : forall w op w' r d y',
  cli_step fo w op = (w', r) -> w_cfg w d = None -> w_cfg w' d = Some y' ->
  exists dir name, op = OpNew dir name /\ r = RNewCreated /\ d = new_project_dir dir name /\
                   y' = yaml_of_options default_options /\ options_of_yaml y' = default_options.
Proof.
  intros w op w' r d y' H Hn Hy'.
  destruct (step_cfg _ _ _ _ d H) as [[_ Hm]|[dir [name [Hop [Hr [Hd [_ Hc]]]]]]].
  - rewrite (Hm Hn) in Hy'. discriminate.
  - exists dir, name. rewrite Hc in Hy'. injection Hy' as <-.
    repeat split; assumption.
Qed.

(* well-formedness is kept *)
Theorem step_wf : forall w op w' r,
  configs_in_existing_dirs w -> cli_step fo w op = (w', r) -> configs_in_existing_dirs w'.
Proof.
  intros w op w' r Hwf H d y' Hy'.
  destruct (w_cfg w d) as [y|] eqn:Hy.
  - exact (step_dir_exists_mono _ _ _ _ d H (Hwf d y Hy)).
  - destruct (step_cfg_created _ _ _ _ d y' H Hy Hy') as [dir [name [-> [_ [-> _]]]]].
    destruct (step_dirs _ _ _ _ H) as [E|[dir' [name' [Hop [_ [_ E]]]]]].
    + (* impossible: the step created the project *)
      apply cli_step_inv in H. inversion H as [op r0 Hr|?|?|dir0 name0 Ha Hv Hd]; subst.
      * unfold only_global in Hy'. rewrite load_global_spec in Hy'. cbn [fst w_cfg] in Hy'.
        rewrite Hy in Hy'. discriminate.
      * unfold dir_exists. cbn [w_dirs existsb]. rewrite path_eqb_refl. reflexivity.
    + injection Hop as <- <-. unfold dir_exists. rewrite E. cbn [existsb]. rewrite path_eqb_refl. reflexivity.
Qed.

(* ------------------------------------------------------------------ 4: configs reach a fixpoint *)
Theorem step_configs_full : forall w op w' r,
  configs_full w -> cli_step fo w op = (w', r) -> configs_full w'.
Proof.
  intros w op w' r [[o Hg] Hc] H. split.
  - exists (global_meaning (w_global w)). exact (step_global _ _ _ _ H).
  - intros d y' Hy'. destruct (w_cfg w d) as [y|] eqn:Hy.
    + destruct (step_cfg _ _ _ _ d H) as [[Hm _]|[dir [name [_ [_ [_ [_ Hn]]]]]]].
      * (* same meaning is not enough: go through the cases *)
        apply cli_step_inv in H.
        destruct H as [op r _|file output limit comments r _|file output limit comments text gl c Hf Hcc|dir name Ha Hv Hd].
        -- unfold only_global in Hy'. rewrite load_global_spec in Hy'. cbn [fst w_cfg] in Hy'. exact (Hc d y' Hy').
        -- rewrite (normalised_cfg_full w file limit comments Hc d) in Hy'. exact (Hc d y' Hy').
        -- cbn [w_cfg] in Hy'. rewrite (normalised_cfg_full w file limit comments Hc d) in Hy'. exact (Hc d y' Hy').
        -- cbn [w_cfg] in Hy'. unfold set_cfg in Hy'. destruct (path_eqb d _).
           ++ injection Hy' as <-. exists default_options. reflexivity.
           ++ exact (Hc d y' Hy').
      * rewrite Hn in Hy'. injection Hy' as <-. exists default_options. reflexivity.
    + destruct (step_cfg_created _ _ _ _ d y' H Hy Hy') as [dir [name [_ [_ [_ [-> _]]]]]].
      exists default_options. reflexivity.
Qed.

(* once every config is full, a compile changes no config at all *)
Theorem compile_configs_fixpoint : forall w file output limit comments w' r,
  configs_full w ->
  cli_step fo w (OpCompile file output limit comments) = (w', r) ->
  w_global w' = w_global w /\ forall d, w_cfg w' d = w_cfg w d.
Proof.
  intros w file output limit comments w' r [[o Hg] Hc] H. split.
  - rewrite (step_global _ _ _ _ H), Hg. rewrite global_meaning_full. reflexivity.
  - intro d. apply cli_step_inv in H.
    inversion H as [op r0 Hr|?|?|?]; subst.
    + unfold only_global. rewrite load_global_spec. reflexivity.
    + apply normalised_cfg_full. exact Hc.
    + cbn [w_cfg]. apply normalised_cfg_full. exact Hc.
Qed.

(* `new` on a world with full configs changes only the config it creates *)
Theorem new_configs_fixpoint : forall w dir name w' r,
  configs_full w ->
  cli_step fo w (OpNew dir name) = (w', r) ->
  w_global w' = w_global w /\ forall d, d <> new_project_dir dir name -> w_cfg w' d = w_cfg w d.
Proof.
  intros w dir name w' r [[o Hg] Hc] H. split.
  - rewrite (step_global _ _ _ _ H), Hg. rewrite global_meaning_full. reflexivity.
  - intros d Hd. apply cli_step_inv in H.
    inversion H as [op r0 Hr|?|?|?]; subst.
    + unfold only_global. rewrite load_global_spec. reflexivity.
    + cbn [w_cfg]. apply set_cfg_other. exact Hd.
Qed.

(* the configs after a compile are a fixpoint of that compile -- with no assumption on the world:
   running the same `compile` again changes no config file *)
Lemma normalised_again : forall w w1 f l c,
  global_meaning (w_global w1) = global_meaning (w_global w) ->
  w_cfg w1 = w_cfg (normalised w f l c) ->
  forall d, w_cfg (normalised w1 f l c) d = w_cfg w1 d.
Proof.
  intros w w1 f l c Hg Hc d. unfold normalised at 1. cbn [w_cfg]. rewrite Hg.
  rewrite (rewritten_config_meaning _ (w_cfg w1 (parent f)) (w_cfg w (parent f)))
    by (rewrite Hc; apply normalised_cfg_meaning).
  destruct (rewritten_config (flag_options (global_meaning (w_global w)) l c) (w_cfg w (parent f))) as [p|] eqn:Hr;
    [|reflexivity].
  unfold set_cfg. destruct (path_eqb d (parent f)) eqn:E; [|reflexivity].
  apply path_eqb_eq in E. subst d. rewrite Hc. unfold normalised. cbn [w_cfg]. rewrite Hr.
  rewrite set_cfg_same. reflexivity.
Qed.

Theorem compile_twice_configs : forall w file output limit comments,
  let op := OpCompile file output limit comments in
  let w1 := fst (cli_step fo w op) in
  let w2 := fst (cli_step fo w1 op) in
  w_global w2 = w_global w1 /\ forall d, w_cfg w2 d = w_cfg w1 d.
Proof.
  intros w file output limit comments op w1 w2. split.
  - assert (E1 : w_global w1 = Some (yaml_of_options (global_meaning (w_global w))))
      by (exact (step_global w op _ _ (surjective_pairing _))).
    unfold w2. rewrite (step_global w1 op _ _ (surjective_pairing _)).
    rewrite E1, global_meaning_full. reflexivity.
  - assert (H1 : (w_files w file = None /\ w_files w1 = w_files w) \/
                 w_cfg w1 = w_cfg (normalised w file limit comments)).
    { unfold w1, op. rewrite cli_step_compile. unfold compile_outcome.
      destruct (w_files w file) as [text|]; [right|left; split; reflexivity].
      destruct (compile_text fo _ (w_files w) (Some file) text) as [gl [c|e t|k|]]; reflexivity. }
    assert (Hg : global_meaning (w_global w1) = global_meaning (w_global w))
      by (exact (step_global_meaning w op _ _ (surjective_pairing _))).
    intro d. unfold w2, op. rewrite cli_step_compile. unfold compile_outcome.
    destruct H1 as [[Hn Hf]|Hc].
    + rewrite Hf, Hn. reflexivity.
    + destruct (w_files w1 file) as [text|]; [|reflexivity].
      destruct (compile_text fo _ (w_files w1) (Some file) text) as [gl [c|e t|k|]]; cbn [fst w_cfg];
        exact (normalised_again w w1 file limit comments Hg Hc d).
Qed.

End Step.
