(* Computed witnesses for C05 / C06 on concrete program texts (through the tab parser and
   Compiler.compile, default options, no file system).  [fo] stays abstract: none of the programs
   touches a float. *)
From Coq Require Import String Ascii NArith ZArith List Bool.
From DS Require Import Base PyStr Values Expr TabParse Tables Constants Interp.
Import ListNotations.
Open Scope string_scope.
Open Scope list_scope.

Definition lit (t : string) : str := map N_of_ascii (list_ascii_of_string t).
Definition prog (lines : list string) : str := join [10%N] (map lit lines).
Definition T (s : string) : string := String (ascii_of_nat 9) s.

Section Examples.
Variable fo : FloatOps.

Definition texts (c : glob * ires (compiled fo)) : option (list str) :=
  match snd c with IOk _ r => Some (map o_text (out fo r)) | _ => None end.
Definition run_text (t : str) := compile_text fo default_options (fun _ => None) None t.

(* C05: the first true arm only, then the commands after the chain *)
Example chain_elif_taken :
  texts (run_text (prog ["IF FALSE"; T "STRING a"; "ELIF TRUE"; T "STRING b";
                         "ELIF TRUE"; T "STRING b2"; "ELSE"; T "STRING c"; "STRING d"]))
  = Some [lit "STRING b"; lit "STRING d"].
Proof. vm_compute. reflexivity. Qed.

Example chain_else_taken :
  texts (run_text (prog ["IF FALSE"; T "STRING a"; "ELIF FALSE"; T "STRING b";
                         "ELSE"; T "STRING c"; "STRING d"]))
  = Some [lit "STRING c"; lit "STRING d"].
Proof. vm_compute. reflexivity. Qed.

Example chain_none_taken :
  texts (run_text (prog ["IF FALSE"; T "STRING a"; "ELIF FALSE"; T "STRING b"; "STRING d"]))
  = Some [lit "STRING d"].
Proof. vm_compute. reflexivity. Qed.

(* the condition of an ELIF that comes AFTER the taken arm is still evaluated: the hypothesis
   "every later condition evaluates" of chain_first_true cannot be dropped.  Here the IF is taken
   and the program nevertheless fails on the ELIF line (line 3) *)
Example later_elif_condition_is_evaluated :
  snd (run_text (prog ["IF TRUE"; T "STRING a"; "ELIF $nope"; T "STRING b"]))
  = IErr _ EExpectedToken (Some [mkFrame None (lit "ELIF $nope", 3%Z) None]).
Proof. vm_compute. reflexivity. Qed.

(* the ELIF condition is true in the state the taken body left (x is 1 by then), and its
   block is still not run: at most one body of a chain runs *)
Example later_elif_true_but_skipped :
  texts (run_text (prog ["VAR x 0"; "IF x==0"; T "VAR x 1"; "ELIF x==1"; T "STRING b"; "STRING d"]))
  = Some [lit "STRING d"].
Proof. vm_compute. reflexivity. Qed.

(* C06: the counter takes 0, 1, 2 in order *)
Example repeat_counter :
  texts (run_text (prog ["REPEAT i,3"; T "$STRING i"; "STRING end"]))
  = Some [lit "STRING 0"; lit "STRING 1"; lit "STRING 2"; lit "STRING end"].
Proof. vm_compute. reflexivity. Qed.

(* BREAKLOOP leaves the innermost loop only; what was emitted before it is kept *)
Example break_innermost_only :
  texts (run_text (prog ["REPEAT 2"; T "REPEAT 3"; T (T "STRING a"); T (T "BREAKLOOP");
                         T (T "STRING b"); T "STRING x"; "STRING end"]))
  = Some [lit "STRING a"; lit "STRING x"; lit "STRING a"; lit "STRING x"; lit "STRING end"].
Proof. vm_compute. reflexivity. Qed.

(* CONTINUELOOP (here from inside an IF block) ends the current iteration only *)
Example continue_current_iteration_only :
  texts (run_text (prog ["REPEAT i,3"; T "STRING a"; T "IF i==1"; T (T "CONTINUELOOP");
                         T "STRING b"; "STRING end"]))
  = Some [lit "STRING a"; lit "STRING b"; lit "STRING a"; lit "STRING a"; lit "STRING b"; lit "STRING end"].
Proof. vm_compute. reflexivity. Qed.

Example while_counter :
  texts (run_text (prog ["WHILE i,i<3"; T "$STRING i"; "STRING end"]))
  = Some [lit "STRING 0"; lit "STRING 1"; lit "STRING 2"; lit "STRING end"].
Proof. vm_compute. reflexivity. Qed.

End Examples.
