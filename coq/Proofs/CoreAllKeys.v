(* Names are never lost, and never duplicated, by a run of the unified reference semantics
   (Spec/CoreAll.v): the final store / function table of a statement (list) has the names of the
   initial one, in the same order, then possibly new ones.  Consequence: after `START f` the merge
   [overlay vs1 vs] IS the file's final store vs1, and [overlay_defs F1 F] IS its final table F1.
   Specification only. *)
From Coq Require Import NArith ZArith List Bool Lia.
From DS Require Import Base PyStr Values Expr TabParse Tables Constants Interp ScopeProofs PasteBase.
From DS Require Import CoreLang CoreRefine CoreFunc CoreAll.
Import ListNotations.

(* ================================================================== key extension, generic *)
Definition kext {X} (a b : list (str * X)) : Prop := exists extra, map fst b = map fst a ++ extra.

Lemma kext_refl : forall X (a : list (str * X)), kext a a.
Proof. intros X a. exists []. rewrite app_nil_r. reflexivity. Qed.

Lemma kext_trans : forall X (a b c : list (str * X)), kext a b -> kext b c -> kext a c.
Proof. intros X a b c [x Hx] [y Hy]. exists (x ++ y). rewrite Hy, Hx, app_assoc. reflexivity. Qed.

Lemma kext_names : forall X (a b : list (str * X)), map fst b = map fst a -> kext a b.
Proof. intros X a b H. exists []. rewrite app_nil_r. exact H. Qed.

Lemma kext_upd : forall X k (v : X) l, kext l (upd k v l).
Proof.
  intros X k v l. unfold kext. rewrite keys_upd.
  destruct (has_key k l); [exists []; rewrite app_nil_r; reflexivity|exists [k]; reflexivity].
Qed.

Lemma kext_upd_all : forall X (src dst : list (str * X)), kext dst (upd_all src dst).
Proof.
  intros X. unfold upd_all. induction src as [|[k v] src IH]; intro dst; cbn [fold_left fst snd]; [apply kext_refl|].
  exact (kext_trans _ _ _ _ (kext_upd X k v dst) (IH _)).
Qed.

Lemma keys_restrict_kext : forall X (a b : list (str * X)), kext a b -> map fst (restrict_from a b) = map fst a.
Proof.
  intros X a b [extra H]. apply keys_restrict_from_all. intros k Hk. apply has_key_In. rewrite H.
  apply in_or_app. left. apply has_key_In. exact Hk.
Qed.

Lemma upd_all_kext : forall X (l1 l2 : list (str * X)), nodup_keys l2 -> kext l1 l2 -> upd_all l2 l1 = l2.
Proof. intros X l1 l2 Hn [x Hx]. exact (upd_all_self_ext l1 l2 x Hn Hx). Qed.

(* ================================================================== the spec's operations *)
Lemma set_def_upd : forall x d F, set_def x d F = upd x d F.
Proof. intros x d F. induction F as [|[y w] F IH]; [reflexivity|]. cbn [set_def upd]. rewrite IH. reflexivity. Qed.

Lemma overlay_defs_upd_all : forall top bottom, overlay_defs top bottom = upd_all top bottom.
Proof.
  induction top as [|[y w] top IH]; intro bottom; [reflexivity|].
  unfold overlay_defs, upd_all in *. cbn [fold_left fst snd]. rewrite set_def_upd. apply IH.
Qed.

Section Keys.
Variable fo : FloatOps.
Variable sys : store fo.
Variable prog : program.
Variable inc sup : bool.

Notation exec := (CoreAll.exec fo sys prog inc sup).
Notation exec_list := (CoreAll.exec_list fo sys prog inc sup).
Notation exec_arms := (CoreAll.exec_arms fo sys prog inc sup).
Notation exec_repeat := (CoreAll.exec_repeat fo sys prog inc sup).
Notation exec_while := (CoreAll.exec_while fo sys prog inc sup).

Lemma kext_set_var : forall x v (vs : store fo), kext vs (set_var fo x v vs).
Proof. intros x v vs. rewrite set_var_upd. apply kext_upd. Qed.
Lemma nodup_set_var : forall x v (vs : store fo), nodup_keys vs -> nodup_keys (set_var fo x v vs).
Proof. intros x v vs H. rewrite set_var_upd. apply nodup_keys_upd. exact H. Qed.
Lemma kext_with_counter : forall c k (vs : store fo), kext vs (with_counter fo c k vs).
Proof. intros [x|] k vs; [apply kext_set_var|apply kext_refl]. Qed.
Lemma kext_overlay : forall (top vs : store fo), kext vs (overlay fo top vs).
Proof. intros top vs. rewrite overlay_upd_all. apply kext_upd_all. Qed.
Lemma nodup_overlay : forall (top vs : store fo), nodup_keys vs -> nodup_keys (overlay fo top vs).
Proof. intros top vs H. rewrite overlay_upd_all. apply nodup_keys_upd_all. exact H. Qed.
Lemma names_copy_back : forall (vs vs1 : store fo), kext vs vs1 -> map fst (copy_back fo vs vs1) = map fst vs.
Proof. intros vs vs1 H. rewrite copy_back_restrict. apply keys_restrict_kext. exact H. Qed.
Lemma nodup_copy_back : forall (vs vs1 : store fo), nodup_keys vs -> nodup_keys (copy_back fo vs vs1).
Proof. intros vs vs1 H. rewrite copy_back_restrict. apply nodup_keys_restrict_from. exact H. Qed.

Definition K_stmt (F : utable) (vs : store fo) (F' : utable) (vs' : store fo) : Prop :=
  (nodup_keys vs -> nodup_keys vs') /\ kext vs vs' /\ (nodup_keys F -> nodup_keys F') /\ kext F F'.
Definition K_block (vs vs' : store fo) : Prop :=
  (nodup_keys vs -> nodup_keys vs') /\ map fst vs' = map fst vs.

Definition K_exec (d : nat) (pile : list sframe) (cf : str) (n : Z) F (f : option bool) vs (s : ustmt)
           (sg : fsig) F' (f' : option bool) vs' (out : list uline) (ev : list event) : Prop := K_stmt F vs F' vs'.
Definition K_list (d : nat) (pile : list sframe) (cf : str) (n : Z) F (f : option bool) vs (p : list ustmt)
           (sg : fsig) F' (f' : option bool) vs' (out : list uline) (ev : list event) : Prop := K_stmt F vs F' vs'.
Definition K_arms (d : nat) (pile : list sframe) (cf : str) (first : bool) (n : Z) (F : utable) (b : bool) vs
           (arms : list (str * list ustmt)) (els : option (list ustmt))
           (sg : fsig) (taken : bool) vs' (out : list uline) (ev : list event) : Prop := K_block vs vs'.
Definition K_repeat (d : nat) (pile : list sframe) (cf : str) (n : Z) (F : utable) (f : option bool) (c : option str) (e : str)
           (body : list ustmt) (k : Z) vs (sg : fsig) vs' (out : list uline) (ev : list event) : Prop := K_block vs vs'.
Definition K_while (d : nat) (pile : list sframe) (cf : str) (n : Z) (F : utable) (c : option str) (e : str)
           (body : list ustmt) (k : Z) vs (sg : fsig) vs' (out : list uline) (ev : list event) : Prop := K_block vs vs'.

Lemma K_same : forall F vs, K_stmt F vs F vs.
Proof. intros F vs. split; [exact (fun H => H)|]. split; [apply kext_refl|]. split; [exact (fun H => H)|apply kext_refl]. Qed.

Lemma K_of_block : forall F vs vs', K_block vs vs' -> K_stmt F vs F vs'.
Proof.
  intros F vs vs' [Hn Hk]. split; [exact Hn|]. split; [apply kext_names; exact Hk|].
  split; [exact (fun H => H)|apply kext_refl].
Qed.

Lemma K_copy_back : forall (vs v0 vs1 : store fo), kext vs v0 -> kext v0 vs1 -> K_block vs (copy_back fo vs vs1).
Proof.
  intros vs v0 vs1 H0 H1. split; [apply nodup_copy_back|].
  apply names_copy_back. exact (kext_trans _ _ _ _ H0 H1).
Qed.

Lemma K_block_trans : forall a b c : store fo, K_block a b -> K_block b c -> K_block a c.
Proof. intros a b c [N1 E1] [N2 E2]. split; [intro H; exact (N2 (N1 H))|rewrite E2; exact E1]. Qed.

Theorem keys_all :
  (forall d pile cf n F f vs s sg F' f' vs' out ev,
     exec d pile cf n F f vs s sg F' f' vs' out ev -> K_exec d pile cf n F f vs s sg F' f' vs' out ev) /\
  (forall d pile cf n F f vs p sg F' f' vs' out ev,
     exec_list d pile cf n F f vs p sg F' f' vs' out ev -> K_list d pile cf n F f vs p sg F' f' vs' out ev) /\
  (forall d pile cf first n F b vs arms els sg taken vs' out ev,
     exec_arms d pile cf first n F b vs arms els sg taken vs' out ev ->
     K_arms d pile cf first n F b vs arms els sg taken vs' out ev) /\
  (forall d pile cf n F f c e body k vs sg vs' out ev,
     exec_repeat d pile cf n F f c e body k vs sg vs' out ev ->
     K_repeat d pile cf n F f c e body k vs sg vs' out ev) /\
  (forall d pile cf n F c e body k vs sg vs' out ev,
     exec_while d pile cf n F c e body k vs sg vs' out ev ->
     K_while d pile cf n F c e body k vs sg vs' out ev).
Proof.
  apply (CoreAll.exec_all_mind fo sys prog inc sup K_exec K_list K_arms K_repeat K_while);
    unfold K_exec, K_list, K_arms, K_repeat, K_while.
  - (* E_Emit *) intros. apply K_same.
  - (* E_EmitEval *) intros. apply K_same.
  - (* E_Var *)
    intros d pile cf n F f vs x e v _. split; [apply nodup_set_var|]. split; [apply kext_set_var|].
    split; [exact (fun H => H)|apply kext_refl].
  - (* E_If *) intros d pile cf n F f vs arms els sg taken vs' out ev _ IH. apply K_of_block. exact IH.
  - (* E_Repeat *) intros d pile cf n F f vs c e body sg vs' out ev _ IH. apply K_of_block. exact IH.
  - (* E_While *) intros d pile cf n F f vs c e body sg vs' out ev _ IH. apply K_of_block. exact IH.
  - (* E_Break *) intros. apply K_same.
  - (* E_Continue *) intros. apply K_same.
  - (* E_Return *) intros. apply K_same.
  - (* E_Func *)
    intros d pile cf n F f vs name ps body. split; [exact (fun H => H)|]. split; [apply kext_refl|].
    rewrite set_def_upd. split; [apply nodup_keys_upd|apply kext_upd].
  - (* E_Run *)
    intros d pile cf n F f vs name args vals df sg F1 f1 vs1 out ev _ _ _ _ IH _.
    apply K_of_block. destruct IH as (_ & Hk & _). exact (K_copy_back vs _ vs1 (kext_overlay _ vs) Hk).
  - (* E_Print *) intros. apply K_same.
  - (* E_PrintEval *) intros. apply K_same.
  - (* E_Rem *) intros. apply K_same.
  - (* E_Unknown *) intros. apply K_same.
  - (* E_Start *)
    intros d pile cf n F f vs k name stmts sg F1 f1 vs1 out ev _ _ _ IH.
    destruct IH as (_ & Hk & _ & _).
    assert (HF : (nodup_keys F -> nodup_keys (overlay_defs F1 F)) /\ kext F (overlay_defs F1 F)).
    { rewrite overlay_defs_upd_all. split; [apply nodup_keys_upd_all|apply kext_upd_all]. }
    assert (HV : (nodup_keys vs -> nodup_keys (overlay fo vs1 vs)) /\ kext vs (overlay fo vs1 vs)).
    { split; [apply nodup_overlay|apply kext_overlay]. }
    destruct k.
    + split; [exact (proj1 HV)|]. split; [exact (proj2 HV)|exact HF].
    + exact (K_of_block F vs _ (K_copy_back vs vs vs1 (kext_refl _ vs) Hk)).
    + split; [exact (proj1 HV)|]. split; [exact (proj2 HV)|exact HF].
  - (* L_Nil *) intros. apply K_same.
  - (* L_Cons *)
    intros d pile cf n F f vs s r F1 f1 vs1 o1 e1 sg F2 f2 vs2 o2 e2 _ (N1 & E1 & M1 & G1) _ (N2 & E2 & M2 & G2).
    split; [intro H; exact (N2 (N1 H))|]. split; [exact (kext_trans _ _ _ _ E1 E2)|].
    split; [intro H; exact (M2 (M1 H))|exact (kext_trans _ _ _ _ G1 G2)].
  - (* L_Stop *) intros d pile cf n F f vs s r sg F1 f1 vs1 o1 e1 _ IH _. exact IH.
  - (* A_Take *)
    intros d pile cf first n F b vs c body rest els v sg F1 f1 vs1 out ev _ _ _ (_ & Hk & _) _.
    exact (K_copy_back vs vs vs1 (kext_refl _ vs) Hk).
  - (* A_Skip *) intros d pile cf first n F b vs c body rest els v sg taken vs' out ev _ _ _ IH. exact IH.
  - (* A_Else *)
    intros d pile cf first n F b vs body sg F1 f1 vs1 out ev _ (_ & Hk & _).
    exact (K_copy_back vs vs vs1 (kext_refl _ vs) Hk).
  - (* A_None *) intros. split; [exact (fun H => H)|reflexivity].
  - (* R_Done *) intros. split; [exact (fun H => H)|reflexivity].
  - (* R_Iter *)
    intros d pile cf n F f c e body k vs v m sg F1 f1 vs1 o1 e1 sg' vs' o2 e2 _ _ _ _ _ (_ & Hk & _) _ _ IHr.
    exact (K_block_trans _ _ _ (K_copy_back vs _ vs1 (kext_with_counter c k vs) Hk) IHr).
  - (* R_Stop *)
    intros d pile cf n F f c e body k vs v m sg F1 f1 vs1 o1 e1 _ _ _ _ _ (_ & Hk & _) _.
    exact (K_copy_back vs _ vs1 (kext_with_counter c k vs) Hk).
  - (* W_Done *)
    intros d pile cf n F c e body k vs v _ _ _.
    exact (K_copy_back vs vs _ (kext_refl _ vs) (kext_with_counter c k vs)).
  - (* W_Iter *)
    intros d pile cf n F c e body k vs v sg F1 f1 vs1 o1 e1 sg' vs' o2 e2 _ _ _ _ (_ & Hk & _) _ _ IHw.
    exact (K_block_trans _ _ _ (K_copy_back vs _ vs1 (kext_with_counter c k vs) Hk) IHw).
  - (* W_Stop *)
    intros d pile cf n F c e body k vs v sg F1 f1 vs1 o1 e1 _ _ _ _ (_ & Hk & _) _.
    exact (K_copy_back vs _ vs1 (kext_with_counter c k vs) Hk).
Qed.

Theorem keys_list : forall d pile cf n F f vs p sg F' f' vs' out ev,
  exec_list d pile cf n F f vs p sg F' f' vs' out ev ->
  (nodup_keys vs -> nodup_keys vs') /\ kext vs vs' /\ (nodup_keys F -> nodup_keys F') /\ kext F F'.
Proof. intros d pile cf n F f vs p sg F' f' vs' out ev H. exact (proj1 (proj2 keys_all) _ _ _ _ _ _ _ _ _ _ _ _ _ _ H). Qed.

(* after a file has run from (F, vs) to (F1, vs1), merging it back changes nothing more *)
Theorem overlay_after_run : forall d pile cf n F f vs p sg F1 f1 vs1 out ev,
  exec_list d pile cf n F f vs p sg F1 f1 vs1 out ev -> nodup_keys vs -> nodup_keys F ->
  overlay fo vs1 vs = vs1 /\ overlay_defs F1 F = F1.
Proof.
  intros d pile cf n F f vs p sg F1 f1 vs1 out ev H Hv HF.
  destruct (keys_list _ _ _ _ _ _ _ _ _ _ _ _ _ _ H) as (N & E & M & G).
  split.
  - rewrite overlay_upd_all. apply upd_all_kext; [exact (N Hv)|exact E].
  - rewrite overlay_defs_upd_all. apply upd_all_kext; [exact (M HF)|exact G].
Qed.

End Keys.
