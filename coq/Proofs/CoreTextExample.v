(* Non-vacuity of the text refinement: the main example of Proofs/CoreExample.v written as TEXT
   with a tab and with three spaces as indent unit; Compiler.compile of the model on the text
   (vm_compute, any FloatOps) gives the result of the derivation. *)
From Coq Require Import String Ascii NArith ZArith List Bool Lia.
From DS Require Import Base PyStr Values Expr TabParse Tables Constants Interp.
From DS Require Import BlockTree ChainLoopExamples CoreLang CoreWf CoreRefine CoreExample CoreText CoreTextForest CoreTextParse.
Import ListNotations.
Open Scope string_scope.
Open Scope list_scope.

Arguments IOk {A}. Arguments IErr {A}.

Definition tab_unit : str := [9]%N.
Definition three_spaces : str := [32; 32; 32]%N.

Lemma tab_unit_ok : wf_unit tab_unit /\ no_nl tab_unit.
Proof. split; [split; [right; reflexivity|reflexivity]|reflexivity]. Qed.

Lemma three_spaces_ok : wf_unit three_spaces /\ no_nl three_spaces.
Proof. split; [split; [left; reflexivity|reflexivity]|reflexivity]. Qed.

(* the lines of the text, as one reads them *)
Lemma main_lines_tab :
  lines_of tab_unit prog_main =
  [ lit "VAR total 0";
    lit "REPEAT i,3";
    tab_unit ++ lit "VAR tmp i*2";
    tab_unit ++ lit "IF i==1";
    tab_unit ++ tab_unit ++ lit "VAR total total+10";
    tab_unit ++ lit "ELSE";
    tab_unit ++ tab_unit ++ lit "VAR total total+tmp";
    tab_unit ++ lit "$STRING total";
    lit "$STRING total" ].
Proof. vm_compute. reflexivity. Qed.

Lemma main_lines_spaces :
  lines_of three_spaces prog_main =
  [ lit "VAR total 0";
    lit "REPEAT i,3";
    lit "   VAR tmp i*2";
    lit "   IF i==1";
    lit "      VAR total total+10";
    lit "   ELSE";
    lit "      VAR total total+tmp";
    lit "   $STRING total";
    lit "$STRING total" ].
Proof. vm_compute. reflexivity. Qed.

Lemma main_one_line : one_line_heads prog_main = true.
Proof. vm_compute. reflexivity. Qed.

(* the parser on the text: the item tree of the program, numbers included *)
Lemma main_text_parsed :
  prepare_text (text_of tab_unit prog_main) = TOk (items_of prog_main) /\
  prepare_text (text_of three_spaces prog_main) = TOk (items_of prog_main).
Proof. split; vm_compute; reflexivity. Qed.

Section Examples.
Variable fo : FloatOps.

(* Some (texts of the output, user variables, temp variables, warnings) of compile_text with the
   default options *)
Definition result_text (u : str) (p : list stmt)
  : option (list str * list (str * value fo) * list (str * value fo) * list warning) :=
  match compile_text fo default_options (fun _ => None) None (text_of u p) with
  | (_, IOk c) => Some (map o_text (out fo c), e_user fo (final_env fo c), e_temp fo (final_env fo c), warnings fo c)
  | _ => None
  end.

Lemma main_text_tab : result_text tab_unit prog_main = Some (out_main, vars_main fo, [], []).
Proof. vm_compute. reflexivity. Qed.

Lemma main_text_spaces : result_text three_spaces prog_main = Some (out_main, vars_main fo, [], []).
Proof. vm_compute. reflexivity. Qed.

(* ... and the same through the theorem: all hypotheses of [text_refinement] hold *)
Lemma main_text_by_theorem : forall u, u = tab_unit \/ u = three_spaces ->
  exists ol f',
  map o_text ol = out_main /\
  compile_text fo default_options (fun _ => None) None (text_of u prog_main) =
  (mkGlob [] [], IOk (mkCompiled fo ol [] (mkEnv fo (initial_sys fo) (vars_main fo) (flag_var fo f') []) [])).
Proof.
  intros u Hu. destruct (main_derivation fo) as [f' Hrun].
  assert (Hok : wf_unit u /\ no_nl u).
  { destruct Hu as [->| ->]; [exact tab_unit_ok|exact three_spaces_ok]. }
  destruct Hok as [H1 H2].
  destruct (text_refinement fo default_options (fun _ => None) None u prog_main Normal f' (vars_main fo) out_main
              H1 H2 main_wf main_one_line) as (ol & Ho & E).
  { vm_compute. reflexivity. }
  { exact Hrun. }
  exists ol, f'. split; [exact Ho|exact E].
Qed.

(* the stray BREAKLOOP example as text (signal Broke, one warning) *)
Lemma stray_text : result_text tab_unit prog_stray = Some ([lit "STRING a"], [], [], stray_warnings Broke).
Proof. vm_compute. reflexivity. Qed.

End Examples.
