(* C04 (end to end): corollaries of [tokenize_print] -- redundant parentheses, integer arithmetic,
   division by zero -- and concrete witnesses. *)
From Coq Require Import NArith ZArith List Bool Arith Lia.
From DS Require Import Base Unicode PyStr Values Tables Constants Expr ExprSafety ExprFuel ExprTotal
  ExprAst TreeProofs Spelling ScanRun ScanTokens ScanSpelled ExprLang GroupToken ExprPrint.
Import ListNotations.

Section WithFloats.
Variable fo : FloatOps.
Notation value := (value fo).
Notation vars_t := (vars_t fo).
Notation expr_ok := (expr_ok fo).
Notation eval_in := (eval_in fo).
Notation eval_ref := (eval_ref fo).

Variable vars : vars_t.

(* ------------------------------------------------------------------ every intermediate value is normalised *)
Lemma lookup_normal : forall (x : str) v, vars_normal fo vars -> lookup x vars = Some v -> normalise fo v = v.
Proof.
  intros x v Hn. unfold vars_normal in Hn. induction vars as [|[k w] l IH]; cbn [lookup]; [discriminate|].
  inversion Hn as [|kv l' Hw Hl]; subst kv l'. cbn [snd] in Hw.
  destruct (str_eqb x k); [intro H; injection H as <-; exact Hw|apply IH; exact Hl].
Qed.

Lemma tok_value_normal : forall t v, vars_normal fo vars -> tok_value fo vars t = Ok v -> normalise fo v = v.
Proof.
  intros t v Hn H. unfold tok_value in H. destruct t as [ds|ds|bd|b|x|oc sym]; cbn [ptok_of] in H;
    try (injection H as <-; reflexivity); try discriminate H.
  destruct (lookup x vars) as [w|] eqn:Hw; injection H as <-; [|reflexivity].
  exact (lookup_normal x w Hn Hw).
Qed.

Lemma eval_in_normal : forall e v, vars_normal fo vars -> eval_in vars e = Ok v -> normalise fo v = v.
Proof.
  intros e v Hn. destruct e as [t|x|oc sym a b|e|e]; cbn [ExprLang.eval_in]; intro H.
  - exact (tok_value_normal t v Hn H).
  - exact (tok_value_normal (SVar x) v Hn H).
  - destruct (eval_in vars a) as [va|?|?|]; cbn [bind] in H; try discriminate H.
    destruct (eval_in vars b) as [vb|?|?|]; cbn [bind] in H; try discriminate H.
    exact (apply_op_normal fo _ _ _ _ _ H).
  - destruct (eval_in vars e) as [w|?|?|]; cbn [bind] in H; try discriminate H.
    injection H as <-. apply normalise_idem.
  - destruct (eval_in vars e) as [w|?|?|]; cbn [bind] in H; try discriminate H.
    injection H as <-. reflexivity.
Qed.

Lemma eval_in_eparen : forall e, vars_normal fo vars -> eval_in vars (EParen e) = eval_in vars e.
Proof.
  intros e Hn. cbn [ExprLang.eval_in]. destruct (eval_in vars e) as [v|?|?|] eqn:Hv; cbn [bind]; try reflexivity.
  rewrite (eval_in_normal e v Hn Hv). reflexivity.
Qed.

(* ------------------------------------------------------------------ redundant parentheses *)
Theorem paren_independent_in : forall e e', vars_normal fo vars -> add_paren e e' ->
  eval_in vars e' = eval_in vars e.
Proof.
  intros e e' Hn H. induction H as [e|oc sym a a' b H IH|oc sym a b b' H IH|e e' H IH|e e' H IH].
  - apply eval_in_eparen. exact Hn.
  - cbn [ExprLang.eval_in]. rewrite IH. reflexivity.
  - cbn [ExprLang.eval_in]. rewrite IH. reflexivity.
  - cbn [ExprLang.eval_in]. rewrite IH. reflexivity.
  - cbn [ExprLang.eval_in]. rewrite IH. reflexivity.
Qed.

Theorem paren_independent : forall e e', vars_normal fo vars -> add_paren e e' ->
  eval_ref vars e' = eval_ref vars e.
Proof. intros e e' Hn H. unfold ExprLang.eval_ref. rewrite (paren_independent_in e e' Hn H). reflexivity. Qed.

Theorem unparen_eval : forall e, vars_normal fo vars -> eval_ref vars (unparen e) = eval_ref vars e.
Proof.
  intros e Hn. unfold ExprLang.eval_ref.
  assert (H : eval_in vars (unparen e) = eval_in vars e).
  { induction e as [t|x|oc sym a IHa b IHb|e IH|e IH]; cbn [unparen]; try reflexivity.
    - cbn [ExprLang.eval_in]. rewrite IHa, IHb. reflexivity.
    - rewrite IH. symmetry. apply eval_in_eparen. exact Hn.
    - cbn [ExprLang.eval_in]. rewrite IH. reflexivity. }
  rewrite H. reflexivity.
Qed.

Lemma add_paren_ok : forall e e', add_paren e e' -> expr_ok vars e -> expr_ok vars e'.
Proof.
  intros e e' H. induction H as [e|oc sym a a' b H IH|oc sym a b b' H IH|e e' H IH|e e' H IH];
    cbn [ExprLang.expr_ok]; try tauto.
Qed.

(* the same at the level of texts: printing with an extra pair of parentheses, in any layouts *)
Theorem paren_independent_text : forall lay lay' e e',
  vars_ident fo vars -> vars_normal fo vars -> layout_ok lay -> layout_ok lay' ->
  expr_ok vars e -> add_paren e e' -> depth e <= 100 -> depth e' <= 100 ->
  tokenize fo vars (print lay' e') = tokenize fo vars (print lay e).
Proof.
  intros lay lay' e e' Hvi Hn Hl Hl' Hok Hap Hd Hd'.
  rewrite (tokenize_print fo vars Hvi lay' e' Hl' (add_paren_ok e e' Hap Hok) Hd').
  rewrite (tokenize_print fo vars Hvi lay e Hl Hok Hd).
  apply paren_independent; assumption.
Qed.

(* ------------------------------------------------------------------ integer arithmetic *)
Theorem int_adequacy_in : forall e, int_expr e = true -> eval_in vars e = Ok (VInt (zeval e)).
Proof.
  induction e as [t|x|oc sym a IHa b IHb|e IH|e IH]; intro H; cbn [int_expr] in H; try discriminate H.
  - destruct t; try discriminate H; reflexivity.
  - destruct oc; try discriminate H.
    apply andb_true_iff in H. destruct H as [H Hb]. apply andb_true_iff in H. destruct H as [Hs Ha].
    cbn [ExprLang.eval_in zeval]. rewrite (IHa Ha), (IHb Hb). cbn [bind].
    destruct (str_eqb sym sym_plus) eqn:Hp.
    + apply str_eqb_eq in Hp. subst sym. reflexivity.
    + destruct (str_eqb sym sym_minus) eqn:Hm.
      * apply str_eqb_eq in Hm. subst sym. reflexivity.
      * cbn [orb] in Hs. apply str_eqb_eq in Hs. subst sym. reflexivity.
  - cbn [ExprLang.eval_in zeval]. rewrite (IH H). reflexivity.
Qed.

Theorem int_adequacy : forall e, int_expr e = true -> eval_ref vars e = Ok (VInt (zeval e)).
Proof. intros e H. unfold ExprLang.eval_ref. rewrite (int_adequacy_in e H). reflexivity. Qed.

Lemma int_expr_ok : forall e, int_expr e = true -> expr_ok vars e.
Proof.
  induction e as [t|x|oc sym a IHa b IHb|e IH|e IH]; intro H; cbn [int_expr] in H; try discriminate H;
    cbn [ExprLang.expr_ok].
  - destruct t; try discriminate H; split; try reflexivity; exact H.
  - destruct oc; try discriminate H.
    apply andb_true_iff in H. destruct H as [H Hb]. apply andb_true_iff in H. destruct H as [Hs Ha].
    split; [|split; auto].
    apply orb_true_iff in Hs. destruct Hs as [Hs|Hs]; [apply orb_true_iff in Hs; destruct Hs as [Hs|Hs]|];
      apply str_eqb_eq in Hs; subst sym; unfold op_table; cbn; auto 10.
  - auto.
Qed.

(* the tokenizer computes ordinary integer arithmetic on the printed text *)
Theorem int_adequacy_text : forall lay e,
  vars_ident fo vars -> layout_ok lay -> int_expr e = true -> depth e <= 100 ->
  tokenize fo vars (print lay e) = Ok (VInt (zeval e)).
Proof.
  intros lay e Hvi Hl H Hd.
  rewrite (tokenize_print fo vars Hvi lay e Hl (int_expr_ok e H) Hd). apply int_adequacy. exact H.
Qed.

(* ------------------------------------------------------------------ division by zero *)
Definition is_number (v : value) : bool := match v with VInt _ | VFlt _ => true | _ => false end.

Theorem div_zero_in : forall sym e1 e2 v1,
  In sym [sym_div; sym_fdiv; sym_mod] ->
  eval_in vars e1 = Ok v1 -> is_number v1 = true -> eval_in vars e2 = Ok (VInt 0) ->
  eval_in vars (EBin OCMath sym e1 e2) = Err EDivideByZero.
Proof.
  intros sym e1 e2 v1 Hs H1 Hn H2. cbn [ExprLang.eval_in]. rewrite H1, H2. cbn [bind].
  cbn [In] in Hs. destruct Hs as [<-|[<-|[<-|[]]]]; destruct v1; try discriminate Hn; reflexivity.
Qed.

Theorem div_zero : forall sym e1 e2 v1,
  In sym [sym_div; sym_fdiv; sym_mod] ->
  eval_in vars e1 = Ok v1 -> is_number v1 = true -> eval_in vars e2 = Ok (VInt 0) ->
  eval_ref vars (EBin OCMath sym e1 e2) = Err EDivideByZero.
Proof.
  intros sym e1 e2 v1 Hs H1 Hn H2. unfold ExprLang.eval_ref.
  rewrite (div_zero_in sym e1 e2 v1 Hs H1 Hn H2). reflexivity.
Qed.

Theorem div_zero_text : forall lay sym e1 e2 v1,
  vars_ident fo vars -> layout_ok lay ->
  In sym [sym_div; sym_fdiv; sym_mod] -> expr_ok vars e1 -> expr_ok vars e2 ->
  depth (EBin OCMath sym e1 e2) <= 100 ->
  eval_in vars e1 = Ok v1 -> is_number v1 = true -> eval_in vars e2 = Ok (VInt 0) ->
  tokenize fo vars (print lay (EBin OCMath sym e1 e2)) = Err EDivideByZero.
Proof.
  intros lay sym e1 e2 v1 Hvi Hl Hs Hok1 Hok2 Hd H1 Hn H2.
  rewrite (tokenize_print fo vars Hvi lay _ Hl); [apply (div_zero sym e1 e2 v1); assumption| |exact Hd].
  cbn [ExprLang.expr_ok]. split; [|split; assumption].
  cbn [In] in Hs. destruct Hs as [<-|[<-|[<-|[]]]]; unfold op_table; cbn; auto 10.
Qed.

(* ------------------------------------------------------------------ the other documented rules *)
(* integral results are integers: the value of a whole expression is normalised *)
Theorem eval_ref_normal : forall e v, eval_ref vars e = Ok v -> normalise fo v = v.
Proof.
  intros e v H. unfold ExprLang.eval_ref in H.
  destruct (eval_in vars e) as [w|?|?|]; cbn [bind] in H; try discriminate H.
  injection H as <-. apply normalise_idem.
Qed.

(* "+" concatenates the str() of its operands when either is a string *)
Theorem plus_concat : forall e1 e2 v1 v2 s1 s2,
  eval_in vars e1 = Ok v1 -> eval_in vars e2 = Ok v2 ->
  is_str fo v1 || is_str fo v2 = true -> py_str fo v1 = Some s1 -> py_str fo v2 = Some s2 ->
  eval_ref vars (EBin OCMath sym_plus e1 e2) = Ok (VStr (s1 ++ s2)).
Proof.
  intros e1 e2 v1 v2 s1 s2 H1 H2 Hs Hp1 Hp2. unfold ExprLang.eval_ref. cbn [ExprLang.eval_in].
  rewrite H1, H2. cbn [bind]. unfold apply_op, math_op.
  change (str_eqb sym_plus sym_plus) with true. cbn iota. rewrite Hs, Hp1, Hp2. reflexivity.
Qed.

(* "!( )" negates the truth value *)
Theorem not_negates : forall e v, eval_in vars e = Ok v ->
  eval_ref vars (ENot e) = Ok (VBool (negb (truthy fo (normalise fo v)))).
Proof. intros e v H. unfold ExprLang.eval_ref. cbn [ExprLang.eval_in]. rewrite H. reflexivity. Qed.

(* the six comparisons on integers *)
Definition zcmp (sym : str) (a b : Z) : bool :=
  if str_eqb sym sym_eq then Z.eqb a b
  else if str_eqb sym sym_ne then negb (Z.eqb a b)
  else if str_eqb sym sym_lt then Z.ltb a b
  else if str_eqb sym sym_gt then Z.ltb b a
  else if str_eqb sym sym_le then Z.leb a b
  else Z.leb b a.

Theorem cmp_adequacy : forall sym e1 e2 a b,
  In sym [sym_eq; sym_ne; sym_lt; sym_gt; sym_le; sym_ge] ->
  eval_in vars e1 = Ok (VInt a) -> eval_in vars e2 = Ok (VInt b) ->
  eval_ref vars (EBin OCCond sym e1 e2) = Ok (VBool (zcmp sym a b)).
Proof.
  intros sym e1 e2 a b Hs H1 H2. unfold ExprLang.eval_ref. cbn [ExprLang.eval_in].
  rewrite H1, H2. cbn [bind In] in *.
  destruct Hs as [<-|[<-|[<-|[<-|[<-|[<-|[]]]]]]]; try reflexivity.
  - unfold apply_op, cond_op, zcmp.
    change (str_eqb sym_le sym_eq) with false. change (str_eqb sym_le sym_ne) with false.
    change (str_eqb sym_le sym_lt) with false. change (str_eqb sym_le sym_gt) with false.
    change (str_eqb sym_le sym_le) with true. cbn iota. cbn [py_lt as_num bind].
    destruct (Z.ltb_spec a b) as [Hlt|Hge]; cbn [bind normalise].
    + destruct (Z.leb_spec a b); [reflexivity|lia].
    + cbn [py_eq as_num bind normalise].
      destruct (Z.eqb_spec a b), (Z.leb_spec a b); try reflexivity; lia.
  - unfold apply_op, cond_op, zcmp.
    change (str_eqb sym_ge sym_eq) with false. change (str_eqb sym_ge sym_ne) with false.
    change (str_eqb sym_ge sym_lt) with false. change (str_eqb sym_ge sym_gt) with false.
    change (str_eqb sym_ge sym_le) with false. change (str_eqb sym_ge sym_ge) with true.
    cbn iota. cbn [py_lt as_num bind].
    destruct (Z.ltb_spec b a) as [Hlt|Hge]; cbn [bind normalise].
    + destruct (Z.leb_spec b a); [reflexivity|lia].
    + cbn [py_eq as_num bind normalise].
      destruct (Z.eqb_spec a b), (Z.leb_spec b a); try reflexivity; lia.
Qed.

(* the nesting depth of the printed text, directly *)
Lemma depth_bin : forall oc sym a b,
  depth (EBin oc sym a b) =
  Nat.max (depth a + (if need_left sym a then 1 else 0)) (depth b + (if need_right sym b then 1 else 0)).
Proof.
  intros oc sym a b. unfold depth. cbn [paren gdepth].
  destruct (need_left sym a), (need_right sym b); cbn [gdepth]; lia.
Qed.

Lemma depth_paren : forall e, depth (EParen e) = S (depth e).
Proof. reflexivity. Qed.

Lemma depth_not : forall e, depth (ENot e) = S (depth e).
Proof. reflexivity. Qed.

End WithFloats.
