(* C11: "$STRING <integer expression>" and "$ENTER <expr>" as lines of a stack (palette classes). *)
From Coq Require Import NArith ZArith List Bool Lia.
From DS Require Import Base PyStr Values Expr TabParse Tables Constants Interp.
From DS Require Import PipelineProofs IgnoreProofs GroupProofs DollarForm.
From DS Require Import Spelling ExprLang ExprCorollaries.
Import ListNotations.

Arguments IOk {A}. Arguments IErr {A}. Arguments ICrash {A}. Arguments IUnmod {A}.
Arguments s_g {fo}. Arguments s_env {fo}. Arguments s_line2 {fo}. Arguments mkSt {fo}.

Section DA.
Variable fo : FloatOps.
Variable child : runner fo.
Variable cx : ctx.

Lemma tokenize_empty : forall vars, tokenize fo vars [] = Err EExpectedToken.
Proof. intro vars. vm_compute. reflexivity. Qed.

(* the line "$STRING e" where e is the printed form (any spacing, minimal parentheses) of an
   integer expression (literals, + - *, parentheses): one line "STRING " ++ decimal of its value.
   STRING does not strip its argument: the printed text is tokenized as it is. *)
Theorem dollar_string_arith : forall c n s lay e,
  split_ws1 c = [d_STRING; print lay e] ->
  vars_ident fo (all_vars fo (s_env s)) -> layout_ok lay -> int_expr e = true -> depth e <= 100 ->
  exists cname,
    exec_line fo child cx c n None s =
    (mkSt (s_g s) (s_env s) (Some (c, n)),
     IOk (mkCret [mkO (ByCommand cname) (s_STRING ++ [32%N] ++ Z_to_str (zeval e))] SNormal)).
Proof.
  intros c n s lay e Hs Hvi Hlay Hint Hd.
  pose proof (int_adequacy_text fo (all_vars fo (s_env s)) lay e Hvi Hlay Hint Hd) as Htok.
  assert (Hne : print lay e <> []).
  { intro E. rewrite E in Htok. rewrite tokenize_empty in Htok. discriminate. }
  pose proof palette_dollar_string as Hp.
  destruct (find_command palette d_STRING None) as [[cname [sc|bc]]|] eqn:Ef; try discriminate.
  apply andb_true_iff in Hp. destruct Hp as [Hp Htakes].
  apply andb_true_iff in Hp. destruct Hp as [Hplain Hstrip].
  apply negb_true_iff in Hstrip. apply is_plainb_sound in Hplain.
  assert (Hreq : s_arg_req sc <> NotAllowed).
  { unfold takes_args in Htakes. intro Hr. rewrite Hr in Htakes. discriminate. }
  assert (Hrun : s_run sc <> RKStart).
  { destruct Hplain as (_ & _ & _ & _ & _ & Hrun & _). rewrite Hrun. discriminate. }
  exists cname.
  rewrite (exec_line_simple fo child cx c n None d_STRING [print lay e] cname sc s Hs Ef Hrun).
  unfold d_STRING. cbv beta iota.
  apply (dollar_form fo child cx (c, n) cname (ByCommand cname) sc s_STRING n (print lay e) s
             (VInt (zeval e)) (Z_to_str (zeval e)) Hplain Hreq Hne).
  - unfold norm. rewrite Hstrip. exact Htok.
  - reflexivity.
Qed.

(* "$ENTER expr" as a line of a stack *)
Theorem dollar_enter_line : forall c n s expr v,
  split_ws1 c = [d_ENTER; expr] -> expr <> [] ->
  tokenize fo (all_vars fo (s_env s)) (strip expr) = Ok v ->
  exists cname,
    exec_line fo child cx c n None s =
    (mkSt (s_g s) (s_env s) (Some (c, n)),
     match v with
     | VInt z => if (z <=? count_limit)%Z
                 then IOk (mkCret (map (mkO (ByCommand cname)) (repeat s_ENTER (Z.to_nat z))) SNormal)
                 else IUnmod
     | _ => IErr EInvalidArguments (Some (here cx (c, n) (Some (c, n))))
     end).
Proof.
  intros c n s expr v Hs Hne Htok.
  pose proof palette_dollar_enter as Hp.
  destruct (find_command palette d_ENTER None) as [[cname [sc|bc]]|] eqn:Ef; try discriminate.
  apply is_enterb_sound in Hp. destruct Hp as [Hc Hstrip].
  assert (Hrun : s_run sc <> RKStart).
  { destruct Hc as (_ & _ & _ & _ & _ & Hrun & _). rewrite Hrun. discriminate. }
  exists cname.
  rewrite (exec_line_simple fo child cx c n None d_ENTER [expr] cname sc s Hs Ef Hrun).
  unfold d_ENTER. cbv beta iota.
  apply (dollar_enter_gen fo child cx (c, n) cname (ByCommand cname) sc s_ENTER n expr s v Hc Hne).
  unfold enter_text. rewrite Hstrip. exact Htok.
Qed.

End DA.
