(* C06 / C07 at any depth: BREAKLOOP / CONTINUELOOP hit the innermost loop, RETURN the function
   (or the program), BREAKLOOP / CONTINUELOOP escaping a function is an error -- through any
   nesting of taken IF arms (and, for RETURN, of loop iterations), for the depth-indexed
   interpreter [run d].  Paths: Spec/SignalPath.v; soundness: Proofs/SignalProofs.v. *)
From Coq Require Import NArith ZArith List Bool Lia.
From DS Require Import Base PyStr Values Expr TabParse Tables Constants Interp.
From DS Require Import ScopeProofs LimitProofs ChainProofs LoopUnroll LoopBlock UnknownWarn PipelineProofs.
From DS Require Import RunProofs FuncProofs PasteTop SignalPath SignalProofs.
Import ListNotations.

Arguments IOk {A}. Arguments IErr {A}. Arguments ICrash {A}. Arguments IUnmod {A}.
Arguments s_g {fo}. Arguments s_env {fo}. Arguments s_line2 {fo}. Arguments mkSt {fo}.

Section Theorems.
Variable fo : FloatOps.
Notation st := (st fo).

Lemma outputs_split : forall (crs : nat -> cret) a b,
  outputs crs (a + b) = outputs crs a ++ outputs (fun k => crs (a + k)%nat) b.
Proof.
  intros crs a b. induction b as [|b IH].
  - rewrite Nat.add_0_r. unfold outputs at 3. cbn. rewrite app_nil_r. reflexivity.
  - rewrite Nat.add_succ_r, !outputs_S, IH, app_assoc. reflexivity.
Qed.

(* ================================================================== (a) BREAKLOOP *)
(* REPEAT: iteration j reaches BREAKLOOP through [nest] taken IF arms *)
Theorem break_hits_innermost_loop :
  forall d cx a n body rest acc s var_name count_expr (m j nest : nat)
         (sts : nat -> st) (crs : nat -> cret) segs sB,
  is_blank a = false -> body <> [] ->
  split_loop_arg (strip a) = (var_name, count_expr) -> counter_ok var_name ->
  sts 0%nat = clear_line2 fo s ->
  (forall k, (k <= j)%nat ->
     tokenize_count fo cx (s_REPEAT ++ 32%N :: a, n) count_expr (sts k) = (sts k, IOk (Z.of_nat m))) ->
  (j < m)%nat ->
  (forall k, (k < j)%nat ->
     run_child fo (run fo d) cx (s_REPEAT ++ 32%N :: a, n) body (c_file cx) false
       (bind_counter fo var_name (Z.of_nat k)) (sts k) = (sts (S k), IOk (crs k))) ->
  (forall k, (k < j)%nat -> cr_sig (crs k) = SNormal \/ cr_sig (crs k) = SContinue) ->
  stack_full cx = false ->
  if_nest fo nest d (child_ctx fo cx (s_REPEAT ++ 32%N :: a, n) (sts j) (c_file cx))
          (enter fo (sts j) (counter_env fo var_name (Z.of_nat j) (entry_env fo (sts j))))
          body SBreak segs sB ->
  exec_cmds fo (run fo d) cx (Ln (s_REPEAT ++ 32%N :: a) n :: Blk body :: rest) acc s =
  exec_cmds fo (run fo d) cx rest (acc ++ outputs crs j ++ concat segs) (leave fo (sts j) sB)
  /\ length segs = S nest.
Proof.
  intros d cx a n body rest acc s var_name count_expr m j nest sts crs segs sB
         Ha Hbody Hsplit Hvar Hstart Hcount Hjm Hrun Hsig Hfull Hnest.
  split; [|exact (if_nest_length fo _ _ _ _ _ _ _ _ Hnest)].
  pose proof (block_raises fo d cx (s_REPEAT ++ 32%N :: a, n) body (c_file cx)
                (bind_counter fo var_name (Z.of_nat j)) (sts j) _ SBreak segs sB Hfull
                (counter_env_ok fo var_name (Z.of_nat j) _ Hvar) (if_nest_raises fo _ _ _ _ _ _ _ _ Hnest)) as Hr.
  rewrite (repeat_line_stops_at fo (run fo d) cx a n body rest acc s var_name count_expr m j sts crs
             _ _ Ha Hbody Hsplit Hvar Hstart Hcount Hjm Hrun Hsig Hr (or_introl eq_refl)).
  reflexivity.
Qed.

(* WHILE *)
Theorem break_hits_innermost_while :
  forall d cx a n body rest acc s var_name cond (j nest : nat)
         (sts : nat -> st) (crs : nat -> cret) cenv1 v segs sB,
  is_blank a = false -> body <> [] ->
  split_loop_arg (strip a) = (var_name, cond) ->
  sts 0%nat = clear_line2 fo s ->
  (Z.of_nat j <= 20000)%Z ->
  (forall k, (k < j)%nat ->
     run_child_with fo (run fo d) cx (s_WHILE ++ 32%N :: a, n) body (c_file cx) false
       (bind_counter fo var_name (Z.of_nat k)) (while_pre fo cond) (sts k) = (sts (S k), IOk (Some (crs k)))) ->
  (forall k, (k < j)%nat -> cr_sig (crs k) = SNormal \/ cr_sig (crs k) = SContinue) ->
  stack_full cx = false ->
  bind_counter fo var_name (Z.of_nat j) (entry_env fo (sts j)) = Ok cenv1 ->
  tokenize fo (all_vars fo cenv1) cond = Ok v -> truthy fo v = true ->
  if_nest fo nest d (child_ctx fo cx (s_WHILE ++ 32%N :: a, n) (sts j) (c_file cx))
          (enter fo (sts j) cenv1) body SBreak segs sB ->
  exec_cmds fo (run fo d) cx (Ln (s_WHILE ++ 32%N :: a) n :: Blk body :: rest) acc s =
  exec_cmds fo (run fo d) cx rest (acc ++ outputs crs j ++ concat segs) (leave fo (sts j) sB)
  /\ length segs = S nest.
Proof.
  intros d cx a n body rest acc s var_name cond j nest sts crs cenv1 v segs sB
         Ha Hbody Hsplit Hstart Hj Hrun Hsig Hfull Hbind Htok Htrue Hnest.
  split; [|exact (if_nest_length fo _ _ _ _ _ _ _ _ Hnest)].
  assert (Hp : while_pre fo cond cenv1 = Ok true).
  { unfold while_pre. rewrite Htok. cbn [bind]. rewrite Htrue. reflexivity. }
  pose proof (run_child_with_enter fo d cx (s_WHILE ++ 32%N :: a, n) body (c_file cx)
                (bind_counter fo var_name (Z.of_nat j)) (while_pre fo cond) (sts j) cenv1 sB _ Hfull
                Hbind Hp (raises_sound fo _ _ _ _ _ _ _ (if_nest_raises fo _ _ _ _ _ _ _ _ Hnest) [])) as Hr.
  rewrite (while_line_stops_at fo (run fo d) cx a n body rest acc s var_name cond j sts crs
             _ _ Ha Hbody Hsplit Hstart Hj Hrun Hsig Hr (or_introl eq_refl)).
  reflexivity.
Qed.

(* only THIS loop was left: the enclosing block goes on with [rest]; when [rest] runs to its end
   the enclosing block as a whole ends with SNormal -- so if that block is itself an iteration of
   an enclosing loop, the enclosing loop keeps iterating (LoopBlock.repeat_line_all_lemma) *)
Theorem break_leaves_enclosing_block_normal :
  forall d cx s0 pre o0 a n body rest acc s var_name count_expr (m j nest : nat)
         (sts : nat -> st) (crs : nat -> cret) segs sB s2 o2,
  runs fo (S d) cx s0 pre o0 s ->
  is_blank a = false -> body <> [] ->
  split_loop_arg (strip a) = (var_name, count_expr) -> counter_ok var_name ->
  sts 0%nat = clear_line2 fo s ->
  (forall k, (k <= j)%nat ->
     tokenize_count fo cx (s_REPEAT ++ 32%N :: a, n) count_expr (sts k) = (sts k, IOk (Z.of_nat m))) ->
  (j < m)%nat ->
  (forall k, (k < j)%nat ->
     run_child fo (run fo d) cx (s_REPEAT ++ 32%N :: a, n) body (c_file cx) false
       (bind_counter fo var_name (Z.of_nat k)) (sts k) = (sts (S k), IOk (crs k))) ->
  (forall k, (k < j)%nat -> cr_sig (crs k) = SNormal \/ cr_sig (crs k) = SContinue) ->
  stack_full cx = false ->
  if_nest fo nest d (child_ctx fo cx (s_REPEAT ++ 32%N :: a, n) (sts j) (c_file cx))
          (enter fo (sts j) (counter_env fo var_name (Z.of_nat j) (entry_env fo (sts j))))
          body SBreak segs sB ->
  runs fo (S d) cx (leave fo (sts j) sB) rest o2 s2 ->
  exec_cmds fo (run fo d) cx (pre ++ Ln (s_REPEAT ++ 32%N :: a) n :: Blk body :: rest) acc s0 =
  (s2, IOk (mkCret (acc ++ o0 ++ outputs crs j ++ concat segs ++ o2) SNormal)).
Proof.
  intros d cx s0 pre o0 a n body rest acc s var_name count_expr m j nest sts crs segs sB s2 o2
         Hpre Ha Hbody Hsplit Hvar Hstart Hcount Hjm Hrun Hsig Hfull Hnest Hrest.
  unfold runs in Hpre, Hrest. cbn [child_of] in Hpre, Hrest.
  rewrite (after_normal_segment fo (run fo d) cx pre (Ln (s_REPEAT ++ 32%N :: a) n :: Blk body :: rest)
             acc s0 s o0 Hpre I).
  destruct (break_hits_innermost_loop d cx a n body rest (acc ++ o0) s var_name count_expr m j nest sts crs segs sB
              Ha Hbody Hsplit Hvar Hstart Hcount Hjm Hrun Hsig Hfull Hnest) as [E _].
  rewrite E. rewrite (exec_cmds_acc_ok fo (run fo d) cx rest _ _ s2 o2 SNormal Hrest).
  rewrite <- !app_assoc. reflexivity.
Qed.

(* ================================================================== (a') CONTINUELOOP *)
(* what one iteration does when it reaches a control line through an IF nest: the output of the
   iteration is what its segments emitted before the control line, its signal is the line's *)
Theorem iteration_reaches_control_line :
  forall d cx cur code file setup s cenv1 sg nest segs sB,
  stack_full cx = false ->
  setup (entry_env fo s) = Ok cenv1 ->
  if_nest fo nest d (child_ctx fo cx cur s file) (enter fo s cenv1) code sg segs sB ->
  run_child fo (run fo d) cx cur code file false setup s = (leave fo s sB, IOk (mkCret (concat segs) sg)).
Proof.
  intros d cx cur code file setup s cenv1 sg nest segs sB Hfull Hsetup Hnest.
  exact (block_raises fo d cx cur code file setup s cenv1 sg segs sB Hfull Hsetup
           (if_nest_raises fo _ _ _ _ _ _ _ _ Hnest)).
Qed.

(* REPEAT m: iteration j reaches CONTINUELOOP through [nest] taken IF arms; the other iterations
   run to their end.  Only iteration j is cut short: its output is what it emitted before the
   CONTINUELOOP line, iteration j + 1 starts in the state iteration j left ([leave ...]) and all
   m iterations run; then the stack goes on after the loop *)
Theorem continue_hits_innermost_loop :
  forall d cx a n body rest acc s var_name count_expr (m j nest : nat)
         (sts : nat -> st) (crs : nat -> cret) segs sB,
  is_blank a = false -> body <> [] ->
  split_loop_arg (strip a) = (var_name, count_expr) -> counter_ok var_name ->
  sts 0%nat = clear_line2 fo s ->
  (forall k, (k <= m)%nat ->
     tokenize_count fo cx (s_REPEAT ++ 32%N :: a, n) count_expr (sts k) = (sts k, IOk (Z.of_nat m))) ->
  (j < m)%nat ->
  (forall k, (k < m)%nat -> k <> j ->
     run_child fo (run fo d) cx (s_REPEAT ++ 32%N :: a, n) body (c_file cx) false
       (bind_counter fo var_name (Z.of_nat k)) (sts k) = (sts (S k), IOk (crs k))) ->
  (forall k, (k < m)%nat -> k <> j -> cr_sig (crs k) = SNormal \/ cr_sig (crs k) = SContinue) ->
  stack_full cx = false ->
  if_nest fo nest d (child_ctx fo cx (s_REPEAT ++ 32%N :: a, n) (sts j) (c_file cx))
          (enter fo (sts j) (counter_env fo var_name (Z.of_nat j) (entry_env fo (sts j))))
          body SContinue segs sB ->
  sts (S j) = leave fo (sts j) sB ->
  crs j = mkCret (concat segs) SContinue ->
  exec_cmds fo (run fo d) cx (Ln (s_REPEAT ++ 32%N :: a) n :: Blk body :: rest) acc s =
  exec_cmds fo (run fo d) cx rest (acc ++ outputs crs m) (sts m)
  /\ outputs crs m = outputs crs j ++ concat segs ++ outputs (fun k => crs (S j + k)%nat) (m - S j)
  /\ length segs = S nest.
Proof.
  intros d cx a n body rest acc s var_name count_expr m j nest sts crs segs sB
         Ha Hbody Hsplit Hvar Hstart Hcount Hjm Hrun Hsig Hfull Hnest HsJ HcJ.
  pose proof (iteration_reaches_control_line d cx (s_REPEAT ++ 32%N :: a, n) body (c_file cx)
                (bind_counter fo var_name (Z.of_nat j)) (sts j) _ SContinue nest segs sB Hfull
                (counter_env_ok fo var_name (Z.of_nat j) _ Hvar) Hnest) as Hr.
  split; [|split; [|exact (if_nest_length fo _ _ _ _ _ _ _ _ Hnest)]].
  - apply (repeat_line_all_lemma fo (run fo d) cx a n body rest acc s var_name count_expr m sts crs
             Ha Hbody Hsplit Hvar Hstart Hcount).
    + intros k Hk. destruct (Nat.eq_dec k j) as [->|Hne].
      * rewrite HsJ, HcJ. exact Hr.
      * apply Hrun; assumption.
    + intros k Hk. destruct (Nat.eq_dec k j) as [->|Hne].
      * rewrite HcJ. right. reflexivity.
      * apply Hsig; assumption.
  - replace m with (S j + (m - S j))%nat at 1 by lia.
    rewrite outputs_split, outputs_S, HcJ. cbn [cr_data]. rewrite <- app_assoc. reflexivity.
Qed.

(* WHILE: m iterations with a true condition, iteration j reaches CONTINUELOOP, then the condition
   is false *)
Theorem continue_hits_innermost_while :
  forall d cx a n body rest acc s var_name cond (m j nest : nat)
         (sts : nat -> st) (crs : nat -> cret) cenv1 v segs sB s_end,
  is_blank a = false -> body <> [] ->
  split_loop_arg (strip a) = (var_name, cond) ->
  sts 0%nat = clear_line2 fo s ->
  (Z.of_nat m <= 20000)%Z -> (j < m)%nat ->
  (forall k, (k < m)%nat -> k <> j ->
     run_child_with fo (run fo d) cx (s_WHILE ++ 32%N :: a, n) body (c_file cx) false
       (bind_counter fo var_name (Z.of_nat k)) (while_pre fo cond) (sts k) = (sts (S k), IOk (Some (crs k)))) ->
  (forall k, (k < m)%nat -> k <> j -> cr_sig (crs k) = SNormal \/ cr_sig (crs k) = SContinue) ->
  run_child_with fo (run fo d) cx (s_WHILE ++ 32%N :: a, n) body (c_file cx) false
       (bind_counter fo var_name (Z.of_nat m)) (while_pre fo cond) (sts m) = (s_end, IOk None) ->
  stack_full cx = false ->
  bind_counter fo var_name (Z.of_nat j) (entry_env fo (sts j)) = Ok cenv1 ->
  tokenize fo (all_vars fo cenv1) cond = Ok v -> truthy fo v = true ->
  if_nest fo nest d (child_ctx fo cx (s_WHILE ++ 32%N :: a, n) (sts j) (c_file cx))
          (enter fo (sts j) cenv1) body SContinue segs sB ->
  sts (S j) = leave fo (sts j) sB ->
  crs j = mkCret (concat segs) SContinue ->
  exec_cmds fo (run fo d) cx (Ln (s_WHILE ++ 32%N :: a) n :: Blk body :: rest) acc s =
  exec_cmds fo (run fo d) cx rest (acc ++ outputs crs m) s_end
  /\ outputs crs m = outputs crs j ++ concat segs ++ outputs (fun k => crs (S j + k)%nat) (m - S j)
  /\ length segs = S nest.
Proof.
  intros d cx a n body rest acc s var_name cond m j nest sts crs cenv1 v segs sB s_end
         Ha Hbody Hsplit Hstart Hm Hjm Hrun Hsig Hend Hfull Hbind Htok Htrue Hnest HsJ HcJ.
  assert (Hp : while_pre fo cond cenv1 = Ok true).
  { unfold while_pre. rewrite Htok. cbn [bind]. rewrite Htrue. reflexivity. }
  pose proof (run_child_with_enter fo d cx (s_WHILE ++ 32%N :: a, n) body (c_file cx)
                (bind_counter fo var_name (Z.of_nat j)) (while_pre fo cond) (sts j) cenv1 sB _ Hfull
                Hbind Hp (raises_sound fo _ _ _ _ _ _ _ (if_nest_raises fo _ _ _ _ _ _ _ _ Hnest) [])) as Hr.
  split; [|split; [|exact (if_nest_length fo _ _ _ _ _ _ _ _ Hnest)]].
  - rewrite (while_line_lemma fo (run fo d) cx a n body rest acc s var_name cond Ha Hbody Hsplit).
    pose proof (while_all_iterations_lemma fo (run fo d) cx (s_WHILE ++ 32%N :: a, n) m var_name cond body
                  sts crs s_end Hm) as H.
    unfold bindM. rewrite <- Hstart.
    rewrite <- (Nat.add_0_r loop_fuel).
    rewrite H.
    + unfold after_branch. cbn [cr_sig cr_data app]. reflexivity.
    + intros k Hk. destruct (Nat.eq_dec k j) as [->|Hne].
      * rewrite HsJ, HcJ. exact Hr.
      * apply Hrun; assumption.
    + intros k Hk. destruct (Nat.eq_dec k j) as [->|Hne].
      * rewrite HcJ. right. reflexivity.
      * apply Hsig; assumption.
    + exact Hend.
    + reflexivity.
  - replace m with (S j + (m - S j))%nat at 1 by lia.
    rewrite outputs_split, outputs_S, HcJ. cbn [cr_data]. rewrite <- app_assoc. reflexivity.
Qed.

End Theorems.

(* ================================================================== (b) RETURN *)
Section Return.
Variable fo : FloatOps.
Notation st := (st fo).

(* the state in which the body of f starts when the line (c, n) of stack cx calls it *)
Definition callee_start (s : st) (f : func) (vals : list (value fo)) : st :=
  mkSt (s_g s) (callee_env fo f vals (s_env s)) None.

(* RUN f: the body of f reaches a RETURN line through any nesting of taken IF arms and loop
   iterations (a signal path for SReturn): the RUN line ends normally with the output produced
   before the RETURN, and the caller goes on with its next command *)
Theorem return_ends_the_function :
  forall d cx c cmd (a : str) more n rest acc s fname var_string vals f segs sB,
  is_blank c = false -> split_ws1 c = cmd :: a :: more -> upper cmd = s_RUN ->
  PipelineProofs.starts_dollar cmd = false ->
  a <> [] -> block_after rest = None ->
  break_arg (strip a) = (fname, var_string) ->
  arg_values fo (s_env s) var_string = Ok vals ->
  lookup fname (e_funcs fo (s_env s)) = Some f ->
  length (fn_args f) = length vals ->
  stack_full cx = false ->
  raises fo d (callee_ctx cx (c, n) f (Some (c, n))) (callee_start s f vals) (fn_code f) SReturn segs sB ->
  exec_cmds fo (run fo d) cx (Ln c n :: rest) acc s =
  exec_cmds fo (run fo d) cx rest (acc ++ concat segs)
            (mkSt (s_g sB) (update_from_env fo (s_env s) (s_env sB)) (Some (c, n))).
Proof.
  intros d cx c cmd a more n rest acc s fname var_string vals f segs sB
         Hb Hs Hu Hd Ha Hp Hbr Hav Hl Hn Hsf Hpath.
  pose proof (raises_run fo d _ _ _ _ _ _ _ Hpath) as Hc.
  exact (run_line_splices fo (run fo d) cx c cmd a more n rest acc s fname var_string vals f
           (s_g sB) (mkCret (concat segs) SReturn) (s_env sB)
           Hb Hs Hu Hd Ha Hp Hbr Hav Hl Hn Hsf Hc (or_intror eq_refl)).
Qed.

(* at the top level: the program ends there, successfully, with the output produced so far; the
   warnings are those the executed segments produced -- none is added (contrast: below) *)
Theorem return_ends_the_program :
  forall o fs file cmds segs s1,
  raises fo (run_depth o) (mkCtx o fs [] file) (mkSt (mkGlob [] []) (initial_env fo) None) cmds SReturn segs s1 ->
  compile_items fo o fs file cmds =
  (s_g s1, IOk (mkCompiled fo (concat segs) (rev (g_warnings (s_g s1))) (s_env s1) (rev (g_prints (s_g s1))))).
Proof.
  intros o fs file cmds segs s1 Hpath. unfold compile_items.
  rewrite (raises_run fo _ _ _ _ _ _ _ _ Hpath). reflexivity.
Qed.

(* a BREAKLOOP / CONTINUELOOP reaching the top level (no enclosing loop) also ends the program,
   but with the warning "Program was exited using ... instead of using RETURN" *)
Theorem loop_signal_ends_the_program_with_warning :
  forall o fs file cmds sg nest segs s1 w,
  if_nest fo nest (run_depth o) (mkCtx o fs [] file) (mkSt (mkGlob [] []) (initial_env fo) None) cmds sg segs s1 ->
  s_sig_warning sg = Some w ->
  let g' := add_warning (mkWarn w None) (s_g s1) in
  compile_items fo o fs file cmds =
  (g', IOk (mkCompiled fo (concat segs) (rev (g_warnings g')) (s_env s1) (rev (g_prints g')))).
Proof.
  intros o fs file cmds sg nest segs s1 w Hnest Hw g'. unfold compile_items.
  rewrite (raises_run fo _ _ _ _ _ _ _ _ (if_nest_raises fo _ _ _ _ _ _ _ _ Hnest)).
  cbn [cr_sig cr_data]. rewrite Hw. reflexivity.
Qed.

(* ================================================================== (c) BREAKLOOP / CONTINUELOOP escaping a function *)
Theorem break_escaping_function_is_error :
  forall d cx c cmd (a : str) more n rest acc s fname var_string vals f sg nest segs sB,
  is_blank c = false -> split_ws1 c = cmd :: a :: more -> upper cmd = s_RUN ->
  PipelineProofs.starts_dollar cmd = false ->
  a <> [] -> block_after rest = None ->
  break_arg (strip a) = (fname, var_string) ->
  arg_values fo (s_env s) var_string = Ok vals ->
  lookup fname (e_funcs fo (s_env s)) = Some f ->
  length (fn_args f) = length vals ->
  stack_full cx = false ->
  sg = SBreak \/ sg = SContinue ->
  if_nest fo nest d (callee_ctx cx (c, n) f (Some (c, n))) (callee_start s f vals) (fn_code f) sg segs sB ->
  exists s', exec_cmds fo (run fo d) cx (Ln c n :: rest) acc s =
             (s', IErr EStackReturnType (Some (here cx (c, n) (Some (c, n))))).
Proof.
  intros d cx c cmd a more n rest acc s fname var_string vals f sg nest segs sB
         Hb Hs Hu Hd Ha Hp Hbr Hav Hl Hn Hsf Hsg Hnest.
  pose proof (raises_run fo d _ _ _ _ _ _ _ (if_nest_raises fo _ _ _ _ _ _ _ _ Hnest)) as Hc.
  exact (run_line_escape fo (run fo d) cx c cmd a more n rest acc s fname var_string vals f
           (s_g sB) (mkCret (concat segs) sg) (s_env sB)
           Hb Hs Hu Hd Ha Hp Hbr Hav Hl Hn Hsf Hc Hsg).
Qed.

(* ... even when the RUN line is inside a loop of the caller: the loop does NOT absorb the
   BREAKLOOP of the callee; iteration j of the caller's REPEAT (body = bpre ++ RUN line ++ brest)
   fails and the REPEAT line fails with the same error, raised at the RUN line *)
Theorem break_escaping_function_in_loop_is_error :
  forall d cx a0 n0 rest acc s var_name count_expr (m j : nat) (sts : nat -> st) (crs : nat -> cret)
         bpre o1 s1 c cmd (a : str) more n brest fname var_string vals f sg nest segs sB,
  (* the caller's loop *)
  is_blank a0 = false ->
  split_loop_arg (strip a0) = (var_name, count_expr) -> counter_ok var_name ->
  sts 0%nat = clear_line2 fo s ->
  (forall k, (k <= j)%nat ->
     tokenize_count fo cx (s_REPEAT ++ 32%N :: a0, n0) count_expr (sts k) = (sts k, IOk (Z.of_nat m))) ->
  (j < m)%nat ->
  (forall k, (k < j)%nat ->
     run_child fo (run fo (S d)) cx (s_REPEAT ++ 32%N :: a0, n0) (bpre ++ Ln c n :: brest) (c_file cx) false
       (bind_counter fo var_name (Z.of_nat k)) (sts k) = (sts (S k), IOk (crs k))) ->
  (forall k, (k < j)%nat -> cr_sig (crs k) = SNormal \/ cr_sig (crs k) = SContinue) ->
  stack_full cx = false ->
  (* iteration j: the segment before the RUN line, then the RUN line *)
  let cx' := child_ctx fo cx (s_REPEAT ++ 32%N :: a0, n0) (sts j) (c_file cx) in
  runs fo (S d) cx' (enter fo (sts j) (counter_env fo var_name (Z.of_nat j) (entry_env fo (sts j)))) bpre o1 s1 ->
  is_blank c = false -> split_ws1 c = cmd :: a :: more -> upper cmd = s_RUN ->
  PipelineProofs.starts_dollar cmd = false ->
  a <> [] -> block_after brest = None ->
  break_arg (strip a) = (fname, var_string) ->
  arg_values fo (s_env s1) var_string = Ok vals ->
  lookup fname (e_funcs fo (s_env s1)) = Some f ->
  length (fn_args f) = length vals ->
  stack_full cx' = false ->
  sg = SBreak \/ sg = SContinue ->
  if_nest fo nest d (callee_ctx cx' (c, n) f (Some (c, n))) (callee_start s1 f vals) (fn_code f) sg segs sB ->
  exists s', exec_cmds fo (run fo (S d)) cx (Ln (s_REPEAT ++ 32%N :: a0) n0 :: Blk (bpre ++ Ln c n :: brest) :: rest) acc s =
             (s', IErr EStackReturnType (Some (here cx' (c, n) (Some (c, n))))).
Proof.
  intros d cx a0 n0 rest acc s var_name count_expr m j sts crs bpre o1 s1 c cmd a more n brest
         fname var_string vals f sg nest segs sB
         Ha0 Hsplit Hvar Hstart Hcount Hjm Hrun Hsig Hfull cx' Hpre
         Hb Hs Hu Hd Ha Hp Hbr Hav Hl Hn Hsf Hsg Hnest.
  destruct (break_escaping_function_is_error d cx' c cmd a more n brest o1 s1 fname var_string vals f sg nest segs sB
              Hb Hs Hu Hd Ha Hp Hbr Hav Hl Hn Hsf Hsg Hnest) as [s' Hline].
  unfold runs in Hpre. cbn [child_of] in Hpre.
  assert (Hbody : exec_cmds fo (child_of fo (S d)) cx' (bpre ++ Ln c n :: brest) []
                    (enter fo (sts j) (counter_env fo var_name (Z.of_nat j) (entry_env fo (sts j))))
                  = (s', IErr EStackReturnType (Some (here cx' (c, n) (Some (c, n)))))).
  { cbn [child_of]. rewrite exec_cmds_app, Hpre. cbn [continue_with cr_sig cr_data]. exact Hline. }
  pose proof (run_child_enter_err fo (S d) cx (s_REPEAT ++ 32%N :: a0, n0) (bpre ++ Ln c n :: brest) (c_file cx)
                (bind_counter fo var_name (Z.of_nat j)) (sts j) _ s' _ _ Hfull
                (counter_env_ok fo var_name (Z.of_nat j) _ Hvar) Hbody) as Hr.
  eexists.
  apply (repeat_line_fails_at fo (run fo (S d)) cx a0 n0 (bpre ++ Ln c n :: brest) rest acc s var_name count_expr
           m j sts crs _ _ _ Ha0).
  - destruct bpre; discriminate.
  - exact Hsplit.
  - exact Hvar.
  - exact Hstart.
  - exact Hcount.
  - exact Hjm.
  - exact Hrun.
  - exact Hsig.
  - exact Hr.
Qed.

End Return.
