(* C04: the precedence passes rebuild exactly the well-bracketed tree of a flat token sequence. *)
From Coq Require Import NArith ZArith List Bool Arith Lia.
From DS Require Import Base PyStr Values Expr Tables ExprAst.
Import ListNotations.

(* ------------------------------------------------------------------ rank_in *)
Lemma rank_in_spec : forall rows sym k, rank_in rows sym = Some k ->
  k < length rows /\
  str_in sym (nth k rows []) = true /\
  (forall j, j < k -> str_in sym (nth j rows []) = false).
Proof.
  induction rows as [|row more IH]; intros sym k Hk; cbn [rank_in] in Hk.
  - discriminate.
  - destruct (str_in sym row) eqn:Hin.
    + injection Hk as <-. cbn [length nth]. repeat split; [lia | exact Hin |].
      intros j Hj. lia.
    + destruct (rank_in more sym) as [k'|] eqn:Hr; cbn [option_map] in Hk; [|discriminate].
      injection Hk as <-. destruct (IH sym k' Hr) as (Hlen & Hin' & Hlt).
      cbn [length nth]. repeat split; [lia | exact Hin' |].
      intros j Hj. destruct j as [|j]; [exact Hin|]. apply Hlt. lia.
Qed.

Section WithFloats.
Variable fo : FloatOps.
Notation ptok := (ptok fo).
Notation ptree := (ptree fo).
Notation oplist := (oplist fo).

(* ------------------------------------------------------------------ build_tree over any table *)
(* written exactly as the lambda in build_tree (the pair is matched before the row is bound) *)
Definition pass_step : ptree * oplist -> list str -> ptree * oplist :=
  fun '(a, r) row => pass fo row a r.

Definition build_with (rows : list (list str)) (l : list ptok) : res ptree :=
  match structure fo l with
  | None => Crash KIndexError
  | Some (t0, rest) =>
      let '(t, rest') := fold_left pass_step rows (t0, rest) in
      match rest' with
      | [] => Ok t
      | _ => Err EExpectedToken
      end
  end.

Lemma build_tree_build_with : forall l, build_tree fo l = build_with all_rows l.
Proof. intro l. reflexivity. Qed.

(* ------------------------------------------------------------------ plugging a computation at the
   last tree of a structured list *)
Fixpoint plug (a : ptree) (L : oplist) (f : ptree -> ptree * oplist) : ptree * oplist :=
  match L with
  | [] => f a
  | (oc, sym, z) :: L' => let '(x, r) := plug z L' f in (a, (oc, sym, x) :: r)
  end.

Lemma plug_ext : forall L a f g, (forall z, f z = g z) -> plug a L f = plug a L g.
Proof.
  induction L as [|[[oc sym] z] L IH]; intros a f g Hfg; cbn [plug].
  - apply Hfg.
  - rewrite (IH z f g Hfg). reflexivity.
Qed.

Lemma plug_app : forall L1 a oc sym b L2 f,
  plug a (L1 ++ (oc, sym, b) :: L2) f =
  plug a L1 (fun z => let '(x, r) := plug b L2 f in (z, (oc, sym, x) :: r)).
Proof.
  induction L1 as [|[[oc1 sym1] z1] L1 IH]; intros a oc sym b L2 f; cbn [plug app].
  - reflexivity.
  - rewrite IH. reflexivity.
Qed.

Lemma plug_id : forall L a, plug a L (fun z => (z, [])) = (a, L).
Proof.
  induction L as [|[[oc sym] z] L IH]; intro a; cbn [plug].
  - reflexivity.
  - rewrite IH. reflexivity.
Qed.

Section Rows.
Variable rows : list (list str).

(* ------------------------------------------------------------------ the state after rows 0..i-1:
   the structured flattening in which every subtree whose root has rank < i is atomic *)
Definition atomicb (i : nat) (sym : str) : bool :=
  match rank_in rows sym with
  | Some k => k <? i
  | None => false
  end.

Fixpoint cut (i : nat) (t : ptree) : ptree * oplist :=
  match t with
  | Leaf _ => (t, [])
  | Node oc sym l r =>
      if atomicb i sym then (t, [])
      else let '(a, L) := cut i l in
           let '(b, R) := cut i r in
           (a, L ++ (oc, sym, b) :: R)
  end.

Lemma cut_atomic : forall i t, wb fo rows t ->
  (forall k, top_rank fo rows t = Some k -> k < i) -> cut i t = (t, []).
Proof.
  intros i t Hwb Htop. destruct t as [v|oc sym l r]; cbn [cut].
  - reflexivity.
  - cbn [wb] in Hwb. destruct Hwb as (k & Hk & _).
    unfold atomicb. rewrite Hk.
    assert (Hlt : k < i) by (apply Htop; cbn [top_rank]; exact Hk).
    apply Nat.ltb_lt in Hlt. rewrite Hlt. reflexivity.
Qed.

(* the step: the pass for row i takes cut i to cut (i+1), in any right context *)
Lemma pass_cut : forall i t, wb fo rows t -> forall rest,
  pass fo (nth i rows []) (fst (cut i t)) (snd (cut i t) ++ rest) =
  plug (fst (cut (S i) t)) (snd (cut (S i) t)) (fun z => pass fo (nth i rows []) z rest).
Proof.
  intros i t. induction t as [v|oc sym l IHl r IHr]; intros Hwb rest.
  - reflexivity.
  - cbn [wb] in Hwb. destruct Hwb as (k & Hk & Hwl & Hwr & Hl & Hr).
    specialize (IHl Hwl). specialize (IHr Hwr).
    destruct (rank_in_spec rows sym k Hk) as (_ & Hin & Hnotin).
    cbn [cut]. unfold atomicb. rewrite Hk.
    destruct (Nat.lt_trichotomy k i) as [Hlt | [Heq | Hgt]].
    + (* already merged *)
      assert (H1 : (k <? i) = true) by (apply Nat.ltb_lt; lia).
      assert (H2 : (k <? S i) = true) by (apply Nat.ltb_lt; lia).
      rewrite H1, H2. reflexivity.
    + (* merged by this pass *)
      subst k.
      assert (H1 : (i <? i) = false) by (apply Nat.ltb_ge; lia).
      assert (H2 : (i <? S i) = true) by (apply Nat.ltb_lt; lia).
      rewrite H1, H2.
      assert (Hcr : cut i r = (r, [])) by (apply cut_atomic; assumption).
      assert (Hcl : cut (S i) l = (l, [])).
      { apply cut_atomic; [assumption|]. intros kl Hkl. apply Hl in Hkl. lia. }
      rewrite Hcr. rewrite Hcl in IHl. revert IHl.
      destruct (cut i l) as [a L]. cbn [fst snd plug]. intro IHl.
      rewrite <- app_assoc. cbn [app]. rewrite IHl.
      cbn [pass]. rewrite Hin. reflexivity.
    + (* left for a later pass *)
      assert (H1 : (k <? i) = false) by (apply Nat.ltb_ge; lia).
      assert (H2 : (k <? S i) = false) by (apply Nat.ltb_ge; lia).
      rewrite H1, H2.
      assert (Hout : str_in sym (nth i rows []) = false) by (apply Hnotin; lia).
      revert IHl IHr.
      destruct (cut i l) as [a L], (cut i r) as [b R],
               (cut (S i) l) as [a' L'], (cut (S i) r) as [b' R'].
      cbn [fst snd]. intros IHl IHr.
      rewrite <- app_assoc. cbn [app]. rewrite IHl. rewrite plug_app.
      apply plug_ext. intro z. cbn [pass]. rewrite Hout. rewrite IHr. reflexivity.
Qed.

Lemma pass_step_cut : forall i t, wb fo rows t ->
  pass_step (cut i t) (nth i rows []) = cut (S i) t.
Proof.
  intros i t Hwb. generalize (pass_cut i t Hwb []).
  unfold pass_step. destruct (cut i t) as [a L], (cut (S i) t) as [a' L']. cbn [fst snd].
  rewrite app_nil_r. intro H. rewrite H.
  rewrite (plug_ext L' a' _ (fun z => (z, []))).
  - apply plug_id.
  - intro z. reflexivity.
Qed.

Lemma fold_cut : forall t, wb fo rows t -> forall suf pre, rows = pre ++ suf ->
  fold_left pass_step suf (cut (length pre) t) = cut (length rows) t.
Proof.
  intros t Hwb. induction suf as [|row suf IH]; intros pre Hrows.
  - rewrite app_nil_r in Hrows. subst pre. reflexivity.
  - cbn [fold_left].
    assert (Hnth : nth (length pre) rows [] = row).
    { rewrite Hrows. rewrite app_nth2 by lia. rewrite Nat.sub_diag. reflexivity. }
    rewrite <- Hnth. rewrite (pass_step_cut (length pre) t Hwb).
    specialize (IH (pre ++ [row])). rewrite app_length in IH. cbn [length] in IH.
    rewrite Nat.add_1_r in IH. apply IH.
    rewrite <- app_assoc. exact Hrows.
Qed.

Lemma cut_full : forall t, wb fo rows t -> cut (length rows) t = (t, []).
Proof.
  intros t Hwb. apply cut_atomic; [exact Hwb|].
  intros k Hk. destruct t as [v|oc sym l r]; cbn [top_rank] in Hk; [discriminate|].
  apply rank_in_spec in Hk. destruct Hk as (Hlen & _). exact Hlen.
Qed.

(* ------------------------------------------------------------------ cut 0 is the structured view *)
Lemma atomicb_0 : forall sym, atomicb 0 sym = false.
Proof. intro sym. unfold atomicb. destruct (rank_in rows sym) as [k|]; reflexivity. Qed.

Lemma structure_flatten_aux : forall t, wb fo rows t ->
  exists v toks,
    fst (cut 0 t) = Leaf v /\ leaf_ok fo v /\ flatten fo t = v :: toks /\
    forall more M, structure_rest fo more = Some M ->
                   structure_rest fo (toks ++ more) = Some (snd (cut 0 t) ++ M).
Proof.
  induction t as [v|oc sym l IHl r IHr]; intro Hwb.
  - exists v, []. cbn [cut fst snd flatten app wb] in *. repeat split; try assumption.
    intros more M HM. exact HM.
  - cbn [wb] in Hwb. destruct Hwb as (k & Hk & Hwl & Hwr & _ & _).
    destruct (IHl Hwl) as (vl & tl & Hal & Hokl & Hfl & Hsl).
    destruct (IHr Hwr) as (vr & tr & Har & Hokr & Hfr & Hsr).
    cbn [cut]. rewrite atomicb_0.
    revert Hal Hsl Har Hsr.
    destruct (cut 0 l) as [a L], (cut 0 r) as [b R]. cbn [fst snd].
    intros Hal Hsl Har Hsr. subst a b.
    exists vl, (tl ++ POp oc sym :: vr :: tr).
    repeat split; try assumption.
    + cbn [flatten]. rewrite Hfl, Hfr. reflexivity.
    + intros more M HM. rewrite <- !app_assoc. cbn [app].
      apply Hsl. cbn [structure_rest]. rewrite (Hsr more M HM).
      destruct vr as [x|inner opp|oc' sym']; cbn [leaf_ok] in Hokr; [reflexivity|reflexivity|contradiction].
Qed.

Lemma structure_flatten : forall t, wb fo rows t ->
  structure fo (flatten fo t) = Some (cut 0 t).
Proof.
  intros t Hwb. destruct (structure_flatten_aux t Hwb) as (v & toks & Ha & Hok & Hf & Hs).
  specialize (Hs [] [] eq_refl). rewrite !app_nil_r in Hs.
  rewrite Hf. revert Ha Hs. destruct (cut 0 t) as [a L]. cbn [fst snd]. intros Ha Hs. subst a.
  unfold structure. rewrite Hs.
  destruct v as [x|inner opp|oc' sym']; cbn [leaf_ok] in Hok; [reflexivity|reflexivity|contradiction].
Qed.

(* ------------------------------------------------------------------ main theorem, any table *)
Theorem build_with_correct : forall t, wb fo rows t -> build_with rows (flatten fo t) = Ok t.
Proof.
  intros t Hwb. unfold build_with. rewrite (structure_flatten t Hwb).
  generalize (fold_cut t Hwb rows [] eq_refl). cbn [length].
  destruct (cut 0 t) as [a L]. intro H. rewrite H. rewrite (cut_full t Hwb). reflexivity.
Qed.

(* hence a token sequence has at most one well-bracketed reading *)
Corollary wb_flatten_inj : forall t1 t2, wb fo rows t1 -> wb fo rows t2 ->
  flatten fo t1 = flatten fo t2 -> t1 = t2.
Proof.
  intros t1 t2 Hwb1 Hwb2 Hflat.
  generalize (build_with_correct t1 Hwb1). rewrite Hflat. rewrite (build_with_correct t2 Hwb2).
  intro Heq. injection Heq as Heq. symmetry. exact Heq.
Qed.

(* the boolean checker is sound *)
Lemma wbb_wb : forall t, wbb fo rows t = true -> wb fo rows t.
Proof.
  induction t as [v|oc sym l IHl r IHr]; cbn [wbb wb]; intro H.
  - destruct v; cbn in *; [exact I|exact I|discriminate].
  - destruct (rank_in rows sym) as [k|]; [|discriminate].
    apply andb_true_iff in H. destruct H as [H Hr].
    apply andb_true_iff in H. destruct H as [H Hl].
    apply andb_true_iff in H. destruct H as [Hwl Hwr].
    exists k. repeat split; [apply IHl; exact Hwl|apply IHr; exact Hwr| |].
    + intros kl Hkl. rewrite Hkl in Hl. apply Nat.leb_le in Hl. exact Hl.
    + intros kr Hkr. rewrite Hkr in Hr. apply Nat.ltb_lt in Hr. exact Hr.
Qed.

End Rows.

(* ------------------------------------------------------------------ the code's table *)
Theorem build_tree_correct : forall t, wb fo all_rows t -> build_tree fo (flatten fo t) = Ok t.
Proof.
  intros t Hwb. rewrite build_tree_build_with. apply build_with_correct. exact Hwb.
Qed.

(* a worked example:  1 + 2 * 3 ^ 2 - 4  =  ((1 + (2 * (3 ^ 2))) - 4) *)
Definition ex_tree : ptree :=
  Node OCMath sym_minus
    (Node OCMath sym_plus
       (Leaf (PVal (VInt 1)))
       (Node OCMath sym_times
          (Leaf (PVal (VInt 2)))
          (Node OCMath sym_pow (Leaf (PVal (VInt 3))) (Leaf (PVal (VInt 2))))))
    (Leaf (PVal (VInt 4))).

Definition ex_tokens : list ptok :=
  [PVal (VInt 1); POp OCMath sym_plus; PVal (VInt 2); POp OCMath sym_times; PVal (VInt 3);
   POp OCMath sym_pow; PVal (VInt 2); POp OCMath sym_minus; PVal (VInt 4)].

Lemma ex_tree_flatten : flatten fo ex_tree = ex_tokens.
Proof. reflexivity. Qed.

Lemma ex_tree_wb : wb fo all_rows ex_tree.
Proof. apply wbb_wb. vm_compute. reflexivity. Qed.

Lemma ex_tree_built : build_tree fo ex_tokens = Ok ex_tree.
Proof. rewrite <- ex_tree_flatten. apply build_tree_correct. exact ex_tree_wb. Qed.

(* the same, by plain computation *)
Lemma ex_tree_built_compute : build_tree fo ex_tokens = Ok ex_tree.
Proof. vm_compute. reflexivity. Qed.

(* right operands of equal rank are NOT well-bracketed: 1 - (2 - 3) is not what 1 - 2 - 3 builds *)
Lemma ex_right_nested_not_wb :
  wbb fo all_rows
    (Node OCMath sym_minus (Leaf (PVal (VInt 1)))
       (Node OCMath sym_minus (Leaf (PVal (VInt 2))) (Leaf (PVal (VInt 3))))) = false.
Proof. vm_compute. reflexivity. Qed.

End WithFloats.

(* ------------------------------------------------------------------ the concrete ranks *)
Lemma rank_table :
  rank_in all_rows sym_pow = Some 0 /\
  rank_in all_rows sym_times = Some 1 /\
  rank_in all_rows sym_div = Some 1 /\
  rank_in all_rows sym_fdiv = Some 1 /\
  rank_in all_rows sym_mod = Some 1 /\
  rank_in all_rows sym_plus = Some 2 /\
  rank_in all_rows sym_minus = Some 2 /\
  rank_in all_rows sym_eq = Some 3 /\
  rank_in all_rows sym_ne = Some 3 /\
  rank_in all_rows sym_lt = Some 3 /\
  rank_in all_rows sym_gt = Some 3 /\
  rank_in all_rows sym_le = Some 3 /\
  rank_in all_rows sym_ge = Some 3 /\
  rank_in all_rows [44]%N = Some 4.
Proof. vm_compute. repeat split. Qed.

Lemma all_rows_length : length all_rows = 5.
Proof. vm_compute. reflexivity. Qed.
