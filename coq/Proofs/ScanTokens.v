(* C04 (scanner part): one lemma per token kind.  From a token-start state whose text begins with the
   spelling of a token, the scanner reaches the token-start state after the spelling with exactly that
   token appended -- including the back-tracking through the earlier candidate classes. *)
From Coq Require Import NArith ZArith List Bool Lia.
From DS Require Import Base Unicode PyStr Values Tables Constants Expr ExprSafety ExprFuel Spelling ScanRun.
Import ListNotations.

(* ------------------------------------------------------------------ the matcher on a listed keyword *)
Lemma kw_in_name : forall L p c m, In (p ++ c :: m) L ->
  (m = [] /\ kw_step (kwst L p) c = (kwst L (p ++ [c]), IContinue)) \/
  kw_step (kwst L p) c = (kwst L (p ++ [c]), ITrue).
Proof.
  intros L p c m Hin. rewrite kw_step_kwst.
  assert (Hc : In (p ++ c :: m) (cands L (p ++ [c]))).
  { apply in_cands. split; [exact Hin|].
    replace (p ++ c :: m) with ((p ++ [c]) ++ m) by (rewrite <- app_assoc; reflexivity).
    apply startswith_app. }
  destruct (cands L (p ++ [c])) as [|w [|w2 more]].
  - contradiction.
  - destruct Hc as [->|[]]. destruct (str_eqb (p ++ c :: m) (p ++ [c])) eqn:Heq.
    + left. split; [|reflexivity]. apply str_eqb_eq in Heq. apply app_inv_head in Heq.
      inversion Heq. reflexivity.
    + right. reflexivity.
  - right. reflexivity.
Qed.

Lemma kw_after : forall L p c, p <> [] -> In p L -> cands L (p ++ [c]) = [] ->
  exists k', kw_step (kwst L p) c = (k', IFalse).
Proof.
  intros L p c Hp Hin Hc. rewrite kw_step_kwst, Hc. destruct p as [|a p]; [contradiction|].
  assert (He : existsb (fun w => str_eqb w (a :: p)) (cands L (a :: p)) = true).
  { apply existsb_exists. exists (a :: p). split; [|apply str_eqb_refl].
    apply in_cands. split; [exact Hin|apply startswith_refl]. }
  rewrite He. eexists. reflexivity.
Qed.

(* no listed keyword is a prefix of the text: the matcher never says IContinue / IFalse *)
Lemma kw_giveup_step : forall L p c m,
  (forall w, In w L -> startswith w (p ++ c :: m) = false) ->
  (exists k', kw_step (kwst L p) c = (k', IResetContinue)) \/
  (cands L (p ++ [c]) <> [] /\ kw_step (kwst L p) c = (kwst L (p ++ [c]), ITrue)).
Proof.
  intros L p c m Hno. rewrite kw_step_kwst.
  destruct (cands L (p ++ [c])) as [|w [|w2 more]] eqn:Hc.
  - left. destruct p as [|a p]; [eexists; reflexivity|].
    destruct (existsb (fun w => str_eqb w (a :: p)) (cands L (a :: p))) eqn:He; [|eexists; reflexivity].
    exfalso. apply existsb_exists in He. destruct He as [w [Hw Heq]].
    apply str_eqb_eq in Heq. subst w. apply in_cands in Hw. destruct Hw as [Hw _].
    specialize (Hno _ Hw). rewrite startswith_app in Hno. discriminate Hno.
  - right. split; [discriminate|].
    destruct (str_eqb w (p ++ [c])) eqn:Heq; [|reflexivity].
    exfalso. apply str_eqb_eq in Heq. subst w.
    assert (Hw : In (p ++ [c]) (cands L (p ++ [c]))) by (rewrite Hc; left; reflexivity).
    apply in_cands in Hw. destruct Hw as [Hw _]. specialize (Hno _ Hw).
    replace (p ++ c :: m) with ((p ++ [c]) ++ m) in Hno by (rewrite <- app_assoc; reflexivity).
    rewrite startswith_app in Hno. discriminate Hno.
  - right. split; [discriminate|reflexivity].
Qed.

Lemma cands_empty : forall L p, (forall w, In w L -> startswith p w = false) -> cands L p = [].
Proof.
  intros L p H. unfold cands. induction L as [|w L IH]; [reflexivity|].
  cbn [filter]. rewrite (H w) by (left; reflexivity). apply IH. intros w' Hw'. apply H. right. exact Hw'.
Qed.

Lemma startswith_snoc_cases : forall (w n : str) c,
  startswith w (n ++ [c]) = true -> startswith w n = true \/ w = n ++ [c].
Proof.
  induction w as [|a w IH]; intros n c H; [left; reflexivity|].
  destruct n as [|b n]; cbn [app startswith] in *.
  - apply andb_true_iff in H. destruct H as [H1 H2]. apply N.eqb_eq in H1. subst a.
    destruct w; [right; reflexivity|discriminate H2].
  - apply andb_true_iff in H. destruct H as [H1 H2]. rewrite H1. cbn [andb].
    destruct (IH n c H2) as [Hl|Hr]; [left; exact Hl|right].
    apply N.eqb_eq in H1. subst a. rewrite Hr. reflexivity.
Qed.

(* ------------------------------------------------------------------ digits *)
Local Open Scope N_scope.

Lemma digit_split : forall c, is_ascii_digit c = true ->
  isnumeric_c c = true /\ isspace_c c = false /\ (c =? 34) = false /\ (c =? 47) = false /\ (c =? 61) = false.
Proof.
  intros c H. apply digit_facts_ok in H. unfold digit_facts in H.
  repeat (apply andb_true_iff in H; destruct H as [H ?]).
  repeat match goal with Hn : negb _ = true |- _ => apply negb_true_iff in Hn end. auto.
Qed.

Lemma digit_cases : forall c, is_ascii_digit c = true ->
  c = 48 \/ c = 49 \/ c = 50 \/ c = 51 \/ c = 52 \/ c = 53 \/ c = 54 \/ c = 55 \/ c = 56 \/ c = 57.
Proof.
  intros c H. unfold is_ascii_digit in H. apply andb_true_iff in H. destruct H as [H1 H2].
  apply N.leb_le in H1. apply N.leb_le in H2. lia.
Qed.

Lemma decimal_value_digit : forall c, is_ascii_digit c = true -> decimal_value c = Some (c - 48).
Proof.
  intros c H. apply digit_cases in H.
  repeat (destruct H as [H|H]; [subst c; reflexivity|]). subst c. reflexivity.
Qed.

Lemma digits_value_dec : forall s acc, forallb is_ascii_digit s = true ->
  digits_value s acc = Some (dec_value s acc).
Proof.
  induction s as [|c s IH]; intros acc H; [reflexivity|].
  cbn [forallb] in H. apply andb_true_iff in H. destruct H as [Hc Hs].
  cbn [digits_value dec_value]. rewrite (decimal_value_digit c Hc). apply IH. exact Hs.
Qed.

Theorem py_int_digits : forall ds, is_digits ds = true -> py_int ds = Some (Z.of_N (dec_value ds 0)).
Proof.
  intros ds H. destruct ds as [|d ds]; [discriminate H|]. unfold is_digits in H.
  assert (Hd : is_ascii_digit d = true).
  { cbn [forallb] in H. apply andb_true_iff in H. apply H. }
  assert (Hp : py_int (d :: ds) = option_map Z.of_N (digits_value (d :: ds) 0)).
  { apply digit_cases in Hd.
    repeat (destruct Hd as [Hd|Hd]; [subst d; reflexivity|]). subst d. reflexivity. }
  rewrite Hp, digits_value_dec by exact H. reflexivity.
Qed.

Lemma endswith_dot_digits : forall ds, forallb is_ascii_digit ds = true -> endswith [dot] ds = false.
Proof.
  intros ds H. unfold endswith. cbn [rev app].
  assert (Hr : forallb is_ascii_digit (rev ds) = true).
  { apply forallb_forall. intros x Hx. apply in_rev in Hx. rewrite forallb_forall in H. auto. }
  destruct (rev ds) as [|x l]; [reflexivity|].
  cbn [forallb] in Hr. apply andb_true_iff in Hr. destruct Hr as [Hx _].
  apply digit_cases in Hx. cbn [startswith].
  repeat (destruct Hx as [Hx|Hx]; [subst x; reflexivity|]). subst x. reflexivity.
Qed.

Local Close Scope N_scope.

Section WithFloats.
Variable fo : FloatOps.
Notation value := (value fo).
Notation ptok := (ptok fo).
Notation sd := (sd fo).
Notation vars_t := (vars_t fo).
Notation mkSd := (Expr.mkSd fo).
Notation TS := (TS fo).
Notation leads := (leads fo).

Variable vars : vars_t.

Lemma number_value_digits : forall ds, is_digits ds = true ->
  number_value fo ds = Ok (VInt (Z.of_N (dec_value ds 0))).
Proof.
  intros ds H. unfold number_value.
  assert (Hf : forallb is_ascii_digit ds = true).
  { destruct ds; [discriminate H|exact H]. }
  rewrite (endswith_dot_digits ds Hf), (py_int_digits ds H). reflexivity.
Qed.

(* what may follow a digit string *)
Definition num_follow (r : str) : Prop :=
  match r with
  | [] => True
  | c :: _ => isnumeric_c c = false /\ (c =? dot)%N = false
  end.

Lemma num_run : forall ds st r (i : Z) (neg : bool) sr out v,
  forallb is_ascii_digit ds = true -> ((if neg then 1 else 0) <= i)%Z -> num_follow r ->
  number_value fo (rev sr ++ ds) = Ok v ->
  leads vars (mkSd st (ds ++ r) (Some (TNum i false neg true)) false sr out [])
             (TS r true (PVal v :: out)).
Proof.
  induction ds as [|d ds IH]; intros st r i neg sr out v Hds Hi Hf Hv.
  - rewrite app_nil_r in Hv. cbn [app].
    apply (tok_end fo vars st r (TNum i false neg true) false sr out [] (PVal v)).
    + reflexivity.
    + cbn [set_value]. rewrite Hv. reflexivity.
    + intros c r' ->. cbn in Hf. destruct Hf as [Hn Hd].
      exists (TNum (i + 1) false neg true). split; [apply add_num_end; assumption|].
      cbn [set_value]. rewrite Hv. reflexivity.
  - cbn [forallb] in Hds. apply andb_true_iff in Hds. destruct Hds as [Hd Hds].
    destruct (digit_split d Hd) as [Hnum _].
    eapply leads_trans.
    + apply leads_step. cbn [app]. eapply step_true. apply add_num_digit. exact Hnum.
    + apply IH; auto; [destruct neg; lia|]. cbn [rev]. rewrite <- app_assoc. exact Hv.
Qed.

Theorem int_token : forall ds r out,
  is_digits ds = true -> num_follow r ->
  leads vars (TS (ds ++ r) false out) (TS r true (PVal (VInt (Z.of_N (dec_value ds 0))) :: out)).
Proof.
  intros ds r out H Hf. pose proof (number_value_digits ds H) as Hv.
  destruct ds as [|d ds]; [discriminate H|]. unfold is_digits in H.
  cbn [forallb] in H. apply andb_true_iff in H. destruct H as [Hd Hds].
  destruct (digit_split d Hd) as [Hnum [Hsp [Hq _]]].
  eapply leads_trans.
  - apply leads_step. unfold ScanRun.TS. cbn [app]. rewrite step_first by exact Hsp.
    rewrite value_classes_eq.
    rewrite (vc_false fo vars _ _ _ _ _ _ _ _ _ CStr _ (TStr false false)); [|reflexivity|].
    2:{ cbn [new_tok]. apply add_str_false. exact Hq. }
    rewrite (vc_true fo vars _ _ _ _ _ _ _ _ _ CNum _ (TNum (-1 + 1) false false true)); [reflexivity|reflexivity|].
    cbn [new_tok]. apply add_num_digit. exact Hnum.
  - apply (num_run ds _ r (-1 + 1)%Z false [d]); auto. cbn. lia.
Qed.

(* negative literals: "-" in value position starts a Number *)
Lemma number_value_neg : forall ds, is_digits ds = true ->
  number_value fo (45%N :: ds) = Ok (VInt (- Z.of_N (dec_value ds 0))).
Proof.
  intros ds H. unfold number_value.
  assert (Hf : forallb is_ascii_digit ds = true).
  { destruct ds; [discriminate H|exact H]. }
  assert (He : endswith [dot] (45%N :: ds) = false).
  { unfold endswith. cbn [rev app].
    assert (Hr : forallb is_ascii_digit (rev ds) = true).
    { apply forallb_forall. intros x Hx. apply in_rev in Hx. rewrite forallb_forall in Hf. auto. }
    destruct (rev ds) as [|x l]; [reflexivity|].
    cbn [forallb] in Hr. apply andb_true_iff in Hr. destruct Hr as [Hx _].
    apply digit_cases in Hx. cbn [app startswith].
    repeat (destruct Hx as [Hx|Hx]; [subst x; reflexivity|]). subst x. reflexivity. }
  rewrite He.
  assert (Hp : py_int (45%N :: ds) = Some (- Z.of_N (dec_value ds 0))%Z).
  { destruct ds as [|d ds]; [discriminate H|]. cbn [py_int].
    rewrite digits_value_dec by exact Hf. reflexivity. }
  rewrite Hp. reflexivity.
Qed.

Theorem neg_token : forall ds r out,
  is_digits ds = true -> num_follow r ->
  leads vars (TS (45%N :: ds ++ r) false out)
             (TS r true (PVal (VInt (- Z.of_N (dec_value ds 0))) :: out)).
Proof.
  intros ds r out H Hf. pose proof (number_value_neg ds H) as Hv.
  destruct ds as [|d ds]; [discriminate H|]. unfold is_digits in H.
  cbn [forallb] in H. apply andb_true_iff in H. destruct H as [Hd Hds].
  destruct (digit_split d Hd) as [Hnum _].
  eapply leads_trans.
  - apply leads_step. unfold ScanRun.TS. rewrite step_first by reflexivity.
    rewrite value_classes_eq.
    rewrite (vc_false fo vars _ _ _ _ _ _ _ _ _ CStr _ (TStr false false)) by reflexivity.
    rewrite (vc_true fo vars _ _ _ _ _ _ _ _ _ CNum _ (TNum 0 false true false)); reflexivity.
  - eapply leads_trans.
    + apply leads_step. cbn [app]. eapply step_true. apply add_num_digit. exact Hnum.
    + apply (num_run ds _ r (0 + 1)%Z true [d; 45%N]); auto. cbn. lia.
Qed.

(* ------------------------------------------------------------------ string literals *)
Lemma str_run : forall body st r sr out,
  no_quote body = true ->
  leads vars (mkSd st (body ++ q :: r) (Some (TStr true false)) false sr out [])
             (TS r true (PVal (VStr (rev sr ++ body)) :: out)).
Proof.
  induction body as [|c body IH]; intros st r sr out H.
  - cbn [app]. rewrite app_nil_r. apply leads_step.
    eapply step_skip; [apply add_str_close|reflexivity].
  - unfold no_quote in H. cbn [forallb] in H. apply andb_true_iff in H. destruct H as [Hc Hb].
    apply negb_true_iff in Hc.
    eapply leads_trans.
    + apply leads_step. cbn [app]. eapply step_true. apply add_str_in. exact Hc.
    + replace (rev sr ++ c :: body) with (rev (c :: sr) ++ body)
        by (cbn [rev]; rewrite <- app_assoc; reflexivity).
      apply IH. exact Hb.
Qed.

Theorem str_token : forall body r out,
  no_quote body = true ->
  leads vars (TS (q :: body ++ q :: r) false out) (TS r true (PVal (VStr body) :: out)).
Proof.
  intros body r out H.
  eapply leads_trans.
  - apply leads_step. unfold ScanRun.TS. rewrite step_first by reflexivity.
    rewrite value_classes_eq.
    rewrite (vc_truecont fo vars _ _ _ _ _ _ _ _ _ CStr _ (TStr true false)); reflexivity.
  - apply (str_run body (q :: body ++ q :: r) r [] out H).
Qed.

(* ------------------------------------------------------------------ keyword tokens *)
Section KwRun.
Variable cl : tclass.
Variable L : list str.
Hypothesis HL : L <> [].

Definition kw_follow (n r : str) : Prop :=
  match r with
  | [] => True
  | c :: _ => cands L (n ++ [c]) = []
  end.

(* the matcher holds p, a non-empty prefix of the listed keyword p ++ m *)
Lemma kw_run : forall m p st r op out B pt,
  p <> [] -> In (p ++ m) L ->
  (forall k, set_value fo vars (TKw cl k) (p ++ m) = Ok pt) ->
  kw_follow (p ++ m) r ->
  leads vars (mkSd st (m ++ r) (Some (TKw cl (kwst L p))) op (rev p) out B)
             (TS r (negb op) (pt :: out)).
Proof.
  induction m as [|c m IH]; intros p st r op out B pt Hp Hin Hset Hf.
  - rewrite app_nil_r in *. cbn [app]. apply tok_end.
    + reflexivity.
    + rewrite rev_involutive. apply Hset.
    + intros c r' ->. cbn in Hf.
      destruct (kw_after L p c Hp Hin Hf) as [k' Hk].
      exists (TKw cl k'). split.
      * rewrite add_kw by exact HL. rewrite Hk. reflexivity.
      * rewrite rev_involutive. apply Hset.
  - destruct (kw_in_name L p c m Hin) as [[-> Hk]|Hk].
    + cbn [app]. apply leads_step. eapply step_cont.
      * rewrite add_kw by exact HL. rewrite Hk. reflexivity.
      * cbn [rev]. rewrite rev_involutive. apply Hset.
    + eapply leads_trans.
      * apply leads_step. cbn [app]. eapply step_true.
        rewrite add_kw by exact HL. rewrite Hk. reflexivity.
      * replace (c :: rev p) with (rev (p ++ [c])) by (rewrite rev_app_distr; reflexivity).
        assert (He : (p ++ [c]) ++ m = p ++ c :: m) by (rewrite <- app_assoc; reflexivity).
        apply IH.
        -- destruct p; discriminate.
        -- rewrite He. exact Hin.
        -- rewrite He. exact Hset.
        -- rewrite He. exact Hf.
Qed.

(* the class cl is offered the first character of the listed keyword c :: m *)
Lemma kw_start : forall c m r st rest tk op out B more pt s0,
  scan_step fo vars s0 =
    Some (verify_char fo vars (mkSd st rest tk op [] out B) c (m ++ r) (cl :: more)) ->
  in_black cl B = false ->
  new_tok fo vars cl = TKw cl (kwst L []) ->
  In (c :: m) L ->
  (forall k, set_value fo vars (TKw cl k) (c :: m) = Ok pt) ->
  kw_follow (c :: m) r ->
  leads vars s0 (TS r (negb op) (pt :: out)).
Proof.
  intros c m r st rest tk op out B more pt s0 Hstep Hb Hnew Hin Hset Hf.
  destruct (kw_in_name L [] c m Hin) as [[-> Hk]|Hk].
  - apply leads_step. rewrite Hstep. f_equal. cbn [app].
    eapply vc_cont; [exact Hb| |apply Hset].
    rewrite Hnew. rewrite add_kw by exact HL. rewrite Hk. reflexivity.
  - eapply leads_trans.
    + apply leads_step. rewrite Hstep. f_equal.
      eapply vc_true; [exact Hb|].
      rewrite Hnew. rewrite add_kw by exact HL. rewrite Hk. reflexivity.
    + apply (kw_run m [c]); auto. discriminate.
Qed.

(* the matcher holds p and no listed keyword is a prefix of, or has as a prefix, the text p ++ m:
   it gives up inside m and the class is blacklisted *)
Lemma kw_giveup_run : forall m p st r op out B,
  cands L p <> [] ->
  (forall w, In w L -> startswith w (p ++ m) = false) ->
  cands L (p ++ m) = [] ->
  leads vars (mkSd st (m ++ r) (Some (TKw cl (kwst L p))) op (rev p) out B)
             (mkSd st st None op [] out (cl :: B)).
Proof.
  induction m as [|c m IH]; intros p st r op out B Hne Hno Hc.
  - rewrite app_nil_r in Hc. contradiction.
  - destruct (kw_giveup_step L p c m Hno) as [[k' Hk]|[Hne' Hk]].
    + apply leads_step. cbn [app].
      apply (step_reset fo vars st c (m ++ r) (TKw cl (kwst L p)) op (rev p) out B (TKw cl k')).
      rewrite add_kw by exact HL. rewrite Hk. reflexivity.
    + eapply leads_trans.
      * apply leads_step. cbn [app]. eapply step_true.
        rewrite add_kw by exact HL. rewrite Hk. reflexivity.
      * replace (c :: rev p) with (rev (p ++ [c])) by (rewrite rev_app_distr; reflexivity).
        assert (He : (p ++ [c]) ++ m = p ++ c :: m) by (rewrite <- app_assoc; reflexivity).
        apply IH; [exact Hne'|rewrite He; exact Hno|rewrite He; exact Hc].
Qed.

End KwRun.

(* ------------------------------------------------------------------ TRUE / FALSE *)
Lemma bool_keywords_eq : bool_keywords = [s_TRUE; s_FALSE].
Proof. reflexivity. Qed.

Theorem bool_token : forall b r out,
  leads vars (TS (spell_tok (SBool b) ++ r) false out) (TS r true (PVal (VBool b) :: out)).
Proof.
  intros b r out.
  assert (HL : bool_keywords <> []) by discriminate.
  destruct b.
  - apply (kw_start CBool bool_keywords HL 84%N [82;85;69]%N r
             (s_TRUE ++ r) (s_TRUE ++ r) (Some (TNum 0 false false true)) false out []
             [CVar; CGroup] (PVal (VBool true))).
    + unfold ScanRun.TS. cbn [spell_tok s_TRUE app]. rewrite step_first by reflexivity.
      rewrite value_classes_eq.
      rewrite (vc_false fo vars _ _ _ _ _ _ _ _ _ CStr _ (TStr false false)) by reflexivity.
      rewrite (vc_false fo vars _ _ _ _ _ _ _ _ _ CNum _ (TNum 0 false false true)) by reflexivity.
      reflexivity.
    + reflexivity.
    + reflexivity.
    + left. reflexivity.
    + intro k. reflexivity.
    + unfold kw_follow. destruct r as [|c r]; [exact I|]. apply cands_empty.
      intros w Hw. rewrite bool_keywords_eq in Hw. cbn [In] in Hw.
      destruct Hw as [<-|[<-|[]]]; cbn; reflexivity.
  - apply (kw_start CBool bool_keywords HL 70%N [65;76;83;69]%N r
             (s_FALSE ++ r) (s_FALSE ++ r) (Some (TNum 0 false false true)) false out []
             [CVar; CGroup] (PVal (VBool false))).
    + unfold ScanRun.TS. cbn [spell_tok s_FALSE app]. rewrite step_first by reflexivity.
      rewrite value_classes_eq.
      rewrite (vc_false fo vars _ _ _ _ _ _ _ _ _ CStr _ (TStr false false)) by reflexivity.
      rewrite (vc_false fo vars _ _ _ _ _ _ _ _ _ CNum _ (TNum 0 false false true)) by reflexivity.
      reflexivity.
    + reflexivity.
    + reflexivity.
    + right. left. reflexivity.
    + intro k. reflexivity.
    + unfold kw_follow. destruct r as [|c r]; [exact I|]. apply cands_empty.
      intros w Hw. rewrite bool_keywords_eq in Hw. cbn [In] in Hw.
      destruct Hw as [<-|[<-|[]]]; cbn; reflexivity.
Qed.

(* ------------------------------------------------------------------ variables *)
Lemma lookup_in : forall (name : str) (l : vars_t) v, lookup name l = Some v -> In name (map fst l).
Proof.
  intros name l v. induction l as [|[k x] l IH]; intro H; cbn [lookup] in H; [discriminate H|].
  cbn [map fst In]. destruct (str_eqb name k) eqn:He.
  - left. apply str_eqb_eq in He. auto.
  - right. apply IH. exact H.
Qed.

(* what the classes tried before Variable ask about the first character of a name *)
Definition name_first_ok (c : N) : Prop :=
  isspace_c c = false /\ (c =? q)%N = false /\ isnumeric_c c = false /\
  (c =? dash)%N = false /\ (c =? dot)%N = false.

(* The prefix-chain case: [name] is defined; whatever other names are defined -- prefixes of name,
   extensions of name -- the Variable matcher returns name, provided no defined name starts with
   name ++ [next character].  Boolean is tried first and gives up inside the name. *)
Theorem var_token : forall c0 n' r out v,
  name_first_ok c0 ->
  (forall w, In w bool_keywords -> startswith w (c0 :: n') = false) ->
  match r with
  | [] => cands bool_keywords (c0 :: n') = []
  | c :: _ => cands bool_keywords ((c0 :: n') ++ [c]) = []
  end ->
  lookup (c0 :: n') vars = Some v ->
  kw_follow (map fst vars) (c0 :: n') r ->
  leads vars (TS ((c0 :: n') ++ r) false out) (TS r true (PVal v :: out)).
Proof.
  intros c0 n' r out v [Hsp [Hq [Hnum [Hdash Hdot]]]] HnoB HcB Hlk Hf.
  assert (HLb : bool_keywords <> []) by discriminate.
  pose proof (lookup_in _ _ _ Hlk) as Hin.
  assert (HLv : map fst vars <> []) by (intro He; rewrite He in Hin; contradiction).
  (* the stretch of text inside which Boolean gives up: the name, plus the next character when the
     name is a prefix of a keyword *)
  assert (Hsplit : exists m r2, n' ++ r = m ++ r2 /\
            (forall w, In w bool_keywords -> startswith w (c0 :: m) = false) /\
            cands bool_keywords (c0 :: m) = []).
  { destruct r as [|c r'].
    - exists n', []. auto.
    - exists (n' ++ [c]), r'. split; [rewrite <- app_assoc; reflexivity|]. split; [|exact HcB].
      intros w Hw. destruct (startswith w (c0 :: n' ++ [c])) eqn:E; [|reflexivity]. exfalso.
      destruct (startswith_snoc_cases w (c0 :: n') c E) as [Hp|He].
      + rewrite (HnoB w Hw) in Hp. discriminate Hp.
      + assert (Hc : In w (cands bool_keywords ((c0 :: n') ++ [c]))).
        { apply in_cands. split; [exact Hw|]. rewrite He. apply startswith_refl. }
        rewrite HcB in Hc. contradiction. }
  destruct Hsplit as [m [r2 [Hmr [HnoB' HcB']]]].
  set (st := (c0 :: n') ++ r).
  (* Variable is offered the first character, Boolean being blacklisted *)
  assert (Hvar : forall tk s0,
    scan_step fo vars s0 =
      Some (verify_char fo vars (mkSd st st tk false [] out [CBool]) c0 (n' ++ r) [CVar; CGroup]) ->
    leads vars s0 (TS r true (PVal v :: out))).
  { intros tk s0 Hs0.
    apply (kw_start CVar (map fst vars) HLv c0 n' r st st tk false out [CBool] [CGroup] (PVal v) s0);
      auto.
    intro k. cbn [set_value]. rewrite Hlk. reflexivity. }
  assert (Hstr : add_char (new_tok fo vars CStr) c0 = Ok (TStr false false, IFalse)).
  { cbn [new_tok]. apply add_str_false. exact Hq. }
  assert (Hn : add_char (new_tok fo vars CNum) c0 = Ok (TNum 0 false false true, IFalse)).
  { cbn [new_tok]. apply add_num_first_false; assumption. }
  assert (Hstep0 : forall B, in_black CStr B = false -> in_black CNum B = false ->
    scan_step fo vars (mkSd st st None false [] out B) =
    Some (verify_char fo vars (mkSd st st (Some (TNum 0 false false true)) false [] out B) c0 (n' ++ r)
            [CBool; CVar; CGroup])).
  { intros B HB1 HB2. unfold st. cbn [app]. rewrite step_first by exact Hsp.
    rewrite value_classes_eq.
    rewrite (vc_false fo vars _ _ _ _ _ _ _ _ _ CStr _ (TStr false false)) by assumption.
    rewrite (vc_false fo vars _ _ _ _ _ _ _ _ _ CNum _ (TNum 0 false false true)) by assumption.
    reflexivity. }
  destruct (kw_giveup_step bool_keywords [] c0 m HnoB') as [[k' Hk]|[Hne Hk]].
  - (* Boolean gives up on the first character *)
    apply (Hvar None). unfold ScanRun.TS. fold st. rewrite (Hstep0 []) by reflexivity.
    rewrite (vc_reset fo vars _ _ _ _ _ _ _ _ _ CBool _ (TKw CBool k')); [reflexivity|reflexivity|].
    cbn [new_tok]. rewrite add_kw by exact HLb. change (mkKw bool_keywords None []) with (kwst bool_keywords []).
    rewrite Hk. reflexivity.
  - (* Boolean reads a few characters, gives up, is blacklisted; the scanner starts again *)
    eapply leads_trans.
    { apply leads_step. unfold ScanRun.TS. fold st. rewrite (Hstep0 []) by reflexivity.
      rewrite (vc_true fo vars _ _ _ _ _ _ _ _ _ CBool _ (TKw CBool (kwst bool_keywords [c0])));
        [reflexivity|reflexivity|].
      cbn [new_tok]. rewrite add_kw by exact HLb.
      change (mkKw bool_keywords None []) with (kwst bool_keywords []). rewrite Hk. reflexivity. }
    eapply leads_trans.
    { rewrite Hmr.
      apply (kw_giveup_run CBool bool_keywords HLb m [c0] st r2 false out []); assumption. }
    apply (Hvar (Some (TNum 0 false false true))).
    rewrite (Hstep0 [CBool]) by reflexivity.
    rewrite vc_skip by reflexivity. reflexivity.
Qed.

(* A name that is a prefix of a keyword, at the very end of the text: Boolean is still holding it when
   the text ends, and the scanner fails (EExpectedToken) whatever is defined. *)
Theorem keyword_prefix_name_at_end_fails : forall name out,
  In name [[84]; [84;82]; [84;82;85]; [70]; [70;65]; [70;65;76]; [70;65;76;83]]%N ->
  ScanRun.reaches fo vars (TS name false out) (Err EExpectedToken).
Proof.
  intros name out H. cbn [In] in H.
  repeat (destruct H as [H|H]; [subst name; exists 10; split; [vm_compute; reflexivity|discriminate]|]).
  contradiction.
Qed.

(* ------------------------------------------------------------------ operators *)
Lemma op_table_generated : forall oc sym, In (oc, sym) op_table <-> In sym (ops_of oc).
Proof.
  intros oc sym. split.
  - unfold op_table. cbn [In]. intro H.
    repeat (destruct H as [H|H]; [inversion H; subst oc sym; cbn; auto 10|]). contradiction.
  - destruct oc; cbn; intro H;
      repeat (destruct H as [H|H]; [subst sym; unfold op_table; cbn [In]; auto 20|]); contradiction.
Qed.

Ltac op_math c0 m r out :=
  apply (kw_start (COp OCMath) (ops_of OCMath) (ops_of_nonempty OCMath) c0 m r
           ((c0 :: m) ++ r) ((c0 :: m) ++ r) None true out [] [COp OCCond; COp OCComma]
           (POp OCMath (c0 :: m)));
  [ unfold ScanRun.TS; cbn [app]; rewrite step_first by reflexivity; rewrite operand_classes_eq;
    reflexivity
  | reflexivity | reflexivity | cbn; auto 10 | intro; reflexivity | assumption ].

Ltac op_cond c0 m r out :=
  apply (kw_start (COp OCCond) (ops_of OCCond) (ops_of_nonempty OCCond) c0 m r
           ((c0 :: m) ++ r) ((c0 :: m) ++ r) None true out [COp OCMath] [COp OCComma]
           (POp OCCond (c0 :: m)));
  [ unfold ScanRun.TS; cbn [app]; rewrite step_first by reflexivity; rewrite operand_classes_eq;
    rewrite (vc_reset fo vars _ _ _ _ _ _ _ _ _ (COp OCMath) _
               (TKw (COp OCMath) (mkKw (ops_of OCMath) None [c0]))) by reflexivity;
    reflexivity
  | reflexivity | reflexivity | cbn; auto 10 | intro; reflexivity | assumption ].

Ltac op_comma c0 m r out :=
  apply (kw_start (COp OCComma) (ops_of OCComma) (ops_of_nonempty OCComma) c0 m r
           ((c0 :: m) ++ r) ((c0 :: m) ++ r) None true out [COp OCCond; COp OCMath] []
           (POp OCComma (c0 :: m)));
  [ unfold ScanRun.TS; cbn [app]; rewrite step_first by reflexivity; rewrite operand_classes_eq;
    rewrite (vc_reset fo vars _ _ _ _ _ _ _ _ _ (COp OCMath) _
               (TKw (COp OCMath) (mkKw (ops_of OCMath) None [c0]))) by reflexivity;
    rewrite (vc_reset fo vars _ _ _ _ _ _ _ _ _ (COp OCCond) _
               (TKw (COp OCCond) (mkKw (ops_of OCCond) None [c0]))) by reflexivity;
    reflexivity
  | reflexivity | reflexivity | cbn; auto 10 | intro; reflexivity | assumption ].

Theorem op_token : forall oc sym r out,
  In (oc, sym) op_table -> kw_follow (ops_of oc) sym r ->
  leads vars (TS (sym ++ r) true out) (TS r false (POp oc sym :: out)).
Proof.
  intros oc sym r out Hin Hf. unfold op_table in Hin. cbn [In] in Hin.
  repeat (destruct Hin as [Hin|Hin];
          [inversion Hin; subst oc sym;
           match goal with
           | |- ScanRun.leads _ _ (ScanRun.TS _ ((?c0 :: ?m) ++ _) _ _) (ScanRun.TS _ _ _ (POp OCMath _ :: _)) =>
               op_math c0 m r out
           | |- ScanRun.leads _ _ (ScanRun.TS _ ((?c0 :: ?m) ++ _) _ _) (ScanRun.TS _ _ _ (POp OCCond _ :: _)) =>
               op_cond c0 m r out
           | |- ScanRun.leads _ _ (ScanRun.TS _ ((?c0 :: ?m) ++ _) _ _) (ScanRun.TS _ _ _ (POp OCComma _ :: _)) =>
               op_comma c0 m r out
           end|]).
  contradiction.
Qed.

(* the only operator boundaries that depend on the next character: "/" before "/", "<" ">" before "=" *)
Lemma op_follow_ok : forall oc sym c,
  In (oc, sym) op_table -> (c =? 47)%N = false -> (c =? 61)%N = false ->
  cands (ops_of oc) (sym ++ [c]) = [].
Proof.
  intros oc sym c Hin H47 H61. unfold op_table in Hin. cbn [In] in Hin.
  repeat (destruct Hin as [Hin|Hin];
          [inversion Hin; subst oc sym; apply cands_empty; intros w Hw; cbn in Hw;
           repeat (destruct Hw as [Hw|Hw]; [subst w; cbn [app startswith]; rewrite ?H47, ?H61; reflexivity|]);
           contradiction|]).
  contradiction.
Qed.

(* every other operator symbol is complete as soon as it is read: nothing depends on what follows
   (in particular "-" in operator position is always the operator, never the sign of a literal) *)
Lemma op_follow_any : forall oc sym c,
  In (oc, sym) op_table -> sym <> [47]%N -> sym <> [60]%N -> sym <> [62]%N ->
  cands (ops_of oc) (sym ++ [c]) = [].
Proof.
  intros oc sym c Hin H1 H2 H3. unfold op_table in Hin. cbn [In] in Hin.
  repeat (destruct Hin as [Hin|Hin];
          [inversion Hin; subst oc sym; try contradiction; apply cands_empty; intros w Hw; cbn in Hw;
           repeat (destruct Hw as [Hw|Hw]; [subst w; reflexivity|]);
           contradiction|]).
  contradiction.
Qed.

End WithFloats.
