(* C13 (graphs): the interpreter, run on the file system denoted by an import graph, performs the
   traversal [gvisit] of Spec/ImportGraph.v -- for every graph, every FloatOps, every options value,
   every folder, every depth of the model beyond what the stack limit can use. *)
From Coq Require Import NArith ZArith List Bool Lia.
From DS Require Import Base PyStr Values Expr TabParse Tables Constants Interp.
From DS Require Import ScopeProofs PipelineProofs MoreProofs ResolveSpec StartLaws StartLines ImportGraph GraphText.
Import ListNotations.

(* the class of STRING in the generated palette *)
Definition string_cname : str :=
  Eval vm_compute in match find_command palette w_STRING None with Some (c, _) => c | None => [] end.
Definition string_sc : simple_cls :=
  Eval vm_compute in match find_command palette w_STRING None with Some (_, Simple sc) => sc | _ => generic_simple end.

Lemma string_find : find_command palette w_STRING None = Some (string_cname, Simple string_sc).
Proof. vm_compute. reflexivity. Qed.

Lemma string_plain : plain_class string_sc.
Proof. apply is_plainb_sound. vm_compute. reflexivity. Qed.

Definition start_cname : str := [83;116;97;114;116]%N.

Section Run.
Variable fo : FloatOps.
Variable o : options.
Variable dir : path.
Variable g : graph.
Hypothesis Hg : graph_ok g.

Notation L := (stack_limit o).
Notation fs := (graph_fs dir g).
Notation E := (initial_env fo).
Notation st := (Interp.st fo).

Definition frames (links : list link) : list frame := map (frame_of_link dir) links.

Definition ctx_of (links : list link) (n : name) : ctx := mkCtx o fs (frames links) (Some (file_of dir n)).

Definition mout (out : list name) : list oline := marker_out string_cname out.

(* the result of a stack / of the commands of a stack, as a function of the traversal's *)
Definition ires_of (r : gres) : ires (cret * env fo) :=
  match r with
  | GOk out => IOk (mkCret (mout out) SNormal, E)
  | GCircular ch => IErr ECircular (Some (frames ch))
  | GMissing ch => IErr EInvalidArguments (Some (frames ch))
  | GOverflow ch => IErr EStackOverflow (Some (frames ch))
  | GFuel => IUnmod
  end.

Definition cres_of (r : gres) : ires cret :=
  match r with
  | GOk out => IOk (mkCret (mout out) SNormal)
  | GCircular ch => IErr ECircular (Some (frames ch))
  | GMissing ch => IErr EInvalidArguments (Some (frames ch))
  | GOverflow ch => IErr EStackOverflow (Some (frames ch))
  | GFuel => IUnmod
  end.

(* ------------------------------------------------------------------ environment: nothing is defined *)
Lemma env_entry : append_env fo (empty_env fo) E = E.
Proof. reflexivity. Qed.
Lemma env_append : append_env fo E E = E.
Proof. reflexivity. Qed.
Lemma env_update : update_from_env fo E E = E.
Proof. reflexivity. Qed.

(* ------------------------------------------------------------------ context facts *)
Lemma mout_app : forall a b, mout (a ++ b) = mout a ++ mout b.
Proof. intros a b. unfold mout, marker_out. apply map_app. Qed.

Lemma here_ctx : forall links n k v m,
  here (ctx_of links n) (edge_ln v m, k) (Some (edge_ln v m, k)) = frames (links ++ [mkLink n k v m]).
Proof. intros. unfold here, ctx_of, frames. cbn [c_pile c_file]. rewrite map_app. reflexivity. Qed.

Lemma live_files_ctx : forall links n,
  live_files (ctx_of links n) = map (fun x => Some (file_of dir x)) (live links n).
Proof.
  intros links n. unfold live_files, ctx_of, live, frames. cbn [c_pile c_file].
  rewrite map_app, !map_map. reflexivity.
Qed.

Lemma str_in_In2 : forall x l, str_in x l = true <-> In x l.
Proof.
  intros x l. induction l as [|y r IH]; cbn [str_in In].
  - split; [discriminate|intros []].
  - rewrite orb_true_iff, IH, ScopeProofs.str_eqb_eq. split; intros [H|H]; auto.
Qed.

Lemma circ_ctx : forall links n m, circ (ctx_of links n) (file_of dir m) = str_in m (live links n).
Proof.
  intros links n m.
  destruct (str_in m (live links n)) eqn:E1.
  - apply circ_true_iff. rewrite live_files_ctx. apply str_in_In2 in E1.
    apply (in_map (fun x => Some (file_of dir x))) in E1. exact E1.
  - apply circ_false_iff. intro Hin. rewrite live_files_ctx in Hin. apply in_map_iff in Hin.
    destruct Hin as (x & Hx & Hin). injection Hx as Hx. apply file_of_inj in Hx. subst x.
    apply str_in_In2 in Hin. rewrite Hin in E1. discriminate.
Qed.

Lemma limit_ctx : forall links n,
  cmp_eval stack_limit_op (pile_len (ctx_of links n)) (stack_limit (c_opts (ctx_of links n)))
  = (L <=? Z.of_nat (length links) + 1)%Z.
Proof.
  intros links n. unfold stack_limit_op, pile_len, ctx_of, frames. cbn [cmp_eval c_pile c_opts].
  rewrite map_length, Nat2Z.inj_add. reflexivity.
Qed.

Lemma fs_ctx : forall links n m, c_fs (ctx_of links n) (file_of dir m) = option_map (file_text m) (lookup m g).
Proof. intros. cbn [ctx_of c_fs]. apply graph_fs_file. Qed.

(* ------------------------------------------------------------------ one line of a stack *)
Lemma no_block_edge_items : forall imps k, match edge_items imps k with Blk _ :: _ => False | _ => True end.
Proof. intros [|[v m] r] k; exact I. Qed.

Lemma exec_cmds_line : forall (child : runner fo) cx c k rest acc (s : st),
  is_blank c = false -> match rest with Blk _ :: _ => False | _ => True end ->
  exec_cmds fo child cx (Ln c k :: rest) acc s =
  match exec_line fo child cx c k None (mkSt (s_g s) (s_env s) None) with
  | (s', IOk cr) => match cr_sig cr with
                    | SNormal => exec_cmds fo child cx rest (acc ++ cr_data cr) s'
                    | sg => (s', IOk (mkCret (acc ++ cr_data cr) sg))
                    end
  | (s', IErr e t) => (s', IErr e t)
  | (s', ICrash k0) => (s', ICrash k0)
  | (s', IUnmod) => (s', IUnmod)
  end.
Proof.
  intros child cx c k rest acc s Hb Hrest. cbn [exec_cmds]. rewrite Hb.
  assert (Hcb : match rest with Blk b :: _ => Some b | _ => None end = None).
  { destruct rest as [|[c' n'|b] r]; try reflexivity. contradiction. }
  rewrite Hcb. unfold bindM at 1, set_line2 at 1. unfold bindM at 1.
  destruct (exec_line fo child cx c k None _) as [s' [cr|e t|k0|]]; try reflexivity.
  destruct (cr_sig cr); reflexivity.
Qed.

(* the marker line *)
Lemma marker_exec : forall (child : runner fo) cx n k (s : st), name_ok n = true ->
  exec_line fo child cx (marker_ln n) k None s =
  (mkSt (s_g s) (s_env s) (Some (marker_ln n, k)), IOk (mkCret (mout [n]) SNormal)).
Proof.
  intros child cx n k s Hn. unfold exec_line. rewrite (split_marker n Hn), string_find.
  cbn [is_start_class]. change (s_run string_sc) with RKDefault. cbv beta iota. cbn [andb].
  etransitivity.
  - apply (plain_inline_passthrough fo child cx (marker_ln n, k) string_cname (ByCommand string_cname) string_sc
             w_STRING k n s string_plain).
    + exact I.
    + apply (name_ok_chars n Hn).
    + discriminate.
  - reflexivity.
Qed.

(* ------------------------------------------------------------------ an import line *)
Section Edge.
Variable child : runner fo.
Variables (links : list link) (n : name).
Variables (v : variant) (m : name) (k : Z).
Hypothesis Hm : name_ok m = true.

Notation cx := (ctx_of links n).
Notation cur := (edge_ln v m, k).
Notation links' := (links ++ [mkLink n k v m]).

Lemma edge_exec_compile : forall (s : st),
  exec_line fo child cx (edge_ln v m) k None s =
  bindM fo (run_compile fo child cx cur start_cname start_cls (word v) (Some (mkLine (AStr m) k cur)))
        (fun r => ret fo (rc_cret (ByCommand start_cname) r))
        (mkSt (s_g s) (s_env s) (Some cur)).
Proof.
  intro s.
  rewrite (start_line_exec fo child cx (edge_ln v m) k (word v) m start_cname start_cls s).
  - rewrite (name_strip m Hm). reflexivity.
  - apply edge_start_line; [exact Hm|discriminate].
Qed.

Lemma edge_missing : forall (s : st), lookup m g = None ->
  exec_line fo child cx (edge_ln v m) k None s =
  (mkSt (s_g s) (s_env s) (Some cur), IErr EInvalidArguments (Some (frames links'))).
Proof.
  intros s Hl. rewrite edge_exec_compile. unfold bindM.
  rewrite (start_missing_target fo child cx cur start_cname start_cls (word v) (AStr m) k cur
             (file_of dir n) (file_of dir m)).
  - cbn [Interp.s_line2]. rewrite here_ctx. reflexivity.
  - reflexivity.
  - reflexivity.
  - apply resolve_name. exact Hm.
  - rewrite fs_ctx, Hl. reflexivity.
Qed.

Lemma edge_circular : forall (s : st) mimps, lookup m g = Some mimps -> str_in m (live links n) = true ->
  exec_line fo child cx (edge_ln v m) k None s =
  (mkSt (s_g s) (s_env s) (Some cur), IErr ECircular (Some (frames links'))).
Proof.
  intros s mimps Hl Hc. rewrite edge_exec_compile. unfold bindM.
  rewrite (start_cycle_rejected fo child cx cur start_cname start_cls (word v) (AStr m) k cur
             (file_of dir n) (file_of dir m) (file_text m mimps)).
  - cbn [Interp.s_line2]. rewrite here_ctx. reflexivity.
  - reflexivity.
  - reflexivity.
  - apply resolve_name. exact Hm.
  - rewrite fs_ctx, Hl. reflexivity.
  - rewrite circ_test_eq, circ_ctx. exact Hc.
Qed.

(* past the tests: the body *)
Lemma edge_body : forall (s : st) mimps, lookup m g = Some mimps -> str_in m (live links n) = false ->
  exec_line fo child cx (edge_ln v m) k None s =
  bindM fo (start_body fo child cx cur (word v) (file_of dir m) (node_items m mimps))
        (fun r => ret fo (rc_cret (ByCommand start_cname) r))
        (mkSt (s_g s) (s_env s) (Some cur)).
Proof.
  intros s mimps Hl Hc. rewrite edge_exec_compile. unfold bindM.
  destruct (graph_ok_lookup g m mimps Hg Hl) as [_ Hi].
  rewrite (start_unfold fo child cx cur start_cname start_cls (word v) (mkLine (AStr m) k cur)
             (file_of dir n) (file_of dir m) (file_text m mimps) (node_items m mimps)).
  - reflexivity.
  - reflexivity.
  - reflexivity.
  - apply resolve_name. exact Hm.
  - rewrite fs_ctx, Hl. reflexivity.
  - rewrite circ_ctx. exact Hc.
  - apply prepare_file_text; [exact Hm|exact Hi].
Qed.

Lemma edge_overflow : forall (s : st) mimps, lookup m g = Some mimps -> str_in m (live links n) = false ->
  (L <=? Z.of_nat (length links) + 1)%Z = true ->
  exec_line fo child cx (edge_ln v m) k None s =
  (mkSt (s_g s) (s_env s) (Some cur), IErr EStackOverflow (Some (frames links'))).
Proof.
  intros s mimps Hl Hc Hlim. rewrite (edge_body s mimps Hl Hc). unfold bindM.
  rewrite start_body_overflow.
  - cbn [Interp.s_line2]. rewrite here_ctx. reflexivity.
  - unfold below_stack_limit. rewrite limit_ctx, Hlim. discriminate.
Qed.

Lemma start_ctx_links : start_ctx cx cur (Some cur) (file_of dir m) = ctx_of links' m.
Proof. unfold start_ctx. rewrite here_ctx. reflexivity. Qed.

Lemma word_env : forall v0, str_eqb (upper (word v0)) s_STARTENV = match v0 with VEnv => true | _ => false end.
Proof. intros []; vm_compute; reflexivity. Qed.
Lemma word_code : forall v0, str_eqb (upper (word v0)) s_STARTCODE = match v0 with VCode => true | _ => false end.
Proof. intros []; vm_compute; reflexivity. Qed.

Lemma edge_descend : forall g0 l2 mimps r, lookup m g = Some mimps -> str_in m (live links n) = false ->
  (L <=? Z.of_nat (length links) + 1)%Z = false ->
  r <> GFuel ->
  child (ctx_of links' m) g0 E (node_items m mimps) = (g0, ires_of r) ->
  exec_line fo child cx (edge_ln v m) k None (mkSt g0 E l2) =
  (mkSt g0 E (Some cur),
   match r with
   | GOk out => IOk (mkCret (match v with VEnv => [] | _ => mout out end) SNormal)
   | _ => cres_of r
   end).
Proof.
  intros g0 l2 mimps r Hl Hc Hlim Hr Hch. rewrite (edge_body _ mimps Hl Hc). cbn [Interp.s_g Interp.s_env].
  assert (Hb : below_stack_limit (ctx_of links n)) by (unfold below_stack_limit; rewrite limit_ctx; exact Hlim).
  unfold bindM.
  destruct r as [out|ch|ch|ch|]; [| | | |contradiction Hr; reflexivity].
  - rewrite (start_body_ok fo child cx cur (word v) (file_of dir m) (node_items m mimps) (mkSt g0 E (Some cur))
               g0 (mkCret (mout out) SNormal) E Hb).
    + cbn [cr_sig cr_data Interp.s_env Interp.s_g Interp.s_line2]. rewrite sig_warned_normal, word_env, word_code.
      destruct v; reflexivity.
    + cbn [Interp.s_line2 Interp.s_g Interp.s_env]. rewrite env_entry, start_ctx_links. exact Hch.
  - rewrite (start_body_fail fo child cx cur (word v) (file_of dir m) (node_items m mimps) (mkSt g0 E (Some cur))
               g0 (ires_of (GCircular ch)) Hb); [reflexivity| |discriminate].
    cbn [Interp.s_line2 Interp.s_g Interp.s_env]. rewrite env_entry, start_ctx_links. exact Hch.
  - rewrite (start_body_fail fo child cx cur (word v) (file_of dir m) (node_items m mimps) (mkSt g0 E (Some cur))
               g0 (ires_of (GMissing ch)) Hb); [reflexivity| |discriminate].
    cbn [Interp.s_line2 Interp.s_g Interp.s_env]. rewrite env_entry, start_ctx_links. exact Hch.
  - rewrite (start_body_fail fo child cx cur (word v) (file_of dir m) (node_items m mimps) (mkSt g0 E (Some cur))
               g0 (ires_of (GOverflow ch)) Hb); [reflexivity| |discriminate].
    cbn [Interp.s_line2 Interp.s_g Interp.s_env]. rewrite env_entry, start_ctx_links. exact Hch.
Qed.
End Edge.

(* ------------------------------------------------------------------ the import lines of a file *)
(* what the stack of file [n] (with [len] live imports below it) needs from the runner of its children *)
Definition child_spec (child : runner fo) (visit : list link -> name -> gres) (len : nat) : Prop :=
  forall links' m mimps g0,
    length links' = S len -> (Z.of_nat len + 1 < L)%Z ->
    lookup m g = Some mimps -> visit links' m <> GFuel ->
    child (ctx_of links' m) g0 E (node_items m mimps) = (g0, ires_of (visit links' m)).

Lemma edges_run : forall (child : runner fo) visit links n,
  child_spec child visit (length links) ->
  forall imps k acc g0 l2,
    imports_ok imps ->
    gedges L g visit links n imps k acc <> GFuel ->
    exists l2', exec_cmds fo child (ctx_of links n) (edge_items imps k) (mout acc) (mkSt g0 E l2) =
                (mkSt g0 E l2', cres_of (gedges L g visit links n imps k acc)).
Proof.
  intros child visit links n Hch. induction imps as [|[v m] r IH]; intros k acc g0 l2 Hi Hf.
  - exists l2. reflexivity.
  - inversion Hi as [|a b Hm Hr]; subst. cbn [snd] in Hm.
    cbn [edge_items]. rewrite exec_cmds_line by (try apply edge_not_blank; apply no_block_edge_items).
    cbn [Interp.s_g Interp.s_env]. cbn [gedges] in Hf |- *.
    destruct (lookup m g) as [mimps|] eqn:Hl.
    2:{ rewrite (edge_missing child links n v m k Hm _ Hl). eexists. reflexivity. }
    destruct (str_in m (live links n)) eqn:Hc.
    { rewrite (edge_circular child links n v m k Hm _ mimps Hl Hc). eexists. reflexivity. }
    destruct (L <=? Z.of_nat (length links) + 1)%Z eqn:Hlim.
    { rewrite (edge_overflow child links n v m k Hm _ mimps Hl Hc Hlim). eexists. reflexivity. }
    assert (Hv : visit (links ++ [mkLink n k v m]) m <> GFuel).
    { intro Hv. rewrite Hv in Hf. apply Hf. reflexivity. }
    rewrite (edge_descend child links n v m k Hm g0 None mimps (visit (links ++ [mkLink n k v m]) m) Hl Hc Hlim Hv).
    2:{ apply Hch; [rewrite app_length; cbn [length]; lia|apply Z.leb_gt in Hlim; lia|exact Hl|exact Hv]. }
    destruct (visit (links ++ [mkLink n k v m]) m) as [out|ch|ch|ch|] eqn:Ev;
      try (eexists; reflexivity).
    cbn [cr_sig cr_data].
    destruct (IH (k + 1)%Z (acc ++ match v with VEnv => [] | _ => out end) g0 (Some (edge_ln v m, k)) Hr Hf) as [l2' H2].
    exists l2'. rewrite <- H2. rewrite mout_app. destruct v; reflexivity.
Qed.

(* ------------------------------------------------------------------ a whole file, any depth *)
Theorem gvisit_run : forall fuel d links n imps g0,
  (L <= Z.of_nat (length links) + 1 + Z.of_nat d)%Z ->
  lookup n g = Some imps ->
  gvisit L g fuel links n <> GFuel ->
  run fo d (ctx_of links n) g0 E (node_items n imps) = (g0, ires_of (gvisit L g fuel links n)).
Proof.
  induction fuel as [|f IH]; intros d links n imps g0 Hd Hl Hf; [contradiction Hf; reflexivity|].
  cbn [gvisit] in Hf |- *. rewrite Hl in Hf |- *.
  destruct (graph_ok_lookup g n imps Hg Hl) as [Hn Hi].
  set (child := match d with O => no_child fo | S d' => run fo d' end).
  assert (Hrun : run fo d = run_with fo child) by (destruct d; reflexivity).
  rewrite Hrun. unfold run_with, node_items.
  rewrite exec_cmds_line by (try apply marker_not_blank; apply no_block_edge_items).
  rewrite (marker_exec child (ctx_of links n) n 1%Z _ Hn). cbn [cr_sig cr_data app Interp.s_g Interp.s_env].
  assert (Hch : child_spec child (gvisit L g f) (length links)).
  { intros links' m mimps g1 Hlen Hlt Hlm Hv.
    destruct d as [|d']; [lia|]. subst child. apply IH; [rewrite Hlen; lia|exact Hlm|exact Hv]. }
  destruct (edges_run child (gvisit L g f) links n Hch imps 2%Z [n] g0 (Some (marker_ln n, 1%Z)) Hi Hf) as [l2' H2].
  rewrite H2. cbn [Interp.s_g Interp.s_env].
  destruct (gedges L g (gvisit L g f) links n imps 2 [n]) as [out|ch|ch|ch|]; try reflexivity.
Qed.

End Run.
