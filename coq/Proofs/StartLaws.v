(* C12 / C13: the laws of run_compile for the START family (START, STARTCODE, STARTENV), for an
   arbitrary child runner; what the importer sees afterwards; the circularity test as a function
   of (pile, file, target) only; a START that succeeded can be repeated without ECircular. *)
From Coq Require Import NArith ZArith List Bool Lia.
From DS Require Import Base PyStr Values Expr TabParse Tables Constants Interp.
From DS Require Import ScopeProofs ScopeInvariant StackLift TraceShape.
Import ListNotations.

Arguments IOk {A}. Arguments IErr {A}. Arguments ICrash {A}. Arguments IUnmod {A}.

(* ------------------------------------------------------------------ equality tests *)
Lemma list_eqb_str_eq : forall a b : path, path_eqb a b = true <-> a = b.
Proof.
  unfold path_eqb. induction a as [|x a IH]; destruct b as [|y b]; cbn [list_eqb]; split; intro H;
    try discriminate; try reflexivity.
  - apply andb_true_iff in H. destruct H as [H1 H2]. apply str_eqb_eq in H1. apply IH in H2. subst. reflexivity.
  - injection H as -> ->. apply andb_true_iff. split; [apply str_eqb_eq; reflexivity|apply IH; reflexivity].
Qed.

Lemma opt_path_eqb_eq : forall (a : option path) (t : path), opt_eqb path_eqb a (Some t) = true <-> a = Some t.
Proof.
  intros [a|] t; cbn [opt_eqb]; split; intro H; try discriminate.
  - apply list_eqb_str_eq in H. subst. reflexivity.
  - injection H as ->. apply list_eqb_str_eq. reflexivity.
Qed.

(* ------------------------------------------------------------------ the circularity test *)
(* the files of the live stacks: those of the pile, then the one of this stack *)
Definition live_files (cx : ctx) : list (option path) := map fr_file (c_pile cx) ++ [c_file cx].

Definition circ (cx : ctx) (target : path) : bool :=
  existsb (fun f => opt_eqb path_eqb f (Some target)) (live_files cx).

Lemma existsb_map : forall (A B : Type) (f : B -> bool) (g : A -> B) l, existsb f (map g l) = existsb (fun x => f (g x)) l.
Proof. intros A B f g l. induction l as [|x r IH]; cbn [map existsb]; [reflexivity|rewrite IH; reflexivity]. Qed.

(* the test of RKStart does not depend on the current line, on line_2, on the state, on the
   spelling of the command: only on the pile, the file of this stack and the target *)
Lemma circ_test_eq : forall cx cur l2 target,
  existsb (fun fr => opt_eqb path_eqb (fr_file fr) (Some target)) (here cx cur l2) = circ cx target.
Proof.
  intros cx cur l2 target. unfold here, circ, live_files. rewrite !existsb_app, existsb_map. reflexivity.
Qed.

Lemma circ_true_iff : forall cx target, circ cx target = true <-> In (Some target) (live_files cx).
Proof.
  intros cx target. unfold circ. rewrite existsb_exists. split.
  - intros (f & Hin & Hf). apply opt_path_eqb_eq in Hf. subst f. exact Hin.
  - intro Hin. exists (Some target). split; [exact Hin|apply opt_path_eqb_eq; reflexivity].
Qed.

Lemma circ_test_membership : forall cx cur l2 target,
  existsb (fun fr => opt_eqb path_eqb (fr_file fr) (Some target)) (here cx cur l2) = true
  <-> In (Some target) (live_files cx).
Proof. intros cx cur l2 target. rewrite circ_test_eq. exact (circ_true_iff cx target). Qed.

Lemma circ_false_iff : forall cx target, circ cx target = false <-> ~ In (Some target) (live_files cx).
Proof.
  intros cx target. rewrite <- circ_true_iff. destruct (circ cx target); split; intro H; try reflexivity; try discriminate.
  exfalso. apply H. reflexivity.
Qed.

Lemma live_files_here : forall cx cur l2, map fr_file (here cx cur l2) = live_files cx.
Proof. intros. unfold here, live_files. rewrite map_app. reflexivity. Qed.

(* the context of the stack that a START-family command starts *)
Definition start_ctx (cx : ctx) (cur : preline) (l2 : option preline) (target : path) : ctx :=
  mkCtx (c_opts cx) (c_fs cx) (here cx cur l2) (Some target).

Lemma start_ctx_no_reentry : forall cx cur l2 target,
  circ cx target = false -> ~ In (c_file (start_ctx cx cur l2 target)) (map fr_file (c_pile (start_ctx cx cur l2 target))).
Proof.
  intros cx cur l2 target H. cbn [start_ctx c_file c_pile]. rewrite live_files_here. apply circ_false_iff. exact H.
Qed.

Section Laws.
Variable fo : FloatOps.
Notation env := (env fo).
Notation st := (st fo).
Notation append_env := (append_env fo).
Notation update_from_env := (update_from_env fo).
Notation empty_env := (empty_env fo).
Notation s_env := (s_env fo).
Notation s_g := (s_g fo).
Notation s_line2 := (s_line2 fo).
Notation mkSt := (mkSt fo).
Notation e_user := (e_user fo).
Notation e_sys := (e_sys fo).
Notation e_funcs := (e_funcs fo).

(* the warning added when the imported file was left with BREAK / CONTINUE *)
Definition sig_warned (sg : signal) (g : glob) : glob :=
  match s_sig_warning sg with Some w => add_warning (mkWarn w None) g | None => g end.

Lemma sig_warned_normal : forall g, sig_warned SNormal g = g.
Proof. reflexivity. Qed.
Lemma sig_warned_return : forall g, sig_warned SReturn g = g.
Proof. reflexivity. Qed.

(* what follows the circularity test and the parse in RKStart *)
Definition start_body (child : runner fo) (cx : ctx) (cur : preline) (name : str) (target : path)
           (commands : list item) : M fo rc :=
  bindM fo (run_child fo child cx cur commands (Some target) (negb (str_eqb (upper name) s_STARTCODE)) (fun e => Ok e))
    (fun cr =>
       bindM fo (match s_sig_warning (cr_sig cr) with
                 | Some w => add_plain_warning fo w
                 | None => ret fo tt
                 end)
         (fun _ => if str_eqb (upper name) s_STARTENV then ret fo (RLines [])
                   else ret fo (RComp (mkCret (cr_data cr) SNormal)))).

Definition below_stack_limit (cx : ctx) : Prop :=
  cmp_eval stack_limit_op (pile_len cx) (stack_limit (c_opts cx)) = false.

Section OneStack.
Variable child : runner fo.
Variable cx : ctx.
Variable cur : preline.

(* ---- unfolding of RKStart up to the child stack *)
Lemma start_unfold : forall cname sc name l file target text commands s,
  s_run sc = RKStart -> c_file cx = Some file ->
  resolve_start file (content_text (l_content l)) = Ok target ->
  c_fs cx target = Some text -> circ cx target = false -> prepare_text text = TOk commands ->
  run_compile fo child cx cur cname sc name (Some l) s = start_body child cx cur name target commands s.
Proof.
  intros cname sc name l file target text commands s Hr Hf Hres Hfs Hc Hp.
  unfold run_compile. rewrite Hr, Hf, Hres. cbn [lift]. unfold bindM at 1, ret at 1.
  rewrite Hfs, circ_test_eq, Hc, Hp. reflexivity.
Qed.

(* ---- inversion: whatever RKStart returns other than its own four errors went through start_body *)
Lemma start_inv : forall cname sc name l s s' r,
  s_run sc = RKStart ->
  run_compile fo child cx cur cname sc name (Some l) s = (s', r) ->
  (exists file target text commands,
     c_file cx = Some file /\ resolve_start file (content_text (l_content l)) = Ok target /\
     c_fs cx target = Some text /\ circ cx target = false /\ prepare_text text = TOk commands /\
     start_body child cx cur name target commands s = (s', r))
  \/ (s' = s /\ forall a, r <> IOk a).
Proof.
  intros cname sc name l s s' r Hr H. unfold run_compile in H. rewrite Hr in H.
  destruct (c_file cx) as [file|] eqn:Hf.
  2:{ right. injection H as <- <-. split; [reflexivity|discriminate]. }
  destruct (resolve_start file (content_text (l_content l))) as [target|e|k|] eqn:Hres; cbn [lift] in H;
    unfold bindM at 1 in H.
  2,3,4: right; injection H as <- <-; split; [reflexivity|discriminate].
  unfold ret at 1 in H.
  destruct (c_fs cx target) as [text|] eqn:Hfs.
  2:{ right. injection H as <- <-. split; [reflexivity|discriminate]. }
  rewrite circ_test_eq in H. destruct (circ cx target) eqn:Hc.
  { right. injection H as <- <-. split; [reflexivity|discriminate]. }
  destruct (prepare_text text) as [commands|[| | | |]] eqn:Hp;
    try (right; injection H as <- <-; split; [reflexivity|discriminate]).
  left. exists file, target, text, commands. repeat split; try assumption.
Qed.

(* ---- the child ran to its end *)
Lemma start_body_ok : forall name target commands s g' cr cenv,
  below_stack_limit cx ->
  child (start_ctx cx cur (s_line2 s) target) (s_g s) (append_env empty_env (s_env s)) commands = (g', IOk (cr, cenv)) ->
  start_body child cx cur name target commands s =
  (mkSt (sig_warned (cr_sig cr) g')
        (if str_eqb (upper name) s_STARTCODE then update_from_env (s_env s) cenv else append_env (s_env s) cenv)
        (s_line2 s),
   IOk (if str_eqb (upper name) s_STARTENV then RLines [] else RComp (mkCret (cr_data cr) SNormal))).
Proof.
  intros name target commands s g' cr cenv Hlim Hch. unfold below_stack_limit in Hlim. unfold start_ctx in Hch.
  unfold start_body, run_child, run_child_with. unfold bindM at 1. unfold bindM at 1.
  rewrite Hlim, Hch. unfold ret at 1. unfold bindM at 1.
  unfold sig_warned. destruct (str_eqb (upper name) s_STARTCODE); cbn [negb];
    destruct (s_sig_warning (cr_sig cr)) as [w|]; unfold add_plain_warning, mod_glob, ret;
    cbn [Interp.s_g Interp.s_env Interp.s_line2];
    destruct (str_eqb (upper name) s_STARTENV); reflexivity.
Qed.

(* ---- the child failed: the failure is handed on as is, the importer's environment is untouched *)
Lemma start_body_fail : forall name target commands s g' r,
  below_stack_limit cx ->
  child (start_ctx cx cur (s_line2 s) target) (s_g s) (append_env empty_env (s_env s)) commands = (g', r) ->
  (forall a, r <> IOk a) ->
  start_body child cx cur name target commands s =
  (mkSt g' (s_env s) (s_line2 s),
   match r with IOk _ => IUnmod | IErr e t => IErr e t | ICrash k => ICrash k | IUnmod => IUnmod end).
Proof.
  intros name target commands s g' r Hlim Hch Hne. unfold below_stack_limit in Hlim. unfold start_ctx in Hch.
  unfold start_body, run_child, run_child_with. unfold bindM at 1. unfold bindM at 1.
  rewrite Hlim, Hch. destruct r as [[cr cenv]|e t|k|]; try reflexivity.
  exfalso. eapply Hne. reflexivity.
Qed.

Lemma start_body_overflow : forall name target commands s,
  ~ below_stack_limit cx ->
  start_body child cx cur name target commands s = (s, IErr EStackOverflow (Some (here cx cur (s_line2 s)))).
Proof.
  intros name target commands s Hlim. unfold below_stack_limit in Hlim.
  unfold start_body, run_child, run_child_with. unfold bindM at 1. unfold bindM at 1.
  destruct (cmp_eval _ _ _); [reflexivity|]. exfalso. apply Hlim. reflexivity.
Qed.

(* ---- inversion of start_body: every result is one of the three above *)
Lemma start_body_inv : forall name target commands s s' r,
  start_body child cx cur name target commands s = (s', r) ->
  (~ below_stack_limit cx /\ s' = s /\ r = IErr EStackOverflow (Some (here cx cur (s_line2 s))))
  \/ (below_stack_limit cx /\
      exists g' rc, child (start_ctx cx cur (s_line2 s) target) (s_g s) (append_env empty_env (s_env s)) commands = (g', rc) /\
        match rc with
        | IOk (cr, cenv) =>
            s' = mkSt (sig_warned (cr_sig cr) g')
                      (if str_eqb (upper name) s_STARTCODE then update_from_env (s_env s) cenv else append_env (s_env s) cenv)
                      (s_line2 s) /\
            r = IOk (if str_eqb (upper name) s_STARTENV then RLines [] else RComp (mkCret (cr_data cr) SNormal))
        | IErr e t => s' = mkSt g' (s_env s) (s_line2 s) /\ r = IErr e t
        | ICrash k => s' = mkSt g' (s_env s) (s_line2 s) /\ r = ICrash k
        | IUnmod => s' = mkSt g' (s_env s) (s_line2 s) /\ r = IUnmod
        end).
Proof.
  intros name target commands s s' r H.
  destruct (cmp_eval stack_limit_op (pile_len cx) (stack_limit (c_opts cx))) eqn:Hlim.
  - left. rewrite start_body_overflow in H by (unfold below_stack_limit; rewrite Hlim; discriminate).
    injection H as <- <-. split; [unfold below_stack_limit; rewrite Hlim; discriminate|split; reflexivity].
  - right. split; [exact Hlim|].
    destruct (child (start_ctx cx cur (s_line2 s) target) (s_g s) (append_env empty_env (s_env s)) commands) as [g' rc] eqn:Hch.
    exists g', rc. split; [reflexivity|].
    destruct rc as [[cr cenv]|e t|k|].
    + rewrite (start_body_ok name target commands s g' cr cenv Hlim Hch) in H. injection H as <- <-. split; reflexivity.
    + rewrite (start_body_fail name target commands s g' _ Hlim Hch) in H by discriminate. injection H as <- <-. split; reflexivity.
    + rewrite (start_body_fail name target commands s g' _ Hlim Hch) in H by discriminate. injection H as <- <-. split; reflexivity.
    + rewrite (start_body_fail name target commands s g' _ Hlim Hch) in H by discriminate. injection H as <- <-. split; reflexivity.
Qed.

(* ================================================================== C12: the three laws *)
Section Law.
Variables (cname : str) (sc : simple_cls) (name : str) (l : line) (file target : path) (text : str)
          (commands : list item) (s : st) (g' : glob) (cr : cret) (cenv : env).
Hypothesis Hrun : s_run sc = RKStart.
Hypothesis Hfile : c_file cx = Some file.
Hypothesis Hres : resolve_start file (content_text (l_content l)) = Ok target.
Hypothesis Hfs : c_fs cx target = Some text.
Hypothesis Hcirc : circ cx target = false.
Hypothesis Hparse : prepare_text text = TOk commands.
Hypothesis Hlim : below_stack_limit cx.
Hypothesis Hchild :
  child (start_ctx cx cur (s_line2 s) target) (s_g s) (append_env empty_env (s_env s)) commands = (g', IOk (cr, cenv)).

Lemma start_family_law :
  run_compile fo child cx cur cname sc name (Some l) s =
  (mkSt (sig_warned (cr_sig cr) g')
        (if str_eqb (upper name) s_STARTCODE then update_from_env (s_env s) cenv else append_env (s_env s) cenv)
        (s_line2 s),
   IOk (if str_eqb (upper name) s_STARTENV then RLines [] else RComp (mkCret (cr_data cr) SNormal))).
Proof.
  rewrite (start_unfold cname sc name l file target text commands s Hrun Hfile Hres Hfs Hcirc Hparse).
  apply start_body_ok; assumption.
Qed.

(* START: the importee's output, the signal is reset (RETURN inside f ends only f), the importee's
   variables and functions are appended *)
Lemma start_law : upper name = s_START ->
  run_compile fo child cx cur cname sc name (Some l) s =
  (mkSt (sig_warned (cr_sig cr) g') (append_env (s_env s) cenv) (s_line2 s),
   IOk (RComp (mkCret (cr_data cr) SNormal))).
Proof. intro Hn. rewrite start_family_law, Hn. reflexivity. Qed.

(* STARTCODE: the importee's output; the importer keeps exactly its own names *)
Lemma startcode_law : upper name = s_STARTCODE ->
  run_compile fo child cx cur cname sc name (Some l) s =
  (mkSt (sig_warned (cr_sig cr) g') (update_from_env (s_env s) cenv) (s_line2 s),
   IOk (RComp (mkCret (cr_data cr) SNormal))).
Proof. intro Hn. rewrite start_family_law, Hn. reflexivity. Qed.

(* STARTENV: no output line at all; variables and functions are appended *)
Lemma startenv_law : upper name = s_STARTENV ->
  run_compile fo child cx cur cname sc name (Some l) s =
  (mkSt (sig_warned (cr_sig cr) g') (append_env (s_env s) cenv) (s_line2 s),
   IOk (RLines [])).
Proof. intro Hn. rewrite start_family_law, Hn. reflexivity. Qed.
End Law.

End OneStack.

(* ================================================================== what the importer sees *)
(* after START / STARTENV: the importee's value wins, every other name of the importer is kept *)
Lemma append_env_user : forall p c x, nodup_keys (e_user c) ->
  lookup x (e_user (append_env p c)) = match lookup x (e_user c) with Some v => Some v | None => lookup x (e_user p) end.
Proof. intros p c x H. cbn. apply lookup_upd_all_nodup. exact H. Qed.

Lemma append_env_sys : forall p c x, nodup_keys (e_sys c) ->
  lookup x (e_sys (append_env p c)) = match lookup x (e_sys c) with Some v => Some v | None => lookup x (e_sys p) end.
Proof. intros p c x H. cbn. apply lookup_upd_all_nodup. exact H. Qed.

Lemma append_env_funcs : forall p c x, nodup_keys (e_funcs c) ->
  lookup x (e_funcs (append_env p c)) = match lookup x (e_funcs c) with Some v => Some v | None => lookup x (e_funcs p) end.
Proof. intros p c x H. cbn. apply lookup_upd_all_nodup. exact H. Qed.

Lemma append_env_temp : forall p c, e_temp fo (append_env p c) = e_temp fo p.
Proof. reflexivity. Qed.

(* without the invariant on the importee's table the law is false (the LAST binding is appended) *)
Lemma append_env_user_needs_nodup :
  let c := mkEnv fo [] [([97%N], VInt 1); ([97%N], VInt 2)] [] [] in
  lookup [97%N] (e_user (append_env empty_env c)) = Some (VInt 2) /\ lookup [97%N] (e_user c) = Some (VInt 1).
Proof. split; reflexivity. Qed.

(* after STARTCODE: no new variable, no new function; assignments to the importer's variables survive *)
Lemma startcode_no_new_var : forall p c x, has_key x (e_user p) = false -> lookup x (e_user (update_from_env p c)) = None.
Proof. intros. apply exit_created_dies. assumption. Qed.

Lemma startcode_funcs_unchanged : forall p c, e_funcs (update_from_env p c) = e_funcs p.
Proof. reflexivity. Qed.

Lemma startcode_keeps_assignments : forall p c x, has_key x (e_user p) = true ->
  lookup x (e_user (update_from_env p c)) = lookup x (e_user c).
Proof. intros. apply exit_assignment_survives. assumption. Qed.

(* ---- with the real interpreter as the child: no side condition on the tables *)
Section WithRun.
Variables (d : nat) (cx : ctx) (cur : preline) (cname : str) (sc : simple_cls) (name : str) (l : line).
Variable s : st.

(* the importee starts with every variable and function of the importer *)
Lemma importee_sees_importer : forall x, env_wf fo (s_env s) ->
  lookup x (e_user (append_env empty_env (s_env s))) = lookup x (e_user (s_env s)) /\
  lookup x (e_sys (append_env empty_env (s_env s))) = lookup x (e_sys (s_env s)) /\
  lookup x (e_funcs (append_env empty_env (s_env s))) = lookup x (e_funcs (s_env s)).
Proof.
  intros x (H1 & H2 & H3 & H4). split; [|split].
  - apply entry_sees_outer. exact H2.
  - apply entry_sees_outer_sys. exact H1.
  - apply entry_sees_outer_funcs. exact H4.
Qed.

Lemma start_run_result : forall s' r,
  s_run sc = RKStart ->
  run_compile fo (run fo d) cx cur cname sc name (Some l) s = (s', IOk r) ->
  exists target commands g' cr cenv,
    circ cx target = false /\
    run fo d (start_ctx cx cur (s_line2 s) target) (s_g s) (append_env empty_env (s_env s)) commands = (g', IOk (cr, cenv)) /\
    env_wf fo cenv /\
    s' = mkSt (sig_warned (cr_sig cr) g')
              (if str_eqb (upper name) s_STARTCODE then update_from_env (s_env s) cenv else append_env (s_env s) cenv)
              (s_line2 s) /\
    r = (if str_eqb (upper name) s_STARTENV then RLines [] else RComp (mkCret (cr_data cr) SNormal)).
Proof.
  intros s' r Hr H. apply start_inv in H; [|exact Hr].
  destruct H as [(file & target & text & commands & Hf & Hres & Hfs & Hc & Hp & Hb)|(_ & Hne)].
  2:{ exfalso. eapply Hne. reflexivity. }
  apply start_body_inv in Hb. destruct Hb as [(_ & _ & Hb)|(Hlim & g' & rc & Hch & Hb)]; [discriminate|].
  destruct rc as [[cr cenv]|e t|k|]; try (destruct Hb as [_ Hb]; discriminate).
  destruct Hb as [Hs' Hrr]. injection Hrr as ->.
  assert (Hwf : env_wf fo cenv) by (eapply run_wf; [|exact Hch]; apply env_wf_entry).
  exists target, commands, g', cr, cenv.
  split; [exact Hc|split; [exact Hch|split; [exact Hwf|split; [exact Hs'|reflexivity]]]].
Qed.

(* START / STARTENV with the real interpreter: every user variable and every function the imported
   file ended with is visible afterwards with the importee's value; the others are the importer's *)
Theorem start_imports_visible : forall s' r,
  s_run sc = RKStart -> str_eqb (upper name) s_STARTCODE = false ->
  run_compile fo (run fo d) cx cur cname sc name (Some l) s = (s', IOk r) ->
  exists target commands g' cr cenv,
    run fo d (start_ctx cx cur (s_line2 s) target) (s_g s) (append_env empty_env (s_env s)) commands = (g', IOk (cr, cenv)) /\
    (forall x, lookup x (e_user (s_env s')) =
               match lookup x (e_user cenv) with Some v => Some v | None => lookup x (e_user (s_env s)) end) /\
    (forall x, lookup x (e_funcs (s_env s')) =
               match lookup x (e_funcs cenv) with Some v => Some v | None => lookup x (e_funcs (s_env s)) end) /\
    (forall x, lookup x (e_sys (s_env s')) =
               match lookup x (e_sys cenv) with Some v => Some v | None => lookup x (e_sys (s_env s)) end) /\
    e_temp fo (s_env s') = e_temp fo (s_env s).
Proof.
  intros s' r Hr Hn H. apply start_run_result in H; [|exact Hr].
  destruct H as (target & commands & g' & cr & cenv & _ & Hch & (W1 & W2 & W3 & W4) & -> & _).
  rewrite Hn. cbn [Interp.s_env]. exists target, commands, g', cr, cenv. split; [exact Hch|]. repeat split.
  - intro x. apply append_env_user. exact W2.
  - intro x. apply append_env_funcs. exact W4.
  - intro x. apply append_env_sys. exact W1.
Qed.

(* STARTCODE with the real interpreter: same names as before (those the importee still has), no
   new function *)
Theorem startcode_imports_nothing : forall s' r,
  s_run sc = RKStart -> str_eqb (upper name) s_STARTCODE = true ->
  run_compile fo (run fo d) cx cur cname sc name (Some l) s = (s', IOk r) ->
  exists target commands g' cr cenv,
    run fo d (start_ctx cx cur (s_line2 s) target) (s_g s) (append_env empty_env (s_env s)) commands = (g', IOk (cr, cenv)) /\
    (forall x, lookup x (e_user (s_env s')) = if has_key x (e_user (s_env s)) then lookup x (e_user cenv) else None) /\
    e_funcs (s_env s') = e_funcs (s_env s) /\
    e_temp fo (s_env s') = e_temp fo (s_env s).
Proof.
  intros s' r Hr Hn H. apply start_run_result in H; [|exact Hr].
  destruct H as (target & commands & g' & cr & cenv & _ & Hch & _ & -> & _).
  rewrite Hn. cbn [Interp.s_env]. exists target, commands, g', cr, cenv. split; [exact Hch|].
  repeat split. intro x. apply exit_values.
Qed.
End WithRun.

(* ================================================================== C13 (b): sequential imports *)
(* a START-family command that succeeded can be repeated in the same stack -- on any later line,
   under any of the three spellings, in any state, with any child runner -- and gets past the
   circularity test and the parse again: what it does is start_body *)
Theorem sequential_imports_ok : forall child cx cur cname sc name l s s1 r,
  s_run sc = RKStart ->
  run_compile fo child cx cur cname sc name (Some l) s = (s1, IOk r) ->
  exists target commands,
    circ cx target = false /\ below_stack_limit cx /\
    forall child' cur' name' s2,
      run_compile fo child' cx cur' cname sc name' (Some l) s2 = start_body child' cx cur' name' target commands s2.
Proof.
  intros child cx cur cname sc name l s s1 r Hr H. apply start_inv in H; [|exact Hr].
  destruct H as [(file & target & text & commands & Hf & Hres & Hfs & Hc & Hp & Hb)|(_ & Hne)].
  2:{ exfalso. eapply Hne. reflexivity. }
  exists target, commands. split; [exact Hc|]. split.
  - apply start_body_inv in Hb. destruct Hb as [(_ & _ & Hb)|(Hlim & _)]; [discriminate|exact Hlim].
  - intros child' cur' name' s2. eapply start_unfold; eassumption.
Qed.

(* ... so an error of the repeated command is an error of the stack it started (the imported file),
   never one raised by the importing line *)
Theorem sequential_import_error_from_child : forall child cx cur cname sc name l s s1 r,
  s_run sc = RKStart ->
  run_compile fo child cx cur cname sc name (Some l) s = (s1, IOk r) ->
  forall child' cur' name' s2 s3 e t,
    run_compile fo child' cx cur' cname sc name' (Some l) s2 = (s3, IErr e t) ->
    exists target commands g',
      circ cx target = false /\
      child' (start_ctx cx cur' (s_line2 s2) target) (s_g s2) (append_env empty_env (s_env s2)) commands = (g', IErr e t).
Proof.
  intros child cx cur cname sc name l s s1 r Hr H child' cur' name' s2 s3 e t H2.
  destruct (sequential_imports_ok _ _ _ _ _ _ _ _ _ _ Hr H) as (target & commands & Hc & Hlim & Hsame).
  rewrite Hsame in H2. apply start_body_inv in H2.
  destruct H2 as [(Hn & _)|(_ & g' & rc & Hch & Hb)]; [contradiction|].
  exists target, commands, g'. split; [exact Hc|].
  destruct rc as [[cr cenv]|e' t'|k|]; try (destruct Hb as [_ Hb]; discriminate).
  destruct Hb as [_ Hb]. injection Hb as <- <-. exact Hch.
Qed.

(* with a child whose error traces extend its own pile (every [run d]: TraceShape.run_trace_runner)
   the repeated command never fails with a trace that ends at the importing line: in particular
   it is not the CircularStructureError of that line *)
Theorem sequential_import_not_circular_here : forall child cx cur cname sc name l s s1 r,
  s_run sc = RKStart ->
  run_compile fo child cx cur cname sc name (Some l) s = (s1, IOk r) ->
  forall child' cur' name' s2 s3 e t l2,
    trace_runner fo child' ->
    run_compile fo child' cx cur' cname sc name' (Some l) s2 = (s3, IErr e t) ->
    t <> Some (here cx cur' l2).
Proof.
  intros child cx cur cname sc name l s s1 r Hr H child' cur' name' s2 s3 e t l2 Htr H2 Heq.
  destruct (sequential_import_error_from_child _ _ _ _ _ _ _ _ _ _ Hr H _ _ _ _ _ _ _ H2)
    as (target & commands & g' & _ & Hch).
  apply Htr in Hch. subst t. cbn [trace_ok start_ctx c_pile c_file] in Hch.
  destruct Hch as (l2' & rest & cur2 & Heq).
  apply (f_equal (@length frame)) in Heq. unfold here in Heq.
  rewrite !app_length in Heq. cbn [length] in Heq. lia.
Qed.

Corollary sequential_import_run : forall d child cx cur cname sc name l s s1 r,
  s_run sc = RKStart ->
  run_compile fo child cx cur cname sc name (Some l) s = (s1, IOk r) ->
  forall cur' name' s2 s3 t,
    run_compile fo (run fo d) cx cur' cname sc name' (Some l) s2 = (s3, IErr ECircular t) ->
    forall l2, t <> Some (here cx cur' l2).
Proof.
  intros d child cx cur cname sc name l s s1 r Hr H cur' name' s2 s3 t H2 l2.
  eapply sequential_import_not_circular_here; [exact Hr|exact H|apply run_trace_runner|exact H2].
Qed.

(* the verdict of the test is the same for every line of a stack: the pile a command sees does not
   depend on the commands completed before it *)
Theorem circularity_depends_on_pile_file_target : forall cx1 cx2 cur1 cur2 l1 l2 target,
  c_pile cx1 = c_pile cx2 -> c_file cx1 = c_file cx2 ->
  existsb (fun fr => opt_eqb path_eqb (fr_file fr) (Some target)) (here cx1 cur1 l1) =
  existsb (fun fr => opt_eqb path_eqb (fr_file fr) (Some target)) (here cx2 cur2 l2).
Proof.
  intros cx1 cx2 cur1 cur2 l1 l2 target Hp Hf. rewrite !circ_test_eq. unfold circ, live_files. rewrite Hp, Hf. reflexivity.
Qed.


(* ================================================================== C13 (b): diamonds *)
(* a file that is not live -- whatever was imported and completed before, by this stack or by any
   other: the state is arbitrary -- is never refused as circular by the importing line *)
Lemma child_trace_not_here : forall child cx cur l target g e code g' err t l2,
  trace_runner fo child ->
  child (start_ctx cx cur l target) g e code = (g', IErr err t) -> t <> Some (here cx cur l2).
Proof.
  intros child cx cur l target g e code g' err t l2 Htr Hch Heq.
  apply Htr in Hch. subst t. cbn [trace_ok start_ctx c_pile c_file] in Hch.
  destruct Hch as (l2' & rest & cur2 & Heq).
  apply (f_equal (@length frame)) in Heq. unfold here in Heq.
  rewrite !app_length in Heq. cbn [length] in Heq. lia.
Qed.

Theorem diamond_ok : forall child cx cur cname sc name l file target text s s' e t l2,
  s_run sc = RKStart -> c_file cx = Some file ->
  resolve_start file (content_text (l_content l)) = Ok target -> c_fs cx target = Some text ->
  ~ In (Some target) (live_files cx) ->
  trace_runner fo child ->
  run_compile fo child cx cur cname sc name (Some l) s = (s', IErr e t) ->
  e = ECircular -> t <> Some (here cx cur l2).
Proof.
  intros child cx cur cname sc name l file target text s s' e t l2 Hr Hf Hres Hfs Hn Htr H He.
  apply circ_false_iff in Hn.
  unfold run_compile in H. rewrite Hr, Hf, Hres in H. cbn [lift] in H. unfold bindM at 1, ret at 1 in H.
  rewrite Hfs, circ_test_eq, Hn in H.
  destruct (prepare_text text) as [commands|[| | | |]] eqn:Hp; try discriminate; try (injection H as _ _ <-; discriminate).
  change (start_body child cx cur name target commands s = (s', IErr e t)) in H.
  apply start_body_inv in H. destruct H as [(_ & _ & H)|(_ & g' & rc & Hch & H)].
  - injection H as -> _. discriminate.
  - destruct rc as [[cr cenv]|e' t'|k|]; try (destruct H as [_ H]; discriminate).
    destruct H as [_ H]. injection H as <- <-. eapply child_trace_not_here; eassumption.
Qed.

End Laws.
