(* CoreAllScope -- SCOPING on the unified reference semantics (Spec/CoreAll.v): the port of
   Proofs/CoreScope.v (C08c), extended to RUN and the START family, and one headline statement
   carried to the interpreter through the converse refinement theorem.
     [scope_statement]        IF chains, REPEAT, WHILE, RUN and STARTCODE leave the list of variable
                              names (and the function table) exactly as it was;
     [start_adds]             START / STARTENV only ADD names: the importer's store becomes the
                              file's final store, whose names extend the importer's;
     [copy_back_values_u]     the values after a block: an outer variable takes the block's value;
     [not_created_in_scope]   a name created inside never survives;
     [block_sees_*]           blocks / calls see the variables of the enclosing code;
     [top_names]              the variables after a statement list without top-level START/STARTENV:
                              those before, and those assigned by ITS OWN top-level VAR lines;
     [final_user_variables]   on the interpreter: the user variables of a successful compilation are
                              among the top-level VAR names of the entry file. *)
From Coq Require Import NArith ZArith List Bool Lia.
From DS Require Import Base PyStr Values Expr TabParse Tables Constants Interp IdentSpec World SmallProofs.
From DS Require Import ScopeProofs PasteBase ImportGraph GraphText CoreLang CoreWf CoreRefine CoreFunc CoreErr CoreScope.
From DS Require Import CoreAll CoreAllLines CoreAllBase CoreAllRefine CoreAllTop CoreAllKeys CoreAllCor CoreAllImports.
From DS Require Import CoreAllErr CoreAllErrLines CoreAllErrRefine CoreAllErrFacts CoreAllDet CoreAllTotal CoreAllConverse.
From DS Require Import CoreAllDepth.
Import ListNotations.

Arguments IOk {A}. Arguments IErr {A}.
Arguments e_sys : clear implicits. Arguments e_user : clear implicits. Arguments e_temp : clear implicits.
Arguments e_funcs : clear implicits. Arguments mkEnv : clear implicits.

(* the statements that are scopes *)
Definition is_scope (s : ustmt) : bool :=
  match s with
  | UIf _ _ | URepeat _ _ _ | UWhile _ _ _ | URun _ _ | UStart KCode _ => true
  | _ => false
  end.

Lemma is_scope_meaning : forall s,
  is_scope s = match s with
               | UIf _ _ | URepeat _ _ _ | UWhile _ _ _ | URun _ _ | UStart KCode _ => true
               | _ => false
               end.
Proof. reflexivity. Qed.

(* the top-level VAR names of a list *)
Definition top_vars (p : list ustmt) : list str :=
  flat_map (fun s => match s with UVar x _ => [x] | _ => [] end) p.
(* no START / STARTENV at the top level of the list (anything inside blocks and function bodies) *)
Definition merges (s : ustmt) : bool :=
  match s with UStart KStart _ | UStart KEnv _ => true | _ => false end.
Definition no_top_merge (p : list ustmt) : bool := forallb (fun s => negb (merges s)) p.

Section Scope.
Variable fo : FloatOps.
Variable sys : store fo.
Variable prog : program.
Variable inc : bool.
Variable sup : bool.

Notation exec := (CoreAll.exec fo sys prog inc sup).
Notation exec_list := (CoreAll.exec_list fo sys prog inc sup).

(* ================================================================== scopes *)
Theorem scope_statement : forall d pile cf n F f vs s sg F' f' vs' out ev,
  exec d pile cf n F f vs s sg F' f' vs' out ev -> is_scope s = true ->
  map fst vs' = map fst vs /\ F' = F.
Proof.
  intros d pile cf n F f vs s sg F' f' vs' out ev H Hs.
  destruct (keys_all fo sys prog inc sup) as (_ & Hl & Ha & Hr & Hw).
  destruct s; try discriminate Hs.
  - (* IF *) inversion H; subst. split; [|reflexivity].
    match goal with HA : CoreAll.exec_arms _ _ _ _ _ _ _ _ _ _ _ _ _ _ _ _ _ _ _ _ |- _ =>
      exact (proj2 (Ha _ _ _ _ _ _ _ _ _ _ _ _ _ _ _ HA)) end.
  - (* REPEAT *) inversion H; subst. split; [|reflexivity].
    match goal with HA : CoreAll.exec_repeat _ _ _ _ _ _ _ _ _ _ _ _ _ _ _ _ _ _ _ _ |- _ =>
      exact (proj2 (Hr _ _ _ _ _ _ _ _ _ _ _ _ _ _ _ HA)) end.
  - (* WHILE *) inversion H; subst. split; [|reflexivity].
    match goal with HA : CoreAll.exec_while _ _ _ _ _ _ _ _ _ _ _ _ _ _ _ _ _ _ _ |- _ =>
      exact (proj2 (Hw _ _ _ _ _ _ _ _ _ _ _ _ _ _ HA)) end.
  - (* RUN *) inversion H; subst. split; [|reflexivity].
    match goal with HA : CoreAll.exec_list _ _ _ _ _ _ _ _ _ _ _ _ _ _ _ _ _ _ _ |- _ =>
      destruct (Hl _ _ _ _ _ _ _ _ _ _ _ _ _ _ HA) as (_ & Hk & _) end.
    apply names_copy_back. exact (kext_trans _ _ _ _ (kext_overlay fo _ vs) Hk).
  - (* STARTCODE *) destruct k; try discriminate Hs. inversion H; subst. split; [|reflexivity].
    match goal with HA : CoreAll.exec_list _ _ _ _ _ _ _ _ _ _ _ _ _ _ _ _ _ _ _ |- _ =>
      destruct (Hl _ _ _ _ _ _ _ _ _ _ _ _ _ _ HA) as (_ & Hk & _) end.
    apply names_copy_back. exact Hk.
Qed.

(* a name created inside a scope never survives it; a name that existed still exists *)
Theorem not_created_in_scope : forall d pile cf n F f vs s sg F' f' vs' out ev x,
  exec d pile cf n F f vs s sg F' f' vs' out ev -> is_scope s = true -> has_key x vs' = has_key x vs.
Proof.
  intros d pile cf n F f vs s sg F' f' vs' out ev x H Hs.
  destruct (scope_statement _ _ _ _ _ _ _ _ _ _ _ _ _ _ H Hs) as [Hn _].
  destruct (has_key x vs') eqn:E1; destruct (has_key x vs) eqn:E2; try reflexivity; exfalso.
  - apply has_key_In in E1. rewrite Hn in E1. apply has_key_In in E1. rewrite E1 in E2. discriminate.
  - apply has_key_In in E2. rewrite <- Hn in E2. apply has_key_In in E2. rewrite E2 in E1. discriminate.
Qed.

(* the values on leaving a block: copy_back, value by value *)
Theorem copy_back_values_u : forall (outer inner : store fo) x,
  lookup x (copy_back fo outer inner) = if has_key x outer then lookup x inner else None.
Proof. exact (CoreScope.copy_back_values fo). Qed.

(* a call: the caller's variables after RUN are the caller's names with the values the body left *)
Theorem run_values : forall d pile cf n F f vs name args sg F' f' vs' out ev,
  exec d pile cf n F f vs (URun name args) sg F' f' vs' out ev ->
  exists vals df sgb F1 f1 vs1 d',
    d = S d' /\ lookup name F = Some df /\
    CoreAll.exec_list fo sys prog inc sup d' (pile ++ [mkSF cf (run_head name args) n true]) (d_file df) (d_line df + 1) F None
      (bind_params fo (d_params df) vals vs) (d_body df) sgb F1 f1 vs1 out ev /\
    forall x, lookup x vs' = if has_key x vs then lookup x vs1 else None.
Proof.
  intros d pile cf n F f vs name args sg F' f' vs' out ev H.
  apply (run_iff fo sys prog inc sup) in H.
  destruct H as (d' & -> & vals & df & sgb & F1 & f1 & vs1 & Ha & Hl & Hn & Hb & _ & _ & _ & _ & ->).
  exists vals, df, sgb, F1, f1, vs1, d'. split; [reflexivity|]. split; [exact Hl|]. split; [exact Hb|].
  intro x. apply copy_back_values_u.
Qed.

(* ================================================================== START / STARTENV only add *)
Theorem start_adds : forall d pile cf n F f vs k name sg F' f' vs' out ev,
  exec d pile cf n F f vs (UStart k name) sg F' f' vs' out ev -> k <> KCode ->
  exists d' stmts sg1 F1 f1 vs1 out1 ev1,
    d = S d' /\ lookup name prog = Some stmts /\
    CoreAll.exec_list fo sys prog inc sup d' (pile ++ [mkSF cf (start_head k name) n true]) name 1 F None vs stmts
                      sg1 F1 f1 vs1 out1 ev1 /\
    vs' = overlay fo vs1 vs /\ F' = overlay_defs F1 F /\
    kext vs vs' /\ kext F F' /\
    (nodup_keys vs -> nodup_keys F -> vs' = vs1 /\ F' = F1 /\ kext vs vs1).
Proof.
  intros d pile cf n F f vs k name sg F' f' vs' out ev H Hk.
  apply (start_iff fo sys prog inc sup) in H.
  destruct H as (d' & stmts & sg1 & F1 & f1 & vs1 & out1 & ev1 & -> & Hlk & Hnot & Hrun & -> & -> & -> & -> & -> & ->).
  exists d', stmts, sg1, F1, f1, vs1, out1, ev1.
  split; [reflexivity|]. split; [exact Hlk|]. split; [exact Hrun|].
  assert (E1 : (match k with KCode => copy_back fo vs vs1 | _ => overlay fo vs1 vs end) = overlay fo vs1 vs)
    by (destruct k; [reflexivity|elim Hk; reflexivity|reflexivity]).
  assert (E2 : (match k with KCode => F | _ => overlay_defs F1 F end) = overlay_defs F1 F)
    by (destruct k; [reflexivity|elim Hk; reflexivity|reflexivity]).
  rewrite E1, E2. split; [reflexivity|]. split; [reflexivity|].
  split; [apply kext_overlay|]. split; [rewrite overlay_defs_upd_all; apply kext_upd_all|].
  intros Hv HF.
  destruct (overlay_after_run fo sys prog inc sup _ _ _ _ _ _ _ _ _ _ _ _ _ _ Hrun Hv HF) as [Eo Ed].
  rewrite Eo, Ed. split; [reflexivity|]. split; [reflexivity|].
  exact (proj1 (proj2 (keys_list fo sys prog inc sup _ _ _ _ _ _ _ _ _ _ _ _ _ _ Hrun))).
Qed.

(* ================================================================== blocks see the enclosing variables *)
Lemma str_neq_eqb : forall a b : str, a <> b -> str_eqb a b = false.
Proof. intros a b H. destruct (str_eqb a b) eqn:E; [|reflexivity]. apply str_eqb_eq in E. contradiction. Qed.

(* an IF arm starts from the enclosing store itself (rule A_Take / A_Else); an iteration from it plus the counter *)
Theorem block_sees_loop : forall c k (vs : store fo) x, c <> Some x -> lookup x (with_counter fo c k vs) = lookup x vs.
Proof.
  intros [y|] k vs x Hc; cbn [with_counter]; [|reflexivity].
  rewrite set_var_upd. apply lookup_upd_other. apply str_neq_eqb. intro E. apply Hc. rewrite E. reflexivity.
Qed.

Lemma overlay_other : forall (top bottom : store fo) x, ~ In x (map fst top) -> lookup x (overlay fo top bottom) = lookup x bottom.
Proof.
  induction top as [|[y w] top IH]; intros bottom x Hx; [reflexivity|].
  unfold overlay. cbn [fold_left fst snd]. fold (overlay fo top (set_var fo y w bottom)).
  rewrite IH; [|intro Hi; apply Hx; right; exact Hi].
  rewrite set_var_upd. apply lookup_upd_other. apply str_neq_eqb. intro E. apply Hx. left. symmetry. exact E.
Qed.

(* a function body sees every variable of the caller that is not hidden by a parameter *)
Theorem block_sees_call : forall ps vals (vs : store fo) x, ~ In x ps -> lookup x (bind_params fo ps vals vs) = lookup x vs.
Proof.
  intros ps vals vs x Hx. unfold bind_params. apply overlay_other.
  intro Hi. apply Hx. clear Hx. revert vals Hi. induction ps as [|p ps IH]; intros [|v vals] Hi; try contradiction.
  cbn [combine map fst] in Hi. destruct Hi as [<-|Hi]; [left; reflexivity|right; exact (IH vals Hi)].
Qed.

(* ================================================================== which names a list can leave *)
Lemma in_set_var : forall x v (vs : store fo) y, In y (map fst (set_var fo x v vs)) -> y = x \/ In y (map fst vs).
Proof.
  intros x v vs y H. rewrite set_var_upd, keys_upd in H. destruct (has_key x vs); [right; exact H|].
  apply in_app_or in H. destruct H as [H|[<-|[]]]; [right; exact H|left; reflexivity].
Qed.

Lemma stmt_names : forall d pile cf n F f vs s sg F' f' vs' out ev y,
  exec d pile cf n F f vs s sg F' f' vs' out ev -> merges s = false ->
  In y (map fst vs') -> In y (map fst vs) \/ exists e, s = UVar y e.
Proof.
  intros d pile cf n F f vs s sg F' f' vs' out ev y H Hm Hy.
  destruct (is_scope s) eqn:Es.
  - left. rewrite <- (proj1 (scope_statement _ _ _ _ _ _ _ _ _ _ _ _ _ _ H Es)). exact Hy.
  - destruct s; try discriminate Es; try (inversion H; subst; left; exact Hy).
    + (* VAR *) inversion H; subst. apply in_set_var in Hy. destruct Hy as [->|Hy]; [right; eexists; reflexivity|left; exact Hy].
    + (* START family *) destruct k; try discriminate Hm. discriminate Es.
Qed.

Theorem top_names : forall d pile cf n F f vs p sg F' f' vs' out ev,
  exec_list d pile cf n F f vs p sg F' f' vs' out ev -> no_top_merge p = true ->
  forall y, In y (map fst vs') -> In y (map fst vs) \/ In y (top_vars p).
Proof.
  intros d pile cf n F f vs p sg F' f' vs' out ev H.
  induction H as [d pile cf n F f vs
                 |d pile cf n F f vs s r F1 f1 vs1 o1 e1 sg F2 f2 vs2 o2 e2 Hs Hr IH
                 |d pile cf n F f vs s r sg F1 f1 vs1 o1 e1 Hs Hne]; intros Hm y Hy.
  - left. exact Hy.
  - cbn [no_top_merge forallb] in Hm. apply andb_prop in Hm. destruct Hm as [Hm1 Hm2].
    apply negb_true_iff in Hm1.
    destruct (IH Hm2 y Hy) as [Hy1|Hy1].
    + destruct (stmt_names _ _ _ _ _ _ _ _ _ _ _ _ _ _ y Hs Hm1 Hy1) as [Hy0|(e & ->)].
      * left. exact Hy0.
      * right. cbn [top_vars flat_map]. left. reflexivity.
    + right. cbn [top_vars flat_map]. apply in_or_app. right. exact Hy1.
  - cbn [no_top_merge forallb] in Hm. apply andb_prop in Hm. destruct Hm as [Hm1 _].
    apply negb_true_iff in Hm1.
    destruct (stmt_names _ _ _ _ _ _ _ _ _ _ _ _ _ _ y Hs Hm1 Hy) as [Hy0|(e & ->)].
    + left. exact Hy0.
    + right. cbn [top_vars flat_map]. left. reflexivity.
Qed.

End Scope.

(* ================================================================== on the interpreter *)
Section Transfer.
Variable fo : FloatOps.
Variable dir : path.
Variable prog : program.
Variable fs : fsys.
Hypothesis Hprog : prog_ok dir prog fs.
Hypothesis Hmiss : prog_closed dir prog fs.

(* FROM THE INTERPRETER'S ANSWER ALONE: after a successful compilation of an entry file without
   START / STARTENV at its top level, every user variable of the final environment is assigned by
   a VAR line AT THE TOP LEVEL of the entry file: nothing created inside an IF arm, a loop body, a
   function body or a STARTCODE file, no loop counter and no parameter is left *)
Theorem final_user_variables : forall o entry stmts g c,
  tame_prog fo prog -> (1 <= stack_limit o)%Z -> lookup entry prog = Some stmts -> no_top_merge stmts = true ->
  compile_items fo o fs (Some (file_of dir entry)) (uitems_of stmts) = (g, IOk c) ->
  forall x, In x (map fst (e_user fo (final_env fo c))) -> In x (top_vars stmts).
Proof.
  intros o entry stmts g c Ht Hlim Hlk Hm E x Hx.
  destruct (compile_ok_has_derivation fo dir prog fs Hprog Hmiss o entry stmts g c Ht Hlim Hlk E)
    as (sg & F' & f' & vs' & outl & ev & Fi & Hr & _ & _ & Hfe & _).
  rewrite Hfe in Hx. cbn [e_user] in Hx.
  destruct Hr as (st & ev0 & L & D & _). rewrite Hlk in L. injection L as <-.
  destruct (top_names fo _ prog _ _ _ _ _ _ _ _ _ _ _ _ _ _ _ _ D Hm x Hx) as [H0|H0]; [contradiction|exact H0].
Qed.

(* the same from a derivation (no tameness needed): the refinement direction *)
Theorem final_user_variables_of_run : forall o entry d sg F' f' vs' out ev,
  uruns fo prog (include_comments o) (supress_command_not_exist o) entry d sg F' f' vs' out ev ->
  (Z.of_nat d < stack_limit o)%Z ->
  exists stmts g c, lookup entry prog = Some stmts /\
    compile_items fo o fs (Some (file_of dir entry)) (uitems_of stmts) = (g, IOk c) /\
    e_user fo (final_env fo c) = vs' /\
    (no_top_merge stmts = true -> forall x, In x (map fst (e_user fo (final_env fo c))) -> In x (top_vars stmts)).
Proof.
  intros o entry d sg F' f' vs' out ev Hr Hd.
  destruct (refine_compile_items fo dir prog fs o entry d sg F' f' vs' out ev Hprog Hr Hd)
    as (stmts & ol & Fi & Hlk & _ & _ & E).
  exists stmts. eexists. eexists. split; [exact Hlk|]. split; [exact E|]. cbn [final_env e_user].
  split; [reflexivity|]. intros Hm x Hx.
  destruct Hr as (st & ev0 & L & D & _). rewrite Hlk in L. injection L as <-.
  destruct (top_names fo _ prog _ _ _ _ _ _ _ _ _ _ _ _ _ _ _ _ D Hm x Hx) as [H0|H0]; [contradiction|exact H0].
Qed.

End Transfer.
