(* Non-vacuity of Proofs/CoreAllLoops.v: two nested loops with BREAKLOOP in both

          1  REPEAT i,3
          2      $STRING i
          3      REPEAT 2
          4          STRING in
          5          BREAKLOOP
          6          STRING never
          7      IF i==1
          8          BREAKLOOP
          9      STRING after
         10  STRING end

   the inner BREAKLOOP (line 5) ends the inner loop only: "STRING after" is emitted in iteration 0;
   the outer BREAKLOOP (line 8, iteration 1) ends the outer loop: the output made before it in that
   iteration stays, iteration 2 does not run, "STRING end" follows; the counter i is gone.
   The derivation, the interpreter's result by computation, and both through the refinement theorem.
   And the finding of C06e on the unified semantics: VAR i 7 / REPEAT i,2 / STRING x ; $STRING i. *)
From Coq Require Import String Ascii NArith ZArith List Bool Lia.
From DS Require Import Base PyStr Values Expr TabParse Tables Constants Interp IdentSpec.
From DS Require Import ChainLoopExamples ImportGraph CoreLang CoreWf CoreRefine CoreFunc CoreFuncExample CoreErr.
From DS Require Import CoreAll CoreAllLines CoreAllBase CoreAllRefine CoreAllTop CoreAllExample.
From DS Require Import CoreAllErr CoreAllErrLines CoreAllErrRefine CoreAllErrExample.
From DS Require Import CoreAllDepth CoreAllLoops.
Import ListNotations.
Open Scope string_scope.
Open Scope list_scope.

Arguments IOk {A}. Arguments IErr {A}.
Arguments e_sys : clear implicits. Arguments e_user : clear implicits. Arguments e_temp : clear implicits.
Arguments e_funcs : clear implicits. Arguments mkEnv : clear implicits.

(* [uderive] of CoreAllExample.v, which also finds that a loop ended by BREAKLOOP ends Normal *)
Ltac lderive :=
  cbn [d_body d_params d_file d_line];
  lazymatch goal with
  | |- CoreAll.exec _ _ _ _ _ _ _ _ _ _ _ _ (UEmit _ _) _ _ _ _ _ _ => eapply CoreAll.E_Emit
  | |- CoreAll.exec _ _ _ _ _ _ _ _ _ _ _ _ (UEmitEval _ _) _ _ _ _ _ _ => eapply CoreAll.E_EmitEval; [ev|dec]
  | |- CoreAll.exec _ _ _ _ _ _ _ _ _ _ _ _ (UVar _ _) _ _ _ _ _ _ => eapply CoreAll.E_Var; ev
  | |- CoreAll.exec _ _ _ _ _ _ _ _ _ _ _ _ (UIf _ _) _ _ _ _ _ _ => eapply CoreAll.E_If; lderive
  | |- CoreAll.exec _ _ _ _ _ _ _ _ _ _ _ _ (URepeat _ _ _) _ _ _ _ _ _ => eapply CoreAll.E_Repeat; lderive
  | |- CoreAll.exec _ _ _ _ _ _ _ _ _ _ _ _ (UWhile _ _ _) _ _ _ _ _ _ => eapply CoreAll.E_While; lderive
  | |- CoreAll.exec _ _ _ _ _ _ _ _ _ _ _ _ UBreakLoop _ _ _ _ _ _ => eapply CoreAll.E_Break
  | |- CoreAll.exec _ _ _ _ _ _ _ _ _ _ _ _ UContinueLoop _ _ _ _ _ _ => eapply CoreAll.E_Continue
  | |- CoreAll.exec _ _ _ _ _ _ _ _ _ _ _ _ UReturn _ _ _ _ _ _ => eapply CoreAll.E_Return
  | |- CoreAll.exec _ _ _ _ _ _ _ _ _ _ _ _ (UFunc _ _ _) _ _ _ _ _ _ => eapply CoreAll.E_Func
  | |- CoreAll.exec _ _ _ _ _ _ _ _ _ _ _ _ (URun _ []) _ _ _ _ _ _ =>
      eapply CoreAll.E_Run; [reflexivity|dec|reflexivity|lderive|sgl]
  | |- CoreAll.exec _ _ _ _ _ _ _ _ _ _ _ _ (URun _ _) _ _ _ _ _ _ =>
      eapply CoreAll.E_Run; [eexists; split; [ev|reflexivity]|dec|reflexivity|lderive|sgl]
  | |- CoreAll.exec _ _ _ _ _ _ _ _ _ _ _ _ (UPrint _) _ _ _ _ _ _ => eapply CoreAll.E_Print
  | |- CoreAll.exec _ _ _ _ _ _ _ _ _ _ _ _ (UPrintEval _) _ _ _ _ _ _ => eapply CoreAll.E_PrintEval; [ev|dec]
  | |- CoreAll.exec _ _ _ _ _ _ _ _ _ _ _ _ (URem _) _ _ _ _ _ _ => eapply CoreAll.E_Rem
  | |- CoreAll.exec _ _ _ _ _ _ _ _ _ _ _ _ (UUnknown _ _) _ _ _ _ _ _ => eapply CoreAll.E_Unknown
  | |- CoreAll.exec _ _ _ _ _ _ _ _ _ _ _ _ (UStart _ _) _ _ _ _ _ _ =>
      eapply CoreAll.E_Start; [dec|notin|lderive]
  | |- CoreAll.exec_list _ _ _ _ _ _ _ _ _ _ _ _ [] _ _ _ _ _ _ => eapply CoreAll.L_Nil
  | |- CoreAll.exec_list _ _ _ _ _ _ _ _ _ _ _ _ (_ :: _) _ _ _ _ _ _ =>
      first [ eapply CoreAll.L_Cons; [solve [lderive]|lderive]
            | eapply CoreAll.L_Stop; [solve [lderive]|discriminate] ]
  | |- CoreAll.exec_arms _ _ _ _ _ _ _ _ _ _ _ _ _ ((_, _) :: _) _ _ _ _ _ _ =>
      first [ eapply CoreAll.A_Take; [ev|dec|solve [lderive]|
                              first [ intros _; repeat (constructor; [eexists; ev|]); constructor
                                    | let Hd := fresh "Hd" in intro Hd; discriminate Hd ] ]
            | eapply CoreAll.A_Skip; [ev|dec|lderive] ]
  | |- CoreAll.exec_arms _ _ _ _ _ _ _ _ _ _ _ _ _ [] (Some _) _ _ _ _ _ => eapply CoreAll.A_Else; lderive
  | |- CoreAll.exec_arms _ _ _ _ _ _ _ _ _ _ _ _ _ [] None _ _ _ _ _ => eapply CoreAll.A_None
  | |- CoreAll.exec_repeat _ _ _ _ _ _ _ _ _ _ _ _ _ _ _ _ _ _ _ _ =>
      first [ eapply CoreAll.R_Done; [ev|dec|rng|lia]
            | eapply CoreAll.R_Iter; [ev|dec|rng|lia|solve [lderive]|sgl|lderive]
            | eapply CoreAll.R_Stop; [ev|dec|rng|lia|solve [lderive]|sgl]
            | change Normal with (loop_end Broke); eapply CoreAll.R_Stop; [ev|dec|rng|lia|solve [lderive]|sgl] ]
  | |- CoreAll.exec_while _ _ _ _ _ _ _ _ _ _ _ _ _ _ _ _ _ _ _ =>
      first [ eapply CoreAll.W_Done; [rng|ev|dec]
            | eapply CoreAll.W_Iter; [rng|ev|dec|solve [lderive]|sgl|lderive]
            | eapply CoreAll.W_Stop; [rng|ev|dec|solve [lderive]|sgl] ]
  end.


Definition lp_inner : ustmt :=
  URepeat None (S_ "2") [UEmit (S_ "STRING") (S_ "in"); UBreakLoop; UEmit (S_ "STRING") (S_ "never")].
Definition lp_body : list ustmt :=
  [UEmitEval (S_ "STRING") (S_ "i"); lp_inner; UIf [(S_ "i==1", [UBreakLoop])] None; UEmit (S_ "STRING") (S_ "after")].
Definition lp_main : list ustmt := [URepeat (Some (S_ "i")) (S_ "3") lp_body; UEmit (S_ "STRING") (S_ "end")].
Definition lp_prog : program := [(n_main, lp_main); (n_lib, [])].
Definition lp_text : str :=
  prog ["REPEAT i,3"; "    $STRING i"; "    REPEAT 2"; "        STRING in"; "        BREAKLOOP"; "        STRING never";
        "    IF i==1"; "        BREAKLOOP"; "    STRING after"; "STRING end"].
Definition lp_fs : fsys := fs2 lp_text [].

Lemma lp_prog_ok : prog_ok ex_dir lp_prog lp_fs.
Proof.
  apply fs2_ok; try (vm_compute; reflexivity).
  unfold lp_main, lp_body, lp_inner. cbn. wf_dec.
Qed.

Definition lp_out : list uline :=
  [LCode (S_ "STRING 0"); LCode (S_ "STRING in"); LCode (S_ "STRING after");
   LCode (S_ "STRING 1"); LCode (S_ "STRING in"); LCode (S_ "STRING end")].

(* VAR i 7 / REPEAT i,2 / STRING x ; $STRING i *)
Definition cn_main : list ustmt :=
  [UVar (S_ "i") (S_ "7"); URepeat (Some (S_ "i")) (S_ "2") [UEmit (S_ "STRING") (S_ "x")]; UEmitEval (S_ "STRING") (S_ "i")].
Definition cn_prog : program := [(n_main, cn_main); (n_lib, [])].
Definition cn_text : str := prog ["VAR i 7"; "REPEAT i,2"; "    STRING x"; "$STRING i"].
Definition cn_fs : fsys := fs2 cn_text [].

Lemma cn_prog_ok : prog_ok ex_dir cn_prog cn_fs.
Proof.
  apply fs2_ok; try (vm_compute; reflexivity).
  unfold cn_main. cbn. wf_dec.
Qed.

Section Ex.
Variable fo : FloatOps.

(* the derivation: the final store has no i, the flag is untouched at top level *)
Lemma lp_runs : forall inc sup, uruns fo lp_prog inc sup n_main 2 Normal [] None [] lp_out [].
Proof.
  intros inc sup.
  assert (H : exists F' f' vs' out ev, uruns fo lp_prog inc sup n_main 2 Normal F' f' vs' out ev /\
            F' = [] /\ f' = None /\ vs' = [] /\ out = lp_out /\ ev = []).
  { do 5 eexists. split.
    - unfold uruns. exists lp_main. eexists. split; [reflexivity|]. split; [|reflexivity].
      unfold lp_main, lp_body, lp_inner. lderive.
    - repeat split; vm_compute; reflexivity. }
  destruct H as (F' & f' & vs' & out & ev & H & -> & -> & -> & -> & ->). exact H.
Qed.

Lemma lp_by_theorem : forall inc sup, exists ol,
  map o_text ol = map line_text lp_out /\
  compile_items fo (ex_opts inc sup) lp_fs (Some (file_of ex_dir n_main)) (uitems_of lp_main) =
  (mkGlob [] [], IOk (mkCompiled fo ol [] (mkEnv fo (initial_sys fo) [] [] []) [])).
Proof.
  intros inc sup.
  destruct (refine_compile_items fo ex_dir lp_prog lp_fs (ex_opts inc sup) n_main 2 Normal [] None [] lp_out []
              lp_prog_ok (lp_runs inc sup)) as (stmts & ol & F' & Hlk & Ho & Ht & E).
  { vm_compute. reflexivity. }
  injection Hlk as <-. exists ol. split; [exact Ho|].
  destruct Ht as [Hf _]. inversion Hf; subst. exact E.
Qed.

Lemma lp_interpreter :
  match compile_items fo (ex_opts false false) lp_fs (Some (file_of ex_dir n_main)) (uitems_of lp_main) with
  | (_, IOk c) => map o_text (out fo c) =
                    [S_ "STRING 0"; S_ "STRING in"; S_ "STRING after"; S_ "STRING 1"; S_ "STRING in"; S_ "STRING end"] /\
                  e_user fo (final_env fo c) = []
  | _ => False
  end.
Proof. vm_compute. split; reflexivity. Qed.

(* the inner loop through the theorem [repeat_break]: iteration 0 breaks; output "STRING in" kept *)
Lemma lp_inner_by_theorem : forall inc sup d pile cf n F f (vs : store fo),
  CoreAll.exec fo (initial_sys fo) lp_prog inc sup (S d) pile cf n F f vs lp_inner Normal F f
    (copy_back fo vs vs) ([] ++ [LCode (S_ "STRING in")]) ([] ++ []).
Proof.
  intros inc sup d pile cf n F f vs. unfold lp_inner.
  assert (Hc : forall vs0 : store fo, exists v, eval fo (initial_sys fo) f vs0 (S_ "2") v /\ count_of fo v = Some 2%Z).
  { intro vs0. exists (VInt 2). split; [ev|reflexivity]. }
  assert (Hm : (0 <= 2 <= loop_max)%Z) by rng.
  apply (repeat_break fo (initial_sys fo) lp_prog inc sup d pile cf n F f None (S_ "2") _ 2%Z Hc Hm vs 0%Z vs [] [] vs
           [LCode (S_ "STRING in")] []).
  - apply I_nil.
  - lia.
  - do 2 eexists. cbn [with_counter].
    apply (break_in_body fo (initial_sys fo) lp_prog inc sup d _ cf (n + 1)%Z F None vs
             [UEmit (S_ "STRING") (S_ "in")] [UEmit (S_ "STRING") (S_ "never")]).
    change (@nil event) with (@nil event ++ @nil event).
    change [LCode (S_ "STRING in")] with ([LCode (S_ "STRING" ++ sp :: S_ "in")] ++ @nil uline).
    eapply L_Cons; [apply E_Emit|apply L_Nil].
Qed.

(* the counter named like an outer variable: after the loop the variable holds the last counter value *)
Lemma cn_runs : forall inc sup,
  uruns fo cn_prog inc sup n_main 1 Normal [] None [(S_ "i", VInt 1)]
        [LCode (S_ "STRING x"); LCode (S_ "STRING x"); LCode (S_ "STRING 1")] [].
Proof.
  intros inc sup.
  assert (H : exists F' f' vs' out ev, uruns fo cn_prog inc sup n_main 1 Normal F' f' vs' out ev /\
            F' = [] /\ f' = None /\ vs' = [(S_ "i", VInt 1)] /\
            out = [LCode (S_ "STRING x"); LCode (S_ "STRING x"); LCode (S_ "STRING 1")] /\ ev = []).
  { do 5 eexists. split.
    - unfold uruns. exists cn_main. eexists. split; [reflexivity|]. split; [|reflexivity].
      unfold cn_main. uderive.
    - repeat split; vm_compute; reflexivity. }
  destruct H as (F' & f' & vs' & out & ev & H & -> & -> & -> & -> & ->). exact H.
Qed.

Lemma cn_interpreter :
  match compile_items fo (ex_opts false false) cn_fs (Some (file_of ex_dir n_main)) (uitems_of cn_main) with
  | (_, IOk c) => map o_text (out fo c) = [S_ "STRING x"; S_ "STRING x"; S_ "STRING 1"] /\
                  e_user fo (final_env fo c) = [(S_ "i", VInt 1)]
  | _ => False
  end.
Proof. vm_compute. split; reflexivity. Qed.

Lemma lp_all : forall inc sup,
  prog_ok ex_dir lp_prog lp_fs /\ uruns fo lp_prog inc sup n_main 2 Normal [] None [] lp_out [] /\
  prog_ok ex_dir cn_prog cn_fs /\
  uruns fo cn_prog inc sup n_main 1 Normal [] None [(S_ "i", VInt 1)]
        [LCode (S_ "STRING x"); LCode (S_ "STRING x"); LCode (S_ "STRING 1")] [].
Proof. intros inc sup. exact (conj lp_prog_ok (conj (lp_runs inc sup) (conj cn_prog_ok (cn_runs inc sup)))). Qed.

Lemma lp_computed :
  (match compile_items fo (ex_opts false false) lp_fs (Some (file_of ex_dir n_main)) (uitems_of lp_main) with
   | (_, IOk c) => map o_text (out fo c) =
                     [S_ "STRING 0"; S_ "STRING in"; S_ "STRING after"; S_ "STRING 1"; S_ "STRING in"; S_ "STRING end"] /\
                   e_user fo (final_env fo c) = []
   | _ => False
   end) /\
  (match compile_items fo (ex_opts false false) cn_fs (Some (file_of ex_dir n_main)) (uitems_of cn_main) with
   | (_, IOk c) => map o_text (out fo c) = [S_ "STRING x"; S_ "STRING x"; S_ "STRING 1"] /\
                   e_user fo (final_env fo c) = [(S_ "i", VInt 1)]
   | _ => False
   end).
Proof. split; [exact lp_interpreter|exact cn_interpreter]. Qed.

End Ex.
