(* Corollaries of the unified reference semantics Spec/CoreAll.v, proved ON THE SPECIFICATION ALONE
   (no interpreter): the rules read as laws (PRINT, REM, unknown words, START family), the two
   options as VIEWS of one most-verbose run, and "no unknown statement, no unknown warning". *)
From Coq Require Import NArith ZArith List Bool Lia.
From DS Require Import Base PyStr Values Expr TabParse CoreLang CoreFunc CoreAll.
Import ListNotations.

(* ================================================================== vocabulary *)
Definition is_unknown_ev (e : event) : bool :=
  match e with EvWarn (WUnknown _ _ _ _) => true | _ => false end.
Definition is_print_ev (e : event) : bool :=
  match e with EvPrint _ _ _ => true | _ => false end.

(* what is seen of the most verbose run (comments on, warnings on) under other options:
   the REM lines are erased from the output, the unknown-command warnings from the events *)
Definition out_view (inc : bool) (out : list uline) : list uline := if inc then out else filter is_code out.
Definition ev_view (sup : bool) (ev : list event) : list event :=
  if sup then filter (fun e => negb (is_unknown_ev e)) ev else ev.

Lemma out_view_app : forall inc a b, out_view inc (a ++ b) = out_view inc a ++ out_view inc b.
Proof. intros [] a b; cbn; [reflexivity|apply filter_app]. Qed.
Lemma ev_view_app : forall sup a b, ev_view sup (a ++ b) = ev_view sup a ++ ev_view sup b.
Proof. intros [] a b; cbn; [apply filter_app|reflexivity]. Qed.
Lemma out_view_nil : forall inc, out_view inc [] = [].
Proof. intros []; reflexivity. Qed.
Lemma ev_view_nil : forall sup, ev_view sup [] = [].
Proof. intros []; reflexivity. Qed.
Lemma out_view_code : forall inc t, out_view inc [LCode t] = [LCode t].
Proof. intros [] t; reflexivity. Qed.
Lemma out_view_rem : forall inc t, out_view inc [LRem t] = if inc then [LRem t] else [].
Proof. intros [] t; reflexivity. Qed.
Lemma ev_view_print : forall sup t n f, ev_view sup [EvPrint t n f] = [EvPrint t n f].
Proof. intros [] t n f; reflexivity. Qed.
Lemma ev_view_unknown : forall sup p f t n,
  ev_view sup [EvWarn (WUnknown p f t n)] = if sup then [] else [EvWarn (WUnknown p f t n)].
Proof. intros [] p f t n; reflexivity. Qed.
Lemma ev_view_stray : forall sup sg, ev_view sup (stray sg) = stray sg.
Proof. intros [] []; reflexivity. Qed.
Lemma out_view_kind : forall inc (k : kind) out,
  out_view inc (match k with KEnv => [] | _ => out end) = match k with KEnv => [] | _ => out_view inc out end.
Proof. intros inc [] out; try reflexivity. apply out_view_nil. Qed.

(* the texts of the view: the comment-free output is the output minus the REM lines *)
Lemma out_view_texts_false : forall out, map line_text (out_view false out) = map line_text (filter is_code out).
Proof. reflexivity. Qed.

Section Cor.
Variable fo : FloatOps.
Variable sys : store fo.
Variable prog : program.

Notation exec := (CoreAll.exec fo sys prog).
Notation exec_list := (CoreAll.exec_list fo sys prog).
Notation exec_arms := (CoreAll.exec_arms fo sys prog).
Notation exec_repeat := (CoreAll.exec_repeat fo sys prog).
Notation exec_while := (CoreAll.exec_while fo sys prog).

(* ================================================================== the rules as laws *)
(* C18: PRINT never touches the output or the state; it is one event, carrying ITS line and file *)
Theorem print_law : forall inc sup d pile cf n F f vs text sg F' f' vs' out ev,
  exec inc sup d pile cf n F f vs (UPrint text) sg F' f' vs' out ev ->
  sg = Normal /\ F' = F /\ f' = f /\ vs' = vs /\ out = [] /\ ev = [EvPrint text n cf].
Proof. intros. inversion H; subst. repeat split. Qed.

Theorem print_eval_law : forall inc sup d pile cf n F f vs e sg F' f' vs' out ev,
  exec inc sup d pile cf n F f vs (UPrintEval e) sg F' f' vs' out ev ->
  sg = Normal /\ F' = F /\ f' = f /\ vs' = vs /\ out = [] /\
  exists v t, eval fo sys f vs e v /\ py_str fo v = Some t /\ ev = [EvPrint t n cf].
Proof. intros. inversion H; subst. repeat split. eauto. Qed.

(* C15: REM is one comment line iff include_comments; nothing else *)
Theorem rem_law : forall inc sup d pile cf n F f vs text sg F' f' vs' out ev,
  exec inc sup d pile cf n F f vs (URem text) sg F' f' vs' out ev ->
  sg = Normal /\ F' = F /\ f' = f /\ vs' = vs /\ ev = [] /\
  out = if inc then [LRem (rem_head text)] else [].
Proof. intros. inversion H; subst. repeat split. Qed.

(* C16: an executed unknown word yields its line (word in upper case) and, unless suppressed, one
   warning that locates it: pile of stacks, file, text of the line, line number *)
Theorem unknown_law : forall inc sup d pile cf n F f vs w args sg F' f' vs' out ev,
  exec inc sup d pile cf n F f vs (UUnknown w args) sg F' f' vs' out ev ->
  sg = Normal /\ F' = F /\ f' = f /\ vs' = vs /\ out = [LCode (upper w ++ sp :: args)] /\
  ev = if sup then [] else [EvWarn (WUnknown pile cf (unknown_head w args) n)].
Proof. intros. inversion H; subst. repeat split. Qed.

(* C12: the START family *)
Theorem start_law : forall inc sup d pile cf n F f vs k name sg F' f' vs' out ev,
  exec inc sup d pile cf n F f vs (UStart k name) sg F' f' vs' out ev ->
  exists d' stmts sg1 F1 f1 vs1 out1 ev1,
    d = S d' /\ lookup name prog = Some stmts /\ ~ In name (live_files pile cf) /\
    exec_list inc sup d' (pile ++ [mkSF cf (start_head k name) n true]) name 1 F None vs stmts sg1 F1 f1 vs1 out1 ev1 /\
    sg = Normal /\ f' = f /\
    F' = (match k with KCode => F | _ => overlay_defs F1 F end) /\
    vs' = (match k with KCode => copy_back fo vs vs1 | _ => overlay fo vs1 vs end) /\
    out = (match k with KEnv => [] | _ => out1 end) /\
    ev = ev1 ++ stray sg1.
Proof.
  intros inc sup d pile cf n F f vs k name sg F' f' vs' out ev H. inversion H; subst.
  do 8 eexists. repeat split; eauto.
Qed.

(* cycles have no derivation: a file with a running stack cannot be imported *)
Theorem start_live_no_derivation : forall inc sup d pile cf n F f vs k name sg F' f' vs' out ev,
  In name (live_files pile cf) ->
  ~ exec inc sup d pile cf n F f vs (UStart k name) sg F' f' vs' out ev.
Proof. intros inc sup d pile cf n F f vs k name sg F' f' vs' out ev Hin H. inversion H; subst. contradiction. Qed.

(* a missing file has no derivation *)
Theorem start_missing_no_derivation : forall inc sup d pile cf n F f vs k name sg F' f' vs' out ev,
  lookup name prog = None ->
  ~ exec inc sup d pile cf n F f vs (UStart k name) sg F' f' vs' out ev.
Proof. intros inc sup d pile cf n F f vs k name sg F' f' vs' out ev Hl H. inversion H; subst. congruence. Qed.

(* STARTENV contributes no output *)
Theorem startenv_no_output : forall inc sup d pile cf n F f vs name sg F' f' vs' out ev,
  exec inc sup d pile cf n F f vs (UStart KEnv name) sg F' f' vs' out ev -> out = [].
Proof. intros. inversion H; subst. reflexivity. Qed.

(* STARTCODE contributes no new name: same function table, and only variables the importer had *)
Lemma copy_back_keys : forall (outer inner : store fo) x,
  In x (map fst (copy_back fo outer inner)) -> In x (map fst outer).
Proof.
  induction outer as [|[y w] r IH]; intros inner x H; [exact H|].
  unfold copy_back in H. cbn [flat_map fst] in H. rewrite map_app in H. apply in_app_or in H.
  destruct H as [H|H].
  - destruct (lookup y inner); [|contradiction]. cbn in H. destruct H as [<-|[]]. left. reflexivity.
  - right. exact (IH inner x H).
Qed.

Theorem startcode_no_new_names : forall inc sup d pile cf n F f vs name sg F' f' vs' out ev,
  exec inc sup d pile cf n F f vs (UStart KCode name) sg F' f' vs' out ev ->
  F' = F /\ forall x, In x (map fst vs') -> In x (map fst vs).
Proof.
  intros inc sup d pile cf n F f vs name sg F' f' vs' out ev H. inversion H; subst.
  split; [reflexivity|]. intros x Hx. exact (copy_back_keys vs vs1 x Hx).
Qed.

(* ================================================================== the options as views *)
(* C15: everything observable under any setting of the two options is a VIEW of the most verbose
   run (comments on, unknown-command warnings on): same signal, functions, flag, variables; the
   output minus the REM lines when comments are off; the events minus the unknown-command
   warnings when they are suppressed.  In particular with comments enabled the output is the
   comments-disabled output with each executed REM inserted at its place, and suppression removes
   exactly the unknown-command warnings. *)
Definition V_exec d pile cf n F f vs s sg F' f' vs' out ev : Prop :=
  forall inc sup, exec inc sup d pile cf n F f vs s sg F' f' vs' (out_view inc out) (ev_view sup ev).
Definition V_list d pile cf n F f vs p sg F' f' vs' out ev : Prop :=
  forall inc sup, exec_list inc sup d pile cf n F f vs p sg F' f' vs' (out_view inc out) (ev_view sup ev).
Definition V_arms d pile cf first n F b vs arms els sg taken vs' out ev : Prop :=
  forall inc sup, exec_arms inc sup d pile cf first n F b vs arms els sg taken vs' (out_view inc out) (ev_view sup ev).
Definition V_repeat d pile cf n F f c e body k vs sg vs' out ev : Prop :=
  forall inc sup, exec_repeat inc sup d pile cf n F f c e body k vs sg vs' (out_view inc out) (ev_view sup ev).
Definition V_while d pile cf n F c e body k vs sg vs' out ev : Prop :=
  forall inc sup, exec_while inc sup d pile cf n F c e body k vs sg vs' (out_view inc out) (ev_view sup ev).

Ltac views :=
  rewrite ?out_view_app, ?ev_view_app, ?out_view_nil, ?ev_view_nil, ?out_view_code, ?out_view_rem,
          ?ev_view_print, ?ev_view_unknown, ?ev_view_stray, ?out_view_kind.

Theorem options_view_all :
  (forall d pile cf n F f vs s sg F' f' vs' out ev,
     exec true false d pile cf n F f vs s sg F' f' vs' out ev -> V_exec d pile cf n F f vs s sg F' f' vs' out ev) /\
  (forall d pile cf n F f vs p sg F' f' vs' out ev,
     exec_list true false d pile cf n F f vs p sg F' f' vs' out ev -> V_list d pile cf n F f vs p sg F' f' vs' out ev) /\
  (forall d pile cf first n F b vs arms els sg taken vs' out ev,
     exec_arms true false d pile cf first n F b vs arms els sg taken vs' out ev ->
     V_arms d pile cf first n F b vs arms els sg taken vs' out ev) /\
  (forall d pile cf n F f c e body k vs sg vs' out ev,
     exec_repeat true false d pile cf n F f c e body k vs sg vs' out ev ->
     V_repeat d pile cf n F f c e body k vs sg vs' out ev) /\
  (forall d pile cf n F c e body k vs sg vs' out ev,
     exec_while true false d pile cf n F c e body k vs sg vs' out ev ->
     V_while d pile cf n F c e body k vs sg vs' out ev).
Proof.
  apply (CoreAll.exec_all_mind fo sys prog true false V_exec V_list V_arms V_repeat V_while);
    unfold V_exec, V_list, V_arms, V_repeat, V_while; intros; views;
    try (econstructor; eauto; fail).
Qed.

(* the single-judgement forms *)
Theorem options_view : forall inc sup d pile cf n F f vs p sg F' f' vs' out ev,
  exec_list true false d pile cf n F f vs p sg F' f' vs' out ev ->
  exec_list inc sup d pile cf n F f vs p sg F' f' vs' (out_view inc out) (ev_view sup ev).
Proof. intros inc sup d pile cf n F f vs p sg F' f' vs' out ev H. exact (proj1 (proj2 options_view_all) _ _ _ _ _ _ _ _ _ _ _ _ _ _ H inc sup). Qed.

(* ... and conversely every run under any options IS such a view *)
Section Converse.
Variables inc sup : bool.

Definition W_exec d pile cf n F f vs s sg F' f' vs' out ev : Prop :=
  exists out0 ev0, exec true false d pile cf n F f vs s sg F' f' vs' out0 ev0 /\
                   out = out_view inc out0 /\ ev = ev_view sup ev0.
Definition W_list d pile cf n F f vs p sg F' f' vs' out ev : Prop :=
  exists out0 ev0, exec_list true false d pile cf n F f vs p sg F' f' vs' out0 ev0 /\
                   out = out_view inc out0 /\ ev = ev_view sup ev0.
Definition W_arms d pile cf first n F b vs arms els sg taken vs' out ev : Prop :=
  exists out0 ev0, exec_arms true false d pile cf first n F b vs arms els sg taken vs' out0 ev0 /\
                   out = out_view inc out0 /\ ev = ev_view sup ev0.
Definition W_repeat d pile cf n F f c e body k vs sg vs' out ev : Prop :=
  exists out0 ev0, exec_repeat true false d pile cf n F f c e body k vs sg vs' out0 ev0 /\
                   out = out_view inc out0 /\ ev = ev_view sup ev0.
Definition W_while d pile cf n F c e body k vs sg vs' out ev : Prop :=
  exists out0 ev0, exec_while true false d pile cf n F c e body k vs sg vs' out0 ev0 /\
                   out = out_view inc out0 /\ ev = ev_view sup ev0.

Ltac unpack :=
  repeat match goal with
         | H : exists _, _ |- _ => destruct H
         | H : _ /\ _ |- _ => destruct H
         end; subst.

Ltac fin C :=
  intros; unpack; do 2 eexists;
  split; [eapply C; first [eassumption | (split; eassumption)]|split; cbv iota; views; reflexivity].

Theorem options_source_all :
  (forall d pile cf n F f vs s sg F' f' vs' out ev,
     exec inc sup d pile cf n F f vs s sg F' f' vs' out ev -> W_exec d pile cf n F f vs s sg F' f' vs' out ev) /\
  (forall d pile cf n F f vs p sg F' f' vs' out ev,
     exec_list inc sup d pile cf n F f vs p sg F' f' vs' out ev -> W_list d pile cf n F f vs p sg F' f' vs' out ev) /\
  (forall d pile cf first n F b vs arms els sg taken vs' out ev,
     exec_arms inc sup d pile cf first n F b vs arms els sg taken vs' out ev ->
     W_arms d pile cf first n F b vs arms els sg taken vs' out ev) /\
  (forall d pile cf n F f c e body k vs sg vs' out ev,
     exec_repeat inc sup d pile cf n F f c e body k vs sg vs' out ev ->
     W_repeat d pile cf n F f c e body k vs sg vs' out ev) /\
  (forall d pile cf n F c e body k vs sg vs' out ev,
     exec_while inc sup d pile cf n F c e body k vs sg vs' out ev ->
     W_while d pile cf n F c e body k vs sg vs' out ev).
Proof.
  apply (CoreAll.exec_all_mind fo sys prog inc sup W_exec W_list W_arms W_repeat W_while);
    unfold W_exec, W_list, W_arms, W_repeat, W_while.
  - fin CoreAll.E_Emit.
  - fin CoreAll.E_EmitEval.
  - fin CoreAll.E_Var.
  - fin CoreAll.E_If.
  - fin CoreAll.E_Repeat.
  - fin CoreAll.E_While.
  - fin CoreAll.E_Break.
  - fin CoreAll.E_Continue.
  - fin CoreAll.E_Return.
  - fin CoreAll.E_Func.
  - fin CoreAll.E_Run.
  - fin CoreAll.E_Print.
  - fin CoreAll.E_PrintEval.
  - fin CoreAll.E_Rem.
  - fin CoreAll.E_Unknown.
  - fin CoreAll.E_Start.
  - fin CoreAll.L_Nil.
  - fin CoreAll.L_Cons.
  - fin CoreAll.L_Stop.
  - fin CoreAll.A_Take.
  - fin CoreAll.A_Skip.
  - fin CoreAll.A_Else.
  - fin CoreAll.A_None.
  - fin CoreAll.R_Done.
  - fin CoreAll.R_Iter.
  - fin CoreAll.R_Stop.
  - fin CoreAll.W_Done.
  - fin CoreAll.W_Iter.
  - fin CoreAll.W_Stop.
Qed.

End Converse.

Theorem options_source : forall inc sup d pile cf n F f vs p sg F' f' vs' out ev,
  exec_list inc sup d pile cf n F f vs p sg F' f' vs' out ev ->
  exists out0 ev0, exec_list true false d pile cf n F f vs p sg F' f' vs' out0 ev0 /\
                   out = out_view inc out0 /\ ev = ev_view sup ev0.
Proof. intros inc sup d pile cf n F f vs p sg F' f' vs' out ev H. exact (proj1 (proj2 (options_source_all inc sup)) _ _ _ _ _ _ _ _ _ _ _ _ _ _ H). Qed.

(* C15, as asked: comments on vs comments off (same suppression): the comments-off output is the
   comments-on output with the REM lines erased; state and events are the same *)
Theorem comments_erasure : forall sup d pile cf n F f vs p sg F' f' vs' out ev,
  exec_list true sup d pile cf n F f vs p sg F' f' vs' out ev ->
  exec_list false sup d pile cf n F f vs p sg F' f' vs' (filter is_code out) ev.
Proof.
  intros sup d pile cf n F f vs p sg F' f' vs' out ev H.
  destruct (options_source true sup _ _ _ _ _ _ _ _ _ _ _ _ _ _ H) as (out0 & ev0 & H0 & -> & ->).
  exact (options_view false sup _ _ _ _ _ _ _ _ _ _ _ _ _ _ H0).
Qed.

(* ... and every comments-off run is obtained so *)
Theorem comments_insertion : forall sup d pile cf n F f vs p sg F' f' vs' out ev,
  exec_list false sup d pile cf n F f vs p sg F' f' vs' out ev ->
  exists out1, exec_list true sup d pile cf n F f vs p sg F' f' vs' out1 ev /\ out = filter is_code out1.
Proof.
  intros sup d pile cf n F f vs p sg F' f' vs' out ev H.
  destruct (options_source false sup _ _ _ _ _ _ _ _ _ _ _ _ _ _ H) as (out0 & ev0 & H0 & -> & ->).
  exists out0. split; [|reflexivity]. exact (options_view true sup _ _ _ _ _ _ _ _ _ _ _ _ _ _ H0).
Qed.

(* suppression removes exactly the unknown-command warnings; nothing else changes *)
Theorem suppression_erasure : forall inc d pile cf n F f vs p sg F' f' vs' out ev,
  exec_list inc false d pile cf n F f vs p sg F' f' vs' out ev ->
  exec_list inc true d pile cf n F f vs p sg F' f' vs' out (filter (fun e => negb (is_unknown_ev e)) ev).
Proof.
  intros inc d pile cf n F f vs p sg F' f' vs' out ev H.
  destruct (options_source inc false _ _ _ _ _ _ _ _ _ _ _ _ _ _ H) as (out0 & ev0 & H0 & -> & ->).
  exact (options_view inc true _ _ _ _ _ _ _ _ _ _ _ _ _ _ H0).
Qed.

End Cor.
