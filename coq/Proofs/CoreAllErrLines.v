(* Companion of CoreAllLines.v for the ERROR judgement of Spec/CoreAllErr.v:
   - the relaxed well-formedness [uwfx] (the name of a VAR is any word) and its relation to [uwf];
   - one lemma per NEW way a line of a CoreAll program can fail in Stack.run (exec_cmds):
     $PRINT e, RUN (any error of run_compile), START family (missing file, live file, stack
     overflow, failure inside the imported file).
   The failing forms of the core lines ($NAME e, VAR, IF/ELIF conditions, REPEAT counts) are in
   Proofs/CoreErrLines.v: they talk about lines, not statements, and are reused as they are. *)
From Coq Require Import NArith ZArith List Bool Lia.
From DS Require Import Base PyStr Values Expr TabParse Tables Constants Interp IdentSpec IdentProofs.
From DS Require Import ScopeProofs LimitProofs ChainProofs LoopUnroll LoopBlock.
From DS Require Import PipelineProofs GroupProofs DollarForm NameChecks UnknownWarn RunProofs FuncProofs.
From DS Require Import FlatPipeline PrintLines ResolveSpec StartLaws StartLines ImportGraph GraphText.
From DS Require Import CoreLang CoreWf CoreLines CoreFunc CoreFuncLines CoreErr CoreErrLines CoreAll CoreAllLines CoreAllErr.
Import ListNotations.

Arguments IOk {A}. Arguments IErr {A}. Arguments ICrash {A}. Arguments IUnmod {A}.
Arguments s_g {fo}. Arguments s_env {fo}. Arguments s_line2 {fo}. Arguments mkSt {fo}.

(* ================================================================== relaxed well-formedness *)
Fixpoint uwfx (s : ustmt) : Prop :=
  match s with
  | UVar x e => var_word x /\ expr_ok e
  | UIf arms els =>
      arms <> [] /\
      all_list (fun cb : str * list ustmt => let (c, b) := cb in expr_ok c /\ b <> [] /\ all_list uwfx b) arms /\
      match els with Some b => b <> [] /\ all_list uwfx b | None => True end
  | URepeat c e b => CoreWf.counter_ok c /\ loop_expr_ok c e /\ b <> [] /\ all_list uwfx b
  | UWhile c e b => CoreWf.counter_ok c /\ loop_expr_ok c e /\ b <> [] /\ all_list uwfx b
  | UFunc name ps b => identb name = true /\ all_list (fun p => identb p = true) ps /\ b <> [] /\ all_list uwfx b
  | _ => uwf s
  end.

Definition uwfx_list (p : list ustmt) : Prop := all_list uwfx p.
Definition uwfx_arm (cb : str * list ustmt) : Prop := let (c, b) := cb in expr_ok c /\ b <> [] /\ uwfx_list b.
Definition uwfx_else (els : option (list ustmt)) : Prop :=
  match els with Some b => b <> [] /\ uwfx_list b | None => True end.

Lemma uwfx_if_unfold : forall arms els,
  uwfx (UIf arms els) <-> (arms <> [] /\ all_list uwfx_arm arms /\ uwfx_else els).
Proof. intros. reflexivity. Qed.

(* induction on statements, through the nested lists *)
Definition is_leaf (s : ustmt) : Prop :=
  match s with UIf _ _ | URepeat _ _ _ | UWhile _ _ _ | UFunc _ _ _ => False | _ => True end.

Section UStmtInd.
Variable P : ustmt -> Prop.
Hypothesis H_leaf : forall s, is_leaf s -> P s.
Hypothesis H_if : forall arms els,
  all_list (fun cb : str * list ustmt => all_list P (snd cb)) arms ->
  match els with Some b => all_list P b | None => True end -> P (UIf arms els).
Hypothesis H_repeat : forall c e b, all_list P b -> P (URepeat c e b).
Hypothesis H_while : forall c e b, all_list P b -> P (UWhile c e b).
Hypothesis H_func : forall name ps b, all_list P b -> P (UFunc name ps b).

Fixpoint ustmt_ind2 (s : ustmt) : P s :=
  let go_list := fix go (l : list ustmt) : all_list P l :=
    match l with [] => I | x :: r => conj (ustmt_ind2 x) (go r) end in
  match s with
  | UIf arms els =>
      H_if arms els
        ((fix go_arms (l : list (str * list ustmt)) : all_list (fun cb => all_list P (snd cb)) l :=
            match l with [] => I | (c, b) :: r => conj (go_list b) (go_arms r) end) arms)
        (match els with Some b => go_list b | None => I end)
  | URepeat c e b => H_repeat c e b (go_list b)
  | UWhile c e b => H_while c e b (go_list b)
  | UFunc name ps b => H_func name ps b (go_list b)
  | UEmit a b => H_leaf (UEmit a b) I
  | UEmitEval a b => H_leaf (UEmitEval a b) I
  | UVar a b => H_leaf (UVar a b) I
  | UBreakLoop => H_leaf UBreakLoop I
  | UContinueLoop => H_leaf UContinueLoop I
  | URun a b => H_leaf (URun a b) I
  | UReturn => H_leaf UReturn I
  | UPrint a => H_leaf (UPrint a) I
  | UPrintEval a => H_leaf (UPrintEval a) I
  | URem a => H_leaf (URem a) I
  | UUnknown a b => H_leaf (UUnknown a b) I
  | UStart a b => H_leaf (UStart a b) I
  end.
End UStmtInd.

(* strict = relaxed + names *)
Lemma uwf_of_uwfx : forall s, uwfx s -> unames_ok s -> uwf s.
Proof.
  apply (ustmt_ind2 (fun s => uwfx s -> unames_ok s -> uwf s)).
  - intros s Hl Hw Hn. destruct s; try contradiction; try exact Hw.
    destruct Hw as [_ He]. split; [exact Hn|exact He].
  - intros arms els IHa IHe Hw Hn.
    apply uwfx_if_unfold in Hw. destruct Hw as (Hne & Hwa & Hwe). cbn [unames_ok] in Hn. destruct Hn as [Hna Hne'].
    apply uwf_if_unfold. split; [exact Hne|]. split.
    + clear Hne IHe Hwe Hne'. induction arms as [|[c b] r IH]; [exact I|].
      destruct IHa as [IHb IHr]. destruct Hwa as [(Hc & Hb & Hwb) Hwr]. destruct Hna as [Hnb Hnr].
      split; [|exact (IH IHr Hwr Hnr)]. split; [exact Hc|]. split; [exact Hb|].
      exact (all_list_impl2 _ _ _ _ b IHb Hwb Hnb).
    + destruct els as [b|]; [|exact I]. destruct Hwe as [Hb Hwb]. split; [exact Hb|].
      exact (all_list_impl2 _ _ _ _ b IHe Hwb Hne').
  - intros c e b IHb (Hc & He & Hb & Hwb) Hn. cbn [unames_ok] in Hn.
    split; [exact Hc|]. split; [exact He|]. split; [exact Hb|]. exact (all_list_impl2 _ _ _ _ b IHb Hwb Hn).
  - intros c e b IHb (Hc & He & Hb & Hwb) Hn. cbn [unames_ok] in Hn.
    split; [exact Hc|]. split; [exact He|]. split; [exact Hb|]. exact (all_list_impl2 _ _ _ _ b IHb Hwb Hn).
  - intros name ps b IHb (Hc & He & Hb & Hwb) Hn. cbn [unames_ok] in Hn.
    split; [exact Hc|]. split; [exact He|]. split; [exact Hb|]. exact (all_list_impl2 _ _ _ _ b IHb Hwb Hn).
Qed.

Lemma uwf_list_of_uwfx : forall p, uwfx_list p -> unames_ok_list p -> uwf_list p.
Proof.
  induction p as [|s r IH]; intros Hw Hn; [exact I|].
  destruct Hw as [Hs Hr]. destruct Hn as [Hns Hnr]. split; [apply uwf_of_uwfx; assumption|apply IH; assumption].
Qed.

Lemma uwfx_of_uwf : forall s, uwf s -> uwfx s.
Proof.
  apply (ustmt_ind2 (fun s => uwf s -> uwfx s)).
  - intros s Hl Hw. destruct s; try contradiction; try exact Hw.
    destruct Hw as [Hx He]. split; [apply ident_var_word; exact Hx|exact He].
  - intros arms els IHa IHe Hw.
    apply uwf_if_unfold in Hw. destruct Hw as (Hne & Hwa & Hwe).
    apply uwfx_if_unfold. split; [exact Hne|]. split.
    + clear Hne IHe Hwe. induction arms as [|[c b] r IH]; [exact I|].
      destruct IHa as [IHb IHr]. destruct Hwa as [(Hc & Hb & Hwb) Hwr].
      split; [|exact (IH IHr Hwr)]. split; [exact Hc|]. split; [exact Hb|].
      exact (all_list_impl1 _ _ _ b IHb Hwb).
    + destruct els as [b|]; [|exact I]. destruct Hwe as [Hb Hwb]. split; [exact Hb|].
      exact (all_list_impl1 _ _ _ b IHe Hwb).
  - intros c e b IHb (Hc & He & Hb & Hwb).
    split; [exact Hc|]. split; [exact He|]. split; [exact Hb|]. exact (all_list_impl1 _ _ _ b IHb Hwb).
  - intros c e b IHb (Hc & He & Hb & Hwb).
    split; [exact Hc|]. split; [exact He|]. split; [exact Hb|]. exact (all_list_impl1 _ _ _ b IHb Hwb).
  - intros name ps b IHb (Hc & He & Hb & Hwb).
    split; [exact Hc|]. split; [exact He|]. split; [exact Hb|]. exact (all_list_impl1 _ _ _ b IHb Hwb).
Qed.

Lemma uwfx_list_of_uwf : forall p, uwf_list p -> uwfx_list p.
Proof.
  induction p as [|s r IH]; intros Hw; [exact I|].
  destruct Hw as [Hs Hr]. split; [apply uwfx_of_uwf; exact Hs|apply IH; exact Hr].
Qed.

Lemma unames_ok_of_uwf : forall s, uwf s -> unames_ok s.
Proof.
  apply (ustmt_ind2 (fun s => uwf s -> unames_ok s)).
  - intros s Hl Hw. destruct s; try contradiction; try exact I. destruct Hw as [Hx _]. exact Hx.
  - intros arms els IHa IHe Hw.
    apply uwf_if_unfold in Hw. destruct Hw as (Hne & Hwa & Hwe). cbn [unames_ok]. split.
    + clear Hne IHe Hwe. induction arms as [|[c b] r IH]; [exact I|].
      destruct IHa as [IHb IHr]. destruct Hwa as [(Hc & Hb & Hwb) Hwr].
      split; [|exact (IH IHr Hwr)]. exact (all_list_impl1 _ _ _ b IHb Hwb).
    + destruct els as [b|]; [|exact I]. destruct Hwe as [Hb Hwb]. exact (all_list_impl1 _ _ _ b IHe Hwb).
  - intros c e b IHb (Hc & He & Hb & Hwb). exact (all_list_impl1 _ _ _ b IHb Hwb).
  - intros c e b IHb (Hc & He & Hb & Hwb). exact (all_list_impl1 _ _ _ b IHb Hwb).
  - intros name ps b IHb (Hc & He & Hb & Hwb). exact (all_list_impl1 _ _ _ b IHb Hwb).
Qed.

Lemma unames_ok_list_of_uwf : forall p, uwf_list p -> unames_ok_list p.
Proof.
  induction p as [|s r IH]; intros Hw; [exact I|].
  destruct Hw as [Hs Hr]. split; [apply unames_ok_of_uwf; exact Hs|apply IH; exact Hr].
Qed.

Lemma uwf_iff_uwfx_names : forall s, uwf s <-> (uwfx s /\ unames_ok s).
Proof.
  intro s. split.
  - intro H. split; [exact (uwfx_of_uwf s H)|exact (unames_ok_of_uwf s H)].
  - intros [H1 H2]. exact (uwf_of_uwfx s H1 H2).
Qed.

(* ================================================================== failing lines in Stack.run *)
Section ErrLines.
Variable fo : FloatOps.
Variable child : runner fo.
Variable cx : ctx.

Notation exec_cmds := (exec_cmds fo child cx).
Notation clear_line2 := (clear_line2 fo).
Notation st := (st fo).

(* ---- $PRINT e, e does not evaluate *)
Lemma dollar_print_error : forall cur tg n expr (s : st) er,
  expr <> [] ->
  tokenize fo (all_vars fo (s_env s)) (strip expr) = Err er ->
  simple_compile fo child cx cur print_cname tg print_sc (dollar_c :: kw_PRINT) n (Some expr) None s =
  (mkSt (s_g s) (s_env s) (Some cur), IErr er (Some (here cx cur (Some cur)))).
Proof.
  intros cur tg n expr s er Hne Hv.
  unfold simple_compile, check_flipper, print_sc.
  cbn [s_flipper_only s_tokenize_args s_strip_args s_arg_type s_arg_req s_verify_args s_params s_verify_arg s_format_arg s_run andb orb].
  change (upper (dollar_c :: kw_PRINT)) with (dollar_c :: kw_PRINT). unfold dollar_c at 1 2. cbv iota. cbn [tl].
  unfold listify_args. destruct expr as [|e0 er0]; [contradiction|].
  set (expr := e0 :: er0) in *.
  unfold bindM at 1. unfold ret at 1.
  unfold bindM at 1. unfold ret at 1. cbv beta iota.
  cbn [map strip_line l_content l_num l_orig evaluate_args].
  unfold tokenizeM, get_env, set_line2, lift, bindM, ret, raise.
  cbn [l_content content_text l_orig Interp.s_env Interp.s_g Interp.s_line2].
  rewrite Hv. reflexivity.
Qed.

Lemma print_eval_line_err : forall e n rest acc s er,
  expr_ok e -> head_ok rest ->
  tokenize fo (all_vars fo (s_env s)) e = Err er ->
  exec_cmds (Ln (print_eval_head e) n :: rest) acc s =
  (at_line fo (print_eval_head e, n) s,
   IErr er (Some (here cx (print_eval_head e, n) (Some (print_eval_head e, n))))).
Proof.
  intros e n rest acc s er He Hh Hv.
  pose proof (expr_ok_split (dollar_c :: kw_PRINT) e ltac:(discriminate) no_ws_dollar_PRINT He) as Hsp.
  change ((dollar_c :: kw_PRINT) ++ sp :: e) with (print_eval_head e) in Hsp.
  rewrite simple_line_step; [|apply is_blank_split; rewrite Hsp; discriminate|exact Hh].
  unfold bindM.
  rewrite (exec_line_simple fo child cx _ n None (dollar_c :: kw_PRINT) [e] print_cname print_sc _ Hsp find_dollar_print
             ltac:(discriminate)).
  cbv iota.
  destruct He as (Hne & Hl & Hr).
  assert (Hs : strip e = e) by (unfold strip; rewrite Hl; exact Hr).
  pose proof (dollar_print_error (print_eval_head e, n) (ByCommand print_cname) n e (clear_line2 s) er Hne) as HH.
  unfold str in HH |- *. rewrite HH; clear HH.
  - reflexivity.
  - unfold str in Hs. rewrite Hs. exact Hv.
Qed.

(* ---- RUN name args: whatever error run_compile returns is the error of the line *)
Lemma run_line_err : forall name args n rest acc s s' e t,
  let c := run_head name args in
  identb name = true -> (args = [] \/ expr_ok (comma_list args)) -> head_ok rest ->
  (forall cname sc, s_run sc = RKRun ->
     run_compile fo child cx (c, n) cname sc kw_RUN (Some (mkLine (AStr (strip (name_args name args))) n (c, n)))
                 (mkSt (s_g s) (s_env s) (Some (c, n))) = (s', IErr e t)) ->
  exec_cmds (Ln c n :: rest) acc s = (s', IErr e t).
Proof.
  intros name args n rest acc s s' e t c Hn Ha Hh Hrun.
  destruct (run_line_facts name args n rest Hn Ha Hh) as (Hb & Hs & Hne & Hp & Hbr).
  fold (run_head name args) in Hb, Hs. fold c in Hb, Hs.
  destruct (find_run kw_RUN eq_refl eq_refl) as (cname & sc & Hf & Hdc & Hr).
  cbn [Interp.exec_cmds]. rewrite Hb. unfold block_after in Hp. rewrite Hp.
  unfold bindM at 1. unfold set_line2 at 1. unfold bindM at 1.
  unfold exec_line. rewrite Hs, Hf.
  assert (Hst : is_start_class (Simple sc) = false) by (cbn [is_start_class]; rewrite Hr; reflexivity).
  rewrite Hst. cbn [andb]. cbv beta iota zeta.
  rewrite (direct_one_arg fo child cx (c, n) cname (ByCommand cname) sc kw_RUN n (name_args name args) _ Hdc
             (starts_dollar_no_dollar kw_RUN eq_refl) Hne).
  cbn [Interp.s_g Interp.s_env].
  pose proof (Hrun cname sc Hr) as E. rew_conv E. reflexivity.
Qed.

(* ---- START / STARTCODE / STARTENV name: whatever error run_compile returns is the error of the line *)
Lemma start_line_err : forall k m n rest acc s s' e t,
  let c := start_head k m in
  name_ok m = true -> head_ok rest -> c_file cx <> None ->
  (forall cname sc, s_run sc = RKStart ->
     run_compile fo child cx (c, n) cname sc (kind_word k) (Some (mkLine (AStr m) n (c, n)))
                 (mkSt (s_g s) (s_env s) (Some (c, n))) = (s', IErr e t)) ->
  exec_cmds (Ln c n :: rest) acc s = (s', IErr e t).
Proof.
  intros k m n rest acc s s' e t c Hm Hh Hfile Hrun.
  assert (Hsl : start_line cx c (kind_word k) m [83;116;97;114;116]%N start_cls).
  { unfold c. rewrite start_head_edge, kind_word_word. apply edge_start_line; [exact Hm|exact Hfile]. }
  assert (Hb : is_blank c = false) by (unfold c; rewrite start_head_edge; apply edge_not_blank).
  cbn [Interp.exec_cmds]. rewrite Hb.
  assert (Hcb : match rest with Blk b :: _ => Some b | _ => None end = None).
  { destruct rest as [|[c' n'|b] r]; try reflexivity. contradiction. }
  rewrite Hcb. unfold bindM at 1, set_line2 at 1. unfold bindM at 1.
  rewrite (start_line_exec fo child cx c n (kind_word k) m _ _ (mkSt (s_g s) (s_env s) None) Hsl).
  unfold bindM. cbn [Interp.s_g Interp.s_env]. rewrite (name_strip m Hm).
  pose proof (Hrun [83;116;97;114;116]%N start_cls (sl_run _ _ _ _ _ _ Hsl)) as E. rew_conv E. reflexivity.
Qed.

(* run_compile of the START class: the file does not exist *)
Lemma start_missing : forall cur cname sc name l file target s,
  s_run sc = RKStart -> c_file cx = Some file ->
  resolve_start file (content_text (l_content l)) = Ok target ->
  c_fs cx target = None ->
  run_compile fo child cx cur cname sc name (Some l) s = (s, IErr EInvalidArguments (Some (here cx cur (s_line2 s)))).
Proof.
  intros cur cname sc name l file target s Hr Hf Hres Hfs.
  unfold run_compile. rewrite Hr, Hf, Hres. cbn [lift]. unfold bindM at 1, ret at 1. rewrite Hfs. reflexivity.
Qed.

(* ... the file has a running stack *)
Lemma start_circular : forall cur cname sc name l file target text s,
  s_run sc = RKStart -> c_file cx = Some file ->
  resolve_start file (content_text (l_content l)) = Ok target ->
  c_fs cx target = Some text -> circ cx target = true ->
  run_compile fo child cx cur cname sc name (Some l) s = (s, IErr ECircular (Some (here cx cur (s_line2 s)))).
Proof.
  intros cur cname sc name l file target text s Hr Hf Hres Hfs Hc.
  unfold run_compile. rewrite Hr, Hf, Hres. cbn [lift]. unfold bindM at 1, ret at 1.
  rewrite Hfs, circ_test_eq, Hc. reflexivity.
Qed.

End ErrLines.
