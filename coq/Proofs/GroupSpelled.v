(* C04 (scanner part, extended vocabulary): the scanner recovers exactly the spelled tokens of a flat
   list of values, operators and parenthesised groups, for every whitespace layout -- the theorem
   [scan_spelled_ident] of Proofs/ScanSpelled.v with the group token added. *)
From Coq Require Import NArith ZArith List Bool Arith Lia.
From DS Require Import Base Unicode PyStr Values Tables Constants Expr ExprSafety ExprFuel ExprTotal
  ExprAst TreeProofs Spelling ScanRun ScanTokens ScanSpelled ExprLang GroupToken ExprPrint.
Import ListNotations.

Section WithFloats.
Variable fo : FloatOps.
Notation ptok := (ptok fo).
Notation vars_t := (vars_t fo).
Notation TS := (TS fo).
Notation leads := (leads fo).
Notation reaches := (reaches fo).

Variable vars : vars_t.
Hypothesis Hvi : vars_ident fo vars.

Lemma follows_value_nil_ws : forall w, forallb isspace_c w = true -> follows_value w.
Proof. intros w H. rewrite <- (app_nil_r w). apply follows_value_ws; [exact H|exact I]. Qed.

(* what the token before sees *)
Lemma gspell_follows : forall ts lay op,
  galt_from op ts -> Forall (gtok_ok fo vars) ts -> layout_ok lay ->
  if op then follows_value (gspell lay ts) else follows_op (gspell lay ts).
Proof.
  intros ts lay op Ha Hw Hl. pose proof (layout_hd lay Hl) as Hws.
  destruct ts as [|t ts]; cbn [gspell galt_from] in *.
  - subst op. apply follows_value_nil_ws. exact Hws.
  - destruct Ha as [Hop _]. inversion Hw as [|x l Ht _]; subst x l.
    destruct t as [t|inner neg]; cbn [is_gop spell_gtok gtok_ok] in *.
    + destruct Ht as [Ht _]. destruct t as [ds|ds|bd|b|name|oc sym]; cbn [is_sop] in Hop; subst op;
        try (apply follows_op_ws; [exact Hws|]; apply (follows_op_tok fo vars); [exact Ht|reflexivity]).
      apply follows_value_ws; [exact Hws|]. apply (follows_value_op fo vars oc sym). exact Ht.
    + subst op. apply follows_op_ws; [exact Hws|]. unfold spell_group.
      destruct neg; cbn; split; reflexivity.
Qed.

Lemma gspelled_run : forall toks lay op out,
  galt_from op toks -> Forall (gtok_ok fo vars) toks -> layout_ok lay ->
  Nat.even (length out) = negb op ->
  reaches vars (TS (gspell lay toks) op out) (Ok (rev out ++ map (gptok_of fo vars) toks)).
Proof.
  induction toks as [|t ts IH]; intros lay op out Ha Hw Hl Hpar.
  - cbn [galt_from] in Ha. subst op. cbn [gspell map]. rewrite app_nil_r.
    rewrite <- (app_nil_r (hd [] lay)).
    apply (ws_run fo vars (hd [] lay) [] true out (layout_hd lay Hl)).
    apply reaches_end. exact Hpar.
  - cbn [galt_from] in Ha. destruct Ha as [Hop Ha].
    inversion Hw as [|x l Ht Hw']; subst x l.
    cbn [gspell map].
    apply (ws_run fo vars (hd [] lay) _ op out (layout_hd lay Hl)).
    set (rest := gspell (tl lay) ts) in *.
    pose proof (gspell_follows ts (tl lay) (negb op) Ha Hw' (layout_tl lay Hl)) as Hhead.
    fold rest in Hhead.
    assert (Hnext : reaches vars (TS rest (negb op) (gptok_of fo vars t :: out))
                      (Ok (rev out ++ gptok_of fo vars t :: map (gptok_of fo vars) ts))).
    { replace (rev out ++ gptok_of fo vars t :: map (gptok_of fo vars) ts)
        with (rev (gptok_of fo vars t :: out) ++ map (gptok_of fo vars) ts)
        by (cbn [rev]; rewrite <- app_assoc; reflexivity).
      apply IH; auto using layout_tl.
      cbn [length]. rewrite Nat.even_succ, <- Nat.negb_even, Hpar. reflexivity. }
    revert Hnext.
    destruct t as [t|inner neg]; cbn [is_gop spell_gtok gtok_ok gptok_of] in *.
    + destruct Ht as [Ht Hst]. destruct (is_sop t) eqn:Hs; subst op; cbn [negb] in *.
      * destruct t as [ds|ds|bd|b|name|oc sym]; try discriminate Hs.
        cbn [spell_tok Spelling.ptok_of]. apply (op_token_follow fo vars); [exact Ht|exact Hhead].
      * apply (atom_token fo vars Hvi); assumption.
    + subst op. cbn [negb] in *. apply (group_token_ident fo vars inner neg rest out Hvi Ht).
Qed.

(* scanner correctness for the extended vocabulary: any layout, any balanced inner texts *)
Theorem scan_gspelled : forall lay toks,
  galternating toks -> Forall (gtok_ok fo vars) toks -> layout_ok lay ->
  convert_string fo vars (gspell lay toks) = Ok (map (gptok_of fo vars) toks).
Proof.
  intros lay toks Ha Hw Hl. apply reaches_convert.
  apply (gspelled_run toks lay false [] Ha Hw Hl). reflexivity.
Qed.

End WithFloats.
