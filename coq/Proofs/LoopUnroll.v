(* C06 -- REPEAT / WHILE unrolled: the fuel-indexed loops of the model are equal to explicit
   recursive specifications that run the body once per iteration, in order, with the counter
   bound to 0, 1, 2, ...; BREAK stops the loop (signal absorbed), CONTINUE only the iteration,
   RETURN stops the loop and is handed on; everything emitted before the stop is kept. *)
From Coq Require Import NArith ZArith List Bool Lia.
From DS Require Import Base PyStr Values Expr TabParse Tables Constants Interp ScopeProofs LimitProofs.
Import ListNotations.

Section Unroll.
Variable fo : FloatOps.
Variable child : runner fo.
Variable cx : ctx.
Variable cur : preline.

Notation st := (st fo).
Notation run_child := (run_child fo child cx cur).
Notation run_child_with := (run_child_with fo child cx cur).
Notation repeat_loop := (repeat_loop fo child cx cur).
Notation while_loop := (while_loop fo child cx cur).
Notation tokenize_count := (tokenize_count fo cx cur).
Notation bind_counter := (bind_counter fo).

(* ================================================================== REPEAT *)

(* [remaining] iterations are still to run, the next one with counter value [count] *)
Fixpoint repeat_spec (remaining : nat) (var_name : option str) (code : list item)
         (count : Z) (acc : cret) : M fo cret :=
  match remaining with
  | O => ret fo acc
  | S r =>
      bindM fo (run_child code (c_file cx) false (bind_counter var_name count))
        (fun cr =>
           let '(sg, brk) := loop_signal (cr_sig cr) in
           let acc' := mkCret (cr_data acc ++ cr_data cr) sg in
           if brk then ret fo acc' else repeat_spec r var_name code (count + 1)%Z acc')
  end.

(* the general unrolling: [P k s] describes the states in which iteration k may start (and, for
   k = n, the state in which the loop ends); in each of them the count expression evaluates to n
   and leaves the state alone *)
Lemma repeat_loop_unroll_inv :
  forall (P : Z -> st -> Prop) var_name argument code n,
  (forall k s, (0 <= k <= n)%Z -> P k s -> tokenize_count argument s = (s, IOk _ n)) ->
  (forall k s s' cr, (0 <= k < n)%Z -> P k s ->
     run_child code (c_file cx) false (bind_counter var_name k) s = (s', IOk _ cr) ->
     snd (loop_signal (cr_sig cr)) = false -> P (k + 1)%Z s') ->
  forall fuel count acc s,
  (0 <= count <= n)%Z -> P count s -> (n - count <= Z.of_nat fuel)%Z ->
  repeat_loop fuel var_name argument code count acc s =
  repeat_spec (Z.to_nat (n - count)) var_name code count acc s.
Proof.
  intros P var_name argument code n Htc Hpres fuel.
  induction fuel as [|f IH]; intros count acc s Hc HP Hf.
  - cbn [Interp.repeat_loop]. unfold bindM at 1. rewrite (Htc count s Hc HP).
    destruct (count <? n)%Z eqn:E.
    + apply Z.ltb_lt in E. lia.
    + apply Z.ltb_ge in E. replace (Z.to_nat (n - count)) with 0%nat by lia. reflexivity.
  - cbn [Interp.repeat_loop]. unfold bindM at 1. rewrite (Htc count s Hc HP).
    destruct (count <? n)%Z eqn:E.
    + apply Z.ltb_lt in E.
      replace (Z.to_nat (n - count)) with (S (Z.to_nat (n - (count + 1)))) by lia.
      cbn [repeat_spec]. apply bindM_ext. intros cr s2 Hrc.
      destruct (loop_signal (cr_sig cr)) as [sg brk] eqn:Els. destruct brk; [reflexivity|].
      apply IH.
      * lia.
      * apply (Hpres count s s2 cr); [lia|exact HP|exact Hrc|rewrite Els; reflexivity].
      * lia.
    + apply Z.ltb_ge in E. replace (Z.to_nat (n - count)) with 0%nat by lia. reflexivity.
Qed.

(* REPEAT as block_compile calls it: counter from 0, [loop_fuel] (or more) fuel *)
Theorem repeat_unroll_lemma :
  forall (P : Z -> st -> Prop) var_name argument code n,
  (forall k s, (0 <= k <= n)%Z -> P k s -> tokenize_count argument s = (s, IOk _ n)) ->
  (forall k s s' cr, (0 <= k < n)%Z -> P k s ->
     run_child code (c_file cx) false (bind_counter var_name k) s = (s', IOk _ cr) ->
     snd (loop_signal (cr_sig cr)) = false -> P (k + 1)%Z s') ->
  forall extra acc s, (0 <= n)%Z -> P 0%Z s ->
  repeat_loop (loop_fuel + extra) var_name argument code 0 acc s =
  repeat_spec (Z.to_nat n) var_name code 0 acc s.
Proof.
  intros P var_name argument code n Htc Hpres extra acc s H0 HP.
  rewrite repeat_loop_fuel_irrelevant_lemma.
  assert (Hn : (0 <= n <= 20000)%Z).
  { pose proof (Htc 0%Z s (conj (Z.le_refl 0) H0) HP) as Ht.
    apply tokenize_count_range in Ht. exact Ht. }
  rewrite (repeat_loop_unroll_inv P var_name argument code n Htc Hpres loop_fuel 0%Z acc s).
  - rewrite Z.sub_0_r. reflexivity.
  - lia.
  - exact HP.
  - rewrite loop_fuel_value. lia.
Qed.

(* the simplest instance: a count expression that evaluates to n in every state *)
Corollary repeat_unroll_const_lemma :
  forall var_name argument code n,
  (forall s, tokenize_count argument s = (s, IOk _ n)) ->
  forall extra acc s,
  repeat_loop (loop_fuel + extra) var_name argument code 0 acc s =
  repeat_spec (Z.to_nat n) var_name code 0 acc s.
Proof.
  intros var_name argument code n Htc extra acc s.
  assert (H0 : (0 <= n)%Z) by (pose proof (tokenize_count_range fo cx cur argument s s n (Htc s)); lia).
  apply (repeat_unroll_lemma (fun _ _ => True) var_name argument code n); auto.
Qed.

(* ---- what repeat_spec does along an execution: [sts k] is the state in which iteration k
        starts, [crs k] the result of its body *)
Definition outputs (crs : nat -> cret) (m : nat) : list oline :=
  concat (map (fun k => cr_data (crs k)) (seq 0 m)).

Lemma outputs_S_shift : forall crs m,
  outputs crs (S m) = cr_data (crs 0%nat) ++ outputs (fun k => crs (S k)) m.
Proof.
  intros crs m. unfold outputs. cbn [seq map concat]. f_equal.
  rewrite <- seq_shift, map_map. reflexivity.
Qed.

Lemma outputs_S : forall crs m, outputs crs (S m) = outputs crs m ++ cr_data (crs m).
Proof.
  intros crs m. unfold outputs. rewrite seq_S, map_app, concat_app. cbn [map concat plus].
  rewrite app_nil_r. reflexivity.
Qed.

(* no iteration stops the loop: all m bodies run, outputs concatenated in order *)
Lemma repeat_spec_all : forall m var_name code (sts : nat -> st) (crs : nat -> cret) count acc,
  (forall k, (k < m)%nat ->
     run_child code (c_file cx) false (bind_counter var_name (count + Z.of_nat k)%Z) (sts k)
     = (sts (S k), IOk _ (crs k))) ->
  (forall k, (k < m)%nat -> snd (loop_signal (cr_sig (crs k))) = false) ->
  repeat_spec m var_name code count acc (sts 0%nat) =
  (sts m, IOk _ (mkCret (cr_data acc ++ outputs crs m)
                        (match m with O => cr_sig acc | S _ => SNormal end))).
Proof.
  induction m as [|m IH]; intros var_name code sts crs count acc Hrun Hsig.
  - cbn [repeat_spec]. unfold ret, outputs. cbn [seq map concat]. rewrite app_nil_r.
    destruct acc; reflexivity.
  - cbn [repeat_spec]. unfold bindM at 1.
    pose proof (Hrun 0%nat (Nat.lt_0_succ m)) as H0. cbn [Z.of_nat] in H0. rewrite Z.add_0_r in H0.
    rewrite H0.
    pose proof (Hsig 0%nat (Nat.lt_0_succ m)) as Hs0.
    pose proof (loop_signal_continues _ Hs0) as Hn0.
    destruct (loop_signal (cr_sig (crs 0%nat))) as [sg brk]. cbn [fst snd] in Hs0, Hn0. subst sg brk.
    rewrite (IH var_name code (fun k => sts (S k)) (fun k => crs (S k)) (count + 1)%Z).
    + cbn [cr_data cr_sig]. rewrite outputs_S_shift, app_assoc. destruct m; reflexivity.
    + intros k Hk. replace (count + 1 + Z.of_nat k)%Z with (count + Z.of_nat (S k))%Z by lia.
      apply Hrun. lia.
    + intros k Hk. apply Hsig. lia.
Qed.

(* iteration j is the first to stop the loop (BREAK or RETURN): iterations 0..j ran, the output
   of all of them -- the stopping one included -- is kept, later iterations do not run *)
Lemma repeat_spec_stop : forall j m var_name code (sts : nat -> st) (crs : nat -> cret) count acc,
  (j < m)%nat ->
  (forall k, (k <= j)%nat ->
     run_child code (c_file cx) false (bind_counter var_name (count + Z.of_nat k)%Z) (sts k)
     = (sts (S k), IOk _ (crs k))) ->
  (forall k, (k < j)%nat -> snd (loop_signal (cr_sig (crs k))) = false) ->
  snd (loop_signal (cr_sig (crs j))) = true ->
  repeat_spec m var_name code count acc (sts 0%nat) =
  (sts (S j), IOk _ (mkCret (cr_data acc ++ outputs crs (S j)) (fst (loop_signal (cr_sig (crs j)))))).
Proof.
  induction j as [|j IH]; intros m var_name code sts crs count acc Hjm Hrun Hsig Hstop;
    (destruct m as [|m]; [lia|]); cbn [repeat_spec]; unfold bindM at 1;
    pose proof (Hrun 0%nat (Nat.le_0_l _)) as H0; cbn [Z.of_nat] in H0; rewrite Z.add_0_r in H0;
    rewrite H0.
  - destruct (loop_signal (cr_sig (crs 0%nat))) as [sg brk]. cbn [fst snd] in *. subst brk.
    unfold ret, outputs. cbn [seq map concat]. rewrite app_nil_r. reflexivity.
  - pose proof (Hsig 0%nat (Nat.lt_0_succ j)) as Hs0.
    pose proof (loop_signal_continues _ Hs0) as Hn0.
    destruct (loop_signal (cr_sig (crs 0%nat))) as [sg brk]. cbn [fst snd] in Hs0, Hn0. subst sg brk.
    rewrite (IH m var_name code (fun k => sts (S k)) (fun k => crs (S k)) (count + 1)%Z).
    + cbn [cr_data cr_sig]. rewrite (outputs_S_shift crs (S j)), app_assoc. reflexivity.
    + lia.
    + intros k Hk. replace (count + 1 + Z.of_nat k)%Z with (count + Z.of_nat (S k))%Z by lia.
      apply Hrun. lia.
    + intros k Hk. apply Hsig. lia.
    + exact Hstop.
Qed.

(* ---- REPEAT n, end to end, along an execution.  [sts k] (k <= n) are the states reached;
        in each of them the count expression evaluates to n. *)
Section RepeatRun.
Variables (var_name : option str) (argument : str) (code : list item) (n : nat).
Variables (sts : nat -> st) (crs : nat -> cret).
Hypothesis Hcount : forall k, (k <= n)%nat -> tokenize_count argument (sts k) = (sts k, IOk _ (Z.of_nat n)).

(* all n iterations run to their end (Normal or CONTINUE): the outputs of the n runs of the body,
   in order, and the loop ends normally *)
Theorem repeat_all_iterations_lemma :
  (forall k, (k < n)%nat ->
     run_child code (c_file cx) false (bind_counter var_name (Z.of_nat k)) (sts k)
     = (sts (S k), IOk _ (crs k))) ->
  (forall k, (k < n)%nat -> cr_sig (crs k) = SNormal \/ cr_sig (crs k) = SContinue) ->
  forall extra acc, cr_sig acc = SNormal ->
  repeat_loop (loop_fuel + extra) var_name argument code 0 acc (sts 0%nat) =
  (sts n, IOk _ (mkCret (cr_data acc ++ outputs crs n) SNormal)).
Proof.
  intros Hrun Hsig extra acc Hacc.
  rewrite (repeat_unroll_lemma (fun k s => exists i, k = Z.of_nat i /\ s = sts i)
             var_name argument code (Z.of_nat n)).
  - rewrite Nat2Z.id.
    rewrite (repeat_spec_all n var_name code sts crs 0%Z acc).
    + rewrite Hacc. destruct n; reflexivity.
    + intros k Hk. cbn [Z.add]. apply Hrun. exact Hk.
    + intros k Hk. destruct (Hsig k Hk) as [E|E]; rewrite E; reflexivity.
  - intros k s Hk [i [-> ->]]. apply Hcount. lia.
  - intros k s s' cr Hk [i [-> ->]] Hr _. exists (S i). split; [lia|].
    rewrite Hrun in Hr by lia. injection Hr as <- _. reflexivity.
  - lia.
  - exists 0%nat. split; reflexivity.
Qed.

(* iteration j is the first that ends in BREAK or RETURN *)
Theorem repeat_stops_at_lemma : forall j, (j < n)%nat ->
  (forall k, (k <= j)%nat ->
     run_child code (c_file cx) false (bind_counter var_name (Z.of_nat k)) (sts k)
     = (sts (S k), IOk _ (crs k))) ->
  (forall k, (k < j)%nat -> cr_sig (crs k) = SNormal \/ cr_sig (crs k) = SContinue) ->
  (cr_sig (crs j) = SBreak \/ cr_sig (crs j) = SReturn) ->
  forall extra acc,
  repeat_loop (loop_fuel + extra) var_name argument code 0 acc (sts 0%nat) =
  (sts (S j), IOk _ (mkCret (cr_data acc ++ outputs crs (S j))
                            (match cr_sig (crs j) with SReturn => SReturn | _ => SNormal end))).
Proof.
  intros j Hj Hrun Hsig Hstop extra acc.
  rewrite (repeat_unroll_lemma (fun k s => exists i, k = Z.of_nat i /\ (i <= j)%nat /\ s = sts i)
             var_name argument code (Z.of_nat n)).
  - rewrite Nat2Z.id.
    rewrite (repeat_spec_stop j n var_name code sts crs 0%Z acc Hj).
    + destruct Hstop as [E|E]; rewrite E; reflexivity.
    + intros k Hk. cbn [Z.add]. apply Hrun. exact Hk.
    + intros k Hk. destruct (Hsig k Hk) as [E|E]; rewrite E; reflexivity.
    + destruct Hstop as [E|E]; rewrite E; reflexivity.
  - intros k s Hk [i [-> [Hi ->]]]. apply Hcount. lia.
  - intros k s s' cr Hk [i [-> [Hi ->]]] Hr Hcont.
    rewrite Hrun in Hr by lia. injection Hr as <- <-.
    exists (S i). split; [lia|]. split; [|reflexivity].
    destruct (Nat.eq_dec i j) as [->|Hne]; [|lia].
    exfalso. destruct Hstop as [E|E]; rewrite E in Hcont; discriminate Hcont.
  - lia.
  - exists 0%nat. split; [reflexivity|]. split; [lia|reflexivity].
Qed.

End RepeatRun.

(* ================================================================== WHILE *)

(* the condition, as run_child_with's [pre] evaluates it: in the iteration's own (child)
   environment, after the counter has been bound *)
Definition while_pre (cond : str) : env fo -> res bool :=
  fun ce => do v <- tokenize fo (all_vars fo ce) cond; Ok (truthy fo v).

(* at most [remaining] more iterations; when they are used up the next check of the iteration
   limit fails with ExceededLimitError *)
Fixpoint while_spec (remaining : nat) (var_name : option str) (cond : str) (code : list item)
         (count : Z) (acc : cret) : M fo cret :=
  match remaining with
  | O => raise fo cx cur EExceededLimit
  | S r =>
      bindM fo (run_child_with code (c_file cx) false (bind_counter var_name count) (while_pre cond))
        (fun r0 =>
           match r0 with
           | None => ret fo acc                       (* the condition is false: the loop ends *)
           | Some cr =>
               let '(sg, brk) := loop_signal (cr_sig cr) in
               let acc' := mkCret (cr_data acc ++ cr_data cr) sg in
               if brk then ret fo acc' else while_spec r var_name cond code (count + 1)%Z acc'
           end)
  end.

Lemma while_loop_unroll : forall fuel var_name cond code count acc s,
  (20001 - count <= Z.of_nat fuel)%Z ->
  while_loop fuel var_name cond code count acc s =
  while_spec (Z.to_nat (20001 - count)) var_name cond code count acc s.
Proof.
  induction fuel as [|f IH]; intros var_name cond code count acc s Hf; cbn [Interp.while_loop];
    destruct (cmp_eval while_limit_op count while_limit) eqn:E;
    unfold while_limit_op, while_limit in E; cbn [cmp_eval] in E.
  - apply Z.ltb_lt in E. replace (Z.to_nat (20001 - count)) with 0%nat by lia. reflexivity.
  - apply Z.ltb_ge in E. lia.
  - apply Z.ltb_lt in E. replace (Z.to_nat (20001 - count)) with 0%nat by lia. reflexivity.
  - apply Z.ltb_ge in E.
    replace (Z.to_nat (20001 - count)) with (S (Z.to_nat (20001 - (count + 1)))) by lia.
    cbn [while_spec]. apply bindM_ext. intros r0 s1 _. destruct r0 as [cr|]; [|reflexivity].
    destruct (loop_signal (cr_sig cr)) as [sg brk]. destruct brk; [reflexivity|].
    apply IH. lia.
Qed.

(* WHILE as block_compile calls it: unconditional *)
Theorem while_unroll_lemma : forall extra var_name cond code acc s,
  while_loop (loop_fuel + extra) var_name cond code 0 acc s =
  while_spec (Z.to_nat 20001) var_name cond code 0 acc s.
Proof.
  intros extra var_name cond code acc s.
  rewrite while_loop_fuel_irrelevant_lemma.
  rewrite while_loop_unroll by (rewrite loop_fuel_value; lia).
  rewrite Z.sub_0_r. reflexivity.
Qed.

(* one iteration: the counter is bound in a fresh copy of the parent's environment, the
   condition is evaluated THERE (so it sees the counter), and the body runs iff it is true *)
Lemma while_iteration_inv : forall var_name cond code count s s' r,
  run_child_with code (c_file cx) false (bind_counter var_name count) (while_pre cond) s = (s', IOk _ r) ->
  exists cenv1 v,
    bind_counter var_name count (append_env fo (empty_env fo) (s_env fo s)) = Ok cenv1 /\
    tokenize fo (all_vars fo cenv1) cond = Ok v /\
    ((r = None /\ truthy fo v = false /\
      s' = mkSt fo (s_g fo s) (update_from_env fo (s_env fo s) cenv1) (s_line2 fo s)) \/
     (exists cr g' cenv2, r = Some cr /\ truthy fo v = true /\
        child (mkCtx (c_opts cx) (c_fs cx) (here cx cur (s_line2 fo s)) (c_file cx)) (s_g fo s) cenv1 code
          = (g', IOk _ (cr, cenv2)) /\
        s' = mkSt fo g' (update_from_env fo (s_env fo s) cenv2) (s_line2 fo s))).
Proof.
  intros var_name cond code count s s' r H.
  apply run_child_with_inv in H. destruct H as (cenv1 & Hsetup & Hcases).
  exists cenv1. unfold while_pre in Hcases.
  destruct (tokenize fo (all_vars fo cenv1) cond) as [v| | |] eqn:Et;
    cbn [bind] in Hcases.
  - exists v. split; [exact Hsetup|]. split; [reflexivity|].
    destruct Hcases as [(Hr & Hp & Hs)|(cr & g' & cenv2 & Hr & Hp & Hc & Hs)].
    + left. injection Hp as Hp. repeat split; assumption.
    + right. injection Hp as Hp. exists cr, g', cenv2. repeat split; assumption.
  - destruct Hcases as [(_ & Hp & _)|(cr & g' & cenv2 & _ & Hp & _)]; discriminate Hp.
  - destruct Hcases as [(_ & Hp & _)|(cr & g' & cenv2 & _ & Hp & _)]; discriminate Hp.
  - destruct Hcases as [(_ & Hp & _)|(cr & g' & cenv2 & _ & Hp & _)]; discriminate Hp.
Qed.

(* ---- while_spec along an execution *)
(* m iterations whose condition is true and whose body does not stop the loop, then the
   condition is false *)
Lemma while_spec_all : forall m remaining var_name cond code (sts : nat -> st) (crs : nat -> cret) s_end count acc,
  (m < remaining)%nat ->
  (forall k, (k < m)%nat ->
     run_child_with code (c_file cx) false (bind_counter var_name (count + Z.of_nat k)%Z) (while_pre cond) (sts k)
     = (sts (S k), IOk _ (Some (crs k)))) ->
  (forall k, (k < m)%nat -> snd (loop_signal (cr_sig (crs k))) = false) ->
  run_child_with code (c_file cx) false (bind_counter var_name (count + Z.of_nat m)%Z) (while_pre cond) (sts m)
     = (s_end, IOk _ None) ->
  while_spec remaining var_name cond code count acc (sts 0%nat) =
  (s_end, IOk _ (mkCret (cr_data acc ++ outputs crs m)
                        (match m with O => cr_sig acc | S _ => SNormal end))).
Proof.
  induction m as [|m IH]; intros remaining var_name cond code sts crs s_end count acc Hm Hrun Hsig Hend;
    (destruct remaining as [|remaining]; [lia|]); cbn [while_spec]; unfold bindM at 1.
  - cbn [Z.of_nat] in Hend. rewrite Z.add_0_r in Hend. rewrite Hend.
    unfold ret, outputs. cbn [seq map concat]. rewrite app_nil_r. destruct acc; reflexivity.
  - pose proof (Hrun 0%nat (Nat.lt_0_succ m)) as H0. cbn [Z.of_nat] in H0. rewrite Z.add_0_r in H0.
    rewrite H0.
    pose proof (Hsig 0%nat (Nat.lt_0_succ m)) as Hs0.
    pose proof (loop_signal_continues _ Hs0) as Hn0.
    destruct (loop_signal (cr_sig (crs 0%nat))) as [sg brk]. cbn [fst snd] in Hs0, Hn0. subst sg brk.
    rewrite (IH remaining var_name cond code (fun k => sts (S k)) (fun k => crs (S k)) s_end (count + 1)%Z).
    + cbn [cr_data cr_sig]. rewrite outputs_S_shift, app_assoc. destruct m; reflexivity.
    + lia.
    + intros k Hk. replace (count + 1 + Z.of_nat k)%Z with (count + Z.of_nat (S k))%Z by lia.
      apply Hrun. lia.
    + intros k Hk. apply Hsig. lia.
    + replace (count + 1 + Z.of_nat m)%Z with (count + Z.of_nat (S m))%Z by lia. exact Hend.
Qed.

Lemma while_spec_stop : forall j remaining var_name cond code (sts : nat -> st) (crs : nat -> cret) count acc,
  (j < remaining)%nat ->
  (forall k, (k <= j)%nat ->
     run_child_with code (c_file cx) false (bind_counter var_name (count + Z.of_nat k)%Z) (while_pre cond) (sts k)
     = (sts (S k), IOk _ (Some (crs k)))) ->
  (forall k, (k < j)%nat -> snd (loop_signal (cr_sig (crs k))) = false) ->
  snd (loop_signal (cr_sig (crs j))) = true ->
  while_spec remaining var_name cond code count acc (sts 0%nat) =
  (sts (S j), IOk _ (mkCret (cr_data acc ++ outputs crs (S j)) (fst (loop_signal (cr_sig (crs j)))))).
Proof.
  induction j as [|j IH]; intros remaining var_name cond code sts crs count acc Hjm Hrun Hsig Hstop;
    (destruct remaining as [|remaining]; [lia|]); cbn [while_spec]; unfold bindM at 1;
    pose proof (Hrun 0%nat (Nat.le_0_l _)) as H0; cbn [Z.of_nat] in H0; rewrite Z.add_0_r in H0;
    rewrite H0.
  - destruct (loop_signal (cr_sig (crs 0%nat))) as [sg brk]. cbn [fst snd] in *. subst brk.
    unfold ret, outputs. cbn [seq map concat]. rewrite app_nil_r. reflexivity.
  - pose proof (Hsig 0%nat (Nat.lt_0_succ j)) as Hs0.
    pose proof (loop_signal_continues _ Hs0) as Hn0.
    destruct (loop_signal (cr_sig (crs 0%nat))) as [sg brk]. cbn [fst snd] in Hs0, Hn0. subst sg brk.
    rewrite (IH remaining var_name cond code (fun k => sts (S k)) (fun k => crs (S k)) (count + 1)%Z).
    + cbn [cr_data cr_sig]. rewrite (outputs_S_shift crs (S j)), app_assoc. reflexivity.
    + lia.
    + intros k Hk. replace (count + 1 + Z.of_nat k)%Z with (count + Z.of_nat (S k))%Z by lia.
      apply Hrun. lia.
    + intros k Hk. apply Hsig. lia.
    + exact Hstop.
Qed.

(* the iteration limit: 20001 iterations whose condition is true and whose body does not stop the
   loop end in ExceededLimitError *)
Lemma while_spec_limit : forall remaining var_name cond code (sts : nat -> st) (crs : nat -> cret) count acc,
  (forall k, (k < remaining)%nat ->
     run_child_with code (c_file cx) false (bind_counter var_name (count + Z.of_nat k)%Z) (while_pre cond) (sts k)
     = (sts (S k), IOk _ (Some (crs k)))) ->
  (forall k, (k < remaining)%nat -> snd (loop_signal (cr_sig (crs k))) = false) ->
  while_spec remaining var_name cond code count acc (sts 0%nat) =
  (sts remaining, IErr _ EExceededLimit (Some (here cx cur (s_line2 fo (sts remaining))))).
Proof.
  induction remaining as [|m IH]; intros var_name cond code sts crs count acc Hrun Hsig; cbn [while_spec].
  - reflexivity.
  - unfold bindM at 1.
    pose proof (Hrun 0%nat (Nat.lt_0_succ m)) as H0. cbn [Z.of_nat] in H0. rewrite Z.add_0_r in H0.
    rewrite H0.
    pose proof (Hsig 0%nat (Nat.lt_0_succ m)) as Hs0.
    destruct (loop_signal (cr_sig (crs 0%nat))) as [sg brk]. cbn [snd] in Hs0. subst brk.
    rewrite (IH var_name cond code (fun k => sts (S k)) (fun k => crs (S k)) (count + 1)%Z).
    + reflexivity.
    + intros k Hk. replace (count + 1 + Z.of_nat k)%Z with (count + Z.of_nat (S k))%Z by lia.
      apply Hrun. lia.
    + intros k Hk. apply Hsig. lia.
Qed.

(* ---- WHILE end to end *)
Theorem while_all_iterations_lemma :
  forall m var_name cond code (sts : nat -> st) (crs : nat -> cret) s_end,
  (Z.of_nat m <= 20000)%Z ->
  (forall k, (k < m)%nat ->
     run_child_with code (c_file cx) false (bind_counter var_name (Z.of_nat k)) (while_pre cond) (sts k)
     = (sts (S k), IOk _ (Some (crs k)))) ->
  (forall k, (k < m)%nat -> cr_sig (crs k) = SNormal \/ cr_sig (crs k) = SContinue) ->
  run_child_with code (c_file cx) false (bind_counter var_name (Z.of_nat m)) (while_pre cond) (sts m)
     = (s_end, IOk _ None) ->
  forall extra acc, cr_sig acc = SNormal ->
  while_loop (loop_fuel + extra) var_name cond code 0 acc (sts 0%nat) =
  (s_end, IOk _ (mkCret (cr_data acc ++ outputs crs m) SNormal)).
Proof.
  intros m var_name cond code sts crs s_end Hm Hrun Hsig Hend extra acc Hacc.
  rewrite while_unroll_lemma.
  rewrite (while_spec_all m (Z.to_nat 20001) var_name cond code sts crs s_end 0%Z acc).
  - rewrite Hacc. destruct m; reflexivity.
  - lia.
  - intros k Hk. cbn [Z.add]. apply Hrun. exact Hk.
  - intros k Hk. destruct (Hsig k Hk) as [E|E]; rewrite E; reflexivity.
  - cbn [Z.add]. exact Hend.
Qed.

Theorem while_stops_at_lemma :
  forall j var_name cond code (sts : nat -> st) (crs : nat -> cret),
  (Z.of_nat j <= 20000)%Z ->
  (forall k, (k <= j)%nat ->
     run_child_with code (c_file cx) false (bind_counter var_name (Z.of_nat k)) (while_pre cond) (sts k)
     = (sts (S k), IOk _ (Some (crs k)))) ->
  (forall k, (k < j)%nat -> cr_sig (crs k) = SNormal \/ cr_sig (crs k) = SContinue) ->
  (cr_sig (crs j) = SBreak \/ cr_sig (crs j) = SReturn) ->
  forall extra acc,
  while_loop (loop_fuel + extra) var_name cond code 0 acc (sts 0%nat) =
  (sts (S j), IOk _ (mkCret (cr_data acc ++ outputs crs (S j))
                            (match cr_sig (crs j) with SReturn => SReturn | _ => SNormal end))).
Proof.
  intros j var_name cond code sts crs Hj Hrun Hsig Hstop extra acc.
  rewrite while_unroll_lemma.
  rewrite (while_spec_stop j (Z.to_nat 20001) var_name cond code sts crs 0%Z acc).
  - destruct Hstop as [E|E]; rewrite E; reflexivity.
  - lia.
  - intros k Hk. cbn [Z.add]. apply Hrun. exact Hk.
  - intros k Hk. destruct (Hsig k Hk) as [E|E]; rewrite E; reflexivity.
  - destruct Hstop as [E|E]; rewrite E; reflexivity.
Qed.

Theorem while_limit_lemma :
  forall var_name cond code (sts : nat -> st) (crs : nat -> cret),
  (forall k, (Z.of_nat k < 20001)%Z ->
     run_child_with code (c_file cx) false (bind_counter var_name (Z.of_nat k)) (while_pre cond) (sts k)
     = (sts (S k), IOk _ (Some (crs k)))) ->
  (forall k, (Z.of_nat k < 20001)%Z -> cr_sig (crs k) = SNormal \/ cr_sig (crs k) = SContinue) ->
  forall extra acc,
  while_loop (loop_fuel + extra) var_name cond code 0 acc (sts 0%nat) =
  (sts (Z.to_nat 20001), IErr _ EExceededLimit (Some (here cx cur (s_line2 fo (sts (Z.to_nat 20001)))))).
Proof.
  intros var_name cond code sts crs Hrun Hsig extra acc.
  rewrite while_unroll_lemma.
  apply (while_spec_limit (Z.to_nat 20001) var_name cond code sts crs 0%Z acc).
  - intros k Hk. cbn [Z.add]. apply Hrun. lia.
  - intros k Hk. assert (Hk' : (Z.of_nat k < 20001)%Z) by lia.
    destruct (Hsig k Hk') as [E|E]; rewrite E; reflexivity.
Qed.

End Unroll.
