(* C01 (whole script): string facts behind the spelling of a flat line --
   split(maxsplit=1) of  WORD blanks ARGUMENT blanks,  strip of an argument followed by blanks. *)
From Coq Require Import NArith ZArith List Bool Lia.
From DS Require Import Base Unicode PyStr TabProofs CrashFree ScanRun Spelling FlatScript.
Import ListNotations.

Definition nows (s : str) : Prop := forallb (fun c => negb (isspace_c c)) s = true.

Lemma nows_cons : forall c r, nows (c :: r) -> isspace_c c = false /\ nows r.
Proof.
  intros c r H. unfold nows in H. cbn [forallb] in H. apply andb_true_iff in H.
  destruct H as [Hc Hr]. apply negb_true_iff in Hc. split; assumption.
Qed.

Lemma first_nonblank_lstrip : forall s, first_nonblank s -> lstrip s = s.
Proof.
  intros [|c r] H; [reflexivity|]. cbn [first_nonblank] in H. cbn [lstrip]. rewrite H. reflexivity.
Qed.

Lemma first_nonblank_app : forall s t, first_nonblank s -> first_nonblank (s ++ t).
Proof. intros [|c r] t H; [contradiction|exact H]. Qed.

Lemma nows_first : forall s, nows s -> s <> [] -> first_nonblank s.
Proof.
  intros [|c r] H Hne; [contradiction Hne; reflexivity|].
  destruct (nows_cons c r H) as [Hc _]. exact Hc.
Qed.

Definition ws_or_end (x : str) : Prop := match x with [] => True | c :: _ => isspace_c c = true end.

Lemma take_word_nows : forall cmd x, nows cmd -> ws_or_end x -> take_word (cmd ++ x) = (cmd, x).
Proof.
  induction cmd as [|a cmd IH]; intros x Hn Hx; cbn [app].
  - destruct x as [|c r]; [reflexivity|]. cbn [ws_or_end] in Hx. cbn [take_word]. rewrite Hx. reflexivity.
  - destruct (nows_cons a cmd Hn) as [Ha Hr]. cbn [take_word]. rewrite Ha.
    rewrite (IH x Hr Hx). reflexivity.
Qed.

Lemma lstrip_all_ws : forall w, forallb isspace_c w = true -> lstrip w = [].
Proof.
  intros w Hw. rewrite <- (app_nil_r w). rewrite (lstrip_ws_app w [] Hw). reflexivity.
Qed.

Lemma ws_or_end_ws : forall w x, forallb isspace_c w = true -> w <> [] -> ws_or_end (w ++ x).
Proof.
  intros [|c r] x Hw Hne; [contradiction Hne; reflexivity|].
  cbn [forallb] in Hw. apply andb_true_iff in Hw. destruct Hw as [Hc _]. exact Hc.
Qed.

Lemma ws_or_end_all : forall w, forallb isspace_c w = true -> ws_or_end w.
Proof.
  intros [|c r] Hw; [exact I|].
  cbn [forallb] in Hw. apply andb_true_iff in Hw. destruct Hw as [Hc _]. exact Hc.
Qed.

(* WORD blanks REST, REST starting with a non-blank: two parts, the second kept to the end of line *)
Lemma split_ws1_arg : forall cmd ws rest,
  nows cmd -> cmd <> [] -> forallb isspace_c ws = true -> ws <> [] -> first_nonblank rest ->
  split_ws1 (cmd ++ ws ++ rest) = [cmd; rest].
Proof.
  intros cmd ws rest Hn Hne Hws Hwne Hr. unfold split_ws1.
  rewrite (first_nonblank_lstrip (cmd ++ ws ++ rest))
    by (apply first_nonblank_app; apply nows_first; assumption).
  destruct cmd as [|c0 cr]; [contradiction Hne; reflexivity|].
  change ((c0 :: cr) ++ ws ++ rest) with (c0 :: (cr ++ ws ++ rest)).
  cbv iota. change (c0 :: cr ++ ws ++ rest) with ((c0 :: cr) ++ ws ++ rest).
  rewrite (take_word_nows (c0 :: cr) (ws ++ rest) Hn (ws_or_end_ws ws rest Hws Hwne)).
  rewrite (lstrip_ws_app ws rest Hws). rewrite (first_nonblank_lstrip rest Hr).
  destruct rest as [|r0 rr]; [contradiction|]. reflexivity.
Qed.

(* WORD blanks: one part *)
Lemma split_ws1_bare : forall cmd tr,
  nows cmd -> cmd <> [] -> forallb isspace_c tr = true -> split_ws1 (cmd ++ tr) = [cmd].
Proof.
  intros cmd tr Hn Hne Htr. unfold split_ws1.
  rewrite (first_nonblank_lstrip (cmd ++ tr))
    by (apply first_nonblank_app; apply nows_first; assumption).
  destruct cmd as [|c0 cr]; [contradiction Hne; reflexivity|].
  change ((c0 :: cr) ++ tr) with (c0 :: (cr ++ tr)).
  cbv iota. change (c0 :: cr ++ tr) with ((c0 :: cr) ++ tr).
  rewrite (take_word_nows (c0 :: cr) tr Hn (ws_or_end_all tr Htr)).
  rewrite (lstrip_all_ws tr Htr). reflexivity.
Qed.

Lemma is_blank_word : forall cmd x, nows cmd -> cmd <> [] -> is_blank (cmd ++ x) = false.
Proof.
  intros cmd x Hn Hne. unfold is_blank.
  rewrite (first_nonblank_lstrip (cmd ++ x))
    by (apply first_nonblank_app; apply nows_first; assumption).
  destruct cmd as [|c0 cr]; [contradiction Hne; reflexivity|]. reflexivity.
Qed.

(* ------------------------------------------------------------------ strip *)
(* a non-empty fixed point of strip begins and ends with a non-blank *)
Lemma strip_fix : forall a, a = strip a -> a <> [] -> lstrip a = a /\ rstrip a = a.
Proof.
  intros a Ha Hne.
  assert (Hl : lstrip a = a).
  { destruct (rstrip_decomp (lstrip a)) as [w [Hw Hd]].
    fold (strip a) in Hd. rewrite <- Ha in Hd.
    destruct a as [|c r]; [contradiction Hne; reflexivity|].
    cbn [app] in Hd. pose proof (lstrip_head_nonspace _ _ _ Hd) as Hc.
    cbn [lstrip]. rewrite Hc. reflexivity. }
  split; [exact Hl|].
  unfold strip in Ha. rewrite Hl in Ha. symmetry. exact Ha.
Qed.

Lemma rstrip_app_ws : forall a tr, forallb isspace_c tr = true -> rstrip (a ++ tr) = rstrip a.
Proof.
  intros a tr Htr. unfold rstrip. rewrite rev_app_distr.
  rewrite (lstrip_ws_app (rev tr) (rev a)) by (rewrite forallb_rev; exact Htr). reflexivity.
Qed.

(* the argument, trimmed: trailing blanks of the line disappear *)
Lemma strip_app_ws : forall a tr, a = strip a -> a <> [] -> forallb isspace_c tr = true ->
  strip (a ++ tr) = a.
Proof.
  intros a tr Ha Hne Htr. destruct (strip_fix a Ha Hne) as [Hl Hr].
  unfold strip. rewrite (lstrip_app_ws a tr Htr). rewrite Hl.
  destruct a as [|c r]; [contradiction Hne; reflexivity|].
  rewrite (rstrip_app_ws (c :: r) tr Htr). exact Hr.
Qed.

Lemma strip_fix_first : forall a, a = strip a -> a <> [] -> first_nonblank a.
Proof.
  intros a Ha Hne. destruct (strip_fix a Ha Hne) as [Hl _].
  destruct a as [|c r]; [contradiction Hne; reflexivity|].
  cbn [first_nonblank]. exact (lstrip_head_nonspace _ _ _ Hl).
Qed.

Lemma nows_rev : forall s, nows s -> nows (rev s).
Proof. intros s H. unfold nows in *. rewrite forallb_rev. exact H. Qed.

Lemma nows_lstrip : forall s, nows s -> lstrip s = s.
Proof.
  intros [|c r] H; [reflexivity|]. destruct (nows_cons c r H) as [Hc _].
  cbn [lstrip]. rewrite Hc. reflexivity.
Qed.

Lemma nows_strip : forall s, nows s -> s = strip s.
Proof.
  intros s H. unfold strip, rstrip. rewrite (nows_lstrip s H).
  rewrite (nows_lstrip (rev s) (nows_rev s H)). symmetry. apply rev_involutive.
Qed.

(* ASCII digits are not blanks *)
Lemma digit_not_space : forall c, is_ascii_digit c = true -> isspace_c c = false.
Proof.
  intros c Hd.
  assert (H : forallb (fun c => implb (is_ascii_digit c) (negb (isspace_c c))) ascii_all = true)
    by (vm_compute; reflexivity).
  pose proof (ascii_forall _ H c (digit_ascii c Hd)) as Hc. cbv beta in Hc. clear H.
  rewrite Hd in Hc. cbn [implb] in Hc. apply negb_true_iff in Hc. exact Hc.
Qed.

Lemma digits_nows : forall ds, forallb is_ascii_digit ds = true -> nows ds.
Proof.
  induction ds as [|c r IH]; intro H; [reflexivity|].
  cbn [forallb] in H. apply andb_true_iff in H. destruct H as [Hc Hr].
  unfold nows. cbn [forallb]. rewrite (digit_not_space c Hc). cbn [negb andb]. exact (IH Hr).
Qed.

Lemma is_digits_nows : forall ds, is_digits ds = true -> nows ds /\ ds <> [].
Proof.
  intros [|c r] H; [discriminate|]. split; [|discriminate]. apply digits_nows. exact H.
Qed.

(* ------------------------------------------------------------------ upper and blanks / dollar *)
(* upper-casing never changes a blank; so a word whose upper-casing has no blank has none itself *)
Lemma upper_c_space : forall c, isspace_c c = true -> upper_c c = [c].
Proof.
  intros c Hc.
  assert (H : forallb (fun c => str_eqb (upper_c c) [c]) (iv_members isspace_iv) = true)
    by (vm_compute; reflexivity).
  pose proof (space_forall _ H c Hc) as E. cbv beta in E. clear H.
  destruct (upper_c c) as [|x [|y r]]; cbn [str_eqb] in E; try discriminate E.
  2:{ apply andb_true_iff in E. destruct E as [_ E]. discriminate E. }
  apply andb_true_iff in E. destruct E as [E _]. apply N.eqb_eq in E. subst x. reflexivity.
Qed.

Lemma upper_nows : forall cmd, nows (upper cmd) -> nows cmd.
Proof.
  induction cmd as [|c r IH]; intro H; [reflexivity|].
  unfold upper in H. cbn [flat_map] in H. unfold nows in H. rewrite forallb_app in H.
  apply andb_true_iff in H. destruct H as [Hc Hr].
  unfold nows. cbn [forallb]. rewrite (IH Hr). rewrite andb_true_r.
  destruct (isspace_c c) eqn:E; [|reflexivity].
  rewrite (upper_c_space c E) in Hc. cbn [forallb] in Hc. rewrite E in Hc. discriminate.
Qed.

Lemma upper_dollar : forall cmd, match upper cmd with 36%N :: _ => False | _ => True end ->
  match cmd with 36%N :: _ => False | _ => True end.
Proof.
  intros [|c r] H; [exact I|].
  destruct (N.eqb_spec c 36) as [->|Hne].
  - exact H.
  - destruct c as [|p]; [exact I|]. repeat (destruct p as [p|p|]; try exact I). contradiction Hne; reflexivity.
Qed.
