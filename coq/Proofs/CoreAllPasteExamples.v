(* Where `START f` and the statements of f written in its place DIFFER (C12e): concrete pairs of
   derivations of the reference semantics Spec/CoreAll.v, one per side condition of
   Proofs/CoreAllPaste.v:
     1. line numbers and files in the events        4. RETURN
     2. where functions are defined                 5. a stray BREAKLOOP
     3. the IF flag left by the file                6. the IF flag seen by the file
   main imports lib; the inlined list is run in main at the place of the START. *)
From Coq Require Import String Ascii NArith ZArith List Bool Lia.
From DS Require Import Base PyStr Values Expr TabParse Tables Constants Interp IdentSpec.
From DS Require Import ChainLoopExamples ImportGraph CoreLang CoreWf CoreRefine CoreFunc.
From DS Require Import CoreAll CoreAllLines CoreAllBase CoreAllRefine CoreAllTop CoreAllExample CoreAllCor CoreAllImports CoreAllErase.
From DS Require Import ScopeProofs CoreAllSim CoreAllKeys CoreAllPaste.
Import ListNotations.
Open Scope string_scope.
Open Scope list_scope.

Notation S_ := CoreAllExample.S_.
Definition w_STRING : str := S_ "STRING".

Ltac both :=
  repeat match goal with |- _ /\ _ => split end; try uderive.

Section Examples.
Variable fo : FloatOps.
Variables inc sup : bool.
Notation sys := (initial_sys fo).

(* ------------------------------------------------------------------ 0. where it HOLDS: the two-file program *)
(* main = VAR x 5 / START lib / RUN greet / FOO bar / REM done / $STRING x  (Proofs/CoreAllExample.v):
   lib ends Normal and leaves no flag; by [paste_after_prefix] main with lib pasted in has a
   derivation with the same output, store, flag; events up to locations *)
Definition main_rest : list ustmt :=
  [URun (S_ "greet") []; UUnknown (S_ "FOO") (S_ "bar"); URem (S_ "done"); UEmitEval (S_ "STRING") (S_ "x")].
Definition main_pasted : list ustmt := [UVar (S_ "x") (S_ "5")] ++ lib_stmts ++ main_rest.

Lemma two_files_pasted : exists F2 ev2,
  CoreAll.exec_list fo sys two_files inc sup 1 [] n_main 1 [] None [] main_pasted Normal F2 None [(S_ "x", VInt 5)] (ex_out inc) ev2 /\
  tsim false [n_main] [(S_ "greet", greet_def)] F2 /\ map shape (ex_events sup) = map shape ev2.
Proof.
  assert (Hpre : CoreAll.exec_list fo sys two_files inc sup 1 [] n_main 1 [] None [] [UVar (S_ "x") (S_ "5")]
                   Normal [] None [(S_ "x", VInt 5)] [] []).
  { assert (H : exists vs', CoreAll.exec_list fo sys two_files inc sup 1 [] n_main 1 [] None [] [UVar (S_ "x") (S_ "5")]
                   Normal [] None vs' ([] ++ []) ([] ++ []) /\ vs' = [(S_ "x", VInt 5)]).
    { eexists. split; [uderive|vm_compute; reflexivity]. }
    destruct H as (vs' & H & ->). exact H. }
  assert (Hfile : CoreAll.exec_list fo sys two_files inc sup 0 ([] ++ [mkSF n_main (start_head KStart n_lib) (1 + sum_sizes usize [UVar (S_ "x") (S_ "5")]) true])
                    n_lib 1 [] None [(S_ "x", VInt 5)] lib_stmts Normal [(S_ "greet", greet_def)] None [(S_ "x", VInt 5)]
                    [] [EvPrint (S_ "loaded") 4 n_lib]).
  { assert (H : exists F' out ev, CoreAll.exec_list fo sys two_files inc sup 0 ([] ++ [mkSF n_main (start_head KStart n_lib) (1 + sum_sizes usize [UVar (S_ "x") (S_ "5")]) true])
                    n_lib 1 [] None [(S_ "x", VInt 5)] lib_stmts Normal F' None [(S_ "x", VInt 5)] out ev /\
                    F' = [(S_ "greet", greet_def)] /\ out = [] /\ ev = [EvPrint (S_ "loaded") 4 n_lib]).
    { do 3 eexists. split; [unfold lib_stmts, greet_body; uderive|repeat split; vm_compute; reflexivity]. }
    destruct H as (F' & out & ev & H & -> & -> & ->). exact H. }
  assert (Hrest : exists o2 e2, CoreAll.exec_list fo sys two_files inc sup 1 [] n_main (1 + sum_sizes usize [UVar (S_ "x") (S_ "5")] + 1)
                    [(S_ "greet", greet_def)] None [(S_ "x", VInt 5)] main_rest Normal [(S_ "greet", greet_def)] None [(S_ "x", VInt 5)] o2 e2 /\
                    [] ++ [] ++ o2 = ex_out inc /\ [] ++ [EvPrint (S_ "loaded") 4 n_lib] ++ e2 = ex_events sup).
  { assert (H : exists F' vs' o2 e2, CoreAll.exec_list fo sys two_files inc sup 1 [] n_main (1 + sum_sizes usize [UVar (S_ "x") (S_ "5")] + 1)
                    [(S_ "greet", greet_def)] None [(S_ "x", VInt 5)] main_rest Normal F' None vs' o2 e2 /\
                    F' = [(S_ "greet", greet_def)] /\ vs' = [(S_ "x", VInt 5)] /\
                    [] ++ [] ++ o2 = ex_out inc /\ [] ++ [EvPrint (S_ "loaded") 4 n_lib] ++ e2 = ex_events sup).
    { do 4 eexists. split; [unfold main_rest, greet_def, greet_body; uderive|destruct inc, sup; repeat split; vm_compute; reflexivity]. }
    destruct H as (F' & vs' & o2 & e2 & H & -> & -> & Ho & He). exists o2, e2. split; [exact H|split; assumption]. }
  destruct Hrest as (o2 & e2 & Hrest & Ho & He).
  assert (Hnot : ~ In n_lib (live_files [] n_main)) by notin.
  destruct (paste_after_prefix fo sys two_files inc sup 0 [] n_main 1 [] None [] [UVar (S_ "x") (S_ "5")] [] []
              [] [(S_ "x", VInt 5)] n_lib lib_stmts [(S_ "greet", greet_def)] [(S_ "x", VInt 5)] [] [EvPrint (S_ "loaded") 4 n_lib]
              main_rest Normal [(S_ "greet", greet_def)] None [(S_ "x", VInt 5)] o2 e2
              eq_refl Hnot (NoDup_nil _) (NoDup_nil _) Hpre Hfile Hrest) as (_ & F2 & ev2 & Hinl & HT & Hev).
  exists F2, ([] ++ ev2). rewrite Ho in Hinl. split; [exact Hinl|]. split; [exact HT|].
  rewrite <- He. exact Hev.
Qed.

(* ------------------------------------------------------------------ 1. locations of prints *)
Definition lib1 : list ustmt := [UPrint (S_ "hello")].
Definition prog1 : program := [(n_main, [UEmit w_STRING (S_ "x"); UStart KStart n_lib]); (n_lib, lib1)].

(* imported: the print is on line 1 of lib;  inlined: on line 2 of main *)
Lemma paste_moves_prints :
  CoreAll.exec_list fo sys prog1 inc sup 1 [] n_main 1 [] None [] [UEmit w_STRING (S_ "x"); UStart KStart n_lib]
     Normal [] None [] [LCode (S_ "STRING x")] [EvPrint (S_ "hello") 1 n_lib] /\
  CoreAll.exec_list fo sys prog1 inc sup 1 [] n_main 1 [] None [] ([UEmit w_STRING (S_ "x")] ++ lib1)
     Normal [] None [] [LCode (S_ "STRING x")] [EvPrint (S_ "hello") 2 n_main] /\
  map shape [EvPrint (S_ "hello") 1 n_lib] = map shape [EvPrint (S_ "hello") 2 n_main].
Proof.
  split; [|split; [|reflexivity]].
  - assert (H : exists F' vs' out ev, CoreAll.exec_list fo sys prog1 inc sup 1 [] n_main 1 [] None []
                  [UEmit w_STRING (S_ "x"); UStart KStart n_lib] Normal F' None vs' out ev /\
                  F' = [] /\ vs' = [] /\ out = [LCode (S_ "STRING x")] /\ ev = [EvPrint (S_ "hello") 1 n_lib]).
    { do 4 eexists. split; [uderive|repeat split; vm_compute; reflexivity]. }
    destruct H as (F' & vs' & out & ev & H & -> & -> & -> & ->). exact H.
  - assert (H : exists out ev, CoreAll.exec_list fo sys prog1 inc sup 1 [] n_main 1 [] None []
                  ([UEmit w_STRING (S_ "x")] ++ lib1) Normal [] None [] out ev /\
                  out = [LCode (S_ "STRING x")] /\ ev = [EvPrint (S_ "hello") 2 n_main]).
    { do 2 eexists. split; [unfold lib1; cbn [app]; uderive|repeat split; vm_compute; reflexivity]. }
    destruct H as (out & ev & H & -> & ->). exact H.
Qed.

(* ------------------------------------------------------------------ 2. where functions are defined *)
Definition hi_body : list ustmt := [UPrint (S_ "hi")].
Definition lib2 : list ustmt := [UFunc (S_ "greet") [] hi_body].
Definition prog2 : program := [(n_main, [UStart KStart n_lib]); (n_lib, lib2)].

(* imported: greet is a function OF lib (its prints will carry lib, its imports are resolved with
   lib live);  inlined: a function of main *)
Lemma paste_moves_functions :
  CoreAll.exec_list fo sys prog2 inc sup 1 [] n_main 1 [] None [] [UStart KStart n_lib]
     Normal [(S_ "greet", mkDef [] hi_body n_lib 1)] None [] [] [] /\
  CoreAll.exec_list fo sys prog2 inc sup 1 [] n_main 1 [] None [] lib2
     Normal [(S_ "greet", mkDef [] hi_body n_main 1)] None [] [] [].
Proof.
  split.
  - assert (H : exists F' vs' out ev, CoreAll.exec_list fo sys prog2 inc sup 1 [] n_main 1 [] None []
                  [UStart KStart n_lib] Normal F' None vs' out ev /\
                  F' = [(S_ "greet", mkDef [] hi_body n_lib 1)] /\ vs' = [] /\ out = [] /\ ev = []).
    { do 4 eexists. split; [uderive|repeat split; vm_compute; reflexivity]. }
    destruct H as (F' & vs' & out & ev & H & -> & -> & -> & ->). exact H.
  - assert (H : exists F' out ev, CoreAll.exec_list fo sys prog2 inc sup 1 [] n_main 1 [] None []
                  lib2 Normal F' None [] out ev /\
                  F' = [(S_ "greet", mkDef [] hi_body n_main 1)] /\ out = [] /\ ev = []).
    { do 3 eexists. split; [unfold lib2; uderive|repeat split; vm_compute; reflexivity]. }
    destruct H as (F' & out & ev & H & -> & -> & ->). exact H.
Qed.

(* ------------------------------------------------------------------ 3. the flag left by the file *)
Definition lib3 : list ustmt := [UIf [(S_ "1", [UEmit w_STRING (S_ "a")])] None].
Definition prog3 : program := [(n_main, [UStart KStart n_lib]); (n_lib, lib3)].

(* imported: the importer's flag (here: none) is untouched;  inlined: the IF of the file sets it *)
Lemma paste_changes_flag :
  CoreAll.exec_list fo sys prog3 inc sup 2 [] n_main 1 [] None [] [UStart KStart n_lib]
     Normal [] None [] [LCode (S_ "STRING a")] [] /\
  CoreAll.exec_list fo sys prog3 inc sup 2 [] n_main 1 [] None [] lib3
     Normal [] (Some true) [] [LCode (S_ "STRING a")] [].
Proof.
  split.
  - assert (H : exists F' vs' out ev, CoreAll.exec_list fo sys prog3 inc sup 2 [] n_main 1 [] None []
                  [UStart KStart n_lib] Normal F' None vs' out ev /\
                  F' = [] /\ vs' = [] /\ out = [LCode (S_ "STRING a")] /\ ev = []).
    { do 4 eexists. split; [uderive|repeat split; vm_compute; reflexivity]. }
    destruct H as (F' & vs' & out & ev & H & -> & -> & -> & ->). exact H.
  - assert (H : exists vs' out ev, CoreAll.exec_list fo sys prog3 inc sup 2 [] n_main 1 [] None []
                  lib3 Normal [] (Some true) vs' out ev /\
                  vs' = [] /\ out = [LCode (S_ "STRING a")] /\ ev = []).
    { do 3 eexists. split; [unfold lib3; uderive|repeat split; vm_compute; reflexivity]. }
    destruct H as (vs' & out & ev & H & -> & -> & ->). exact H.
Qed.

(* ------------------------------------------------------------------ 4. RETURN *)
Definition lib4 : list ustmt := [UReturn].
Definition prog4 : program := [(n_main, [UStart KStart n_lib; UEmit w_STRING (S_ "c")]); (n_lib, lib4)].

(* imported: RETURN ends the file only, main goes on;  inlined: it ends main *)
Lemma paste_return :
  CoreAll.exec_list fo sys prog4 inc sup 1 [] n_main 1 [] None [] [UStart KStart n_lib; UEmit w_STRING (S_ "c")]
     Normal [] None [] [LCode (S_ "STRING c")] [] /\
  CoreAll.exec_list fo sys prog4 inc sup 1 [] n_main 1 [] None [] (lib4 ++ [UEmit w_STRING (S_ "c")])
     Returned [] None [] [] [].
Proof.
  split.
  - assert (H : exists F' vs' out ev, CoreAll.exec_list fo sys prog4 inc sup 1 [] n_main 1 [] None []
                  [UStart KStart n_lib; UEmit w_STRING (S_ "c")] Normal F' None vs' out ev /\
                  F' = [] /\ vs' = [] /\ out = [LCode (S_ "STRING c")] /\ ev = []).
    { do 4 eexists. split; [uderive|repeat split; vm_compute; reflexivity]. }
    destruct H as (F' & vs' & out & ev & H & -> & -> & -> & ->). exact H.
  - unfold lib4. cbn [app]. uderive.
Qed.

(* ------------------------------------------------------------------ 5. a stray BREAKLOOP *)
Definition lib5 : list ustmt := [UBreakLoop].
Definition prog5 : program := [(n_main, [UStart KStart n_lib; UEmit w_STRING (S_ "c")]); (n_lib, lib5)].

(* imported: the file ends, ONE WARNING, main goes on;  inlined: main ends with the signal Broke
   (and, at top level, the warning is raised for main itself) *)
Lemma paste_stray_break :
  CoreAll.exec_list fo sys prog5 inc sup 1 [] n_main 1 [] None [] [UStart KStart n_lib; UEmit w_STRING (S_ "c")]
     Normal [] None [] [LCode (S_ "STRING c")] [EvWarn (WStray true)] /\
  CoreAll.exec_list fo sys prog5 inc sup 1 [] n_main 1 [] None [] (lib5 ++ [UEmit w_STRING (S_ "c")])
     Broke [] None [] [] [].
Proof.
  split.
  - assert (H : exists F' vs' out ev, CoreAll.exec_list fo sys prog5 inc sup 1 [] n_main 1 [] None []
                  [UStart KStart n_lib; UEmit w_STRING (S_ "c")] Normal F' None vs' out ev /\
                  F' = [] /\ vs' = [] /\ out = [LCode (S_ "STRING c")] /\ ev = [EvWarn (WStray true)]).
    { do 4 eexists. split; [uderive|repeat split; vm_compute; reflexivity]. }
    destruct H as (F' & vs' & out & ev & H & -> & -> & -> & ->). exact H.
  - unfold lib5. cbn [app]. uderive.
Qed.

(* ------------------------------------------------------------------ 6. the flag seen by the file *)
Definition lib6 : list ustmt := [UEmitEval w_STRING CoreLang.flag_name].
Definition prog6 : program := [(n_main, [UStart KStart n_lib]); (n_lib, lib6)].

(* the importer has taken an IF (flag Some true).  Inlined, the statement reads the flag;
   imported, the file starts with NO flag: the name is undefined, the import has no derivation *)
Lemma paste_flag_seen :
  CoreAll.exec_list fo sys prog6 inc sup 1 [] n_main 1 [] (Some true) [] lib6
     Normal [] (Some true) [] [LCode (S_ "STRING True")] [] /\
  (forall d sg F' f' vs' out ev,
     ~ CoreAll.exec fo sys prog6 inc sup d [] n_main 1 [] (Some true) [] (UStart KStart n_lib) sg F' f' vs' out ev).
Proof.
  split.
  - assert (H : exists out ev, CoreAll.exec_list fo sys prog6 inc sup 1 [] n_main 1 [] (Some true) [] lib6
                  Normal [] (Some true) [] out ev /\ out = [LCode (S_ "STRING True")] /\ ev = []).
    { do 2 eexists. split; [unfold lib6; uderive|split; vm_compute; reflexivity]. }
    destruct H as (out & ev & H & -> & ->). exact H.
  - intros d sg F' f' vs' out ev H. apply start_law in H.
    destruct H as (d' & stmts & sg1 & F1 & f1 & vs1 & out1 & ev1 & _ & Hl & _ & Hx & _).
    injection Hl as <-. apply exec_list_single in Hx. destruct Hx as (o2 & e2 & Hs).
    inversion Hs; subst.
    match goal with He : eval _ _ _ _ _ _ |- _ => unfold eval in He; vm_compute in He; discriminate He end.
Qed.

End Examples.
