(* C18: the print list is built compositionally, in execution order.
   g_prints is kept newest first: "added_b ++ added_a ++ before" = first the prints of a, then
   those of b. *)
From Coq Require Import NArith ZArith List Bool Lia.
From DS Require Import Base PyStr Values Expr TabParse Tables Constants Interp PipelineProofs
  StackLift PrintsMono UnknownWarn PrintLines.
Import ListNotations.

Section Order.
Variable fo : FloatOps.
Notation st := (st fo).

(* ------------------------------------------------------------------ (2)(a) sequencing *)
Theorem exec_cmds_app_prints : forall child cx, prints_runner fo child ->
  forall pre c n rest acc (s s1 s2 : st) out1 r,
  exec_cmds fo child cx pre acc s = (s1, IOk (mkCret out1 SNormal)) ->
  exec_cmds fo child cx (Ln c n :: rest) out1 s1 = (s2, r) ->
  exec_cmds fo child cx (pre ++ Ln c n :: rest) acc s = (s2, r) /\
  exists added_a added_b,
    g_prints (s_g s1) = added_a ++ g_prints (s_g s) /\
    g_prints (s_g s2) = added_b ++ g_prints (s_g s1) /\
    g_prints (s_g s2) = added_b ++ added_a ++ g_prints (s_g s).
Proof.
  intros child cx Hc pre c n rest acc s s1 s2 out1 r Ea Eb. split.
  - rewrite exec_cmds_app, Ea. cbn [continue_with cr_sig cr_data]. exact Eb.
  - destruct (prints_mono fo child cx Hc _ _ _ _ _ Ea) as [a Ha].
    destruct (prints_mono fo child cx Hc _ _ _ _ _ Eb) as [b Hb].
    exists a, b. split; [exact Ha|]. split; [exact Hb|]. rewrite Hb, Ha. reflexivity.
Qed.

(* the same, read from the run of the concatenation *)
Theorem exec_cmds_app_prints_inv : forall child cx, prints_runner fo child ->
  forall pre c n rest acc (s s1 s2 : st) out1 r,
  exec_cmds fo child cx pre acc s = (s1, IOk (mkCret out1 SNormal)) ->
  exec_cmds fo child cx (pre ++ Ln c n :: rest) acc s = (s2, r) ->
  exec_cmds fo child cx (Ln c n :: rest) out1 s1 = (s2, r) /\
  exists added_a added_b,
    g_prints (s_g s1) = added_a ++ g_prints (s_g s) /\
    g_prints (s_g s2) = added_b ++ g_prints (s_g s1) /\
    g_prints (s_g s2) = added_b ++ added_a ++ g_prints (s_g s).
Proof.
  intros child cx Hc pre c n rest acc s s1 s2 out1 r Ea Eab.
  rewrite exec_cmds_app, Ea in Eab. cbn [continue_with cr_sig cr_data] in Eab.
  split; [exact Eab|].
  destruct (exec_cmds_app_prints child cx Hc pre c n rest acc s s1 s2 out1 r Ea Eab) as [_ H]. exact H.
Qed.

(* ------------------------------------------------------------------ (3) failure inside b *)
Theorem failure_prints_are_prefix : forall child cx, prints_runner fo child ->
  forall pre c n rest acc (s s1 s2 : st) out1 e t,
  exec_cmds fo child cx pre acc s = (s1, IOk (mkCret out1 SNormal)) ->
  exec_cmds fo child cx (pre ++ Ln c n :: rest) acc s = (s2, IErr e t) ->
  exists added_a added_b,
    g_prints (s_g s1) = added_a ++ g_prints (s_g s) /\
    g_prints (s_g s2) = added_b ++ added_a ++ g_prints (s_g s).
Proof.
  intros child cx Hc pre c n rest acc s s1 s2 out1 e t Ea Eab.
  destruct (exec_cmds_app_prints_inv child cx Hc pre c n rest acc s s1 s2 out1 _ Ea Eab)
    as (_ & a & b & Ha & _ & Hab).
  exists a, b. split; assumption.
Qed.

(* whole program: the glob returned with the error still holds every print of the completed
   prefix, below (= before) whatever the failing rest printed *)
Theorem compile_failure_keeps_prefix_prints : forall o fs file pre c n rest g e t g1 cr1 e1,
  run fo (run_depth o) (mkCtx o fs [] file) (mkGlob [] []) (initial_env fo) pre = (g1, IOk (cr1, e1)) ->
  cr_sig cr1 = SNormal ->
  compile_items fo o fs file (pre ++ Ln c n :: rest) = (g, IErr e t) ->
  exists added_b, g_prints g = added_b ++ g_prints g1.
Proof.
  intros o fs file pre c n rest g e t g1 cr1 e1 Ea Hsig Eab.
  unfold compile_items in Eab.
  destruct (run fo _ _ _ _ (pre ++ _)) as [g' r'] eqn:Er.
  assert (Hg : g' = g /\ r' = IErr e t).
  { destruct r' as [[cr e']|er' t'|k|]; try discriminate Eab; injection Eab as <- <- <-. split; reflexivity. }
  destruct Hg as [-> ->]. clear Eab.
  set (d := run_depth o) in *. set (cx := mkCtx o fs [] file) in *.
  assert (Hrun : forall cmds, run fo d cx (mkGlob [] []) (initial_env fo) cmds =
            run_with fo (match d with O => no_child fo | S d' => run fo d' end) cx (mkGlob [] []) (initial_env fo) cmds).
  { intro cmds. destruct d; reflexivity. }
  rewrite Hrun in Ea, Er.
  set (child := match d with O => no_child fo | S d' => run fo d' end) in *.
  assert (Hc : prints_runner fo child).
  { unfold child. destruct d; [|apply run_prints_mono].
    intros cx' g0 e0 c0 g0' res0 E0. injection E0 as <- _. exists []. reflexivity. }
  unfold run_with in Ea, Er.
  destruct (exec_cmds fo child cx pre [] _) as [s1 r1] eqn:E1.
  destruct r1 as [cr|er tr|k|]; try discriminate Ea. injection Ea as <- <- <-.
  destruct cr as [out1 sg]. cbn [cr_sig] in Hsig. subst sg.
  destruct (exec_cmds fo child cx (pre ++ _) [] _) as [s2 r2] eqn:E2.
  assert (Hr2 : r2 = IErr e t /\ s_g s2 = g).
  { destruct r2 as [cr|er tr|k|]; try discriminate Er; injection Er as <- <- <-. split; reflexivity. }
  destruct Hr2 as [-> <-].
  destruct (exec_cmds_app_prints_inv child cx Hc pre c n rest [] _ s1 s2 out1 _ E1 E2) as (_ & a & b & _ & Hb & _).
  exists b. exact Hb.
Qed.

(* ------------------------------------------------------------------ (2)(b) one PRINT line *)
Lemma split_ws1_second : forall c cmd t more, split_ws1 c = cmd :: t :: more -> t <> [].
Proof.
  intros c cmd t more H. unfold split_ws1 in H. destruct (lstrip c) as [|x y]; [discriminate|].
  destruct (take_word (x :: y)) as [w rest]. destruct (lstrip rest) as [|p q]; [discriminate|].
  injection H as _ <- _. discriminate.
Qed.

(* `PRINT t` (any casing of the word, no `$`), no argument group: exactly one record *)
Theorem print_inline_adds : forall child cx c n cmd t (s : st),
  split_ws1 c = [cmd; t] -> upper cmd = s_PRINT ->
  exec_line fo child cx c n None s =
  (mkSt (mkGlob (mkPrint (strip t) n (c_file cx) :: g_prints (s_g s)) (g_warnings (s_g s))) (s_env s) (Some (c, n)),
   IOk (mkCret [] SNormal)).
Proof.
  intros child cx c n cmd t s Hs Hu.
  pose proof (split_ws1_second _ _ _ _ Hs) as Ht.
  rewrite (print_line_exec fo child cx c n None cmd [t] [mkLine (AStr t) n (c, n)] s Hs Hu).
  - reflexivity.
  - unfold listify_pure, line_argument, first_arg. destruct t; [contradiction|reflexivity].
Qed.

(* `PRINT` alone: nothing *)
Theorem print_bare_adds_nothing : forall child cx c n cmd (s : st),
  split_ws1 c = [cmd] -> upper cmd = s_PRINT ->
  exec_line fo child cx c n None s = (mkSt (s_g s) (s_env s) (Some (c, n)), IOk (mkCret [] SNormal)).
Proof.
  intros child cx c n cmd s Hs Hu.
  rewrite (print_line_exec fo child cx c n None cmd [] [] s Hs Hu); [|reflexivity].
  destruct s as [[p w] e l2]. reflexivity.
Qed.

(* the records of an argument group: one per line, with the line's own number *)
Definition group_prints (file : option path) (b : list item) : list print_rec :=
  flat_map (fun it => match it with Ln c n => [mkPrint (strip c) n file] | Blk _ => [] end) b.

Lemma block_lines_prints : forall file b ls, block_lines b = Some ls ->
  map (print_of file) ls = group_prints file b.
Proof.
  intros file. induction b as [|[c n|b'] r IH]; intros ls H; cbn [block_lines] in H.
  - injection H as <-. reflexivity.
  - destruct (block_lines r) as [t|]; [|discriminate]. injection H as <-.
    cbn [map group_prints flat_map app]. f_equal. apply IH. reflexivity.
  - discriminate.
Qed.

(* `PRINT` followed by a group of k lines (no nested group): the k records, first line first
   (the list is newest first, hence [rev]); with an inline text as well, that one comes first *)
Theorem print_group_adds : forall child cx c n cmd more b ls (s : st),
  split_ws1 c = cmd :: more -> upper cmd = s_PRINT -> block_lines b = Some ls ->
  exists l2,
  exec_line fo child cx c n (Some b) s =
  (mkSt (mkGlob (rev (match more with
                      | t :: _ => mkPrint (strip t) n (c_file cx) :: group_prints (c_file cx) b
                      | [] => group_prints (c_file cx) b end) ++ g_prints (s_g s))
                (g_warnings (s_g s))) (s_env s) l2,
   IOk (mkCret [] SNormal)).
Proof.
  intros child cx c n cmd more b ls s Hs Hu Hb.
  rewrite (print_line_exec fo child cx c n (Some b) cmd more (first_arg (c, n) (line_argument more) n ++ ls) s Hs Hu).
  2:{ unfold listify_pure. rewrite Hb. reflexivity. }
  rewrite map_app. rewrite (block_lines_prints _ _ _ Hb).
  destruct more as [|t more'].
  - eexists. cbn [line_argument first_arg map app]. reflexivity.
  - pose proof (split_ws1_second _ _ _ _ Hs) as Ht. cbn [line_argument first_arg].
    destruct t as [|t0 tr]; [contradiction|]. eexists. cbn [map app]. reflexivity.
Qed.

(* a group with a nested group is refused before anything is printed *)
Theorem print_group_nested_refused : forall child cx c n cmd more b (s : st),
  split_ws1 c = cmd :: more -> upper cmd = s_PRINT -> block_lines b = None ->
  exec_line fo child cx c n (Some b) s = (s, IErr EInvalidArguments (Some (here cx (c, n) (s_line2 s)))).
Proof.
  intros child cx c n cmd more b s Hs Hu Hb. unfold exec_line. rewrite Hs.
  rewrite (find_print_word cmd (Some b) Hu). cbn [is_start_class print_sc s_run andb].
  unfold simple_compile. cbn [print_sc s_flipper_only]. unfold check_flipper. cbn [andb].
  unfold bindM at 1. unfold ret at 1. unfold bindM at 1. unfold listify_args. rewrite Hb. reflexivity.
Qed.

End Order.
