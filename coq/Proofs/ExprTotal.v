(* C09 (tokenizer part), closing the fuel of [tokenize]: the nested group strings handed to the
   recursive call are strictly shorter than the input, so the budget S (length s) of [tokenize]
   is never exhausted either; with E4 and E5 the tokenizer model never returns [Crash]. *)
From Coq Require Import NArith ZArith List Bool Lia.
From DS Require Import Base PyStr Values Tables Constants Expr ExprSafety ExprFuel.
Import ListNotations.

Definition is_group (t : tok) : bool := match t with TGroup _ _ _ _ => true | _ => false end.

(* a group token held by the scanner has a non-negative depth and is not closed *)
Definition tok6 (t : tok) : Prop :=
  match t with
  | TGroup d _ closed _ => (0 <= d)%Z /\ closed = false
  | _ => True
  end.

Definition add_char_post6 (t : tok) (c : N) (r : tok * istoken) : Prop :=
  let '(t', it) := r in
  is_group t' = is_group t /\
  (it = ITrue \/ it = ITrueContinue -> tok6 t') /\
  (is_group t = true -> it = IContinue -> c = rpar) /\
  (is_group t = true -> it <> IFalse /\ it <> IFalseSkip).

Ltac triv6 :=
  cbn; repeat split; auto;
  try (let H := fresh "H" in intro H; discriminate H);
  try (let H := fresh "H" in let H' := fresh "H" in intros H H'; discriminate H');
  try congruence;
  try match goal with Hor : _ = _ \/ _ = _ |- _ => destruct Hor as [Hor|Hor]; discriminate Hor end.

Lemma add_char_spec6 : forall t c, tok6 t -> okP (add_char_post6 t c) (add_char t c).
Proof.
  intros t c H6. destruct t as [in_s closed|idx is_fp is_neg closed|cl k|depth ign closed opp].
  - cbn [add_char].
    destruct (negb (c =? q)%N && in_s); [triv6|].
    destruct in_s; [triv6|].
    destruct (c =? q)%N; triv6.
  - cbn [add_char].
    destruct (isnumeric_c c); [triv6|].
    destruct (Z.eqb (idx + 1) 0 && (c =? dash)%N); [triv6|].
    destruct ((c =? dot)%N && negb is_fp); [triv6|].
    destruct (is_neg && Z.eqb (idx + 1) 1); triv6.
  - cbn [add_char]. destruct (kw_list k) as [|w0 ws]; [triv6|].
    destruct (kw_step k c) as [k' it]. triv6.
  - cbn in H6. destruct H6 as [Hd ->]. cbn [add_char].
    destruct (c =? lpar)%N eqn:Hl; destruct (c =? rpar)%N eqn:Hr; cbn [orb negb].
    + (* c is both parentheses: impossible *)
      apply N.eqb_eq in Hl. apply N.eqb_eq in Hr. rewrite Hl in Hr. discriminate Hr.
    + (* "(" *)
      destruct (_ && negb (Z.eqb depth 0)); [triv6|].
      destruct (depth + 1 <? 0)%Z eqn:Hneg; [exact I|].
      destruct (cmp_eval paren_limit_op (depth + 1) paren_limit); [exact I|].
      destruct (0 <? depth + 1)%Z eqn:Hpos.
      * triv6. lia.
      * exfalso. apply Z.ltb_ge in Hpos. lia.
    + (* ")" *)
      apply N.eqb_eq in Hr.
      destruct (_ && negb (Z.eqb depth 0)); [triv6|].
      destruct (depth - 1 <? 0)%Z eqn:Hneg; [exact I|].
      destruct (cmp_eval paren_limit_op (depth - 1) paren_limit); [exact I|].
      apply Z.ltb_ge in Hneg.
      destruct (0 <? depth - 1)%Z eqn:Hpos; [apply Z.ltb_lt in Hpos|]; triv6; try lia.
    + (* any other character *)
      destruct (_ && negb (Z.eqb depth 0)); [triv6|].
      destruct (depth <? 0)%Z; [exact I|].
      destruct (cmp_eval paren_limit_op depth paren_limit); [exact I|].
      destruct (0 <? depth)%Z; [triv6|].
      destruct (c =? bang)%N; triv6.
Qed.

Lemma strip_parens_rpar : forall y : str, length (strip_parens (y ++ [rpar])) <= length y.
Proof.
  intros [|c0 y]; unfold strip_parens; cbn [app].
  - cbn. lia.
  - destruct (c0 =? lpar)%N.
    + rewrite rev_app_distr. cbn [rev app]. rewrite N.eqb_refl, rev_involutive. cbn [length]. lia.
    + cbn [rev]. rewrite rev_app_distr. cbn [rev app]. rewrite N.eqb_refl.
      rewrite rev_app_distr, rev_involutive. cbn [rev app length]. lia.
Qed.

Section WithFloats.
Variable fo : FloatOps.
Notation value := (value fo).
Notation ptok := (ptok fo).
Notation ptree := (ptree fo).
Notation oplist := (oplist fo).
Notation sd := (sd fo).
Notation vars_t := (vars_t fo).
Notation sd_start := (Expr.sd_start fo).
Notation sd_rest := (Expr.sd_rest fo).
Notation sd_token := (Expr.sd_token fo).
Notation sd_is_op := (Expr.sd_is_op fo).
Notation sd_string := (Expr.sd_string fo).
Notation sd_out := (Expr.sd_out fo).
Notation sd_black := (Expr.sd_black fo).
Notation Inv := (Inv fo).

Lemma new_tok_tok6 : forall (vars : vars_t) c, tok6 (new_tok fo vars c).
Proof. intros vars [| | | | |oc]; cbn; auto. split; [lia|reflexivity]. Qed.

Lemma set_value_group : forall (vars : vars_t) t x inner opp,
  set_value fo vars t x = Ok (PGroup inner opp) -> is_group t = true /\ inner = strip_parens x.
Proof.
  intros vars t x inner opp H. destruct t as [a b|a b c d|cl k|a b c d]; cbn [set_value] in H.
  - discriminate H.
  - destruct (number_value fo x); cbn in H; discriminate H.
  - destruct cl as [| | | | |oc]; try discriminate H.
    + destruct (str_eqb x s_TRUE); [discriminate H|]. destruct (str_eqb x s_FALSE); discriminate H.
    + destruct (lookup x vars); discriminate H.
  - inversion H. split; reflexivity.
Qed.

(* [n] is the length of the whole input *)
Definition gshort (n : nat) (p : ptok) : Prop :=
  match p with PGroup inner _ => length inner < n | _ => True end.

Definition Pre6 (n : nat) (s : sd) : Prop :=
  length (sd_start s) <= n /\
  length (sd_string s) + length (sd_rest s) <= length (sd_start s) /\
  Forall (gshort n) (sd_out s).

Definition Inv6 (n : nat) (s : sd) : Prop :=
  Pre6 n s /\ match sd_token s with Some t => tok6 t | None => True end.

Lemma append_post6 : forall (vars : vars_t) n (s : sd) t rest string,
  length rest <= n -> Forall (gshort n) (sd_out s) ->
  (is_group t = true -> length (strip_parens (rev string)) < n) ->
  okP (Inv6 n) (append_and_switch fo vars s t rest string).
Proof.
  intros vars n s t rest string Hrest Hout Hg. unfold append_and_switch.
  destruct (set_value fo vars t (rev string)) as [p|e|k|] eqn:Hsv; cbn; auto.
  split; [|exact I]. split; [|split]; cbn; auto.
  constructor; [|exact Hout]. destruct p as [v|inner opp|oc sym]; cbn; auto.
  apply set_value_group in Hsv. destruct Hsv as [Hgr ->]. apply Hg. exact Hgr.
Qed.

Definition try_post6 (n : nat) (s : sd) (r : sd + sd) : Prop :=
  match r with
  | inl s' => Inv6 n s'
  | inr s1 => Pre6 n s1 /\ sd_string s1 = [] /\ sd_start s1 = sd_start s
  end.

Lemma try_class_spec6 : forall (vars : vars_t) n (s : sd) c rest' cl,
  Pre6 n s -> sd_string s = [] -> S (length rest') <= length (sd_start s) ->
  okP (try_post6 n s) (try_class fo vars s c rest' cl).
Proof.
  intros vars n s c rest' cl [Hn [Hlen Hout]] Hstr Hstart. unfold try_class.
  pose proof (add_char_spec6 (new_tok fo vars cl) c (new_tok_tok6 vars cl)) as H6.
  pose proof (add_char_new_not_skip fo vars cl c) as Hns.
  destruct (add_char (new_tok fo vars cl) c) as [[t it]|e|k|]; cbn [bind]; cbn in H6; auto.
  destruct H6 as [Hgr [Htok [Hrp Hnf]]].
  destruct it; cbn.
  - (* IFalse *) unfold Pre6. cbn. auto.
  - (* ITrue *) unfold Inv6, Pre6. cbn. rewrite Hstr. cbn. repeat split; auto.
  - (* IContinue *)
    eapply okP_bind.
    + apply append_post6 with (n := n); [lia|exact Hout|].
      intro Hg. rewrite Hgr in Hg. rewrite (Hrp Hg eq_refl), Hstr. cbn. lia.
    + intros s' Hs'. exact Hs'.
  - (* IFalseSkip *) exfalso. apply (Hns t). reflexivity.
  - (* IResetContinue *) unfold Pre6. cbn. repeat split; auto.
  - (* ITrueContinue *) unfold Inv6, Pre6. cbn. rewrite Hstr. cbn. repeat split; auto. lia.
Qed.

Lemma verify_char_spec6 : forall (vars : vars_t) n c rest' cls (s : sd),
  Pre6 n s -> sd_string s = [] -> S (length rest') <= length (sd_start s) ->
  okP (Inv6 n) (verify_char fo vars s c rest' cls).
Proof.
  intros vars n c rest'. induction cls as [|cl more IH]; intros s Hpre Hstr Hstart;
    cbn [verify_char].
  - exact I.
  - destruct (in_black cl (sd_black s)).
    + apply IH; assumption.
    + eapply okP_bind; [apply try_class_spec6; eassumption|].
      intros [s'|s1] Hpost; cbn in Hpost.
      * exact Hpost.
      * destruct Hpost as [Hpre1 [Hstr1 Hst1]]. apply IH; auto. rewrite Hst1. exact Hstart.
Qed.

Lemma scan_step_spec6 : forall (vars : vars_t) n (s : sd) r,
  Inv s -> Inv6 n s -> scan_step fo vars s = Some r -> okP (Inv6 n) r.
Proof.
  intros vars n s r [Hpre Htok] [[Hn [Hlen Hout]] H6] Hstep. unfold scan_step in Hstep.
  destruct (sd_rest s) as [|c rest'] eqn:Hrest; [discriminate Hstep|].
  inversion Hstep as [Hr]; clear Hstep Hr. cbn [length] in Hlen.
  destruct (sd_token s) as [t|] eqn:Ht.
  - pose proof (add_char_spec6 t c H6) as Ha.
    destruct (add_char t c) as [[t' it]|e|k|]; cbn [bind]; cbn in Ha; auto.
    destruct Ha as [Hgr [Htok6 [Hrp Hnf]]].
    destruct it.
    + (* IFalse *) apply append_post6; [rewrite ?Hrest; cbn [length]; lia|exact Hout|].
      intro Hg. rewrite Hgr in Hg. destruct (Hnf Hg) as [Hx _]. contradiction Hx. reflexivity.
    + (* ITrue *) unfold Inv6, Pre6. cbn. repeat split; auto. lia.
    + (* IContinue *) apply append_post6; [lia|exact Hout|].
      intro Hg. rewrite Hgr in Hg. rewrite (Hrp Hg eq_refl). cbn [rev].
      pose proof (strip_parens_rpar (rev (sd_string s))) as Hs. rewrite rev_length in Hs. lia.
    + (* IFalseSkip *) apply append_post6; [lia|exact Hout|].
      intro Hg. rewrite Hgr in Hg. destruct (Hnf Hg) as [_ Hx]. contradiction Hx. reflexivity.
    + (* IResetContinue *) unfold Inv6, Pre6. cbn. repeat split; auto.
    + (* ITrueContinue *) unfold Inv6, Pre6. cbn. repeat split; auto. lia.
  - destruct (isspace_c c).
    + unfold Inv6, Pre6. cbn. rewrite Htok. cbn. repeat split; auto. lia.
    + apply verify_char_spec6.
      * unfold Pre6. rewrite Hrest. cbn [length]. auto.
      * exact Htok.
      * lia.
Qed.

Lemma scan_finish_spec6 : forall (vars : vars_t) n (s : sd),
  Inv6 n s -> okP (Forall (gshort n)) (scan_finish fo vars s).
Proof.
  intros vars n s [[Hn [Hlen Hout]] H6]. unfold scan_finish.
  assert (Hfin : forall s' : sd, Forall (gshort n) (sd_out s') ->
            okP (Forall (gshort n))
              (if Nat.even (length (sd_out s')) then Err EExpectedToken else Ok (rev (sd_out s')))).
  { intros s' Hs'. destruct (Nat.even (length (sd_out s'))); cbn; auto. apply Forall_rev. exact Hs'. }
  destruct (sd_token s) as [t|].
  - destruct (tok_closed t) eqn:Hcl; [|exact I].
    eapply okP_bind.
    + apply append_post6 with (n := n); [lia|exact Hout|].
      intro Hg. destruct t; try discriminate Hg. cbn in H6, Hcl. destruct H6 as [_ Hc].
      rewrite Hc in Hcl. discriminate Hcl.
    + intros s' [[_ [_ Hs']] _]. apply Hfin. exact Hs'.
  - cbn [bind]. apply Hfin. exact Hout.
Qed.

Lemma scan_loop_spec6 : forall (vars : vars_t) n fuel (s : sd),
  Inv s -> Inv6 n s -> okP (Forall (gshort n)) (scan_loop fo fuel vars s).
Proof.
  intros vars n. induction fuel as [|f IH]; intros s Hinv H6; cbn [scan_loop];
    destruct (scan_step fo vars s) as [r|] eqn:Hstep.
  - exact I.
  - apply scan_finish_spec6. exact H6.
  - pose proof (scan_step_spec fo vars s r Hinv Hstep) as H1.
    pose proof (scan_step_spec6 vars n s r Hinv H6 Hstep) as H2.
    destruct r as [s'|e|k|]; cbn [bind]; cbn in H1, H2; try exact I. apply IH; assumption.
  - apply scan_finish_spec6. exact H6.
Qed.

(* the group strings produced by the scanner are strictly shorter than its input *)
Theorem convert_string_groups : forall (vars : vars_t) (s : str),
  okP (Forall (gshort (length s))) (convert_string fo vars s).
Proof.
  intros vars s. unfold convert_string. apply scan_loop_spec6.
  - apply Inv_init.
  - unfold Inv6, Pre6. cbn. repeat split; auto.
Qed.

(* ------------------------------------------------------------------ trees keep the leaves *)
Fixpoint tree_all (P : ptok -> Prop) (t : ptree) : Prop :=
  match t with
  | Leaf p => P p
  | Node _ _ l r => tree_all P l /\ tree_all P r
  end.

Definition item_all (P : ptok -> Prop) (x : opclassid * str * ptree) : Prop := tree_all P (snd x).

Lemma structure_rest_all : forall P (l : list ptok) ol,
  Forall P l -> structure_rest fo l = Some ol -> Forall (item_all P) ol.
Proof.
  intros P l. induction l as [|a|a b l IH] using list_ind2; intros ol Hg Hs.
  - cbn in Hs. inversion Hs. constructor.
  - cbn in Hs. destruct a; discriminate Hs.
  - inversion Hg as [|x1 l1 Hga Hg1]; subst x1 l1.
    inversion Hg1 as [|x2 l2 Hgb Hgl]; subst x2 l2.
    destruct a as [v|i o|oc sym]; cbn [structure_rest] in Hs; try discriminate Hs.
    destruct b as [v|i o|oc' sym']; try discriminate Hs;
      destruct (structure_rest fo l) as [t|] eqn:Hr; cbn in Hs; try discriminate Hs;
      inversion Hs; subst ol; constructor; auto.
Qed.

Lemma structure_all : forall P (l : list ptok) t0 rest,
  Forall P l -> structure fo l = Some (t0, rest) -> tree_all P t0 /\ Forall (item_all P) rest.
Proof.
  intros P l t0 rest Hg Hs. destruct l as [|a l]; [discriminate Hs|].
  inversion Hg as [|x1 l1 Hga Hgl]; subst x1 l1.
  destruct a as [v|i o|oc sym]; cbn [structure] in Hs; try discriminate Hs;
    destruct (structure_rest fo l) as [t|] eqn:Hr; cbn in Hs; try discriminate Hs;
    inversion Hs; subst t0 rest; (split; [exact Hga|]); eapply structure_rest_all; eassumption.
Qed.

Lemma pass_all : forall P row (rest : oplist) (acc : ptree),
  tree_all P acc -> Forall (item_all P) rest ->
  tree_all P (fst (pass fo row acc rest)) /\ Forall (item_all P) (snd (pass fo row acc rest)).
Proof.
  intros P row. induction rest as [|[[oc sym] t] r IH]; intros acc Hacc Hrest; cbn [pass].
  - cbn. auto.
  - inversion Hrest as [|x l Hit Hr]; subst x l. unfold item_all in Hit. cbn in Hit.
    destruct (str_in sym row).
    + apply IH; [|exact Hr]. cbn. auto.
    + specialize (IH t Hit Hr). destruct (pass fo row t r) as [a r'] eqn:Hp. cbn in *.
      destruct IH as [Ha Hr']. split; [exact Hacc|]. constructor; [|exact Hr']. exact Ha.
Qed.

Lemma fold_pass_all : forall P rows (p : ptree * oplist),
  tree_all P (fst p) /\ Forall (item_all P) (snd p) ->
  tree_all P (fst (fold_left (fun '(a, r) row => pass fo row a r) rows p)) /\
  Forall (item_all P) (snd (fold_left (fun '(a, r) row => pass fo row a r) rows p)).
Proof.
  intros P. induction rows as [|row rows IH]; intros [a r] Hp; cbn [fold_left].
  - exact Hp.
  - apply IH. destruct Hp as [Ha Hr]. apply pass_all; assumption.
Qed.

Lemma build_tree_all : forall P (toks : list ptok),
  Forall P toks -> okP (tree_all P) (build_tree fo toks).
Proof.
  intros P toks Hg. unfold build_tree.
  destruct (structure fo toks) as [[t0 rest]|] eqn:Hst; [|exact I].
  pose proof (structure_all P toks t0 rest Hg Hst) as Hgood.
  pose proof (fold_pass_all P all_rows (t0, rest) Hgood) as Hf.
  destruct (fold_left _ all_rows (t0, rest)) as [t rest'].
  destruct rest'; cbn; [apply Hf|exact I].
Qed.

(* ------------------------------------------------------------------ the tokenizer never crashes *)
Lemma solve_total : forall n (rec : str -> res value),
  (forall s', length s' < n -> nocrash (rec s')) ->
  forall t : ptree, good_tree fo t -> tree_all (gshort n) t -> nocrash (solve fo rec t).
Proof.
  intros n rec Hrec. induction t as [p|oc sym l IHl r IHr]; intros Hg Hs; cbn [solve].
  - destruct p as [v|inner opp|oc sym]; cbn in Hg; try discriminate Hg.
    + exact I.
    + eapply safe_bind; [apply Hrec; exact Hs|]. intros v _. exact I.
  - cbn in Hg, Hs. destruct Hg as [Hsym [Hl Hr]]. destruct Hs as [Hsl Hsr].
    eapply safe_bind; [apply IHl; assumption|]. intros lv _.
    eapply safe_bind; [apply IHr; assumption|]. intros rv _.
    apply apply_op_nocrash. exact Hsym.
Qed.

Lemma convert_string_total : forall (vars : vars_t) (s : str),
  safe (fun toks => Final fo toks /\ Forall (gshort (length s)) toks) (convert_string fo vars s).
Proof.
  intros vars s.
  pose proof (convert_string_spec fo vars s) as H1.
  pose proof (convert_string_groups vars s) as H2.
  pose proof (convert_string_fuel fo vars s) as H3.
  destruct (convert_string fo vars s) as [toks|e|k|]; cbn in *; auto.
  subst k. apply H3. reflexivity.
Qed.

Theorem tokenize_fuel_total : forall fuel (vars : vars_t) (s : str),
  length s < fuel -> nocrash (tokenize_fuel fo fuel vars s).
Proof.
  induction fuel as [|f IH]; intros vars s Hlen; [lia|]. cbn [tokenize_fuel].
  eapply safe_bind; [apply convert_string_total|]. intros toks [Hfin Hgs].
  pose proof (build_tree_spec fo toks Hfin) as Hb1.
  pose proof (build_tree_all (gshort (length s)) toks Hgs) as Hb2.
  destruct (build_tree fo toks) as [tree|e|k|]; cbn [bind]; cbn in Hb1, Hb2; auto.
  eapply safe_bind with (P := fun _ => True).
  - apply (solve_total (length s)); auto.
    intros s' Hs'. apply IH. lia.
  - intros v _. exact I.
Qed.

(* E4 + E5: no crash at all *)
Theorem tokenize_never_crashes : forall (vars : vars_t) (s : str) k,
  tokenize fo vars s <> Crash k.
Proof.
  intros vars s k H. unfold tokenize in H.
  pose proof (tokenize_fuel_total (S (length s)) vars s ltac:(lia)) as Hs.
  unfold nocrash in Hs. rewrite H in Hs. exact Hs.
Qed.

End WithFloats.
