(* Non-vacuity of the refinement theorem of Proofs/CoreAllRefine.v / CoreAllTop.v on a two-file
   program:

     main.txt                          lib.txt
       1  VAR x 5                        1  FUNC greet
       2  START lib                      2      PRINT hello
       3  RUN greet                      3      STRING hi
       4  FOO bar                        4  PRINT loaded
       5  REM done
       6  $STRING x

   main defines a variable, STARTs lib (which defines a function and prints), RUNs the function
   (whose PRINT carries lib's file and line), has an unknown command and a comment.
   The derivation, the well-formedness, and the interpreter's result (vm_compute) for both
   settings of include_comments and of supress_command_not_exist. *)
From Coq Require Import String Ascii NArith ZArith List Bool Lia.
From DS Require Import Base PyStr Values Expr TabParse Tables Constants Interp IdentSpec.
From DS Require Import ChainLoopExamples ImportGraph CoreLang CoreWf CoreRefine CoreFunc.
From DS Require Import CoreAll CoreAllLines CoreAllBase CoreAllRefine CoreAllTop.
Import ListNotations.
Open Scope string_scope.
Open Scope list_scope.

Arguments IOk {A}. Arguments IErr {A}.
Arguments e_sys : clear implicits. Arguments e_user : clear implicits. Arguments e_temp : clear implicits.
Arguments e_funcs : clear implicits. Arguments mkEnv : clear implicits.

(* ------------------------------------------------------------------ building derivations *)
Ltac ev := unfold eval; vm_compute; reflexivity.
Ltac dec := vm_compute; reflexivity.
Ltac rng := unfold loop_max; lia.
Ltac sgl := first [left; reflexivity | right; reflexivity].
Ltac notin := let H := fresh "H" in intro H; vm_compute in H; repeat (destruct H as [H|H]; [discriminate H|]); exact H.

Ltac uderive :=
  cbn [d_body d_params d_file d_line];
  lazymatch goal with
  | |- CoreAll.exec _ _ _ _ _ _ _ _ _ _ _ _ (UEmit _ _) _ _ _ _ _ _ => eapply CoreAll.E_Emit
  | |- CoreAll.exec _ _ _ _ _ _ _ _ _ _ _ _ (UEmitEval _ _) _ _ _ _ _ _ => eapply CoreAll.E_EmitEval; [ev|dec]
  | |- CoreAll.exec _ _ _ _ _ _ _ _ _ _ _ _ (UVar _ _) _ _ _ _ _ _ => eapply CoreAll.E_Var; ev
  | |- CoreAll.exec _ _ _ _ _ _ _ _ _ _ _ _ (UIf _ _) _ _ _ _ _ _ => eapply CoreAll.E_If; uderive
  | |- CoreAll.exec _ _ _ _ _ _ _ _ _ _ _ _ (URepeat _ _ _) _ _ _ _ _ _ => eapply CoreAll.E_Repeat; uderive
  | |- CoreAll.exec _ _ _ _ _ _ _ _ _ _ _ _ (UWhile _ _ _) _ _ _ _ _ _ => eapply CoreAll.E_While; uderive
  | |- CoreAll.exec _ _ _ _ _ _ _ _ _ _ _ _ UBreakLoop _ _ _ _ _ _ => eapply CoreAll.E_Break
  | |- CoreAll.exec _ _ _ _ _ _ _ _ _ _ _ _ UContinueLoop _ _ _ _ _ _ => eapply CoreAll.E_Continue
  | |- CoreAll.exec _ _ _ _ _ _ _ _ _ _ _ _ UReturn _ _ _ _ _ _ => eapply CoreAll.E_Return
  | |- CoreAll.exec _ _ _ _ _ _ _ _ _ _ _ _ (UFunc _ _ _) _ _ _ _ _ _ => eapply CoreAll.E_Func
  | |- CoreAll.exec _ _ _ _ _ _ _ _ _ _ _ _ (URun _ []) _ _ _ _ _ _ =>
      eapply CoreAll.E_Run; [reflexivity|dec|reflexivity|uderive|sgl]
  | |- CoreAll.exec _ _ _ _ _ _ _ _ _ _ _ _ (URun _ _) _ _ _ _ _ _ =>
      eapply CoreAll.E_Run; [eexists; split; [ev|reflexivity]|dec|reflexivity|uderive|sgl]
  | |- CoreAll.exec _ _ _ _ _ _ _ _ _ _ _ _ (UPrint _) _ _ _ _ _ _ => eapply CoreAll.E_Print
  | |- CoreAll.exec _ _ _ _ _ _ _ _ _ _ _ _ (UPrintEval _) _ _ _ _ _ _ => eapply CoreAll.E_PrintEval; [ev|dec]
  | |- CoreAll.exec _ _ _ _ _ _ _ _ _ _ _ _ (URem _) _ _ _ _ _ _ => eapply CoreAll.E_Rem
  | |- CoreAll.exec _ _ _ _ _ _ _ _ _ _ _ _ (UUnknown _ _) _ _ _ _ _ _ => eapply CoreAll.E_Unknown
  | |- CoreAll.exec _ _ _ _ _ _ _ _ _ _ _ _ (UStart _ _) _ _ _ _ _ _ =>
      eapply CoreAll.E_Start; [dec|notin|uderive]
  | |- CoreAll.exec_list _ _ _ _ _ _ _ _ _ _ _ _ [] _ _ _ _ _ _ => eapply CoreAll.L_Nil
  | |- CoreAll.exec_list _ _ _ _ _ _ _ _ _ _ _ _ (_ :: _) _ _ _ _ _ _ =>
      first [ eapply CoreAll.L_Cons; [solve [uderive]|uderive]
            | eapply CoreAll.L_Stop; [solve [uderive]|discriminate] ]
  | |- CoreAll.exec_arms _ _ _ _ _ _ _ _ _ _ _ _ _ ((_, _) :: _) _ _ _ _ _ _ =>
      first [ eapply CoreAll.A_Take; [ev|dec|solve [uderive]|
                              first [ intros _; repeat (constructor; [eexists; ev|]); constructor
                                    | let Hd := fresh "Hd" in intro Hd; discriminate Hd ] ]
            | eapply CoreAll.A_Skip; [ev|dec|uderive] ]
  | |- CoreAll.exec_arms _ _ _ _ _ _ _ _ _ _ _ _ _ [] (Some _) _ _ _ _ _ => eapply CoreAll.A_Else; uderive
  | |- CoreAll.exec_arms _ _ _ _ _ _ _ _ _ _ _ _ _ [] None _ _ _ _ _ => eapply CoreAll.A_None
  | |- CoreAll.exec_repeat _ _ _ _ _ _ _ _ _ _ _ _ _ _ _ _ _ _ _ _ =>
      first [ eapply CoreAll.R_Done; [ev|dec|rng|lia]
            | eapply CoreAll.R_Iter; [ev|dec|rng|lia|solve [uderive]|sgl|uderive]
            | eapply CoreAll.R_Stop; [ev|dec|rng|lia|solve [uderive]|sgl] ]
  | |- CoreAll.exec_while _ _ _ _ _ _ _ _ _ _ _ _ _ _ _ _ _ _ _ =>
      first [ eapply CoreAll.W_Done; [rng|ev|dec]
            | eapply CoreAll.W_Iter; [rng|ev|dec|solve [uderive]|sgl|uderive]
            | eapply CoreAll.W_Stop; [rng|ev|dec|solve [uderive]|sgl] ]
  end.

Ltac wf_dec := repeat (first [exact I | discriminate | reflexivity | split | (left; reflexivity) | right]).

Definition S_ (t : string) := lit t.

(* ------------------------------------------------------------------ the program *)
Definition n_main : str := S_ "main".
Definition n_lib : str := S_ "lib".

Definition greet_body : list ustmt := [UPrint (S_ "hello"); UEmit (S_ "STRING") (S_ "hi")].
Definition lib_stmts : list ustmt := [UFunc (S_ "greet") [] greet_body; UPrint (S_ "loaded")].
Definition main_stmts : list ustmt :=
  [ UVar (S_ "x") (S_ "5"); UStart KStart n_lib; URun (S_ "greet") []; UUnknown (S_ "FOO") (S_ "bar");
    URem (S_ "done"); UEmitEval (S_ "STRING") (S_ "x") ].
Definition two_files : program := [(n_main, main_stmts); (n_lib, lib_stmts)].

(* the files as texts *)
Definition main_text : str :=
  prog ["VAR x 5"; "START lib"; "RUN greet"; "FOO bar"; "REM done"; "$STRING x"].
Definition lib_text : str :=
  prog ["FUNC greet"; "    PRINT hello"; "    STRING hi"; "PRINT loaded"].

Definition ex_dir : path := [S_ "proj"].
Definition ex_fs : fsys := fun p =>
  if path_eqb p (file_of ex_dir n_main) then Some main_text
  else if path_eqb p (file_of ex_dir n_lib) then Some lib_text else None.

Lemma two_files_ok : prog_ok ex_dir two_files ex_fs.
Proof.
  intros m stmts H. unfold two_files in H. cbn [lookup] in H.
  destruct (str_eqb m n_main) eqn:E1.
  - apply ScopeProofs.str_eqb_eq in E1. subst m. injection H as <-. split.
    + unfold main_stmts. cbn. wf_dec.
    + exists main_text. split; vm_compute; reflexivity.
  - destruct (str_eqb m n_lib) eqn:E2; [|discriminate].
    apply ScopeProofs.str_eqb_eq in E2. subst m. injection H as <-. split.
    + unfold lib_stmts, greet_body. cbn. wf_dec.
    + exists lib_text. split; vm_compute; reflexivity.
Qed.

(* ------------------------------------------------------------------ what the specification says *)
Definition greet_def : udef := mkDef [] greet_body n_lib 1.
Definition start_frame : sframe := mkSF n_main (S_ "START lib") 2 true.
Definition run_frame : sframe := mkSF n_main (S_ "RUN greet") 3 true.

Definition ex_out (inc : bool) : list uline :=
  [LCode (S_ "STRING hi"); LCode (S_ "FOO bar")] ++ (if inc then [LRem (S_ "REM done")] else [])
  ++ [LCode (S_ "STRING 5")].
Definition ex_events (sup : bool) : list event :=
  [EvPrint (S_ "loaded") 4 n_lib; EvPrint (S_ "hello") 2 n_lib]
  ++ (if sup then [] else [EvWarn (WUnknown [] n_main (S_ "FOO bar") 4)]).

Section Examples.
Variable fo : FloatOps.

Lemma two_files_derivation : forall inc sup,
  uruns fo two_files inc sup n_main 1 Normal [(S_ "greet", greet_def)] None [(S_ "x", VInt 5)]
        (ex_out inc) (ex_events sup).
Proof.
  intros inc sup.
  assert (H : exists F' f' vs' out ev, uruns fo two_files inc sup n_main 1 Normal F' f' vs' out ev /\
            F' = [(S_ "greet", greet_def)] /\ f' = None /\ vs' = [(S_ "x", VInt 5)] /\
            out = ex_out inc /\ ev = ex_events sup).
  { do 5 eexists. split.
    - unfold uruns. exists main_stmts. eexists. split; [reflexivity|]. split; [|reflexivity].
      unfold main_stmts, lib_stmts, greet_body. uderive.
    - destruct inc, sup; repeat split; vm_compute; reflexivity. }
  destruct H as (F' & f' & vs' & out & ev & H & -> & -> & -> & -> & ->). exact H.
Qed.

(* the prints: execution order, each with the line and file of its PRINT statement: the one inside
   greet is on line 2 of lib although the call is on line 3 of main *)
Lemma two_files_prints : forall sup,
  prints_of (ex_events sup) = [(S_ "loaded", 4%Z, n_lib); (S_ "hello", 2%Z, n_lib)].
Proof. intros []; reflexivity. Qed.

Lemma two_files_warnings :
  warnings_of (ex_events false) = [WUnknown [] n_main (S_ "FOO bar") 4] /\ warnings_of (ex_events true) = [].
Proof. split; reflexivity. Qed.

(* ------------------------------------------------------------------ what the interpreter does *)
Definition ex_opts (inc sup : bool) : options :=
  mkOptions (stack_limit default_options) inc (flipper_commands default_options) sup
            (use_project_config default_options).

(* texts, prints, warnings, user variables, names of the functions *)
Definition ex_result (inc sup : bool)
  : option (list str * list print_rec * list warning * list (str * value fo) * list str) :=
  match compile_items fo (ex_opts inc sup) ex_fs (Some (file_of ex_dir n_main)) (uitems_of main_stmts) with
  | (_, IOk c) => Some (map o_text (out fo c), prints fo c, warnings fo c, e_user fo (final_env fo c),
                        map fst (e_funcs fo (final_env fo c)))
  | _ => None
  end.

Definition lib_path : option path := Some (file_of ex_dir n_lib).
Definition main_path : option path := Some (file_of ex_dir n_main).

Lemma two_files_interpreter_comments :
  ex_result true false =
  Some ([S_ "STRING hi"; S_ "FOO bar"; S_ "REM done"; S_ "STRING 5"],
        [mkPrint (S_ "loaded") 4 lib_path; mkPrint (S_ "hello") 2 lib_path],
        [mkWarn (unknown_warning_text 4) (Some [mkFrame main_path (S_ "FOO bar", 4%Z) None])],
        [(S_ "x", VInt 5)], [S_ "greet"]).
Proof. vm_compute. reflexivity. Qed.

Lemma two_files_interpreter_no_comments :
  ex_result false false =
  Some ([S_ "STRING hi"; S_ "FOO bar"; S_ "STRING 5"],
        [mkPrint (S_ "loaded") 4 lib_path; mkPrint (S_ "hello") 2 lib_path],
        [mkWarn (unknown_warning_text 4) (Some [mkFrame main_path (S_ "FOO bar", 4%Z) None])],
        [(S_ "x", VInt 5)], [S_ "greet"]).
Proof. vm_compute. reflexivity. Qed.

Lemma two_files_interpreter_suppressed :
  ex_result true true =
  Some ([S_ "STRING hi"; S_ "FOO bar"; S_ "REM done"; S_ "STRING 5"],
        [mkPrint (S_ "loaded") 4 lib_path; mkPrint (S_ "hello") 2 lib_path],
        [], [(S_ "x", VInt 5)], [S_ "greet"]).
Proof. vm_compute. reflexivity. Qed.

(* the text level: the interpreter parses the entry file's text to the same commands *)
Lemma two_files_from_text : forall inc sup,
  compile_text fo (ex_opts inc sup) ex_fs (Some (file_of ex_dir n_main)) main_text =
  compile_items fo (ex_opts inc sup) ex_fs (Some (file_of ex_dir n_main)) (uitems_of main_stmts).
Proof. intros inc sup. unfold compile_text. replace (prepare_text main_text) with (TOk (uitems_of main_stmts)) by (vm_compute; reflexivity). reflexivity. Qed.

(* ... and the same through the theorem, for every setting of the two options *)
Lemma two_files_by_theorem : forall inc sup, exists ol F',
  map o_text ol = map line_text (ex_out inc) /\
  utab_rel ex_dir [(S_ "greet", greet_def)] F' /\
  compile_items fo (ex_opts inc sup) ex_fs (Some (file_of ex_dir n_main)) (uitems_of main_stmts) =
  (CoreAllBase.apply_evs ex_dir (ex_events sup) (mkGlob [] []),
   IOk (mkCompiled fo ol
          (map (CoreAllBase.conc_warning ex_dir) (warnings_of (ex_events sup)))
          (mkEnv fo (initial_sys fo) [(S_ "x", VInt 5)] [] F')
          (map (CoreAllBase.conc_print ex_dir) (prints_of (ex_events sup))))).
Proof.
  intros inc sup.
  destruct (refine_compile_items fo ex_dir two_files ex_fs (ex_opts inc sup) n_main 1 Normal
              [(S_ "greet", greet_def)] None [(S_ "x", VInt 5)] (ex_out inc) (ex_events sup) two_files_ok
              (two_files_derivation inc sup)) as (stmts & ol & F' & Hlk & Ho & Ht & E).
  { vm_compute. reflexivity. }
  injection Hlk as <-. exists ol, F'. split; [exact Ho|]. split; [exact Ht|exact E].
Qed.

End Examples.
