(* C19 / C15 over the CLI world: whole histories (cli_run), `new`, and new-then-compile.
   Built on the one-invocation laws of Proofs/CliWorldProofs.v. *)
From Coq Require Import NArith ZArith List Bool Lia.
From DS Require Import Base PyStr Values TabParse Interp Options Constants Cli CliWorld.
From DS Require Import DuckyGrammar LineGrammar GrammarProofs Spelling FlatScript FlatStrings FlatProofs FlatWhole.
From DS Require Import SmallProofs MoreProofs CliWorldSpec CliWorldProofs.
Import ListNotations.

Section History.
Variable fo : FloatOps.

(* ------------------------------------------------------------------ cli_run, unfolded *)
Lemma cli_run_cons : forall w op r,
  cli_run fo w (op :: r) =
  (fst (cli_run fo (fst (cli_step fo w op)) r),
   snd (cli_step fo w op) :: snd (cli_run fo (fst (cli_step fo w op)) r)).
Proof.
  intros w op r. cbn [cli_run]. destruct (cli_step fo w op) as [w1 x]. cbn [fst snd].
  destruct (cli_run fo w1 r) as [w2 xs]. reflexivity.
Qed.

Theorem cli_run_app : forall a b w,
  cli_run fo w (a ++ b) =
  (fst (cli_run fo (fst (cli_run fo w a)) b),
   snd (cli_run fo w a) ++ snd (cli_run fo (fst (cli_run fo w a)) b)).
Proof.
  induction a as [|op a IH]; intros b w.
  - cbn [app cli_run fst snd]. destruct (cli_run fo w b); reflexivity.
  - rewrite <- app_comm_cons. rewrite !cli_run_cons. cbn [fst snd]. rewrite IH. reflexivity.
Qed.

Corollary cli_run_snoc : forall ops op w,
  cli_run fo w (ops ++ [op]) =
  (fst (cli_step fo (fst (cli_run fo w ops)) op),
   snd (cli_run fo w ops) ++ [snd (cli_step fo (fst (cli_run fo w ops)) op)]).
Proof. intros ops op w. rewrite cli_run_app, cli_run_cons. reflexivity. Qed.

(* 2d *)
Theorem cli_reports_length : forall ops w, length (snd (cli_run fo w ops)) = length ops.
Proof.
  induction ops as [|op r IH]; intro w; [reflexivity|].
  rewrite cli_run_cons. cbn [snd length]. rewrite IH. reflexivity.
Qed.

(* the i-th report is the report of the i-th operation, run in the world the earlier ones left *)
Theorem history_nth_report : forall pre op post w,
  nth_error (snd (cli_run fo w (pre ++ op :: post))) (length pre) =
  Some (snd (cli_step fo (fst (cli_run fo w pre)) op)).
Proof.
  intros pre op post w. rewrite cli_run_app. cbn [snd].
  rewrite nth_error_app2; rewrite cli_reports_length; [|lia].
  rewrite Nat.sub_diag, cli_run_cons. reflexivity.
Qed.

(* a generic induction: a reflexive, transitive relation kept by every invocation *)
Lemma history_lift : forall (R : cworld -> cworld -> Prop),
  (forall w, R w w) -> (forall a b c, R a b -> R b c -> R a c) ->
  (forall w op, R w (fst (cli_step fo w op))) ->
  forall ops w, R w (fst (cli_run fo w ops)).
Proof.
  intros R Hrefl Htrans Hstep. induction ops as [|op r IH]; intro w; [apply Hrefl|].
  rewrite cli_run_cons. cbn [fst]. eapply Htrans; [apply Hstep|apply IH].
Qed.

Lemma step_eq : forall w op, cli_step fo w op = (fst (cli_step fo w op), snd (cli_step fo w op)).
Proof. intros w op. destruct (cli_step fo w op); reflexivity. Qed.

(* ------------------------------------------------------------------ 2a: frame *)
Theorem cli_history_frame : forall ops w q,
  ~ In q (touched_paths ops) -> w_files (fst (cli_run fo w ops)) q = w_files w q.
Proof.
  induction ops as [|op r IH]; intros w q Hq; [reflexivity|].
  rewrite cli_run_cons. cbn [fst]. unfold touched_paths in Hq. cbn [flat_map] in Hq.
  rewrite IH; [|intro H; apply Hq; apply in_or_app; right; exact H].
  apply (step_frame fo w op _ _ q (step_eq w op)). intro H. apply Hq. apply in_or_app. left. exact H.
Qed.

(* a source file that is never an output (nor a new project's main file) is never modified *)
Corollary cli_history_source_unchanged : forall ops w file,
  ~ In file (touched_paths ops) -> w_files (fst (cli_run fo w ops)) file = w_files w file.
Proof. exact cli_history_frame. Qed.

(* text files are never deleted *)
Theorem cli_history_files_stay : forall ops w q,
  w_files w q <> None -> w_files (fst (cli_run fo w ops)) q <> None.
Proof.
  intros ops w q.
  apply (history_lift (fun a b => w_files a q <> None -> w_files b q <> None)).
  - intros a H. exact H.
  - intros a b c H1 H2 H. apply H2, H1, H.
  - intros a op. exact (step_files_stay fo a op _ _ q (step_eq a op)).
Qed.

(* ------------------------------------------------------------------ 2b: the global config *)
Theorem cli_history_global_meaning : forall ops w,
  global_meaning (w_global (fst (cli_run fo w ops))) = global_meaning (w_global w).
Proof.
  intros ops w.
  apply (history_lift (fun a b => global_meaning (w_global b) = global_meaning (w_global a))).
  - reflexivity.
  - intros a b c H1 H2. rewrite H2. exact H1.
  - intros a op. exact (step_global_meaning fo a op _ _ (step_eq a op)).
Qed.

(* after at least one invocation the global file is present, in full *)
Theorem cli_history_global_full : forall ops w,
  ops <> [] ->
  w_global (fst (cli_run fo w ops)) = Some (yaml_of_options (global_meaning (w_global w))).
Proof.
  intros ops w Hne. destruct (exists_last Hne) as [pre [op ->]].
  rewrite cli_run_snoc. cbn [fst].
  rewrite (step_global fo _ op _ _ (step_eq _ op)). rewrite cli_history_global_meaning. reflexivity.
Qed.

(* the global options seen by the i-th operation do not depend on the earlier operations *)
Corollary cli_history_ith_global_options : forall pre w,
  (forall y, w_global w = Some y ->
             global_meaning (w_global (fst (cli_run fo w pre))) = options_of_yaml y) /\
  (w_global w = None -> global_meaning (w_global (fst (cli_run fo w pre))) = default_options).
Proof.
  intros pre w. split.
  - intros y Hy. rewrite cli_history_global_meaning, Hy. reflexivity.
  - intros Hn. rewrite cli_history_global_meaning, Hn. reflexivity.
Qed.

(* ------------------------------------------------------------------ well-formedness *)
Theorem cli_history_wf : forall ops w,
  configs_in_existing_dirs w -> configs_in_existing_dirs (fst (cli_run fo w ops)).
Proof.
  induction ops as [|op r IH]; intros w Hwf; [exact Hwf|].
  rewrite cli_run_cons. cbn [fst]. apply IH. exact (step_wf fo w op _ _ Hwf (step_eq w op)).
Qed.

(* ------------------------------------------------------------------ 2b: project configs *)
Theorem cli_history_config_meaning : forall ops w d y,
  configs_in_existing_dirs w -> w_cfg w d = Some y ->
  meaning_cfg (w_cfg (fst (cli_run fo w ops)) d) = Some (options_of_yaml y).
Proof.
  induction ops as [|op r IH]; intros w d y Hwf Hy.
  - cbn [cli_run fst]. rewrite Hy. reflexivity.
  - rewrite cli_run_cons. cbn [fst].
    pose proof (step_cfg_meaning fo w op _ _ d y Hwf (step_eq w op) Hy) as Hm.
    destruct (w_cfg (fst (cli_step fo w op)) d) as [y1|] eqn:Hy1; [|discriminate].
    assert (E : options_of_yaml y1 = options_of_yaml y) by (cbn [meaning_cfg option_map] in Hm; congruence).
    rewrite (IH _ d y1 (step_wf fo w op _ _ Hwf (step_eq w op)) Hy1). rewrite E. reflexivity.
Qed.

(* a directory without a config gets one only from a `new` of the history; it then denotes the
   default options for the rest of the history *)
Theorem cli_history_config_created : forall ops w d y',
  configs_in_existing_dirs w -> w_cfg w d = None ->
  w_cfg (fst (cli_run fo w ops)) d = Some y' ->
  In d (new_dirs ops) /\ options_of_yaml y' = default_options.
Proof.
  induction ops as [|op r IH]; intros w d y' Hwf Hn Hy'.
  - cbn [cli_run fst] in Hy'. rewrite Hn in Hy'. discriminate.
  - rewrite cli_run_cons in Hy'. cbn [fst] in Hy'.
    pose proof (step_wf fo w op _ _ Hwf (step_eq w op)) as Hwf1.
    unfold new_dirs. cbn [flat_map].
    destruct (w_cfg (fst (cli_step fo w op)) d) as [y1|] eqn:Hy1.
    + destruct (step_cfg_created fo w op _ _ d y1 (step_eq w op) Hn Hy1) as [dir [name [-> [_ [-> [_ Hd]]]]]].
      split; [apply in_or_app; left; left; reflexivity|].
      pose proof (cli_history_config_meaning r _ _ y1 Hwf1 Hy1) as Hm.
      rewrite Hy' in Hm.
      assert (E : options_of_yaml y' = options_of_yaml y1) by (cbn [meaning_cfg option_map] in Hm; congruence).
      rewrite E. exact Hd.
    + destruct (IH _ d y' Hwf1 Hy1 Hy') as [Hin Hd]. split; [apply in_or_app; right; exact Hin|exact Hd].
Qed.

(* the options of a compile of FILE do not depend on the earlier operations, when FILE's project
   had a config initially *)
Theorem cli_history_effective_options : forall pre w file limit comments y,
  configs_in_existing_dirs w -> w_cfg w (parent file) = Some y ->
  effective_options (fst (cli_run fo w pre)) file limit comments = effective_options w file limit comments.
Proof.
  intros pre w file limit comments y Hwf Hy. unfold effective_options.
  rewrite cli_history_global_meaning. apply calculate_options_meaning.
  rewrite (cli_history_config_meaning pre w _ y Hwf Hy), Hy. reflexivity.
Qed.

(* ... nor when the project has no config and no `new` of the history creates that directory *)
Theorem cli_history_effective_options_none : forall pre w file limit comments,
  configs_in_existing_dirs w -> w_cfg w (parent file) = None -> ~ In (parent file) (new_dirs pre) ->
  effective_options (fst (cli_run fo w pre)) file limit comments = effective_options w file limit comments.
Proof.
  intros pre w file limit comments Hwf Hn Hnew. unfold effective_options.
  rewrite cli_history_global_meaning. apply calculate_options_meaning. rewrite Hn.
  destruct (w_cfg (fst (cli_run fo w pre)) (parent file)) as [y'|] eqn:Hy'; [|reflexivity].
  destruct (cli_history_config_created pre w _ y' Hwf Hn Hy') as [Hin _]. contradiction.
Qed.

(* ------------------------------------------------------------------ directories *)
Theorem cli_history_dirs_grow : forall ops w d, In d (w_dirs w) -> In d (w_dirs (fst (cli_run fo w ops))).
Proof.
  intros ops w d.
  apply (history_lift (fun a b => In d (w_dirs a) -> In d (w_dirs b))).
  - intros a H. exact H.
  - intros a b c H1 H2 H. apply H2, H1, H.
  - intros a op. exact (step_dirs_grow fo a op _ _ d (step_eq a op)).
Qed.

Theorem cli_history_dirs_only_new : forall ops w d,
  In d (w_dirs (fst (cli_run fo w ops))) -> In d (w_dirs w) \/ In d (new_dirs ops).
Proof.
  induction ops as [|op r IH]; intros w d Hd; [left; exact Hd|].
  rewrite cli_run_cons in Hd. cbn [fst] in Hd. unfold new_dirs. cbn [flat_map].
  destruct (IH _ d Hd) as [H|H].
  - destruct (step_dirs_only_new fo w op _ _ d (step_eq w op) H) as [H1|H1];
      [left; exact H1|right; apply in_or_app; left; exact H1].
  - right. apply in_or_app. right. exact H.
Qed.

(* ------------------------------------------------------------------ 2c: the last writer wins *)
Theorem cli_history_last_writer : forall pre op post w p,
  ~ In p (touched_paths post) ->
  w_files (fst (cli_run fo w (pre ++ op :: post))) p =
  w_files (fst (cli_step fo (fst (cli_run fo w pre)) op)) p.
Proof.
  intros pre op post w p Hp. rewrite cli_run_app. cbn [fst]. rewrite cli_run_cons. cbn [fst].
  apply cli_history_frame. exact Hp.
Qed.

(* the last operation touching p was a compile that reported success: p holds its joined output *)
Theorem cli_history_last_success : forall pre file p limit comments post w n,
  ~ In p (touched_paths post) ->
  nth_error (snd (cli_run fo w (pre ++ OpCompile file p limit comments :: post))) (length pre) = Some (RSuccess n) ->
  exists text gl c,
    w_files (fst (cli_run fo w pre)) file = Some text /\
    compile_text fo (effective_options (fst (cli_run fo w pre)) file limit comments)
                 (w_files (fst (cli_run fo w pre))) (Some file) text = (gl, IOk c) /\
    n = length (warnings c) /\
    w_files (fst (cli_run fo w (pre ++ OpCompile file p limit comments :: post))) p = Some (joined_output c).
Proof.
  intros pre file p limit comments post w n Hp Hr.
  rewrite history_nth_report in Hr. injection Hr as Hr.
  pose proof (step_eq (fst (cli_run fo w pre)) (OpCompile file p limit comments)) as He. rewrite Hr in He.
  destruct (compile_success_inv fo _ _ _ _ _ _ _ He) as [text [gl [c [Hf [Hc [Hn [Ho _]]]]]]].
  exists text, gl, c. repeat split; try assumption.
  rewrite cli_history_last_writer; [|exact Hp]. exact Ho.
Qed.

(* every operation touching p reported a failure: p still has its initial content *)
Theorem cli_history_only_failures : forall ops w p,
  (forall i op r, nth_error ops i = Some op -> nth_error (snd (cli_run fo w ops)) i = Some r ->
                  In p (op_touches op) -> is_failure r = true) ->
  w_files (fst (cli_run fo w ops)) p = w_files w p.
Proof.
  induction ops as [|op r IH]; intros w p H; [reflexivity|].
  rewrite cli_run_cons. cbn [fst]. rewrite IH.
  - destruct (in_dec (list_eq_dec (list_eq_dec N.eq_dec)) p (op_touches op)) as [Hin|Hnin].
    + assert (Hf : is_failure (snd (cli_step fo w op)) = true).
      { apply (H 0%nat op); [reflexivity|rewrite cli_run_cons; reflexivity|exact Hin]. }
      rewrite (step_failure_files fo w op _ _ (step_eq w op) Hf). reflexivity.
    + exact (step_frame fo w op _ _ p (step_eq w op) Hnin).
  - intros i op' r' Hop Hr Hin. apply (H (S i) op' r'); [exact Hop| |exact Hin].
    rewrite cli_run_cons. exact Hr.
Qed.

(* a failing operation at the end of a history leaves every text file as the history before it did *)
Corollary cli_history_failed_last : forall ops op w,
  is_failure (snd (cli_step fo (fst (cli_run fo w ops)) op)) = true ->
  w_files (fst (cli_run fo w (ops ++ [op]))) = w_files (fst (cli_run fo w ops)).
Proof.
  intros ops op w Hf. rewrite cli_run_snoc. cbn [fst].
  exact (step_failure_files fo _ op _ _ (step_eq _ op) Hf).
Qed.

End History.
