(* Python string primitives over code-point lists, with the character classes of the
   interpreter that runs the code (Generated/Unicode.v). *)
From Coq Require Import NArith ZArith List Bool.
From DS Require Import Base Unicode.
Import ListNotations.
Local Open Scope N_scope.

(* ------------------------------------------------------------------ character classes *)
Fixpoint in_iv (c : N) (iv : list (N * N)) : bool :=
  match iv with
  | [] => false
  | (lo, hi) :: r => if (lo <=? c) && (c <=? hi) then true else in_iv c r
  end.

Definition isspace_c (c : N) : bool := in_iv c isspace_iv.
Definition isdigit_c (c : N) : bool := in_iv c isdigit_iv.
Definition isnumeric_c (c : N) : bool := in_iv c isnumeric_iv.
Definition isdecimal_c (c : N) : bool := in_iv c isdecimal_iv.

Fixpoint decimal_value_iv (c : N) (iv : list (N * N)) : option N :=
  match iv with
  | [] => None
  | (lo, hi) :: r => if (lo <=? c) && (c <=? hi) then Some ((c - lo) mod 10) else decimal_value_iv c r
  end.
Definition decimal_value (c : N) : option N := decimal_value_iv c isdecimal_iv.

Fixpoint upper_run (c : N) (runs : list (N * N * Z)) : option N :=
  match runs with
  | [] => None
  | (lo, hi, d) :: r => if (lo <=? c) && (c <=? hi) then Some (Z.to_N (Z.of_N c + d)) else upper_run c r
  end.
Fixpoint upper_mul (c : N) (m : list (N * list N)) : option (list N) :=
  match m with
  | [] => None
  | (k, u) :: r => if k =? c then Some u else upper_mul c r
  end.

Definition upper_c (c : N) : list N :=
  if c <? 128 then (if (97 <=? c) && (c <=? 122) then [c - 32] else [c])
  else match upper_run c upper_runs with
       | Some u => [u]
       | None => match upper_mul c upper_multi with Some u => u | None => [c] end
       end.

(* ------------------------------------------------------------------ basic operations *)
Fixpoint str_eqb (a b : str) : bool :=
  match a, b with
  | [], [] => true
  | x :: a', y :: b' => (x =? y) && str_eqb a' b'
  | _, _ => false
  end.

Fixpoint str_in (s : str) (l : list str) : bool :=
  match l with [] => false | x :: r => str_eqb s x || str_in s r end.

Fixpoint char_in (c : N) (s : str) : bool :=
  match s with [] => false | x :: r => (c =? x) || char_in c r end.

Fixpoint startswith (p s : str) : bool :=
  match p, s with
  | [], _ => true
  | x :: p', y :: s' => (x =? y) && startswith p' s'
  | _ :: _, [] => false
  end.

Definition endswith (p s : str) : bool := startswith (rev p) (rev s).

Fixpoint removeprefix (p s : str) : option str :=
  match p, s with
  | [], _ => Some s
  | x :: p', y :: s' => if x =? y then removeprefix p' s' else None
  | _ :: _, [] => None
  end.

Fixpoint lstrip (s : str) : str :=
  match s with
  | [] => []
  | c :: r => if isspace_c c then lstrip r else s
  end.
Definition rstrip (s : str) : str := rev (lstrip (rev s)).
Definition strip (s : str) : str := rstrip (lstrip s).

Definition is_blank (s : str) : bool := match lstrip s with [] => true | _ => false end.

Definition upper (s : str) : str := flat_map upper_c s.

Definition all_c (f : N -> bool) (s : str) : bool := forallb f s.
Definition isdigit_s (s : str) : bool := match s with [] => false | _ => all_c isdigit_c s end.
Definition isascii_s (s : str) : bool := all_c (fun c => c <? 128) s.

(* s.split(maxsplit=1) *)
Fixpoint take_word (s : str) : str * str :=
  match s with
  | [] => ([], [])
  | c :: r => if isspace_c c then ([], s) else let (w, rest) := take_word r in (c :: w, rest)
  end.
Definition split_ws1 (s : str) : list str :=
  match lstrip s with
  | [] => []
  | s' => let (w, rest) := take_word s' in
          match lstrip rest with
          | [] => [w]
          | r => [w; r]
          end
  end.

(* s.split(c, 1) *)
Fixpoint split_char1 (c : N) (s : str) : str * option str :=
  match s with
  | [] => ([], None)
  | x :: r => if x =? c then ([], Some r)
              else let (a, b) := split_char1 c r in (x :: a, b)
  end.

(* s.split(c) *)
Fixpoint split_char (c : N) (s : str) : list str :=
  match s with
  | [] => [[]]
  | x :: r => if x =? c then [] :: split_char c r
              else match split_char c r with
                   | [] => [[x]]
                   | h :: t => (x :: h) :: t
                   end
  end.

Fixpoint join (sep : str) (l : list str) : str :=
  match l with
  | [] => []
  | [x] => x
  | x :: r => x ++ sep ++ join sep r
  end.

Definition replace_char (a b : N) (s : str) : str := map (fun c => if c =? a then b else c) s.

(* s contains ".." *)
Fixpoint has_double (c : N) (s : str) : bool :=
  match s with
  | x :: ((y :: _) as r) => ((x =? c) && (y =? c)) || has_double c r
  | _ => false
  end.

(* ------------------------------------------------------------------ integers <-> text *)
Fixpoint pos_digits_fuel (fuel : nat) (n : N) (acc : str) : str :=
  match fuel with
  | O => acc
  | S f => let acc' := (48 + n mod 10) :: acc in
           if n / 10 =? 0 then acc' else pos_digits_fuel f (n / 10) acc'
  end.
Definition N_to_str (n : N) : str := pos_digits_fuel (S (N.to_nat (N.log2 n))) n [].
Definition Z_to_str (z : Z) : str :=
  match z with
  | Z0 => [48]
  | Zpos p => N_to_str (Npos p)
  | Zneg p => 45 :: N_to_str (Npos p)
  end.

(* digits of any decimal script -> value; None if some character is not a decimal digit *)
Fixpoint digits_value (s : str) (acc : N) : option N :=
  match s with
  | [] => Some acc
  | c :: r => match decimal_value c with
              | Some d => digits_value r (acc * 10 + d)
              | None => None
              end
  end.

(* int(s) for strings without whitespace/underscores: [+-]? decimal+ *)
Definition py_int (s : str) : option Z :=
  match s with
  | [] => None
  | 45 :: r => match r with [] => None | _ => option_map (fun n => Z.opp (Z.of_N n)) (digits_value r 0) end
  | 43 :: r => match r with [] => None | _ => option_map Z.of_N (digits_value r 0) end
  | _ => option_map Z.of_N (digits_value s 0)
  end.

(* float(s) for [+-]? d* . d*  with at least one digit: (negative?, mantissa, number of fraction digits) *)
Definition py_float_parts (s : str) : option (bool * N * N) :=
  let '(neg, body) := match s with 45 :: r => (true, r) | 43 :: r => (false, r) | _ => (false, s) end in
  let '(ip, fp) := split_char1 46 body in
  match fp with
  | None => None                       (* no dot: int() already handled it *)
  | Some f =>
      match ip, f with
      | [], [] => None
      | _, _ => match digits_value ip 0 with
                | None => None
                | Some i => match digits_value f 0 with
                            | None => None
                            | Some fr => Some (neg, i * 10 ^ (N.of_nat (length f)) + fr, N.of_nat (length f))
                            end
                end
      end
  end.

(* ------------------------------------------------------------------ ASCII helpers used by specs *)
Definition is_ascii_letter (c : N) : bool := ((65 <=? c) && (c <=? 90)) || ((97 <=? c) && (c <=? 122)).
Definition is_ascii_digit (c : N) : bool := (48 <=? c) && (c <=? 57).
