(* cli/compile.py and cli/new.py: file effects over an abstract file system.
   (The Typer layer, rich rendering and OS-level failure are outside the model.) *)
From Coq Require Import NArith ZArith List Bool.
From DS Require Import Base PyStr Values TabParse Interp Options Constants.
Import ListNotations.

Arguments IOk {A}. Arguments IErr {A}. Arguments ICrash {A}. Arguments IUnmod {A}.

Section WithFloats.
Variable fo : FloatOps.

Definition write (fs : fsys) (p : path) (content : str) : fsys :=
  fun q => if path_eqb q p then Some content else fs q.

Inductive console := Reported_success | Reported_error (e : errcls).

(* __prepare_and_compile + compile: the output file is written only after compile_file returned *)
Definition cli_compile (fs : fsys) (result : ires (compiled fo)) (output : path) : ires (fsys * console) :=
  match result with
  | IOk c => IOk (write fs output (join [10%N] (map o_text (out fo c))), Reported_success)
  | IErr e _ => IOk (fs, Reported_error e)          (* caught: `except CompilationError` *)
  | ICrash k => ICrash k                            (* anything else escapes the command *)
  | IUnmod => IUnmod
  end.

(* `new NAME`: refuses an existing directory *)
Definition hello_world : str := [83;84;82;73;78;71;32;72;101;108;108;111;44;32;87;111;114;108;100;33]%N.
Definition main_name : str := [109;97;105;110;46;116;120;116]%N.

Definition valid_project_char (c : N) : bool :=
  ((97 <=? c) && (c <=? 122) || (48 <=? c) && (c <=? 57) || (c =? 45))%N.

Definition cli_new (exists_dir : path -> bool) (fs : fsys) (dir : path) (name : str) (default_yaml : str) : fsys * bool :=
  if negb (forallb valid_project_char name) then (fs, false)
  else if exists_dir (dir ++ [name]) then (fs, false)
  else (write (write fs (dir ++ [name; config_name]) default_yaml) (dir ++ [name; main_name]) hello_world, true).
End WithFloats.
