(* The interpreter: Stack.run, the command pipeline (SimpleCommand / BlockCommand), every
   run_compile, the variable environment, the shared pile, prints, warnings, START over an
   abstract file system.  Mirrors stack.py, commands/*.py, commands/bases/*.py,
   environments/variable_environment.py, compiler.py (after the fix commits). *)
From Coq Require Import NArith ZArith List Bool.
From DS Require Import Base PyStr Values Expr TabParse Tables Constants.
Import ListNotations.

Definition path := list str.                   (* absolute pure path: components from the root *)
Definition fsys := path -> option str.          (* regular files and their decoded text *)

Section WithFloats.
Variable fo : FloatOps.
Notation value := (value fo).

(* ------------------------------------------------------------------ environment *)
Record func := mkFunc { fn_args : list str; fn_code : list item; fn_file : option path }.

Record env := mkEnv {
  e_sys : list (str * value);
  e_user : list (str * value);
  e_temp : list (str * value);
  e_funcs : list (str * func)
}.

Definition empty_env : env := mkEnv [] [] [] [].

(* dict.update({k: v}) : existing key keeps its position *)
Fixpoint upd {A} (k : str) (v : A) (l : list (str * A)) : list (str * A) :=
  match l with
  | [] => [(k, v)]
  | (k', v') :: r => if str_eqb k k' then (k, v) :: r else (k', v') :: upd k v r
  end.

Definition upd_all {A} (src dst : list (str * A)) : list (str * A) :=
  fold_left (fun d kv => upd (fst kv) (snd kv) d) src dst.

Definition has_key {A} (k : str) (l : list (str * A)) : bool :=
  match lookup k l with Some _ => true | None => false end.

(* all_vars: system, then temp, then user (later wins) *)
Definition all_vars (e : env) : list (str * value) :=
  upd_all (e_user e) (upd_all (e_temp e) (upd_all (e_sys e) [])).

(* parent.append_env(child) *)
Definition append_env (self other : env) : env :=
  mkEnv (upd_all (e_sys other) (e_sys self)) (upd_all (e_user other) (e_user self)) (e_temp self)
        (upd_all (e_funcs other) (e_funcs self)).

(* parent.update_from_env(child): keys of the parent that the child still has *)
Definition restrict_from {A} (self other : list (str * A)) : list (str * A) :=
  flat_map (fun kv => match lookup (fst kv) other with Some v => [(fst kv, v)] | None => [] end) self.

Definition update_from_env (self other : env) : env :=
  mkEnv (restrict_from (e_sys self) (e_sys other)) (restrict_from (e_user self) (e_user other))
        (e_temp self) (e_funcs self).

(* VariableEnvironment.is_var (after the fix: the empty name is rejected) *)
Fixpoint is_var_chars (s : str) (count0 : bool) (can_be_sys : bool) : bool :=
  match s with
  | [] => true
  | c :: r =>
      if count0 && (c =? 36)%N then (if can_be_sys then is_var_chars r false can_be_sys else false)
      else if count0 && isdigit_c c then false
      else if negb (char_in c acceptable_vars) then false
      else is_var_chars r false can_be_sys
  end.
Definition is_var (s : str) (can_be_sys : bool) : bool :=
  match s with [] => false | _ => is_var_chars s true can_be_sys end.

(* ------------------------------------------------------------------ output, prints, warnings, frames *)
Inductive tag :=
| ByCommand (cls_name : str)   (* produced by run_compile of this palette class *)
| ByUnknown                    (* the unknown-command fall-back *)
| ByIgnore                     (* raw IGNORE line *)
| ByLegacyRepeat.              (* `REPEAT n` without a block *)

Record oline := mkO { o_tag : tag; o_text : str }.

Inductive signal := SNormal | SReturn | SBreak | SContinue.

Record frame := mkFrame { fr_file : option path; fr_line : preline; fr_line2 : option preline }.

Record print_rec := mkPrint { p_text : str; p_num : Z; p_file : option path }.
Record warning := mkWarn { w_text : str; w_trace : option (list frame) }.

Record glob := mkGlob {
  g_prints : list print_rec;     (* reversed: newest first *)
  g_warnings : list warning      (* reversed *)
}.

Definition opt_eqb {A} (eqb : A -> A -> bool) (a b : option A) : bool :=
  match a, b with Some x, Some y => eqb x y | None, None => true | _, _ => false end.
Fixpoint list_eqb {A} (eqb : A -> A -> bool) (a b : list A) : bool :=
  match a, b with
  | [], [] => true
  | x :: a', y :: b' => eqb x y && list_eqb eqb a' b'
  | _, _ => false
  end.
Definition preline_eqb (a b : preline) : bool := str_eqb (fst a) (fst b) && Z.eqb (snd a) (snd b).
Definition frame_eqb (a b : frame) : bool :=
  opt_eqb (list_eqb str_eqb) (fr_file a) (fr_file b) && preline_eqb (fr_line a) (fr_line b)
  && opt_eqb preline_eqb (fr_line2 a) (fr_line2 b).
Definition warning_eqb (a b : warning) : bool :=
  str_eqb (w_text a) (w_text b) && opt_eqb (list_eqb frame_eqb) (w_trace a) (w_trace b).

(* WarningsObject.append: de-duplicated (the model compares by value; the code by identity of
   the line objects -- the set of distinct (text, located lines) is the same) *)
Definition add_warning (w : warning) (g : glob) : glob :=
  if existsb (warning_eqb w) (g_warnings g) then g else mkGlob (g_prints g) (w :: g_warnings g).

(* ------------------------------------------------------------------ interpreter results *)
Inductive ires (A : Type) :=
| IOk (a : A)
| IErr (e : errcls) (trace : option (list frame))   (* None: the error carries no stack *)
| ICrash (k : crashkind)
| IUnmod.
Arguments IOk {A}. Arguments IErr {A}. Arguments ICrash {A}. Arguments IUnmod {A}.

Record cret := mkCret { cr_data : list oline; cr_sig : signal }.

Record ctx := mkCtx {
  c_opts : options;
  c_fs : fsys;
  c_pile : list frame;          (* frames of the stacks below the current one, outermost first *)
  c_file : option path
}.

Record st := mkSt { s_g : glob; s_env : env; s_line2 : option preline }.

Definition M (A : Type) := st -> st * ires A.
Definition ret {A} (a : A) : M A := fun s => (s, IOk a).
Definition bindM {A B} (m : M A) (f : A -> M B) : M B :=
  fun s => match m s with
           | (s', IOk a) => f a s'
           | (s', IErr e t) => (s', IErr e t)
           | (s', ICrash k) => (s', ICrash k)
           | (s', IUnmod) => (s', IUnmod)
           end.
Notation "'dom' x <- m ; k" := (bindM m (fun x => k)) (at level 200, x pattern, m at level 100, k at level 200).

Definition get_env : M env := fun s => (s, IOk (s_env s)).
Definition set_env (e : env) : M unit := fun s => (mkSt (s_g s) e (s_line2 s), IOk tt).
Definition set_line2 (l : option preline) : M unit := fun s => (mkSt (s_g s) (s_env s) l, IOk tt).
Definition mod_glob (f : glob -> glob) : M unit := fun s => (mkSt (f (s_g s)) (s_env s) (s_line2 s), IOk tt).

(* a runner executes the commands of one (child) stack *)
Definition runner := ctx -> glob -> env -> list item -> glob * ires (cret * env).

Section Stack.
Variable child : runner.         (* running a stack pushed above this one *)
Variable cx : ctx.               (* this stack *)

Section Command.
Variable cur : preline.          (* self.current_line *)

Definition here (l2 : option preline) : list frame := c_pile cx ++ [mkFrame (c_file cx) cur l2].

Definition raise {A} (e : errcls) : M A := fun s => (s, IErr e (Some (here (s_line2 s)))).
Definition crash {A} (k : crashkind) : M A := fun s => (s, ICrash k).
Definition unmod {A} : M A := fun s => (s, IUnmod).

Definition lift {A} (r : res A) : M A :=
  match r with
  | Ok a => ret a
  | Err e => raise e
  | Crash k => crash k
  | Unmodelled => unmod
  end.

Definition warn (text : str) : M unit :=
  fun s => (mkSt (add_warning (mkWarn text (Some (here (s_line2 s)))) (s_g s)) (s_env s) (s_line2 s), IOk tt).

Definition tokenizeM (s : str) : M value :=
  dom e <- get_env; lift (tokenize fo (all_vars e) s).

Definition new_var (name : str) (v : value) : M unit :=
  if is_var name false then
    dom e <- get_env; set_env (mkEnv (e_sys e) (upd name v (e_user e)) (e_temp e) (e_funcs e))
  else raise EUnacceptableVarName.

(* ---------------------------------------------------------------- running a child stack
   add_stack_above + `with`: limit check, copy-in, run, copy-back (or append when parallel), pop.
   [setup] runs inside the child before its commands (binding counters / parameters). *)
Definition pile_len : Z := Z.of_nat (length (c_pile cx) + 1).

Definition run_child_with (code : list item) (file : option path) (parallel : bool)
           (setup : env -> res env) (pre : env -> res bool) : M (option cret) :=
  fun s =>
    if cmp_eval stack_limit_op pile_len (stack_limit (c_opts cx))
    then (s, IErr EStackOverflow (Some (here (s_line2 s))))
    else
      let parent := s_env s in
      let cenv0 := append_env empty_env parent in
      match setup cenv0 with
      | Err e => (s, IErr e (Some (here (s_line2 s))))
      | Crash k => (s, ICrash k)
      | Unmodelled => (s, IUnmod)
      | Ok cenv1 =>
          let finish (g : glob) (cenv : env) (r : option cret) :=
            let penv := if parallel then append_env parent cenv else update_from_env parent cenv in
            (mkSt g penv (s_line2 s), IOk r) in
          match pre cenv1 with
          | Err e => (s, IErr e (Some (here (s_line2 s))))
          | Crash k => (s, ICrash k)
          | Unmodelled => (s, IUnmod)
          | Ok false => finish (s_g s) cenv1 None
          | Ok true =>
              let cx' := mkCtx (c_opts cx) (c_fs cx) (here (s_line2 s)) file in
              match child cx' (s_g s) cenv1 code with
              | (g', IOk (cr, cenv2)) => finish g' cenv2 (Some cr)
              | (g', IErr e t) => (mkSt g' (s_env s) (s_line2 s), IErr e t)
              | (g', ICrash k) => (mkSt g' (s_env s) (s_line2 s), ICrash k)
              | (g', IUnmod) => (mkSt g' (s_env s) (s_line2 s), IUnmod)
              end
          end
      end.

Definition run_child (code : list item) (file : option path) (parallel : bool) (setup : env -> res env) : M cret :=
  dom r <- run_child_with code file parallel setup (fun _ => Ok true);
  match r with Some cr => ret cr | None => crash KOther end.

(* ---------------------------------------------------------------- validator DSL *)
Fixpoint eval_sexpr (e : sexpr) (content : str) : str :=
  match e with
  | SContent => content
  | SUpper e' => upper (eval_sexpr e' content)
  | SStrip e' => strip (eval_sexpr e' content)
  end.

Definition zlen (s : str) : Z := Z.of_nat (length s).

(* content of an argument after evaluation: text, or an integer for arg_type = int *)
Inductive acontent := AStr (s : str) | AInt (z : Z).

Fixpoint eval_bexpr (params : list str) (b : bexpr) (a : acontent) : res bool :=
  let with_str (f : str -> res bool) : res bool :=
    match a with AStr s => f s | AInt _ => Crash KAttributeError end in
  match b with
  | BInParams e => with_str (fun s => Ok (str_in (eval_sexpr e s) params))
  | BLen e op k => with_str (fun s => Ok (cmp_eval op (zlen (eval_sexpr e s)) k))
  | BLenObj op k => match a with AStr s => Ok (cmp_eval op (zlen s) k) | AInt _ => Crash KTypeError end
  | BIsDigit e => with_str (fun s => Ok (isdigit_s (eval_sexpr e s)))
  | BIsAscii e => with_str (fun s => Ok (isascii_s (eval_sexpr e s)))
  | BEndsWith e lit => with_str (fun s => Ok (endswith lit (eval_sexpr e s)))
  | BSplitLen e op k => with_str (fun s => Ok (cmp_eval op (Z.of_nat (length (split_ws1 (eval_sexpr e s)))) k))
  | BNum op k => match a with AInt z => Ok (cmp_eval op z k) | AStr _ => Crash KTypeError end
  | BNot b' => do x <- eval_bexpr params b' a; Ok (negb x)
  | BAnd x y => do vx <- eval_bexpr params x a; if vx then eval_bexpr params y a else Ok false
  | BOr x y => do vx <- eval_bexpr params x a; if vx then Ok true else eval_bexpr params y a
  end.

Fixpoint eval_validator_rules (params : list str) (rules : list (bexpr * bool)) (dflt : bool) (a : acontent) : res bool :=
  match rules with
  | [] => Ok dflt
  | (b, verdict) :: r => do x <- eval_bexpr params b a; if x then Ok verdict else eval_validator_rules params r dflt a
  end.
Definition eval_validator (params : list str) (v : validator) (a : acontent) : res bool :=
  eval_validator_rules params (v_rules v) (v_default v) a.

Fixpoint eval_formatter_rules (params : list str) (rules : list (bexpr * sexpr)) (dflt : sexpr) (s : str) : res str :=
  match rules with
  | [] => Ok (eval_sexpr dflt s)
  | (b, e) :: r => do x <- eval_bexpr params b (AStr s); if x then Ok (eval_sexpr e s) else eval_formatter_rules params r dflt s
  end.
Definition eval_formatter (params : list str) (f : formatter) (a : acontent) : res acontent :=
  match f_rules f, f_default f, a with
  | [], SContent, _ => Ok a                        (* the identity formatter of the base class *)
  | _, _, AStr s => do s' <- eval_formatter_rules params (f_rules f) (f_default f) s; Ok (AStr s')
  | _, _, AInt _ => Crash KAttributeError
  end.

(* ---------------------------------------------------------------- SimpleCommand pipeline *)
Record line := mkLine { l_content : acontent; l_num : Z; l_orig : preline }.

Definition content_text (a : acontent) : str :=
  match a with AStr s => s | AInt z => Z_to_str z end.

(* listify_args *)
Fixpoint block_lines (b : list item) : option (list line) :=
  match b with
  | [] => Some []
  | Ln c n :: r => option_map (fun t => mkLine (AStr c) n (c, n) :: t) (block_lines r)
  | Blk _ :: _ => None
  end.

Definition listify_args (argument : option str) (code_block : option (list item)) (num : Z) : M (list line) :=
  let first := match argument with
               | Some a => match a with [] => [] | _ => [mkLine (AStr a) num cur] end
               | None => [] end in
  match code_block with
  | Some b => match block_lines b with
              | Some ls => ret (first ++ ls)
              | None => raise EInvalidArguments
              end
  | None => ret first
  end.

Definition strip_line (l : line) : line :=
  match l_content l with AStr s => mkLine (AStr (strip s)) (l_num l) (l_orig l) | AInt _ => l end.

(* evaluate_args: tokenize each (line_2 follows the argument), then str() unless arg_type is int *)
Fixpoint evaluate_args (at_ : argtype) (args : list line) : M (list (line * value)) :=
  match args with
  | [] => dom _ <- set_line2 None; ret []
  | l :: r =>
      dom _ <- set_line2 (Some (l_orig l));
      dom v <- tokenizeM (content_text (l_content l));
      dom t <- evaluate_args at_ r;
      ret ((l, v) :: t)
  end.

(* result of evaluation, typed by arg_type: Some content, or None when __verify_arg rejects it *)
Definition typed_content (at_ : argtype) (v : value) : res (option acontent) :=
  match at_ with
  | ATInt => match v with VInt z => Ok (Some (AInt z)) | _ => Ok None end
  | _ => match py_str fo v with Some s => Ok (Some (AStr s)) | None => Unmodelled end
  end.

(* the per-argument loops of __verify_all_args; line_2 stays on the offending argument *)
Fixpoint check_types (at_ : argtype) (args : list (line * option acontent)) : M (list line) :=
  match args with
  | [] => dom _ <- set_line2 None; ret []
  | (l, oc) :: r =>
      dom _ <- set_line2 (Some (l_orig l));
      match oc with
      | None => raise EInvalidArguments
      | Some c => dom t <- check_types at_ r; ret (mkLine c (l_num l) (l_orig l) :: t)
      end
  end.

Fixpoint verify_each (params : list str) (v : validator) (args : list line) : M unit :=
  match args with
  | [] => set_line2 None
  | l :: r =>
      dom _ <- set_line2 (Some (l_orig l));
      dom ok <- lift (eval_validator params v (l_content l));
      if ok then verify_each params v r else raise EInvalidArguments
  end.

Definition verify_plural (pv : pvalidator) (n : Z) : M unit :=
  match pv with
  | PVNone => ret tt
  | PVWarnIfLen op k msg => if cmp_eval op n k then warn msg else ret tt
  | PVRaiseIfLen op k => if cmp_eval op n k then raise EInvalidArguments else ret tt
  end.

Fixpoint format_each (params : list str) (f : formatter) (args : list line) : M (list line) :=
  match args with
  | [] => ret []
  | l :: r =>
      dom c <- lift (eval_formatter params f (l_content l));
      dom t <- format_each params f r;
      ret (mkLine c (l_num l) (l_orig l) :: t)
  end.

Definition s_REPEAT : str := [82;69;80;69;65;84]%N.
Definition s_ENTER : str := [69;78;84;69;82]%N.
Definition s_ELSE : str := [69;76;83;69]%N.
Definition s_IF : str := [73;70]%N.
Definition s_START : str := [83;84;65;82;84]%N.
Definition s_STARTCODE : str := [83;84;65;82;84;67;79;68;69]%N.
Definition s_STARTENV : str := [83;84;65;82;84;69;78;86]%N.
Definition comma : N := 44.
Definition space : N := 32.

Definition name_line (name : str) (arg : option line) : str :=
  match arg with
  | None => upper name
  | Some l => upper name ++ [space] ++ content_text (l_content l)
  end.

(* break_arg of RUN / FUNC: split(" ", maxsplit=1), second part stripped *)
Definition break_arg (s : str) : str * option str :=
  let (a, b) := split_char1 space s in (a, option_map strip b).

(* START: convert_to_path *)
Fixpoint go_up (rel : str) (wf : path) (fuel : nat) : option (str * path) :=
  match rel with
  | 46%N :: r =>
      match wf, fuel with
      | [], _ => None                       (* already at the root *)
      | _, O => None
      | _, S f => go_up r (removelast wf) f
      end
  | _ => Some (rel, wf)
  end.

Definition slash : N := 47.

Definition resolve_start (file : path) (rel : str) : res path :=
  let wf := removelast file in
  match go_up rel wf (S (length rel)) with
  | None => Err EUnexpectedToken
  | Some (rel', wf') =>
      if has_double 46%N rel' then Err EUnexpectedToken
      else if char_in slash rel' || char_in 0%N rel' then Unmodelled
      else
        let comps := split_char 46%N rel' in
        (* pathlib drops empty components; a leading empty one cannot occur here *)
        let comps' := filter (fun c => match c with [] => false | _ => true end) comps in
        match rev comps' with
        | [] => Unmodelled
        | lastc :: initr =>
            if existsb (fun c => str_eqb c [46%N]) comps' then Unmodelled
            else Ok (wf' ++ rev initr ++ [lastc ++ script_extension])
        end
  end.

Definition path_eqb (a b : path) : bool := list_eqb str_eqb a b.

(* the result of one run_compile: text lines, or a CompiledReturn *)
Inductive rc := RNone | RLines (l : list str) | RComp (c : cret).

Definition s_sig_warning (sg : signal) : option str :=
  (* "Program was exited using X instead of using RETURN" *)
  let pre := [80;114;111;103;114;97;109;32;119;97;115;32;101;120;105;116;101;100;32;117;115;105;110;103;32]%N in
  let post := [32;105;110;115;116;101;97;100;32;111;102;32;117;115;105;110;103;32;82;69;84;85;82;78]%N in
  match sg with
  | SBreak => Some (pre ++ [66;82;69;65;75]%N ++ post)
  | SContinue => Some (pre ++ [67;79;78;84;73;78;85;69]%N ++ post)
  | _ => None
  end.

Definition add_plain_warning (text : str) : M unit := mod_glob (add_warning (mkWarn text None)).

(* $ENTER n has no upper bound in the code; counts above this are outside the modelled fragment *)
Definition count_limit : Z := 100000.

(* run_compile of every simple command *)
Definition run_compile (cname : str) (sc : simple_cls) (name : str) (arg : option line) : M rc :=
  match s_run sc with
  | RKDefault => ret (RLines [name_line name arg])
  | RKEnter =>
      match arg with
      | None => ret (RLines [name_line name None])
      | Some l => match l_content l with
                  | AInt n => if (n <=? count_limit)%Z then ret (RLines (repeat s_ENTER (Z.to_nat n))) else unmod
                  | AStr _ => crash KTypeError
                  end
      end
  | RKWhitespace =>
      match arg with
      | None => ret (RLines [[]])
      | Some l => match l_content l with
                  | AInt n => if (n <=? count_limit)%Z then ret (RLines (repeat [] (Z.to_nat n))) else unmod
                  | AStr _ => crash KTypeError
                  end
      end
  | RKRem => if include_comments (c_opts cx) then ret (RLines [name_line name arg]) else ret RNone
  | RKDefaultDelay =>
      match arg with
      | None => crash KAttributeError
      | Some l =>
          dom e <- get_env;
          match l_content l with
          | AInt n =>
              if has_key default_delay_var (e_sys e) then
                dom _ <- set_env (mkEnv (upd default_delay_var (VInt n) (e_sys e)) (e_user e) (e_temp e) (e_funcs e));
                ret (RLines [name_line name arg])
              else raise EVarNonExistent
          | AStr _ => unmod
          end
      end
  | RKPass => ret RNone
  | RKPrint =>
      match arg with
      | None => ret RNone
      | Some l =>
          dom _ <- mod_glob (fun g => mkGlob (mkPrint (content_text (l_content l)) (l_num l) (c_file cx) :: g_prints g) (g_warnings g));
          ret (RComp (mkCret [] SNormal))
      end
  | RKBreak => ret (RComp (mkCret [] SBreak))
  | RKContinue => ret (RComp (mkCret [] SContinue))
  | RKReturn => ret (RComp (mkCret [] SReturn))
  | RKRun =>
      match arg with
      | None => crash KAttributeError
      | Some l =>
          let '(fname, var_string) := break_arg (content_text (l_content l)) in
          dom vals <- match var_string with
                      | None => ret []
                      | Some vs => if is_blank vs then ret [] else
                                   dom v <- tokenizeM vs;
                                   ret (match v with VList xs => xs | _ => [v] end)
                      end;
          dom e <- get_env;
          match lookup fname (e_funcs e) with
          | None => raise EVarNonExistent
          | Some f =>
              if negb (Nat.eqb (length (fn_args f)) (length vals)) then raise EInvalidArguments
              else
                let file := match fn_file f with Some p => Some p | None => c_file cx end in
                let setup (ce : env) : res env :=
                  Ok (mkEnv (e_sys ce)
                            (fold_left (fun u nv => upd (fst nv) (snd nv) u) (combine (fn_args f) vals) (e_user ce))
                            (e_temp ce) (e_funcs ce)) in
                dom cr <- run_child (fn_code f) file false setup;
                match cr_sig cr with
                | SBreak | SContinue => raise EStackReturnType
                | _ => ret (RComp (mkCret (cr_data cr) SNormal))
                end
          end
      end
  | RKVar =>
      match arg with
      | None => crash KAttributeError
      | Some l =>
          match split_ws1 (content_text (l_content l)) with
          | [vname; expr] => dom v <- tokenizeM expr; dom _ <- new_var vname v; ret RNone
          | _ => crash KValueError
          end
      end
  | RKExist =>
      match arg with
      | None => crash KAttributeError
      | Some l => dom e <- get_env;
                  if has_key (content_text (l_content l)) (all_vars e) then ret RNone else raise EGeneral
      end
  | RKNotExist =>
      match arg with
      | None => crash KAttributeError
      | Some l => dom e <- get_env;
                  if has_key (content_text (l_content l)) (all_vars e) then raise EGeneral else ret RNone
      end
  | RKStart =>
      match arg, c_file cx with
      | Some l, Some file =>
          dom target <- lift (resolve_start file (content_text (l_content l)));
          match c_fs cx target with
          | None => raise EInvalidArguments
          | Some text =>
              (fun s =>
                 (* check_for_circles: every stack of the pile, this one included *)
                 if existsb (fun fr => opt_eqb path_eqb (fr_file fr) (Some target)) (here None)
                 then (s, IErr ECircular (Some (here (s_line2 s))))
                 else
                   match prepare_text text with
                   | TErr (QuoteUnclosed _) => (s, IErr EUnclosedQuotes None)
                   | TErr TabFuel => (s, ICrash KOutOfFuel)
                   | TErr _ => (s, IErr EInvalidTab None)
                   | TOk commands =>
                       let up := upper name in
                       let parallel := negb (str_eqb up s_STARTCODE) in
                       (dom cr <- run_child commands (Some target) parallel (fun e => Ok e);
                        dom _ <- match s_sig_warning (cr_sig cr) with
                                 | Some w => add_plain_warning w
                                 | None => ret tt
                                 end;
                        if str_eqb up s_STARTENV then ret (RLines []) else ret (RComp (mkCret (cr_data cr) SNormal))) s
                   end)
          end
      | _, _ => crash KTypeError
      end
  end.

(* __multi_comp: one run_compile per argument, results concatenated, last signal wins *)
Fixpoint multi_comp (cname : str) (tg : tag) (sc : simple_cls) (name : str) (args : list (option line)) (acc : cret) : M cret :=
  match args with
  | [] => ret acc
  | a :: r =>
      dom _ <- set_line2 (Some (match a with None => cur | Some l => l_orig l end));
      dom c <- run_compile cname sc name a;
      let acc' := match c with
                  | RNone => acc
                  | RLines ls => mkCret (cr_data acc ++ map (mkO tg) ls) (cr_sig acc)
                  | RComp cr => mkCret (cr_data acc ++ cr_data cr) (cr_sig cr)
                  end in
      multi_comp cname tg sc name r acc'
  end.

Definition check_flipper (flipper_only : bool) : M unit :=
  if flipper_only && negb (flipper_commands (c_opts cx)) then raise EInvalidCommand else ret tt.

(* SimpleCommand.compile *)
Definition simple_compile (cname : str) (tg : tag) (sc : simple_cls) (cmd : str) (num : Z)
           (argument : option str) (code_block : option (list item)) : M cret :=
  dom _ <- check_flipper (s_flipper_only sc);
  let dollar := match upper cmd with 36%N :: _ => true | _ => false end in
  let name := if dollar then tl cmd else cmd in
  let tokenize_args := s_tokenize_args sc || dollar in
  dom args0 <- listify_args argument code_block num;
  let args1 := if s_strip_args sc then map strip_line args0 else args0 in
  dom args2 <-
    (if tokenize_args then
       dom vs <- evaluate_args (s_arg_type sc) args1;
       (fix conv (vs : list (line * value)) : M (list (line * option acontent)) :=
          match vs with
          | [] => ret []
          | (l, v) :: r => dom c <- lift (typed_content (s_arg_type sc) v);
                           dom t <- conv r; ret ((l, c) :: t)
          end) vs
     else
       ret (map (fun l => (l, match s_arg_type sc with
                              | ATInt => None        (* a str is not an int *)
                              | _ => Some (l_content l)
                              end)) args1));
  (* __verify_all_args *)
  let n := Z.of_nat (length args2) in
  dom _ <- match args2, s_arg_req sc with
           | _ :: _, NotAllowed => raise EInvalidArguments
           | [], Required => raise EInvalidArguments
           | _, _ => ret tt
           end;
  dom args3 <- check_types (s_arg_type sc) args2;
  dom _ <- verify_plural (s_verify_args sc) n;
  dom _ <- verify_each (s_params sc) (s_verify_arg sc) args3;
  dom args4 <- format_each (s_params sc) (s_format_arg sc) args3;
  multi_comp cname tg sc name (match args4 with [] => [None] | _ => map Some args4 end) (mkCret [] SNormal).

(* ---------------------------------------------------------------- block commands *)
Definition split_loop_arg (argument : str) : option str * str :=
  match split_char1 comma argument with
  | (a, None) => (None, a)
  | (a, Some b) => (Some a, b)
  end.

(* should_break *)
Definition loop_signal (sg : signal) : signal * bool :=
  match sg with
  | SContinue => (SNormal, false)
  | SBreak => (SNormal, true)
  | SNormal => (SNormal, false)
  | SReturn => (SReturn, true)
  end.

Definition bind_counter (var_name : option str) (count : Z) (ce : env) : res env :=
  match var_name with
  | None => Ok ce
  | Some v => if is_var v false then Ok (mkEnv (e_sys ce) (upd v (VInt count) (e_user ce)) (e_temp ce) (e_funcs ce))
              else Err EUnacceptableVarName
  end.

(* Repeat.tokenize_count *)
Definition tokenize_count (argument : str) : M Z :=
  dom v <- tokenizeM argument;
  dom n <- match v with
           | VInt z => ret z
           | VBool b => ret (if b then 1 else 0)%Z
           | VFlt f => if f_is_integer fo f then ret (f_to_Z fo f) else raise EInvalidArguments
           | _ => raise EInvalidArguments
           end;
  if cmp_eval repeat_low_op n repeat_low || cmp_eval repeat_high_op n repeat_high
  then raise EInvalidArguments else ret n.

Fixpoint repeat_loop (fuel : nat) (var_name : option str) (argument : str) (code : list item)
         (count : Z) (acc : cret) : M cret :=
  dom n <- tokenize_count argument;
  if (count <? n)%Z then
    match fuel with
    | O => crash KOutOfFuel
    | S f =>
        dom cr <- run_child code (c_file cx) false (bind_counter var_name count);
        let '(sg, brk) := loop_signal (cr_sig cr) in
        let acc' := mkCret (cr_data acc ++ cr_data cr) sg in
        if brk then ret acc' else repeat_loop f var_name argument code (count + 1)%Z acc'
    end
  else ret acc.

Fixpoint while_loop (fuel : nat) (var_name : option str) (argument : str) (code : list item)
         (count : Z) (acc : cret) : M cret :=
  if cmp_eval while_limit_op count while_limit then raise EExceededLimit
  else
    match fuel with
    | O => crash KOutOfFuel
    | S f =>
        dom r <- run_child_with code (c_file cx) false (bind_counter var_name count)
                   (fun ce => do v <- tokenize fo (all_vars ce) argument; Ok (truthy fo v));
        match r with
        | None => ret acc
        | Some cr =>
            let '(sg, brk) := loop_signal (cr_sig cr) in
            let acc' := mkCret (cr_data acc ++ cr_data cr) sg in
            if brk then ret acc' else while_loop f var_name argument code (count + 1)%Z acc'
        end
    end.

Definition loop_fuel : nat := Z.to_nat (Z.max repeat_high while_limit + 3).

Definition get_temp_flag : M bool :=
  dom e <- get_env; ret (match lookup if_success (e_temp e) with Some v => truthy fo v | None => false end).
Definition set_temp_flag (b : bool) : M unit :=
  dom e <- get_env; set_env (mkEnv (e_sys e) (e_user e) (upd if_success (VBool b) (e_temp e)) (e_funcs e)).

Definition block_compile (bc : block_cls) (cname : str) (cmd : str) (num : Z)
           (argument : option str) (code_block : option (list item)) : M rc :=
  dom _ <- check_flipper (b_flipper_only bc);
  let has_arg := match argument with Some (_ :: _) => true | _ => false end in
  dom _ <- match b_arg_req bc with
           | NotAllowed => if has_arg then raise EInvalidArguments else ret tt
           | Required => if has_arg then ret tt else raise EInvalidArguments
           | Allowed => ret tt
           end;
  let argument := if b_strip_arg bc then option_map (fun a => match a with [] => a | _ => strip a end) argument else argument in
  let code := match code_block with Some b => b | None => [] end in
  match b_kind bc with
  | BKIf =>
      let name := upper cmd in
      dom e <- get_env;
      dom _ <- (if has_key if_success (e_temp e) then ret tt else set_temp_flag false);
      let is_else := str_eqb name s_ELSE in
      dom _ <- match argument, is_else with
               | None, false => raise EInvalidArguments
               | Some _, true => raise EInvalidArguments
               | _, _ => ret tt
               end;
      dom tok <- match argument with
                 | Some a => if is_else then ret true else dom v <- tokenizeM a; ret (truthy fo v)
                 | None => ret true
                 end;
      dom flag <- get_temp_flag;
      dom skip <- (if str_eqb name s_IF then dom _ <- set_temp_flag false; ret false else ret flag);
      if skip then ret RNone
      else if negb is_else && negb tok then ret RNone
      else
        dom _ <- set_temp_flag true;
        dom cr <- run_child code (c_file cx) false (fun e => Ok e);
        ret (RComp cr)
  | BKIgnore =>
      match block_lines code with
      | Some ls => ret (RComp (mkCret (map (fun l => mkO ByIgnore (content_text (l_content l))) ls) SNormal))
      | None => raise EGeneral
      end
  | BKRepeat =>
      match argument with
      | None => crash KAttributeError
      | Some a =>
          let '(var_name, count_expr) := split_loop_arg a in
          match code with
          | [] =>
              match var_name with
              | Some _ => raise EInvalidArguments
              | None => ret (RComp (mkCret [mkO ByLegacyRepeat (s_REPEAT ++ [space] ++ a)] SNormal))
              end
          | _ =>
              (* the counter name is verified before the loop (fix commit): also for zero iterations *)
              if match var_name with Some v => is_var v false | None => true end then
                dom cr <- repeat_loop loop_fuel var_name count_expr code 0%Z (mkCret [] SNormal); ret (RComp cr)
              else raise EUnacceptableVarName
          end
      end
  | BKWhile =>
      match argument with
      | None => crash KAttributeError
      | Some a =>
          let '(var_name, cond) := split_loop_arg a in
          dom cr <- while_loop loop_fuel var_name cond code 0%Z (mkCret [] SNormal); ret (RComp cr)
      end
  | BKFunc =>
      match argument with
      | None => crash KAttributeError
      | Some a =>
          let '(fname, var_string) := break_arg a in
          let fvars := match var_string with
                       | None => []
                       | Some vs => match vs with [] => [] | _ => map strip (split_char comma vs) end
                       end in
          if is_var fname false && forallb (fun v => is_var v false) fvars then
            dom e <- get_env;
            dom _ <- set_env (mkEnv (e_sys e) (e_user e) (e_temp e) (upd fname (mkFunc fvars code (c_file cx)) (e_funcs e)));
            ret RNone
          else raise EUnacceptableVarName
      end
  end.

End Command.

(* ---------------------------------------------------------------- dispatch (isThisCommand, in palette order) *)
Definition is_this_command (c : cls) (cmd : str) (code_block : option (list item)) : bool :=
  let up := upper cmd in
  match c with
  | Simple sc =>
      let command := match up with 36%N :: r => r | _ => up end in
      match s_names sc with [] => false | _ => str_in command (s_names sc) end
  | Block bc =>
      let no_block := match code_block with Some (_ :: _) => false | _ => true end in
      let dollar_named := match cmd with 36%N :: _ => str_in (tl up) (b_names bc) | _ => false end in
      if dollar_named || (b_code_block_required bc && no_block) then false
      else match b_names bc with [] => false | _ => str_in up (b_names bc) end
  end.

Fixpoint find_command (pal : list (str * cls)) (cmd : str) (code_block : option (list item)) : option (str * cls) :=
  match pal with
  | [] => None
  | (n, c) :: r => if is_this_command c cmd code_block then Some (n, c) else find_command r cmd code_block
  end.

Definition generic_simple : simple_cls :=
  mkSimple [] Allowed true false ATStr false [] (mkValidator [] true) PVNone (mkFormatter [] SContent) RKDefault.

Definition unknown_warning_text (n : Z) : str :=
  (* "The command on line {n} may not exist" *)
  [84;104;101;32;99;111;109;109;97;110;100;32;111;110;32;108;105;110;101;32]%N ++ Z_to_str n
  ++ [32;109;97;121;32;110;111;116;32;101;120;105;115;116]%N.

Definition is_start_class (c : cls) : bool :=
  match c with Simple sc => match s_run sc with RKStart => true | _ => false end | _ => false end.

(* one iteration of Stack.run for a line *)
Definition exec_line (c : str) (n : Z) (code_block : option (list item)) : M cret :=
  let cur := (c, n) in
  match split_ws1 c with
  | [] => crash KIndexError
  | cmd :: more =>
      let argument := match more with a :: _ => Some a | [] => None end in
      match find_command palette cmd code_block with
      | Some (cname, cl) =>
          (* the_command = i(self.env, self): Start refuses to be built without a file *)
          if is_start_class cl && match c_file cx with None => true | Some _ => false end
          then raise cur ENotAValidCommand
          else
            match cl with
            | Simple sc => simple_compile cur cname (ByCommand cname) sc cmd n argument code_block
            | Block bc =>
                dom r <- block_compile cur bc cname cmd n argument code_block;
                match r with
                | RNone => ret (mkCret [] SNormal)
                | RLines ls => ret (mkCret (map (mkO (ByCommand cname)) ls) SNormal)
                | RComp cr => ret cr
                end
            end
      | None =>
          dom _ <- (if supress_command_not_exist (c_opts cx) then ret tt
                    else warn cur (unknown_warning_text n));
          simple_compile cur [] ByUnknown generic_simple cmd n argument code_block
      end
  end.

(* Stack.run *)
Fixpoint exec_cmds (cmds : list item) (acc : list oline) : M cret :=
  match cmds with
  | [] => ret (mkCret acc SNormal)
  | Blk _ :: rest => exec_cmds rest acc
  | Ln c n :: rest =>
      if is_blank c then exec_cmds rest acc else    (* list-form blank line (fix commit) *)
      let code_block := match rest with Blk b :: _ => Some b | _ => None end in
      dom _ <- set_line2 None;
      dom cr <- exec_line c n code_block;
      let acc' := acc ++ cr_data cr in
      match cr_sig cr with
      | SNormal => exec_cmds rest acc'
      | sg => ret (mkCret acc' sg)
      end
  end.

End Stack.

(* ------------------------------------------------------------------ the depth-indexed interpreter *)
Definition no_child : runner := fun _ g _ _ => (g, ICrash KRecursion).

Definition run_with (child : runner) : runner :=
  fun cx g e cmds =>
    match exec_cmds child cx cmds [] (mkSt g e None) with
    | (s, IOk cr) => (s_g s, IOk (cr, s_env s))
    | (s, IErr er t) => (s_g s, IErr er t)
    | (s, ICrash k) => (s_g s, ICrash k)
    | (s, IUnmod) => (s_g s, IUnmod)
    end.

Fixpoint run (d : nat) : runner :=
  run_with (match d with O => no_child | S d' => run d' end).

(* ------------------------------------------------------------------ Compiler.compile *)
Record compiled := mkCompiled {
  out : list oline;
  warnings : list warning;
  final_env : env;
  prints : list print_rec
}.

Definition initial_env : env := mkEnv [(default_delay_var, VInt 0)] [] [] [].

Definition run_depth (o : options) : nat := Z.to_nat (stack_limit o).

(* start_base(run_init=True) on already parsed commands *)
Definition compile_items (o : options) (fs : fsys) (file : option path) (cmds : list item) : glob * ires compiled :=
  match run (run_depth o) (mkCtx o fs [] file) (mkGlob [] []) initial_env cmds with
  | (g, IOk (cr, e)) =>
      let g' := match s_sig_warning (cr_sig cr) with
                | Some w => add_warning (mkWarn w None) g
                | None => g end in
      (g', IOk (mkCompiled (cr_data cr) (rev (g_warnings g')) e (rev (g_prints g'))))
  | (g, IErr er t) => (g, IErr er t)
  | (g, ICrash k) => (g, ICrash k)
  | (g, IUnmod) => (g, IUnmod)
  end.

Definition lift_tab {A} (r : tabres A) : glob * ires A :=
  match r with
  | TOk a => (mkGlob [] [], IOk a)
  | TErr (QuoteUnclosed _) => (mkGlob [] [], IErr EUnclosedQuotes None)
  | TErr TabFuel => (mkGlob [] [], ICrash KOutOfFuel)
  | TErr _ => (mkGlob [] [], IErr EInvalidTab None)
  end.

Definition compile_text (o : options) (fs : fsys) (file : option path) (text : str) : glob * ires compiled :=
  match prepare_text text with
  | TOk cmds => compile_items o fs file cmds
  | TErr (QuoteUnclosed _) => (mkGlob [] [], IErr EUnclosedQuotes None)
  | TErr TabFuel => (mkGlob [] [], ICrash KOutOfFuel)
  | TErr _ => (mkGlob [] [], IErr EInvalidTab None)
  end.

Definition compile_raw (o : options) (fs : fsys) (file : option path) (lines : list raw) : glob * ires compiled :=
  compile_items o fs file (convert_to_recur lines 0%Z).

End WithFloats.
