(* Stack.get_stacktrace: the last [limit] entries of the pile (-1 = all). *)
From Coq Require Import ZArith List Bool.
Import ListNotations.

Definition get_stacktrace {A} (pile : list A) (limit : Z) : list A :=
  let n := Z.of_nat (length pile) in
  let start := if (limit =? -1)%Z || (n <=? limit)%Z then 0%Z else (n - limit)%Z in
  skipn (Z.to_nat start) pile.

Definition lastn {A} (n : nat) (l : list A) : list A := skipn (length l - n) l.
