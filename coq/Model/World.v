(* C17: compilations as a history over a "world" of class-level / module-level state.
   The translator scans the code for run-time writes to such state (Generated/Constants.v:
   world_writes); a compilation applies exactly those writes to the world. *)
From Coq Require Import ZArith List Bool.
From DS Require Import Base PyStr Values TabParse Interp Constants.
Import ListNotations.

Section WithFloats.
Variable fo : FloatOps.

Record job := mkJob { j_opts : options; j_fs : fsys; j_file : option path; j_text : str }.

Definition world := list (str * Z).      (* the log of writes to shared state *)

Definition run_job (j : job) : glob * ires (compiled fo) :=
  compile_text fo (j_opts j) (j_fs j) (j_file j) (j_text j).

Definition step (w : world) (j : job) : world * (glob * ires (compiled fo)) :=
  (w ++ world_writes, run_job j).

Fixpoint run_history (w : world) (js : list job) : world * list (glob * ires (compiled fo)) :=
  match js with
  | [] => (w, [])
  | j :: r => let '(w1, x) := step w j in
              let '(w2, xs) := run_history w1 r in (w2, x :: xs)
  end.
End WithFloats.
