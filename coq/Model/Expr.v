(* The expression tokenizer: character-level scanner with candidate token classes, a per-position
   blacklist and back-tracking (Tokenizer.__convert_string), the precedence passes
   (__build_parse_trees) and evaluation (solve).  Mirrors tokenization/tokenizer.py + tokens/*.py. *)
From Coq Require Import NArith ZArith List Bool.
From DS Require Import Base PyStr Values Tables Constants.
Import ListNotations.

Section WithFloats.
Variable fo : FloatOps.
Notation value := (value fo).

(* ------------------------------------------------------------------ keyword matcher (Token.parse_for_keywords) *)
Record kwstate := mkKw {
  kw_list : list str;
  kw_expected : option (list str);
  kw_cur : str
}.

Inductive istoken := IFalse | ITrue | IContinue | IFalseSkip | IResetContinue | ITrueContinue.

Definition kw_step (k : kwstate) (c : N) : kwstate * istoken :=
  let cur' := kw_cur k ++ [c] in
  let listable := match kw_expected k with Some e => e | None => kw_list k end in
  let new_expected := filter (fun w => startswith cur' w) listable in
  match new_expected with
  | [] =>
      let k' := mkKw (kw_list k) (kw_expected k) cur' in
      match kw_expected k with
      | Some ev => if existsb (fun w => str_eqb w (kw_cur k)) ev then (k', IFalse) else (k', IResetContinue)
      | None => (k', IResetContinue)
      end
  | [w] =>
      (mkKw (kw_list k) (Some new_expected) cur', if str_eqb w cur' then IContinue else ITrue)
  | _ => (mkKw (kw_list k) (Some new_expected) cur', ITrue)
  end.

(* ------------------------------------------------------------------ token classes *)
Inductive tclass := CStr | CNum | CBool | CVar | CGroup | COp (oc : opclassid).

Definition tclass_eqb (a b : tclass) : bool :=
  match a, b with
  | CStr, CStr | CNum, CNum | CBool, CBool | CVar, CVar | CGroup, CGroup => true
  | COp OCMath, COp OCMath | COp OCCond, COp OCCond | COp OCComma, COp OCComma => true
  | _, _ => false
  end.

Inductive tok :=
| TStr (in_string closed : bool)
| TNum (index : Z) (is_fp is_neg closed : bool)
| TKw (c : tclass) (k : kwstate)             (* Boolean, Variable, operators: closed = True *)
| TGroup (depth : Z) (ignore_paren closed opp : bool).

Definition tok_class (t : tok) : tclass :=
  match t with
  | TStr _ _ => CStr
  | TNum _ _ _ _ => CNum
  | TKw c _ => c
  | TGroup _ _ _ _ => CGroup
  end.

Definition tok_closed (t : tok) : bool :=
  match t with
  | TStr _ c => c
  | TNum _ _ _ c => c
  | TKw _ _ => true
  | TGroup _ _ c _ => c
  end.

Definition vtype_class (v : vtype) : tclass :=
  match v with VTString => CStr | VTNumber => CNum | VTBoolean => CBool | VTVariable => CVar end.

Definition q : N := 34.   (* double quote *)
Definition lpar : N := 40.
Definition rpar : N := 41.
Definition bang : N := 33.
Definition dash : N := 45.
Definition dot : N := 46.

Definition vars_t := list (str * value).

Definition new_tok (vars : vars_t) (c : tclass) : tok :=
  match c with
  | CStr => TStr false false
  | CNum => TNum (-1) false false true
  | CBool => TKw CBool (mkKw bool_keywords None [])
  | CVar => TKw CVar (mkKw (map fst vars) None [])
  | CGroup => TGroup 0 false false false
  | COp oc =>
      let ops := match find (fun o => match oc_id o, oc with
                                       | OCMath, OCMath | OCCond, OCCond | OCComma, OCComma => true
                                       | _, _ => false end) operands with
                 | Some o => oc_operators o
                 | None => []
                 end in
      TKw (COp oc) (mkKw ops None [])
  end.

(* addCharToToken *)
Definition add_char (t : tok) (c : N) : res (tok * istoken) :=
  match t with
  | TStr in_s closed =>
      if negb (c =? q)%N && in_s then Ok (t, ITrue)
      else if in_s then Ok (TStr false true, IFalseSkip)
      else if (c =? q)%N then Ok (TStr true closed, ITrueContinue)
      else Ok (t, IFalse)
  | TNum idx is_fp is_neg closed =>
      let idx := (idx + 1)%Z in
      if isnumeric_c c then Ok (TNum idx is_fp is_neg true, ITrue)
      else if Z.eqb idx 0 && (c =? dash)%N then Ok (TNum idx is_fp true false, ITrue)
      else if (c =? dot)%N && negb is_fp then
        Ok (TNum idx true is_neg (if Z.eqb idx 0 then false else closed), ITrue)
      else if is_neg && Z.eqb idx 1 then Ok (TNum idx is_fp is_neg closed, IResetContinue)
      else Ok (TNum idx is_fp is_neg closed, IFalse)
  | TKw cl k =>
      match kw_list k with
      | [] => Ok (t, IFalse)                  (* `if self.keywords:` is false *)
      | _ => let (k', r) := kw_step k c in Ok (TKw cl k', r)
      end
  | TGroup depth ign closed opp =>
      let is_paren := (c =? lpar)%N || (c =? rpar)%N in
      if (negb is_paren || ign) && negb (Z.eqb depth 0) then
        Ok (TGroup depth (if (c =? q)%N then negb ign else ign) closed opp, ITrue)
      else
        let depth := if is_paren then (if (c =? lpar)%N then depth + 1 else depth - 1)%Z else depth in
        if (depth <? 0)%Z then Err EUnexpectedToken
        else if cmp_eval paren_limit_op depth paren_limit then Err EStackOverflow
        else if (0 <? depth)%Z then Ok (TGroup depth ign closed opp, ITrue)
        else if negb is_paren then
          if (c =? bang)%N then Ok (TGroup depth ign closed true, ITrueContinue)
          else Ok (TGroup depth ign closed opp, IResetContinue)
        else Ok (TGroup depth ign true opp, IContinue)
  end.

(* ------------------------------------------------------------------ parsed tokens *)
Inductive ptok :=
| PVal (v : value)
| PGroup (inner : str) (opp : bool)
| POp (oc : opclassid) (sym : str).

Definition strip_parens (s : str) : str :=
  let s1 := match s with c :: r => if (c =? lpar)%N then r else s | [] => s end in
  match rev s1 with
  | c :: r => if (c =? rpar)%N then rev r else s1
  | [] => s1
  end.

Definition s_TRUE : str := [84;82;85;69]%N.
Definition s_FALSE : str := [70;65;76;83;69]%N.

Fixpoint lookup {A} (k : str) (l : list (str * A)) : option A :=
  match l with
  | [] => None
  | (k', v) :: r => if str_eqb k k' then Some v else lookup k r
  end.

(* Number.set_value (after the fix commit): int first, then float, else a compile error *)
Definition number_value (s : str) : res value :=
  if endswith [dot] s then
    match py_int (removelast s) with
    | Some z => Ok (VInt z)
    | None => Err EExpectedToken
    end
  else match py_int s with
       | Some z => Ok (VInt z)
       | None => match py_float_parts s with
                 | Some (neg, m, k) => Ok (normalise fo (VFlt (f_of_dec fo neg m k)))
                 | None => Err EExpectedToken
                 end
       end.

(* token.set_value(string) when the token is appended *)
Definition set_value (vars : vars_t) (t : tok) (s : str) : res ptok :=
  match t with
  | TStr _ _ => Ok (PVal (VStr s))
  | TNum _ _ _ _ => do v <- number_value s; Ok (PVal v)
  | TKw CBool _ =>
      if str_eqb s s_TRUE then Ok (PVal (VBool true))
      else if str_eqb s s_FALSE then Ok (PVal (VBool false))
      else Err EExpectedToken
  | TKw CVar _ =>
      match lookup s vars with
      | Some v => Ok (PVal v)
      | None => Err EExpectedToken
      end
  | TKw (COp oc) _ => Ok (POp oc s)
  | TKw _ _ => Crash KOther
  | TGroup _ _ _ opp => Ok (PGroup (strip_parens s) opp)
  end.

(* ------------------------------------------------------------------ SolveData and the scanner loop *)
Record sd := mkSd {
  sd_start : str;          (* text from start_index on *)
  sd_rest : str;           (* text from index on *)
  sd_token : option tok;
  sd_is_op : bool;
  sd_string : str;         (* reversed *)
  sd_out : list ptok;      (* reversed *)
  sd_black : list tclass
}.

Definition append_and_switch (vars : vars_t) (s : sd) (t : tok) (rest : str) (string : str) : res sd :=
  do p <- set_value vars t (rev string);
  Ok (mkSd rest rest None (negb (sd_is_op s)) [] (p :: sd_out s) []).

Definition in_black (c : tclass) (b : list tclass) : bool := existsb (tclass_eqb c) b.

(* one candidate class offered the first character (body of the for loop of __verify_char).
   Result: inl state = break (character taken); inr state = try the next class *)
Definition try_class (vars : vars_t) (s : sd) (c : N) (rest' : str) (cl : tclass) : res (sd + sd) :=
  do r <- add_char (new_tok vars cl) c;
  let '(t, it) := r in
  match it with
  | IFalse => Ok (inr (mkSd (sd_start s) (sd_rest s) (Some t) (sd_is_op s) (sd_string s) (sd_out s) (sd_black s)))
  | ITrue => Ok (inl (mkSd (sd_start s) rest' (Some t) (sd_is_op s) (c :: sd_string s) (sd_out s) (sd_black s)))
  | IContinue => do s' <- append_and_switch vars s t rest' (c :: sd_string s); Ok (inl s')
  | IResetContinue =>
      Ok (inr (mkSd (sd_start s) (sd_start s) None (sd_is_op s) [] (sd_out s) (tok_class t :: sd_black s)))
  | ITrueContinue => Ok (inl (mkSd (sd_start s) rest' (Some t) (sd_is_op s) (sd_string s) (sd_out s) (sd_black s)))
  | IFalseSkip => do s' <- append_and_switch vars s t rest' (sd_string s); Ok (inr s')
  end.

Fixpoint verify_char (vars : vars_t) (s : sd) (c : N) (rest' : str) (cls : list tclass) : res sd :=
  match cls with
  | [] => Err EExpectedToken
  | cl :: more =>
      if in_black cl (sd_black s) then verify_char vars s c rest' more
      else do r <- try_class vars s c rest' cl;
           match r with
           | inl s' => Ok s'
           | inr s' => verify_char vars s' c rest' more
           end
  end.

Definition value_classes : list tclass := map vtype_class value_types ++ [CGroup].
Definition operand_classes : list tclass := map (fun o => COp (oc_id o)) operands.

(* one iteration of the while loop of __convert_string; None = loop finished *)
Definition scan_step (vars : vars_t) (s : sd) : option (res sd) :=
  match sd_rest s with
  | [] => None
  | c :: rest' =>
      Some
      match sd_token s with
      | None =>
          if isspace_c c then Ok (mkSd rest' rest' None (sd_is_op s) (sd_string s) (sd_out s) (sd_black s))
          else verify_char vars s c rest' (if sd_is_op s then operand_classes else value_classes)
      | Some t =>
          do r <- add_char t c;
          let '(t', it) := r in
          match it with
          | IFalse => append_and_switch vars s t' (sd_rest s) (sd_string s)
          | ITrue => Ok (mkSd (sd_start s) rest' (Some t') (sd_is_op s) (c :: sd_string s) (sd_out s) (sd_black s))
          | IContinue => append_and_switch vars s t' rest' (c :: sd_string s)
          | IResetContinue =>
              Ok (mkSd (sd_start s) (sd_start s) None (sd_is_op s) [] (sd_out s) (tok_class t' :: sd_black s))
          | ITrueContinue => Ok (mkSd (sd_start s) rest' (Some t') (sd_is_op s) (sd_string s) (sd_out s) (sd_black s))
          | IFalseSkip => append_and_switch vars s t' rest' (sd_string s)
          end
      end
  end.

Definition scan_finish (vars : vars_t) (s : sd) : res (list ptok) :=
  do s' <- match sd_token s with
           | Some t => if tok_closed t then append_and_switch vars s t (sd_rest s) (sd_string s)
                       else Err EExpectedToken
           | None => Ok s
           end;
  if Nat.even (length (sd_out s')) then Err EExpectedToken else Ok (rev (sd_out s')).

Fixpoint scan_loop (fuel : nat) (vars : vars_t) (s : sd) : res (list ptok) :=
  match scan_step vars s with
  | None => scan_finish vars s
  | Some r =>
      match fuel with
      | O => Crash KOutOfFuel
      | S f => do s' <- r; scan_loop f vars s'
      end
  end.

Definition scan_fuel (s : str) : nat := (length s + 2) * (length s + 8).

Definition convert_string (vars : vars_t) (s : str) : res (list ptok) :=
  scan_loop (scan_fuel s) vars (mkSd s s None false [] [] []).

(* ------------------------------------------------------------------ parse trees *)
Inductive ptree :=
| Leaf (t : ptok)
| Node (oc : opclassid) (sym : str) (l r : ptree).

Definition oplist := list (opclassid * str * ptree).

(* the scanner alternates value / operator; anything else cannot be indexed by the passes *)
Fixpoint structure_rest (l : list ptok) : option oplist :=
  match l with
  | [] => Some []
  | POp oc sym :: v :: r =>
      match v with
      | POp _ _ => None
      | _ => option_map (fun t => (oc, sym, Leaf v) :: t) (structure_rest r)
      end
  | _ => None
  end.

Definition structure (l : list ptok) : option (ptree * oplist) :=
  match l with
  | [] => None
  | POp _ _ :: _ => None
  | v :: r => option_map (fun t => (Leaf v, t)) (structure_rest r)
  end.

(* one `while index < len(parse_list)` pass for one precedence row *)
Fixpoint pass (row : list str) (acc : ptree) (rest : oplist) : ptree * oplist :=
  match rest with
  | [] => (acc, [])
  | (oc, sym, t) :: r =>
      if str_in sym row then pass row (Node oc sym acc t) r
      else let '(a, r') := pass row t r in (acc, (oc, sym, a) :: r')
  end.

Definition all_rows : list (list str) := flat_map oc_precedence operands.

Definition build_tree (l : list ptok) : res ptree :=
  match structure l with
  | None => Crash KIndexError
  | Some (t0, rest) =>
      let '(t, rest') := fold_left (fun '(a, r) row => pass row a r) all_rows (t0, rest) in
      match rest' with
      | [] => Ok t
      | _ => Err EExpectedToken     (* "Parsing failed. Size of root was ..." *)
      end
  end.

(* ------------------------------------------------------------------ evaluation *)
Definition py_not (v : value) : value := VBool (negb (truthy fo v)).

Section Solve.
Variable rec : str -> res value.    (* Tokenizer.solve of a nested group, before `!` *)

Fixpoint solve (t : ptree) : res value :=
  match t with
  | Leaf (PVal v) => Ok v
  | Leaf (PGroup inner opp) => do v <- rec inner; Ok (if opp then py_not v else v)
  | Leaf (POp _ _) => Crash KOther
  | Node oc sym l r => do lv <- solve l; do rv <- solve r; apply_op fo oc sym lv rv
  end.
End Solve.

(* Tokenizer.solve for is_opposite = False *)
Fixpoint tokenize_fuel (fuel : nat) (vars : vars_t) (s : str) : res value :=
  match fuel with
  | O => Crash KOutOfFuel
  | S f =>
      do toks <- convert_string vars s;
      do tree <- build_tree toks;
      do v <- solve (tokenize_fuel f vars) tree;
      Ok (normalise fo v)
  end.

Definition tokenize (vars : vars_t) (s : str) : res value := tokenize_fuel (S (length s)) vars s.

End WithFloats.

Arguments PVal {fo}. Arguments PGroup {fo}. Arguments POp {fo}.
Arguments Leaf {fo}. Arguments Node {fo}.
