(* Values of the expression language, Python's dynamic arithmetic on them, outcomes. *)
From Coq Require Import NArith ZArith List Bool.
From DS Require Import Base PyStr.
Import ListNotations.

(* ------------------------------------------------------------------ outcomes *)
Inductive errcls :=
| EInvalidTab | EUnclosedQuotes
| EGeneral | EStackOverflow | EVarNonExistent | EUnacceptableVarName | EInvalidArguments
| EUnexpectedToken | EExpectedToken | EMismatch | ENotAValidCommand | ECircular
| EExceededLimit | EInvalidCommand | EStackReturnType | EDivideByZero.

Inductive crashkind :=
| KOutOfFuel        (* model fuel exhausted: proved unreachable where it matters *)
| KTypeError | KAttributeError | KValueError | KIndexError | KRecursion | KOther.

Inductive res (A : Type) :=
| Ok (a : A)
| Err (e : errcls)          (* a member of the documented CompilationError family *)
| Crash (k : crashkind)     (* any other Python exception *)
| Unmodelled.               (* behaviour outside the modelled fragment (stated per site) *)
Arguments Ok {A}. Arguments Err {A}. Arguments Crash {A}. Arguments Unmodelled {A}.

Definition bind {A B} (r : res A) (f : A -> res B) : res B :=
  match r with
  | Ok a => f a
  | Err e => Err e
  | Crash k => Crash k
  | Unmodelled => Unmodelled
  end.
Notation "'do' x <- r ; k" := (bind r (fun x => k)) (at level 200, x pattern, r at level 100, k at level 200).

Definition of_option {A} (o : option A) (dflt : res A) : res A :=
  match o with Some a => Ok a | None => dflt end.

(* ------------------------------------------------------------------ abstract floats *)
Inductive pow_res (F : Type) := PowOk (f : F) | PowZeroDiv | PowOverflow | PowComplex.
Arguments PowOk {F}. Arguments PowZeroDiv {F}. Arguments PowOverflow {F}. Arguments PowComplex {F}.

(* Python's float, abstractly.  Nothing is assumed about the operations: every theorem holds
   for every instance; the correspondence driver instantiates it with IEEE doubles. *)
Record FloatOps := {
  F : Type;
  f_of_Z : Z -> option F;            (* None: OverflowError (int too large to convert) *)
  f_of_dec : bool -> N -> N -> F;    (* sign, mantissa, number of fraction digits *)
  f_add : F -> F -> F;
  f_sub : F -> F -> F;
  f_mul : F -> F -> F;
  f_div : F -> F -> F;               (* divisor non-zero *)
  f_floordiv : F -> F -> F;
  f_mod : F -> F -> F;
  f_pow : F -> F -> pow_res F;
  f_is_integer : F -> bool;
  f_to_Z : F -> Z;                   (* int(f), used when f_is_integer f *)
  f_eqb : F -> F -> bool;
  f_ltb : F -> F -> bool;
  f_is_zero : F -> bool;
  f_repr : F -> str
}.

Section WithFloats.
Variable fo : FloatOps.
Notation Fl := (F fo).

Inductive value :=
| VInt (z : Z)
| VFlt (f : Fl)
| VStr (s : str)
| VBool (b : bool)
| VList (l : list value)
| VNone.

(* ------------------------------------------------------------------ printing *)
Definition s_True : str := [84;114;117;101]%N.
Definition s_False : str := [70;97;108;115;101]%N.
Definition s_None : str := [78;111;110;101]%N.

(* repr of a str is modelled for strings of printable ASCII without quote or backslash *)
Definition simple_repr_ok (s : str) : bool :=
  forallb (fun c => (32 <=? c)%N && (c <=? 126)%N && negb (c =? 39)%N && negb (c =? 92)%N) s.

Fixpoint py_repr (v : value) : option str :=
  match v with
  | VInt z => Some (Z_to_str z)
  | VFlt f => Some (f_repr fo f)
  | VStr s => if simple_repr_ok s then Some (39%N :: s ++ [39%N]) else None
  | VBool b => Some (if b then s_True else s_False)
  | VNone => Some s_None
  | VList l =>
      let fix go (l : list value) (first : bool) : option str :=
        match l with
        | [] => Some [93%N]
        | x :: r => match py_repr x, go r false with
                    | Some sx, Some sr => Some ((if first then [] else [44%N; 32%N]) ++ sx ++ sr)
                    | _, _ => None
                    end
        end in
      option_map (fun body => 91%N :: body) (go l true)
  end.

Definition py_str (v : value) : option str :=
  match v with
  | VStr s => Some s
  | _ => py_repr v
  end.

(* ------------------------------------------------------------------ truthiness *)
Definition truthy (v : value) : bool :=
  match v with
  | VInt z => negb (Z.eqb z 0)
  | VFlt f => negb (f_is_zero fo f)
  | VStr s => match s with [] => false | _ => true end
  | VBool b => b
  | VList l => match l with [] => false | _ => true end
  | VNone => false
  end.

(* ------------------------------------------------------------------ numeric views *)
Inductive num := NI (z : Z) | NF (f : Fl).

Definition as_num (v : value) : option num :=
  match v with
  | VInt z => Some (NI z)
  | VBool b => Some (NI (if b then 1 else 0))
  | VFlt f => Some (NF f)
  | _ => None
  end.

Definition normalise (v : value) : value :=
  match v with
  | VFlt f => if f_is_integer fo f then VInt (f_to_Z fo f) else v
  | _ => v
  end.

Definition to_float (n : num) : res Fl :=
  match n with
  | NF f => Ok f
  | NI z => of_option (f_of_Z fo z) (Err EExceededLimit)   (* OverflowError -> ExceededLimitError *)
  end.

Definition big_int (n : num) : bool :=
  match n with NI z => (9007199254740992 <? Z.abs z)%Z | NF _ => false end.

Definition num_is_zero (n : num) : bool :=
  match n with NI z => Z.eqb z 0 | NF f => f_is_zero fo f end.

(* Python == *)
Fixpoint py_eq (a b : value) : res bool :=
  match as_num a, as_num b with
  | Some (NI x), Some (NI y) => Ok (Z.eqb x y)
  | Some x, Some y =>
      match to_float x, to_float y with
      | Ok fx, Ok fy => Ok (f_eqb fo fx fy)
      | _, _ => Unmodelled          (* exact int/float comparison beyond float range *)
      end
  | _, _ =>
      match a, b with
      | VStr x, VStr y => Ok (str_eqb x y)
      | VNone, VNone => Ok true
      | VList x, VList y =>
          (fix go (x y : list value) : res bool :=
             match x, y with
             | [], [] => Ok true
             | a' :: x', b' :: y' => do e <- py_eq a' b'; if e then go x' y' else Ok false
             | _, _ => Ok false
             end) x y
      | _, _ => Ok false
      end
  end.

Fixpoint str_ltb (a b : str) : bool :=
  match a, b with
  | [], [] => false
  | [], _ :: _ => true
  | _ :: _, [] => false
  | x :: a', y :: b' => if (x <? y)%N then true else if (y <? x)%N then false else str_ltb a' b'
  end.

(* a < b  (the other orderings are derived) ; TypeError -> MismatchError since the fix *)
Definition py_lt (a b : value) : res bool :=
  match as_num a, as_num b with
  | Some (NI x), Some (NI y) => Ok (Z.ltb x y)
  | Some x, Some y =>
      match to_float x, to_float y with
      | Ok fx, Ok fy => Ok (f_ltb fo fx fy)
      | _, _ => Unmodelled
      end
  | _, _ =>
      match a, b with
      | VStr x, VStr y => Ok (str_ltb x y)
      | VList _, VList _ => Unmodelled
      | _, _ => Err EMismatch
      end
  end.

Definition is_str (v : value) : bool := match v with VStr _ => true | _ => false end.

Fixpoint repeat_list {A} (n : nat) (l : list A) : list A :=
  match n with O => [] | S k => l ++ repeat_list k l end.

Definition rep_limit : Z := 100000.

(* ------------------------------------------------------------------ operators *)
Definition sym_plus : str := [43]%N.
Definition sym_minus : str := [45]%N.
Definition sym_times : str := [42]%N.
Definition sym_div : str := [47]%N.
Definition sym_fdiv : str := [47;47]%N.
Definition sym_mod : str := [37]%N.
Definition sym_pow : str := [94]%N.
Definition sym_eq : str := [61;61]%N.
Definition sym_ne : str := [33;61]%N.
Definition sym_lt : str := [60]%N.
Definition sym_gt : str := [62]%N.
Definition sym_le : str := [60;61]%N.
Definition sym_ge : str := [62;61]%N.

Definition arith2 (fz : Z -> Z -> Z) (ff : Fl -> Fl -> Fl) (x y : num) : res value :=
  match x, y with
  | NI a, NI b => Ok (VInt (fz a b))
  | _, _ => do fx <- to_float x; do fy <- to_float y; Ok (VFlt (ff fx fy))
  end.

Definition py_pow (x y : num) : res value :=
  match x, y with
  | NI a, NI b =>
      if (0 <=? b)%Z then Ok (VInt (Z.pow a b))
      else if Z.eqb a 0 then Err EDivideByZero
      else do fx <- to_float x; do fy <- to_float y;
           match f_pow fo fx fy with
           | PowOk f => Ok (VFlt f)
           | PowZeroDiv => Err EDivideByZero
           | PowOverflow => Err EExceededLimit
           | PowComplex => Unmodelled
           end
  | _, _ =>
      do fx <- to_float x; do fy <- to_float y;
      match f_pow fo fx fy with
      | PowOk f => Ok (VFlt f)
      | PowZeroDiv => Err EDivideByZero
      | PowOverflow => Err EExceededLimit
      | PowComplex => Unmodelled
      end
  end.

(* MathOperator.solve_operand (after the fix commits: TypeError -> MismatchError,
   ZeroDivisionError -> DivideByZeroError, OverflowError -> ExceededLimitError) *)
Definition math_op (sym : str) (l r : value) : res value :=
  if str_eqb sym sym_plus then
    if is_str l || is_str r then
      match py_str l, py_str r with
      | Some a, Some b => Ok (VStr (a ++ b))
      | _, _ => Unmodelled
      end
    else match as_num l, as_num r with
         | Some x, Some y => arith2 Z.add (f_add fo) x y
         | _, _ => match l, r with
                   | VList a, VList b => Ok (VList (a ++ b))
                   | _, _ => Err EMismatch
                   end
         end
  else
    match l with
    | VInt _ | VFlt _ =>
        match as_num l, as_num r with
        | Some x, Some y =>
            if str_eqb sym sym_minus then arith2 Z.sub (f_sub fo) x y
            else if str_eqb sym sym_times then arith2 Z.mul (f_mul fo) x y
            else if str_eqb sym sym_div then
              if num_is_zero y then Err EDivideByZero
              else if big_int x || big_int y then Unmodelled   (* int/int is correctly rounded in Python *)
              else do fx <- to_float x; do fy <- to_float y; Ok (VFlt (f_div fo fx fy))
            else if str_eqb sym sym_fdiv then
              if num_is_zero y then Err EDivideByZero else arith2 Z.div (f_floordiv fo) x y
            else if str_eqb sym sym_pow then py_pow x y
            else (* "%" and anything else *)
              if num_is_zero y then Err EDivideByZero else arith2 Z.modulo (f_mod fo) x y
        | _, _ =>
            (* right operand is not a number *)
            if str_eqb sym sym_times then
              match l, r with
              | VInt n, VStr s =>
                  if (n <=? rep_limit)%Z then Ok (VStr (repeat_list (Z.to_nat n) s)) else Unmodelled
              | VInt n, VList s =>
                  if (n <=? rep_limit)%Z then Ok (VList (repeat_list (Z.to_nat n) s)) else Unmodelled
              | _, _ => Err EMismatch
              end
            else Err EMismatch
        end
    | _ => Err EMismatch
    end.

Definition cond_op (sym : str) (l r : value) : res value :=
  if str_eqb sym sym_eq then do b <- py_eq l r; Ok (VBool b)
  else if str_eqb sym sym_ne then do b <- py_eq l r; Ok (VBool (negb b))
  else if str_eqb sym sym_lt then do b <- py_lt l r; Ok (VBool b)
  else if str_eqb sym sym_gt then do b <- py_lt r l; Ok (VBool b)
  else if str_eqb sym sym_le then
    (* Python evaluates l <= r directly; for the modelled types it equals (l < r or l == r) *)
    do b <- py_lt l r; if b then Ok (VBool true) else
    match as_num l, as_num r, l, r with
    | Some _, Some _, _, _ | _, _, VStr _, VStr _ => do e <- py_eq l r; Ok (VBool e)
    | _, _, _, _ => Err EMismatch
    end
  else if str_eqb sym sym_ge then
    do b <- py_lt r l; if b then Ok (VBool true) else
    match as_num l, as_num r, l, r with
    | Some _, Some _, _, _ | _, _, VStr _, VStr _ => do e <- py_eq l r; Ok (VBool e)
    | _, _, _, _ => Err EMismatch
    end
  else Crash KOther.   (* NotImplementedError *)

Definition comma_op (l r : value) : res value :=
  match l with
  | VList xs => Ok (VList (xs ++ [r]))
  | _ => Ok (VList [l; r])
  end.

Definition apply_op (oc : opclassid) (sym : str) (l r : value) : res value :=
  do v <- match oc with
          | OCMath => math_op sym l r
          | OCCond => cond_op sym l r
          | OCComma => comma_op l r
          end;
  Ok (normalise v).

End WithFloats.

Arguments VInt {fo}. Arguments VFlt {fo}. Arguments VStr {fo}. Arguments VBool {fo}.
Arguments VList {fo}. Arguments VNone {fo}.
