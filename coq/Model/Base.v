(* Base types shared by the generated tables and the hand-written model. *)
From Coq Require Import NArith ZArith List Bool.
Import ListNotations.

(* Python str = sequence of Unicode code points *)
Definition str := list N.

Inductive cmpop := CEq | CNe | CLt | CLe | CGt | CGe.

Definition cmp_eval (op : cmpop) (a b : Z) : bool :=
  match op with
  | CEq => Z.eqb a b
  | CNe => negb (Z.eqb a b)
  | CLt => Z.ltb a b
  | CLe => Z.leb a b
  | CGt => Z.ltb b a
  | CGe => Z.leb b a
  end.

(* ------------------------------------------------------------------ validator DSL *)
Inductive sexpr :=
| SContent                 (* arg.content *)
| SUpper (e : sexpr)       (* e.upper() *)
| SStrip (e : sexpr).      (* e.strip() *)

Inductive bexpr :=
| BInParams (e : sexpr)                      (* e in self.parameters *)
| BLen (e : sexpr) (op : cmpop) (k : Z)      (* len(e) op k *)
| BLenObj (op : cmpop) (k : Z)               (* len(arg) op k  -- Line.__len__ *)
| BIsDigit (e : sexpr)
| BIsAscii (e : sexpr)
| BEndsWith (e : sexpr) (lit : str)
| BSplitLen (e : sexpr) (op : cmpop) (k : Z) (* len(e.split(maxsplit=1)) op k *)
| BNum (op : cmpop) (k : Z)                  (* arg.content op k   (numeric content) *)
| BNot (b : bexpr)
| BAnd (a b : bexpr)
| BOr (a b : bexpr).

(* first matching rule wins; [true] = accept (the Python function returns None) *)
Record validator := mkValidator { v_rules : list (bexpr * bool); v_default : bool }.
Record formatter := mkFormatter { f_rules : list (bexpr * sexpr); f_default : sexpr }.

Inductive pvalidator :=
| PVNone
| PVWarnIfLen (op : cmpop) (k : Z) (msg : str)
| PVRaiseIfLen (op : cmpop) (k : Z).

(* ------------------------------------------------------------------ command classes *)
Inductive argreq := Required | Allowed | NotAllowed.
Inductive argtype := ATStr | ATInt | ATDescr.

Inductive runkind :=
| RKDefault | RKEnter | RKWhitespace | RKRem | RKDefaultDelay | RKPass | RKPrint
| RKBreak | RKContinue | RKReturn | RKRun | RKVar | RKExist | RKNotExist | RKStart.

Inductive blockkind := BKIf | BKIgnore | BKRepeat | BKWhile | BKFunc.

Record simple_cls := mkSimple {
  s_names : list str;
  s_arg_req : argreq;
  s_strip_args : bool;
  s_tokenize_args : bool;
  s_arg_type : argtype;
  s_flipper_only : bool;
  s_params : list str;
  s_verify_arg : validator;
  s_verify_args : pvalidator;
  s_format_arg : formatter;
  s_run : runkind
}.

Record block_cls := mkBlock {
  b_names : list str;
  b_arg_req : argreq;
  b_code_block_required : bool;
  b_strip_arg : bool;
  b_flipper_only : bool;
  b_kind : blockkind
}.

Inductive cls := Simple (s : simple_cls) | Block (b : block_cls).

(* ------------------------------------------------------------------ token tables *)
Inductive vtype := VTString | VTNumber | VTBoolean | VTVariable.
Inductive opclassid := OCMath | OCCond | OCComma.
Record opclass := mkOpClass {
  oc_id : opclassid;
  oc_operators : list str;
  oc_precedence : list (list str)
}.

(* ------------------------------------------------------------------ options *)
Record options := mkOptions {
  stack_limit : Z;
  include_comments : bool;
  flipper_commands : bool;
  supress_command_not_exist : bool;
  use_project_config : bool
}.
