(* The CLI as a state machine over a small world: text files, the project config.yaml files
   (kept parsed, by directory), the global ~/.duckling/config.yaml and the set of directories.
   One operation = one process = one CLI invocation:
     - importing ducklingscript.cli evaluates Configuration.config in the default arguments of
       `compile`, so EVERY invocation loads the global config and writes it back in full
       (cli/utils/config.py: load -> save);
     - `compile FILE OUTPUT [--stack-limit N] [--comments B]` (cli/compile.py): the flags replace
       two fields of the global options; compile_file lets DIR/config.yaml replace the options
       (ProjectEnvironment.calculate_options, which also rewrites that file in full), compiles,
       and only after compile_file returned writes OUTPUT; a CompilationError is caught and
       reported;
     - `new NAME [DIR]` (cli/new.py).
   Outside the model: Typer's own argument validation, rich rendering, OS failures (permissions,
   disk full), YAML syntax (configs are parsed mappings with optional keys; unknown keys and
   non-mapping documents make the CompileOptions constructor raise at import time and are not represented). *)
From Coq Require Import NArith ZArith List Bool.
From DS Require Import Base PyStr Values TabParse Interp Options Constants Cli.
Import ListNotations.

Record cworld := mkCW {
  w_files : fsys;                          (* regular text files: sources, outputs, anything else *)
  w_cfg : path -> option yaml_opts;        (* DIR -> parsed DIR/config.yaml *)
  w_global : option yaml_opts;             (* ~/.duckling/config.yaml *)
  w_dirs : list path                       (* directories that exist *)
}.

(* yaml.dump(asdict(options)): every key present *)
Definition yaml_of_options (o : options) : yaml_opts :=
  mkYaml (Some (stack_limit o)) (Some (include_comments o)) (Some (flipper_commands o))
         (Some (supress_command_not_exist o)) (Some (use_project_config o)).

Definition set_cfg (c : path -> option yaml_opts) (d : path) (y : yaml_opts) : path -> option yaml_opts :=
  fun q => if path_eqb q d then Some y else c q.

(* Configuration.load + save *)
Definition load_global (w : cworld) : cworld * options :=
  let o := match w_global w with Some y => options_of_yaml y | None => default_options end in
  (mkCW (w_files w) (w_cfg w) (Some (yaml_of_options o)) (w_dirs w), o).

Inductive cli_op :=
| OpCompile (file output : path) (limit : option Z) (comments : option bool)
| OpNew (dir : path) (name : str).

Inductive cli_report :=
| RSuccess (nwarnings : nat)             (* "Compilation complete!" *)
| RError (e : errcls) (nprints : nat)    (* "Compile failed with an error." + captured prints *)
| RMissingFile                           (* compile_file raises FileNotFoundError *)
| RRaised                                (* a non-CompilationError escaped / not modelled *)
| RNewCreated
| RNewRefused.

Definition parent (p : path) : path := removelast p.

Definition dir_exists (w : cworld) (p : path) : bool :=
  existsb (path_eqb p) (w_dirs w) || match w_files w p with Some _ => true | None => false end.

Definition ascii_lower_c (c : N) : N := if ((65 <=? c) && (c <=? 90))%N then (c + 32)%N else c.

(* name.strip().lower().replace(" ", "-") for ASCII names *)
Definition normalise_name (name : str) : str := replace_char 32 45 (map ascii_lower_c (strip name)).

(* pathlib: DIR / "" is DIR itself *)
Definition child (d : path) (n : str) : path := match n with [] => d | _ => d ++ [n] end.

Section WithFloats.
Variable fo : FloatOps.

(* the prints an error carries: those of its stack; a tab error has no stack *)
Definition err_prints (g : glob) (t : option (list frame)) : nat :=
  match t with Some _ => length (g_prints g) | None => 0%nat end.

Definition cli_step (w : cworld) (op : cli_op) : cworld * cli_report :=
  let '(w1, g) := load_global w in
  match op with
  | OpCompile file output limit comments =>
      let opts := mkOptions (dflt limit (stack_limit g)) (dflt comments (include_comments g))
                            (flipper_commands g) (supress_command_not_exist g) (use_project_config g) in
      match w_files w1 file with
      | None => (w1, RMissingFile)
      | Some text =>
          let d := parent file in
          let proj := w_cfg w1 d in
          let eff := calculate_options opts proj in
          let w2 := match rewritten_config opts proj with
                    | Some p => mkCW (w_files w1) (set_cfg (w_cfg w1) d (yaml_of_options p)) (w_global w1) (w_dirs w1)
                    | None => w1 end in
          match compile_text fo eff (w_files w2) (Some file) text with
          | (_, IOk c) =>
              (mkCW (write (w_files w2) output (join [10%N] (map o_text (out fo c)))) (w_cfg w2) (w_global w2) (w_dirs w2),
               RSuccess (length (warnings fo c)))
          | (gl, IErr e t) => (w2, RError e (err_prints gl t))
          | (_, ICrash _) => (w2, RRaised)
          | (_, IUnmod) => (w2, RRaised)
          end
      end
  | OpNew dir name =>
      if negb (isascii_s name) then (w1, RRaised)
      else
        let n := normalise_name name in
        if negb (forallb valid_project_char n) then (w1, RNewRefused)
        else if dir_exists w1 (child dir n) then (w1, RNewRefused)
        else (mkCW (write (w_files w1) (child dir n ++ [main_name]) hello_world)
                   (set_cfg (w_cfg w1) (child dir n) (yaml_of_options default_options))
                   (w_global w1) (child dir n :: w_dirs w1), RNewCreated)
  end.

Fixpoint cli_run (w : cworld) (ops : list cli_op) : cworld * list cli_report :=
  match ops with
  | [] => (w, [])
  | op :: r => let '(w1, x) := cli_step w op in
               let '(w2, xs) := cli_run w1 r in (w2, x :: xs)
  end.
End WithFloats.
