(* tab_parse.py: indentation -> block tree; pre_line.py: list-form numbering. *)
From Coq Require Import NArith ZArith List Bool.
From DS Require Import Base PyStr.
Import ListNotations.

Definition preline := (str * Z)%type.          (* content, original 1-based line number *)

Inductive item :=
| Ln (c : str) (n : Z)
| Blk (l : list item).

Inductive taberr :=
| TabMismatch (n : Z)      (* "Tab is not equivalent to the others on line n" *)
| TabUnexpected (n : Z)    (* "Unexpected tab on line n" *)
| TabImpossible
| QuoteUnclosed (n : Z)    (* quotation began on n *)
| TabFuel.                 (* model fuel exhausted (proved unreachable) *)

Inductive tabres (A : Type) := TOk (a : A) | TErr (e : taberr).
Arguments TOk {A}. Arguments TErr {A}.

Definition sp : N := 32.
Definition tb : N := 9.
Definition triple_quote : str := [34;34;34]%N.

Fixpoint discover_tab_char (s : str) : str :=
  match s with
  | [] => []
  | c :: r => if isspace_c c then c :: discover_tab_char r else []
  end.

Inductive tabkind := NoTab | IsTab | NewTab (u : str).

Definition has_tab (i : str) (tab_char : option str) (line : Z) : tabres tabkind :=
  let discover :=
    match i with
    | c :: _ => if (c =? sp)%N || (c =? tb)%N then TOk (NewTab (discover_tab_char i)) else TOk NoTab
    | [] => TOk NoTab
    end in
  match tab_char with
  | Some u =>
      if startswith u i then TOk IsTab
      else match i with
           | c :: _ => if isspace_c c then TErr (TabMismatch line) else discover
           | [] => discover
           end
  | None => discover
  end.

Section Loop.
Variable rec : list preline -> option str -> tabres (list item).

(* the for loop of parse_document; [newc] and [ret] are kept reversed *)
Fixpoint pd_loop (text : list preline) (tab : option str) (newc : list preline) (ret : list item)
         (free : Z) (first : bool) : tabres (list item) :=
  match text with
  | [] =>
      if negb (Z.eqb free 0) then TErr (QuoteUnclosed free)
      else match newc with
           | [] => TOk (rev ret)
           | _ => match rec (rev newc) tab with
                  | TOk b => TOk (rev (Blk b :: ret))
                  | TErr e => TErr e
                  end
           end
  | (c, n) :: rest =>
      if is_blank c then pd_loop rest tab newc ret free first
      else
        let count0 := first in
        if startswith triple_quote c && (count0 || negb (Z.eqb free 0)) then
          pd_loop rest tab newc ret (if Z.eqb free 0 then n else 0%Z) false
        else if negb (Z.eqb free 0) then
          pd_loop rest tab newc (Ln c n :: ret) free false
        else
          match has_tab c tab n with
          | TErr e => TErr e
          | TOk NoTab =>
              match newc with
              | [] => pd_loop rest tab [] (Ln c n :: ret) free false
              | _ => match rec (rev newc) tab with
                     | TOk b => pd_loop rest tab [] (Ln c n :: Blk b :: ret) free false
                     | TErr e => TErr e
                     end
              end
          | TOk k =>
              if count0 then TErr (TabUnexpected n)
              else
                let tab' := match k with NewTab u => Some u | _ => tab end in
                match tab' with
                | None => TErr TabImpossible
                | Some u =>
                    let nl := match removeprefix u c with Some x => x | None => c end in
                    pd_loop rest tab' ((nl, n) :: newc) ret free false
                end
          end
  end.
End Loop.

Fixpoint parse_doc (fuel : nat) (text : list preline) (tab : option str) : tabres (list item) :=
  match fuel with
  | O => TErr TabFuel
  | S f => pd_loop (parse_doc f) text tab [] [] 0%Z true
  end.

Definition parse_document (text : list preline) : tabres (list item) :=
  parse_doc (S (length text)) text None.

(* PreLine.convert_to *)
Fixpoint number_from (n : Z) (lines : list str) : list preline :=
  match lines with
  | [] => []
  | l :: r => (l, n) :: number_from (n + 1)%Z r
  end.
Definition convert_to (lines : list str) : list preline := number_from 1%Z lines.

(* list-form input and PreLine.convert_to_recur *)
Inductive raw :=
| RLn (s : str)
| RBlk (l : list raw).

Section ConvList.
Variable f : raw -> Z -> item.
Fixpoint conv_list_with (l : list raw) (ln : Z) : list item :=
  match l with
  | [] => []
  | y :: t =>
      let ln' := (ln + 1)%Z in
      f y ln' :: conv_list_with t (match y with RBlk b' => ln' + Z.of_nat (length b') - 1 | RLn _ => ln' end)%Z
  end.
End ConvList.

(* [n] is the value of line_num after the increment for this element *)
Fixpoint conv_raw (x : raw) (n : Z) : item :=
  match x with
  | RLn s => Ln s n
  | RBlk b => Blk (conv_list_with conv_raw b (n - 1)%Z)
  end.

Definition convert_to_recur (lines : list raw) (line_num : Z) : list item :=
  conv_list_with conv_raw lines line_num.

(* Compiler.prepare_for_stack(text.split("\n")) *)
Definition lines_of_text (text : str) : list str := split_char 10%N text.
Definition prepare_text (text : str) : tabres (list item) := parse_document (convert_to (lines_of_text text)).
