(* ProjectEnvironment.calculate_options: the project's config.yaml replaces the global options
   exactly when both allow project configs (all five fields come from the project file, whose
   missing keys take the dataclass defaults). *)
From Coq Require Import ZArith List Bool.
From DS Require Import Base Constants.

(* a parsed config.yaml: every key optional *)
Record yaml_opts := mkYaml {
  y_stack_limit : option Z;
  y_include_comments : option bool;
  y_flipper_commands : option bool;
  y_supress : option bool;
  y_use_project : option bool
}.

Definition dflt {A} (o : option A) (d : A) : A := match o with Some x => x | None => d end.

(* CompileOptions built from the parsed yaml mapping *)
Definition options_of_yaml (y : yaml_opts) : options :=
  mkOptions (dflt (y_stack_limit y) (stack_limit default_options))
            (dflt (y_include_comments y) (include_comments default_options))
            (dflt (y_flipper_commands y) (flipper_commands default_options))
            (dflt (y_supress y) (supress_command_not_exist default_options))
            (dflt (y_use_project y) (use_project_config default_options)).

(* [proj] = None when there is no root dir or no config file *)
Definition calculate_options (g : options) (proj : option yaml_opts) : options :=
  if use_project_config g then
    match proj with
    | Some y => let p := options_of_yaml y in if use_project_config p then p else g
    | None => g
    end
  else g.

(* the file is rewritten with the effective options only when they were taken from it *)
Definition rewritten_config (g : options) (proj : option yaml_opts) : option options :=
  if use_project_config g then
    match proj with
    | Some y => let p := options_of_yaml y in if use_project_config p then Some p else None
    | None => None
    end
  else None.
