(* C19 (whole histories) -- "compile writes OUTPUT iff compilation succeeds, and then exactly the joined
   output lines; on an error OUTPUT is left as it was; sources are never modified; `new NAME` creates a
   project whose main file compiles to the hello-world line and refuses an existing project" --
   for EVERY world and EVERY SEQUENCE of CLI invocations.  Statements only.

   The state machine is Model/CliWorld.v: [cli_step] = one invocation, [cli_run] = a history.
   Vocabulary (Spec/CliWorldSpec.v, plain definitions):
     effective_options w file limit comments   the options `compile FILE` hands to the compiler in w
     normalised w file limit comments          w after the config files were loaded and written back
     only_global w                             w after only the global config was written back
     compile_outcome / new_outcome             `compile` / `new` said directly
     joined_output c                           the output lines of c joined by "\n"
     new_project_dir dir name = child dir (normalise_name name);  new_main_file = that ++ [main.txt]
     touched_paths ops                         the OUTPUTs of the compiles and the main files of the news
     is_failure r                              r is RError / RMissingFile / RRaised / RNewRefused
     same_meaning a b                          same text files and dirs, configs DENOTING the same options
   The config-file half (their meaning is unchanged) is in Properties/C15c.v.

   Corrections to the informal statement, all with witnesses in Proofs/CliWorldExamples.v:
     - `new` with a non-ASCII NAME is outside the model: it reports RRaised, not RNewRefused
       (C19b_step_is_new); with a blank NAME the project directory is DIR itself (ex_blank_name);
     - the new project compiles to the hello-world line under EVERY global config and flags, not only
       when use_project_config holds (C19b_new_then_compile says which options it ran with);
     - the flags --stack-limit/--comments are ignored when the project config is used
       (C19b_example_flags_ignored). *)
From Coq Require Import NArith ZArith List Bool.
From DS Require Import Base PyStr Values TabParse Interp Options Constants Cli CliWorld.
From DS Require Import FlatExamples CliWorldSpec CliWorldProofs CliWorldHistory CliWorldNew CliWorldEquiv CliWorldExamples.
Import ListNotations.

(* ================================================================== one invocation *)
(* 1c: `compile` in terms of effective_options / normalised *)
Theorem C19b_step_is_compile : forall (fo : FloatOps) w file output limit comments,
  cli_step fo w (OpCompile file output limit comments) = compile_outcome fo w file output limit comments.
Proof. exact cli_step_compile. Qed.
Print Assumptions C19b_step_is_compile.

Theorem C19b_step_is_new : forall (fo : FloatOps) w dir name,
  cli_step fo w (OpNew dir name) = new_outcome w dir name.
Proof. exact cli_step_new. Qed.
Print Assumptions C19b_step_is_new.

(* 1a: a text path that is not the OUTPUT / the new main file keeps its content *)
Theorem C19b_step_frame : forall (fo : FloatOps) w op w' r q,
  cli_step fo w op = (w', r) -> ~ In q (op_touches op) -> w_files w' q = w_files w q.
Proof. exact step_frame. Qed.
Print Assumptions C19b_step_frame.

Theorem C19b_step_frame_compile : forall (fo : FloatOps) w file output limit comments w' r q,
  cli_step fo w (OpCompile file output limit comments) = (w', r) ->
  path_eqb q output = false -> w_files w' q = w_files w q.
Proof. exact step_frame_compile. Qed.
Print Assumptions C19b_step_frame_compile.

Theorem C19b_step_frame_new : forall (fo : FloatOps) w dir name w' r q,
  cli_step fo w (OpNew dir name) = (w', r) ->
  path_eqb q (new_main_file dir name) = false -> w_files w' q = w_files w q.
Proof. exact step_frame_new. Qed.
Print Assumptions C19b_step_frame_new.

Theorem C19b_step_source_unchanged : forall (fo : FloatOps) w file output limit comments w' r,
  cli_step fo w (OpCompile file output limit comments) = (w', r) ->
  path_eqb file output = false -> w_files w' file = w_files w file.
Proof. exact step_source_unchanged. Qed.
Print Assumptions C19b_step_source_unchanged.

(* 1b: all or nothing *)
Theorem C19b_compile_all_or_nothing : forall (fo : FloatOps) w file output limit comments text w' r,
  w_files w file = Some text ->
  cli_step fo w (OpCompile file output limit comments) = (w', r) ->
  match compile_text fo (effective_options w file limit comments) (w_files w) (Some file) text with
  | (_, IOk c) =>
      r = RSuccess (length (warnings c)) /\
      w_files w' output = Some (joined_output c) /\
      (forall q, path_eqb q output = false -> w_files w' q = w_files w q)
  | (gl, IErr e t) => r = RError e (err_prints gl t) /\ forall q, w_files w' q = w_files w q
  | (_, ICrash _) => r = RRaised /\ forall q, w_files w' q = w_files w q
  | (_, IUnmod) => r = RRaised /\ forall q, w_files w' q = w_files w q
  end.
Proof. exact compile_all_or_nothing. Qed.
Print Assumptions C19b_compile_all_or_nothing.

Theorem C19b_compile_success_iff : forall (fo : FloatOps) w file output limit comments text w' r,
  w_files w file = Some text ->
  cli_step fo w (OpCompile file output limit comments) = (w', r) ->
  (is_success r = true <->
   exists gl c, compile_text fo (effective_options w file limit comments) (w_files w) (Some file) text = (gl, IOk c)).
Proof. exact compile_success_iff. Qed.
Print Assumptions C19b_compile_success_iff.

Theorem C19b_compile_success_inv : forall (fo : FloatOps) w file output limit comments w' n,
  cli_step fo w (OpCompile file output limit comments) = (w', RSuccess n) ->
  exists text gl c,
    w_files w file = Some text /\
    compile_text fo (effective_options w file limit comments) (w_files w) (Some file) text = (gl, IOk c) /\
    n = length (warnings c) /\
    w_files w' output = Some (joined_output c) /\
    (forall q, path_eqb q output = false -> w_files w' q = w_files w q).
Proof. exact compile_success_inv. Qed.
Print Assumptions C19b_compile_success_inv.

Theorem C19b_compile_missing_file : forall (fo : FloatOps) w file output limit comments,
  w_files w file = None ->
  cli_step fo w (OpCompile file output limit comments) = (only_global w, RMissingFile).
Proof. exact compile_missing_file. Qed.
Print Assumptions C19b_compile_missing_file.

(* any failure report, of any operation: the file system is the same function *)
Theorem C19b_failure_changes_no_file : forall (fo : FloatOps) w op w' r,
  cli_step fo w op = (w', r) -> is_failure r = true -> w_files w' = w_files w.
Proof. exact step_failure_files. Qed.
Print Assumptions C19b_failure_changes_no_file.

(* 1e: directories only grow, and only by the directory a `new` created *)
Theorem C19b_step_dirs : forall (fo : FloatOps) w op w' r,
  cli_step fo w op = (w', r) ->
  w_dirs w' = w_dirs w \/
  (exists dir name, op = OpNew dir name /\ r = RNewCreated /\
                    dir_exists w (new_project_dir dir name) = false /\
                    w_dirs w' = new_project_dir dir name :: w_dirs w).
Proof. exact step_dirs. Qed.
Print Assumptions C19b_step_dirs.

(* ================================================================== histories *)
Theorem C19b_cli_run_app : forall (fo : FloatOps) a b w,
  cli_run fo w (a ++ b) =
  (fst (cli_run fo (fst (cli_run fo w a)) b),
   snd (cli_run fo w a) ++ snd (cli_run fo (fst (cli_run fo w a)) b)).
Proof. exact cli_run_app. Qed.
Print Assumptions C19b_cli_run_app.

Theorem C19b_cli_run_snoc : forall (fo : FloatOps) ops op w,
  cli_run fo w (ops ++ [op]) =
  (fst (cli_step fo (fst (cli_run fo w ops)) op),
   snd (cli_run fo w ops) ++ [snd (cli_step fo (fst (cli_run fo w ops)) op)]).
Proof. exact cli_run_snoc. Qed.
Print Assumptions C19b_cli_run_snoc.

(* 2d *)
Theorem C19b_cli_reports_length : forall (fo : FloatOps) ops w, length (snd (cli_run fo w ops)) = length ops.
Proof. exact cli_reports_length. Qed.
Print Assumptions C19b_cli_reports_length.

Theorem C19b_history_nth_report : forall (fo : FloatOps) pre op post w,
  nth_error (snd (cli_run fo w (pre ++ op :: post))) (length pre) =
  Some (snd (cli_step fo (fst (cli_run fo w pre)) op)).
Proof. exact history_nth_report. Qed.
Print Assumptions C19b_history_nth_report.

(* 2a: whatever the history, a path it does not touch keeps its content; in particular a source
   file that is never an OUTPUT is never modified *)
Theorem C19b_cli_history_frame : forall (fo : FloatOps) ops w q,
  ~ In q (touched_paths ops) -> w_files (fst (cli_run fo w ops)) q = w_files w q.
Proof. exact cli_history_frame. Qed.
Print Assumptions C19b_cli_history_frame.

Theorem C19b_cli_history_files_stay : forall (fo : FloatOps) ops w q,
  w_files w q <> None -> w_files (fst (cli_run fo w ops)) q <> None.
Proof. exact cli_history_files_stay. Qed.
Print Assumptions C19b_cli_history_files_stay.

Theorem C19b_cli_history_dirs_grow : forall (fo : FloatOps) ops w d,
  In d (w_dirs w) -> In d (w_dirs (fst (cli_run fo w ops))).
Proof. exact cli_history_dirs_grow. Qed.
Print Assumptions C19b_cli_history_dirs_grow.

Theorem C19b_cli_history_dirs_only_new : forall (fo : FloatOps) ops w d,
  In d (w_dirs (fst (cli_run fo w ops))) -> In d (w_dirs w) \/ In d (new_dirs ops).
Proof. exact cli_history_dirs_only_new. Qed.
Print Assumptions C19b_cli_history_dirs_only_new.

(* 2c: the content of p at the end is what the LAST operation touching p left there ... *)
Theorem C19b_cli_history_last_writer : forall (fo : FloatOps) pre op post w p,
  ~ In p (touched_paths post) ->
  w_files (fst (cli_run fo w (pre ++ op :: post))) p =
  w_files (fst (cli_step fo (fst (cli_run fo w pre)) op)) p.
Proof. exact cli_history_last_writer. Qed.
Print Assumptions C19b_cli_history_last_writer.

(* ... if that was a compile reporting success: the joined output of that compilation, run on the
   files and with the options of the world the earlier operations left ... *)
Theorem C19b_cli_history_last_success : forall (fo : FloatOps) pre file p limit comments post w n,
  ~ In p (touched_paths post) ->
  nth_error (snd (cli_run fo w (pre ++ OpCompile file p limit comments :: post))) (length pre) = Some (RSuccess n) ->
  exists text gl c,
    w_files (fst (cli_run fo w pre)) file = Some text /\
    compile_text fo (effective_options (fst (cli_run fo w pre)) file limit comments)
                 (w_files (fst (cli_run fo w pre))) (Some file) text = (gl, IOk c) /\
    n = length (warnings c) /\
    w_files (fst (cli_run fo w (pre ++ OpCompile file p limit comments :: post))) p = Some (joined_output c).
Proof. exact cli_history_last_success. Qed.
Print Assumptions C19b_cli_history_last_success.

(* ... and if every operation touching p reported a failure: the initial content *)
Theorem C19b_cli_history_only_failures : forall (fo : FloatOps) ops w p,
  (forall i op r, nth_error ops i = Some op -> nth_error (snd (cli_run fo w ops)) i = Some r ->
                  In p (op_touches op) -> is_failure r = true) ->
  w_files (fst (cli_run fo w ops)) p = w_files w p.
Proof. exact cli_history_only_failures. Qed.
Print Assumptions C19b_cli_history_only_failures.

(* an invocation that reported a failure can be deleted from the history: the reports of the others
   and the final text files are the same *)
Theorem C19b_cli_history_failure_invisible : forall (fo : FloatOps) pre op post w,
  is_failure (snd (cli_step fo (fst (cli_run fo w pre)) op)) = true ->
  snd (cli_run fo w (pre ++ op :: post)) =
    snd (cli_run fo w pre) ++ snd (cli_step fo (fst (cli_run fo w pre)) op) :: snd (cli_run fo (fst (cli_run fo w pre)) post)
  /\ snd (cli_run fo w (pre ++ post)) = snd (cli_run fo w pre) ++ snd (cli_run fo (fst (cli_run fo w pre)) post)
  /\ w_files (fst (cli_run fo w (pre ++ op :: post))) = w_files (fst (cli_run fo w (pre ++ post))).
Proof. exact cli_history_failure_invisible. Qed.
Print Assumptions C19b_cli_history_failure_invisible.

(* ================================================================== new *)
(* 3a *)
Theorem C19b_new_refuses_bad_name : forall (fo : FloatOps) w dir name,
  isascii_s name = true -> forallb valid_project_char (normalise_name name) = false ->
  cli_step fo w (OpNew dir name) = (only_global w, RNewRefused).
Proof. exact new_refuses_bad_name. Qed.
Print Assumptions C19b_new_refuses_bad_name.

Theorem C19b_new_refuses_existing_dir : forall (fo : FloatOps) w dir name,
  isascii_s name = true -> dir_exists w (new_project_dir dir name) = true ->
  cli_step fo w (OpNew dir name) = (only_global w, RNewRefused).
Proof. exact new_refuses_existing_dir. Qed.
Print Assumptions C19b_new_refuses_existing_dir.

Theorem C19b_new_created_iff : forall (fo : FloatOps) w dir name w' r,
  cli_step fo w (OpNew dir name) = (w', r) ->
  (r = RNewCreated <->
   isascii_s name = true /\ forallb valid_project_char (normalise_name name) = true /\
   dir_exists w (new_project_dir dir name) = false).
Proof. exact new_created_iff. Qed.
Print Assumptions C19b_new_created_iff.

Theorem C19b_new_not_created : forall (fo : FloatOps) w dir name w' r,
  cli_step fo w (OpNew dir name) = (w', r) -> r <> RNewCreated ->
  w' = only_global w /\ w_files w' = w_files w /\ w_cfg w' = w_cfg w /\ w_dirs w' = w_dirs w.
Proof. exact new_not_created. Qed.
Print Assumptions C19b_new_not_created.

(* an existing project is never touched: all text files, all configs, all directories *)
Theorem C19b_new_existing_project_untouched : forall (fo : FloatOps) w dir name w' r,
  In (new_project_dir dir name) (w_dirs w) ->
  cli_step fo w (OpNew dir name) = (w', r) ->
  r <> RNewCreated /\ w_files w' = w_files w /\ w_cfg w' = w_cfg w /\ w_dirs w' = w_dirs w.
Proof. exact new_existing_project_untouched. Qed.
Print Assumptions C19b_new_existing_project_untouched.

(* whatever `new` does, the config of and the files directly inside an existing directory stay *)
Theorem C19b_new_keeps_existing_dirs : forall (fo : FloatOps) w dir name w' r d,
  dir_exists w d = true ->
  cli_step fo w (OpNew dir name) = (w', r) ->
  w_cfg w' d = w_cfg w d /\ forall x, w_files w' (d ++ [x]) = w_files w (d ++ [x]).
Proof. exact new_keeps_existing_dirs. Qed.
Print Assumptions C19b_new_keeps_existing_dirs.

(* 3b: the hello-world text compiles to itself under EVERY options record, file system, float
   implementation: no warning, no print *)
Theorem C19b_hello_compile : forall (fo : FloatOps) o fs file,
  exists c : compiled fo,
    compile_text fo o fs file hello_world = (mkGlob [] [], IOk c) /\
    joined_output c = hello_world /\ warnings c = [] /\ prints c = [].
Proof. exact hello_compile. Qed.
Print Assumptions C19b_hello_compile.

Theorem C19b_new_then_compile : forall (fo : FloatOps) w dir name w1 output limit comments,
  cli_step fo w (OpNew dir name) = (w1, RNewCreated) ->
  exists w2,
    cli_step fo w1 (OpCompile (new_main_file dir name) output limit comments) = (w2, RSuccess 0) /\
    w_files w2 output = Some hello_world /\
    (forall q, path_eqb q output = false -> w_files w2 q = w_files w1 q) /\
    effective_options w1 (new_main_file dir name) limit comments =
      (if use_project_config (global_meaning (w_global w)) then default_options
       else flag_options (global_meaning (w_global w)) limit comments).
Proof. exact new_then_compile. Qed.
Print Assumptions C19b_new_then_compile.

(* inside any history: ... ; new ; (operations not writing main.txt) ; compile main.txt  succeeds *)
Theorem C19b_history_new_then_compile : forall (fo : FloatOps) pre dir name mid output limit comments post w,
  nth_error (snd (cli_run fo w (pre ++ OpNew dir name :: mid ++
                                 OpCompile (new_main_file dir name) output limit comments :: post)))
            (length pre) = Some RNewCreated ->
  ~ In (new_main_file dir name) (touched_paths mid) ->
  nth_error (snd (cli_run fo w (pre ++ OpNew dir name :: mid ++
                                 OpCompile (new_main_file dir name) output limit comments :: post)))
            (length pre + 1 + length mid) = Some (RSuccess 0).
Proof. exact history_new_then_compile. Qed.
Print Assumptions C19b_history_new_then_compile.

(* ================================================================== non-vacuity *)
(* ex_world: projects proj/a (partial config {include_comments: true}) and proj/b (no config, a source
   that does not compile, a stale out.txt = "OLD"), global config {flipper_commands: false}.
   ex_ops: compile a; compile b (fails); new " My Proj "; compile the new project. *)
Theorem C19b_example_reports :
  snd (cli_run dfo ex_world ex_ops) = [RSuccess 0; RError EExpectedToken 0; RNewCreated; RSuccess 0].
Proof. exact ex_reports. Qed.
Print Assumptions C19b_example_reports.

Theorem C19b_example_stale_output_kept : w_files ex_world p_b_out = Some old_text /\ w_files ex_final p_b_out = Some old_text.
Proof. exact ex_out_b. Qed.
Print Assumptions C19b_example_stale_output_kept.

Theorem C19b_example_new_project_output : w_files ex_final p_new_out = Some hello_world.
Proof. exact ex_out_new. Qed.
Print Assumptions C19b_example_new_project_output.

Theorem C19b_example_flags_ignored :
  effective_options (fst (cli_run dfo ex_world (firstn 3 ex_ops))) p_new_main (Some 50%Z) (Some true)
  = default_options.
Proof. exact ex_flags_ignored. Qed.
Print Assumptions C19b_example_flags_ignored.

Theorem C19b_example_sources_unchanged :
  w_files ex_final p_a_main = w_files ex_world p_a_main /\
  w_files ex_final p_b_bad = w_files ex_world p_b_bad.
Proof. exact ex_sources. Qed.
Print Assumptions C19b_example_sources_unchanged.
