(* C02 -- validated commands never emit an illegal line.  Statements only; proofs live in Proofs/.
   [legal_arg] is the hand-pinned grammar of Spec/DuckyGrammar.v; [find_class] looks a command
   class up, by its class name, in the palette regenerated from the code. *)
From Coq Require Import NArith ZArith List Bool.
From DS Require Import Base PyStr Values Interp Tables DuckyGrammar GrammarProofs.
Import ListNotations.

(* the ten class names are classes of the generated palette *)
Theorem c02_class_found : forall c, exists sc, find_class (class_name c) = Some sc.
Proof. exact class_found. Qed.
Print Assumptions c02_class_found.

(* the key names of the code are the pinned ones *)
Theorem c02_alt_params : forall sc, find_class n_Alt = Some sc -> s_params sc = alt_keys.
Proof. exact alt_params. Qed.
Print Assumptions c02_alt_params.

Theorem c02_ctrl_params : forall sc, find_class n_Ctrl = Some sc -> s_params sc = ctrl_keys.
Proof. exact ctrl_params. Qed.
Print Assumptions c02_ctrl_params.

Theorem c02_shift_params : forall sc, find_class n_Shift = Some sc -> s_params sc = shift_keys.
Proof. exact shift_params. Qed.
Print Assumptions c02_shift_params.

(* the model hands a validator only contents of the class's type *)
Theorem c02_typed_content : forall c sc, find_class (class_name c) = Some sc ->
  forall fo (v : value fo) a, typed_content fo (s_arg_type sc) v = Ok (Some a) -> typed c a.
Proof. exact typed_content_typed. Qed.
Print Assumptions c02_typed_content.

(* G1: each validator of the code is at least as strict as the grammar *)
Theorem c02_alt : forall sc, find_class n_Alt = Some sc -> forall a, is_str a ->
  eval_validator (s_params sc) (s_verify_arg sc) a = Ok true -> legal_arg SAlt a = true.
Proof. exact alt_strict. Qed.
Print Assumptions c02_alt.

Theorem c02_ctrl : forall sc, find_class n_Ctrl = Some sc -> forall a, is_str a ->
  eval_validator (s_params sc) (s_verify_arg sc) a = Ok true -> legal_arg SCtrl a = true.
Proof. exact ctrl_strict. Qed.
Print Assumptions c02_ctrl.

Theorem c02_shift : forall sc, find_class n_Shift = Some sc -> forall a, is_str a ->
  eval_validator (s_params sc) (s_verify_arg sc) a = Ok true -> legal_arg SShift a = true.
Proof. exact shift_strict. Qed.
Print Assumptions c02_shift.

Theorem c02_gui : forall sc, find_class n_Gui = Some sc -> forall a, is_str a ->
  eval_validator (s_params sc) (s_verify_arg sc) a = Ok true -> legal_arg SGui a = true.
Proof. exact gui_strict. Qed.
Print Assumptions c02_gui.

Theorem c02_sysrq : forall sc, find_class n_Sysrq = Some sc -> forall a, is_str a ->
  eval_validator (s_params sc) (s_verify_arg sc) a = Ok true -> legal_arg SSysrq a = true.
Proof. exact sysrq_strict. Qed.
Print Assumptions c02_sysrq.

Theorem c02_flipmod : forall sc, find_class n_FlipMod = Some sc -> forall a, is_str a ->
  eval_validator (s_params sc) (s_verify_arg sc) a = Ok true -> legal_arg SFlipMod a = true.
Proof. exact flipmod_strict. Qed.
Print Assumptions c02_flipmod.

Theorem c02_delay : forall sc, find_class n_Delay = Some sc -> forall a, is_int a ->
  eval_validator (s_params sc) (s_verify_arg sc) a = Ok true -> legal_arg SDelay a = true.
Proof. exact delay_strict. Qed.
Print Assumptions c02_delay.

Theorem c02_altchar : forall sc, find_class n_AltChar = Some sc -> forall a, is_str a ->
  eval_validator (s_params sc) (s_verify_arg sc) a = Ok true -> legal_arg SAltChar a = true.
Proof. exact altchar_strict. Qed.
Print Assumptions c02_altchar.

Theorem c02_whitespace : forall sc, find_class n_Whitespace = Some sc -> forall a, is_int a ->
  eval_validator (s_params sc) (s_verify_arg sc) a = Ok true -> legal_arg SWhitespace a = true.
Proof. exact whitespace_strict. Qed.
Print Assumptions c02_whitespace.

(* G1 for all classes but DefaultDelay, in one statement *)
Theorem c02_validator_strict : forall c, c <> SDefaultDelay ->
  forall sc, find_class (class_name c) = Some sc ->
  forall a, typed c a ->
  eval_validator (s_params sc) (s_verify_arg sc) a = Ok true -> legal_arg c a = true.
Proof. exact validator_strict. Qed.
Print Assumptions c02_validator_strict.

(* DEFAULT_DELAY is validated like DELAY (since the fix commit; before it, every integer was accepted) *)
Theorem c02_default_delay_strict : forall sc, find_class n_DefaultDelay = Some sc -> forall a, is_int a ->
  eval_validator (s_params sc) (s_verify_arg sc) a = Ok true -> legal_arg SDefaultDelay a = true.
Proof. exact default_delay_strict. Qed.
Print Assumptions c02_default_delay_strict.

Theorem c02_default_delay_line_digits : forall sc, find_class n_DefaultDelay = Some sc ->
  forall name a a' n orig, is_int a ->
  eval_validator (s_params sc) (s_verify_arg sc) a = Ok true ->
  eval_formatter (s_params sc) (s_format_arg sc) a = Ok a' ->
  exists d, name_line name (Some (mkLine a' n orig)) = upper name ++ [32%N] ++ d /\ digit_string d = true.
Proof. exact default_delay_line_digits. Qed.
Print Assumptions c02_default_delay_line_digits.



(* G2: formatting keeps an argument inside the grammar (all ten classes) *)
Theorem c02_formatter_legal : forall c sc, find_class (class_name c) = Some sc ->
  forall a a', typed c a ->
  eval_formatter (s_params sc) (s_format_arg sc) a = Ok a' ->
  legal_arg c a = true -> legal_arg c a' = true.
Proof. exact formatter_legal. Qed.
Print Assumptions c02_formatter_legal.

(* ALT emits one character or a key name exactly as listed *)
Theorem c02_alt_canonical : forall sc, find_class n_Alt = Some sc -> forall s s',
  eval_formatter (s_params sc) (s_format_arg sc) (AStr s) = Ok (AStr s') ->
  legal_arg SAlt (AStr s) = true -> one_char s' || str_in s' alt_keys = true.
Proof. exact alt_format_canonical. Qed.
Print Assumptions c02_alt_canonical.

(* CTRL does not: its formatter looks the argument up as typed, so "esc" passes through unchanged *)
Theorem c02_ctrl_not_canonical : forall sc, find_class n_Ctrl = Some sc ->
  exists s s', eval_validator (s_params sc) (s_verify_arg sc) (AStr s) = Ok true /\
               eval_formatter (s_params sc) (s_format_arg sc) (AStr s) = Ok (AStr s') /\
               one_char s' || str_in s' ctrl_keys = false.
Proof. exact ctrl_format_not_canonical. Qed.
Print Assumptions c02_ctrl_not_canonical.

(* G3: a non-negative integer prints as a non-empty run of ASCII digits *)
Theorem c02_int_digits : forall z, (0 <= z)%Z ->
  forallb is_ascii_digit (Z_to_str z) = true /\ Z_to_str z <> [].
Proof. exact Z_to_str_digits. Qed.
Print Assumptions c02_int_digits.

(* G4: the emitted line of a validated, formatted argument *)
Theorem c02_emitted_line : forall c, c <> SDefaultDelay ->
  forall sc, find_class (class_name c) = Some sc ->
  forall name a a' n orig, typed c a ->
  eval_validator (s_params sc) (s_verify_arg sc) a = Ok true ->
  eval_formatter (s_params sc) (s_format_arg sc) a = Ok a' ->
  name_line name (Some (mkLine a' n orig)) = upper name ++ [32%N] ++ content_text a'
  /\ legal_arg c a' = true.
Proof. exact emitted_line_legal. Qed.
Print Assumptions c02_emitted_line.

Theorem c02_delay_line : forall sc, find_class n_Delay = Some sc ->
  forall name a a' n orig, is_int a ->
  eval_validator (s_params sc) (s_verify_arg sc) a = Ok true ->
  eval_formatter (s_params sc) (s_format_arg sc) a = Ok a' ->
  exists d, name_line name (Some (mkLine a' n orig)) = upper name ++ [32%N] ++ d
            /\ digit_string d = true.
Proof. exact delay_line_digits. Qed.
Print Assumptions c02_delay_line.

(* converse of G1 (all ten classes): no argument of the pinned grammar is refused by the code, so
   for the nine classes of c02_validator_strict the validator decides exactly the grammar *)
Theorem c02_validator_complete : forall c sc, find_class (class_name c) = Some sc ->
  forall a, typed c a -> legal_arg c a = true ->
  eval_validator (s_params sc) (s_verify_arg sc) a = Ok true.
Proof. exact validator_complete. Qed.
Print Assumptions c02_validator_complete.
