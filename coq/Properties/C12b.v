(* C12 -- START f contributes f's variables and functions; STARTCODE f contributes f's output but
   none of its new variables or functions; STARTENV f contributes its variables and functions but
   no output line; RETURN inside f ends only f; what path the argument names.  Statements only. *)
From Coq Require Import NArith ZArith List Bool Lia.
From DS Require Import Base PyStr Values Expr TabParse Tables Constants Interp.
From DS Require Import ScopeProofs PipelineProofs StartLaws ResolveSpec StartLines.
Import ListNotations.

(* ------------------------------------------------------------------ the three laws of run_compile
   (any child runner; [below_stack_limit]: the pile is not full; [circ cx target = false]: the
   target is the file of no live stack; [sig_warned]: the plain warning for BREAK / CONTINUE) *)
Theorem START_law :
  forall (fo : FloatOps) (child : runner fo) (cx : ctx) (cur : preline) (cname : str) (sc : simple_cls)
         (name : str) (l : line) (file target : path) (text : str) (commands : list item)
         (s : st fo) (g' : glob) (cr : cret) (cenv : env fo),
  s_run sc = RKStart -> c_file cx = Some file ->
  resolve_start file (content_text (l_content l)) = Ok target ->
  c_fs cx target = Some text -> circ cx target = false -> prepare_text text = TOk commands ->
  below_stack_limit cx ->
  child (start_ctx cx cur (s_line2 s) target) (s_g s) (append_env fo (empty_env fo) (s_env s)) commands
    = (g', IOk (cr, cenv)) ->
  upper name = s_START ->
  run_compile fo child cx cur cname sc name (Some l) s =
  (mkSt (sig_warned (cr_sig cr) g') (append_env fo (s_env s) cenv) (s_line2 s),
   IOk (RComp (mkCret (cr_data cr) SNormal))).
Proof. exact start_law. Qed.
Print Assumptions START_law.

Theorem STARTCODE_law :
  forall (fo : FloatOps) (child : runner fo) (cx : ctx) (cur : preline) (cname : str) (sc : simple_cls)
         (name : str) (l : line) (file target : path) (text : str) (commands : list item)
         (s : st fo) (g' : glob) (cr : cret) (cenv : env fo),
  s_run sc = RKStart -> c_file cx = Some file ->
  resolve_start file (content_text (l_content l)) = Ok target ->
  c_fs cx target = Some text -> circ cx target = false -> prepare_text text = TOk commands ->
  below_stack_limit cx ->
  child (start_ctx cx cur (s_line2 s) target) (s_g s) (append_env fo (empty_env fo) (s_env s)) commands
    = (g', IOk (cr, cenv)) ->
  upper name = s_STARTCODE ->
  run_compile fo child cx cur cname sc name (Some l) s =
  (mkSt (sig_warned (cr_sig cr) g') (update_from_env fo (s_env s) cenv) (s_line2 s),
   IOk (RComp (mkCret (cr_data cr) SNormal))).
Proof. exact startcode_law. Qed.
Print Assumptions STARTCODE_law.

Theorem STARTENV_law :
  forall (fo : FloatOps) (child : runner fo) (cx : ctx) (cur : preline) (cname : str) (sc : simple_cls)
         (name : str) (l : line) (file target : path) (text : str) (commands : list item)
         (s : st fo) (g' : glob) (cr : cret) (cenv : env fo),
  s_run sc = RKStart -> c_file cx = Some file ->
  resolve_start file (content_text (l_content l)) = Ok target ->
  c_fs cx target = Some text -> circ cx target = false -> prepare_text text = TOk commands ->
  below_stack_limit cx ->
  child (start_ctx cx cur (s_line2 s) target) (s_g s) (append_env fo (empty_env fo) (s_env s)) commands
    = (g', IOk (cr, cenv)) ->
  upper name = s_STARTENV ->
  run_compile fo child cx cur cname sc name (Some l) s =
  (mkSt (sig_warned (cr_sig cr) g') (append_env fo (s_env s) cenv) (s_line2 s),
   IOk (RLines [])).
Proof. exact startenv_law. Qed.
Print Assumptions STARTENV_law.

(* a failure of the imported file is handed on as is; the importer's environment is untouched *)
Theorem START_failure_propagates :
  forall (fo : FloatOps) (child : runner fo) (cx : ctx) (cur : preline) (name : str) (target : path)
         (commands : list item) (s : st fo) (g' : glob) (r : ires (cret * env fo)),
  below_stack_limit cx ->
  child (start_ctx cx cur (s_line2 s) target) (s_g s) (append_env fo (empty_env fo) (s_env s)) commands = (g', r) ->
  (forall a, r <> IOk a) ->
  start_body fo child cx cur name target commands s =
  (mkSt g' (s_env s) (s_line2 s),
   match r with IOk _ => IUnmod | IErr e t => IErr e t | ICrash k => ICrash k | IUnmod => IUnmod end).
Proof. exact start_body_fail. Qed.
Print Assumptions START_failure_propagates.

(* ------------------------------------------------------------------ what is visible afterwards *)
Theorem appended_user_variables : forall (fo : FloatOps) (p c : env fo) x, nodup_keys (e_user fo c) ->
  lookup x (e_user fo (append_env fo p c)) =
  match lookup x (e_user fo c) with Some v => Some v | None => lookup x (e_user fo p) end.
Proof. exact append_env_user. Qed.
Print Assumptions appended_user_variables.

Theorem appended_functions : forall (fo : FloatOps) (p c : env fo) x, nodup_keys (e_funcs fo c) ->
  lookup x (e_funcs fo (append_env fo p c)) =
  match lookup x (e_funcs fo c) with Some v => Some v | None => lookup x (e_funcs fo p) end.
Proof. exact append_env_funcs. Qed.
Print Assumptions appended_functions.

Theorem STARTCODE_no_new_variable : forall (fo : FloatOps) (p c : env fo) x,
  has_key x (e_user fo p) = false -> lookup x (e_user fo (update_from_env fo p c)) = None.
Proof. exact startcode_no_new_var. Qed.
Print Assumptions STARTCODE_no_new_variable.

Theorem STARTCODE_no_new_function : forall (fo : FloatOps) (p c : env fo),
  e_funcs fo (update_from_env fo p c) = e_funcs fo p.
Proof. exact startcode_funcs_unchanged. Qed.
Print Assumptions STARTCODE_no_new_function.

(* the imported file starts with every variable and function of the importer *)
Theorem importee_sees_the_importer : forall (fo : FloatOps) (s : st fo) x, env_wf fo (s_env s) ->
  lookup x (e_user fo (append_env fo (empty_env fo) (s_env s))) = lookup x (e_user fo (s_env s)) /\
  lookup x (e_sys fo (append_env fo (empty_env fo) (s_env s))) = lookup x (e_sys fo (s_env s)) /\
  lookup x (e_funcs fo (append_env fo (empty_env fo) (s_env s))) = lookup x (e_funcs fo (s_env s)).
Proof. exact importee_sees_importer. Qed.
Print Assumptions importee_sees_the_importer.

(* with the real interpreter as the child: no side condition on the tables *)
Theorem START_and_STARTENV_import_everything :
  forall (fo : FloatOps) (d : nat) (cx : ctx) (cur : preline) (cname : str) (sc : simple_cls)
         (name : str) (l : line) (s s' : st fo) (r : rc),
  s_run sc = RKStart -> str_eqb (upper name) s_STARTCODE = false ->
  run_compile fo (run fo d) cx cur cname sc name (Some l) s = (s', IOk r) ->
  exists target commands g' cr cenv,
    run fo d (start_ctx cx cur (s_line2 s) target) (s_g s) (append_env fo (empty_env fo) (s_env s)) commands
      = (g', IOk (cr, cenv)) /\
    (forall x, lookup x (e_user fo (s_env s')) =
               match lookup x (e_user fo cenv) with Some v => Some v | None => lookup x (e_user fo (s_env s)) end) /\
    (forall x, lookup x (e_funcs fo (s_env s')) =
               match lookup x (e_funcs fo cenv) with Some v => Some v | None => lookup x (e_funcs fo (s_env s)) end) /\
    (forall x, lookup x (e_sys fo (s_env s')) =
               match lookup x (e_sys fo cenv) with Some v => Some v | None => lookup x (e_sys fo (s_env s)) end) /\
    e_temp fo (s_env s') = e_temp fo (s_env s).
Proof. exact start_imports_visible. Qed.
Print Assumptions START_and_STARTENV_import_everything.

Theorem STARTCODE_imports_nothing :
  forall (fo : FloatOps) (d : nat) (cx : ctx) (cur : preline) (cname : str) (sc : simple_cls)
         (name : str) (l : line) (s s' : st fo) (r : rc),
  s_run sc = RKStart -> str_eqb (upper name) s_STARTCODE = true ->
  run_compile fo (run fo d) cx cur cname sc name (Some l) s = (s', IOk r) ->
  exists target commands g' cr cenv,
    run fo d (start_ctx cx cur (s_line2 s) target) (s_g s) (append_env fo (empty_env fo) (s_env s)) commands
      = (g', IOk (cr, cenv)) /\
    (forall x, lookup x (e_user fo (s_env s')) =
               if has_key x (e_user fo (s_env s)) then lookup x (e_user fo cenv) else None) /\
    e_funcs fo (s_env s') = e_funcs fo (s_env s) /\
    e_temp fo (s_env s') = e_temp fo (s_env s).
Proof. exact startcode_imports_nothing. Qed.
Print Assumptions STARTCODE_imports_nothing.

(* ------------------------------------------------------------------ a whole line `WORD name`
   ([start_line]: a START-family word of the generated palette without `$`, its argument on the
   same line not ending with a dot, no block, a stack that has a file) *)
Theorem START_line_law :
  forall (fo : FloatOps) (child : runner fo) cx c n cmd a cname sc (s : st fo) file target text commands g' cr cenv,
  start_line cx c cmd a cname sc ->
  c_file cx = Some file -> resolve_start file (strip a) = Ok target -> c_fs cx target = Some text ->
  circ cx target = false -> prepare_text text = TOk commands -> below_stack_limit cx ->
  child (start_ctx cx (c, n) (Some (c, n)) target) (s_g s) (append_env fo (empty_env fo) (s_env s)) commands
    = (g', IOk (cr, cenv)) ->
  exec_line fo child cx c n None s =
  (mkSt (sig_warned (cr_sig cr) g')
        (if str_eqb (upper cmd) s_STARTCODE then update_from_env fo (s_env s) cenv else append_env fo (s_env s) cenv)
        (Some (c, n)),
   IOk (mkCret (if str_eqb (upper cmd) s_STARTENV then [] else cr_data cr) SNormal)).
Proof. exact start_line_law. Qed.
Print Assumptions START_line_law.

(* RETURN inside f ends only f: the importer goes on with the next line, whatever signal f ended with *)
Theorem RETURN_inside_import_ends_only_the_import :
  forall (fo : FloatOps) (child : runner fo) cx c n rest acc cmd a cname sc (s : st fo) file target text commands g' cr cenv,
  start_line cx c cmd a cname sc -> is_blank c = false ->
  match rest with Blk _ :: _ => False | _ => True end ->
  c_file cx = Some file -> resolve_start file (strip a) = Ok target -> c_fs cx target = Some text ->
  circ cx target = false -> prepare_text text = TOk commands -> below_stack_limit cx ->
  child (start_ctx cx (c, n) (Some (c, n)) target) (s_g s) (append_env fo (empty_env fo) (s_env s)) commands
    = (g', IOk (cr, cenv)) ->
  exec_cmds fo child cx (Ln c n :: rest) acc s =
  exec_cmds fo child cx rest (acc ++ (if str_eqb (upper cmd) s_STARTENV then [] else cr_data cr))
    (mkSt (sig_warned (cr_sig cr) g')
          (if str_eqb (upper cmd) s_STARTCODE then update_from_env fo (s_env s) cenv else append_env fo (s_env s) cenv)
          (Some (c, n))).
Proof. exact start_line_then_rest. Qed.
Print Assumptions RETURN_inside_import_ends_only_the_import.

(* ------------------------------------------------------------------ resolve_spec *)
Theorem resolve_plain_name : forall dir f name,
  plain_comp name -> resolve_start (dir ++ [f]) name = Ok (dir ++ [name ++ script_extension]).
Proof. exact resolve_simple. Qed.
Print Assumptions resolve_plain_name.

Theorem resolve_dotted_name : forall dir f cs c,
  Forall plain_comp (cs ++ [c]) ->
  resolve_start (dir ++ [f]) (join [dot] (cs ++ [c])) = Ok (dir ++ cs ++ [c ++ script_extension]).
Proof. exact resolve_dotted. Qed.
Print Assumptions resolve_dotted_name.

Theorem resolve_leading_dots_climb : forall base ups f cs c,
  Forall plain_comp (cs ++ [c]) ->
  resolve_start (base ++ ups ++ [f]) (repeat dot (length ups) ++ join [dot] (cs ++ [c]))
  = Ok (base ++ cs ++ [c ++ script_extension]).
Proof. exact resolve_climb. Qed.
Print Assumptions resolve_leading_dots_climb.

Theorem resolve_climbing_above_root : forall file k rest,
  (length (removelast file) < k)%nat ->
  resolve_start file (repeat dot k ++ rest) = Err EUnexpectedToken.
Proof. exact resolve_above_root. Qed.
Print Assumptions resolve_climbing_above_root.

Theorem resolve_inner_double_dot : forall file k x pre post,
  x <> dot -> resolve_start file (repeat dot k ++ x :: pre ++ dot :: dot :: post) = Err EUnexpectedToken.
Proof. exact resolve_double_dot_after_climb. Qed.
Print Assumptions resolve_inner_double_dot.

(* the statement "a trailing dot is Err EUnexpectedToken" is FALSE of resolve_start: *)
Theorem resolve_trailing_dot_is_not_an_error : forall dir f name,
  plain_comp name -> resolve_start (dir ++ [f]) (name ++ [dot]) = Ok (dir ++ [name ++ script_extension]).
Proof. exact resolve_trailing_dot. Qed.
Print Assumptions resolve_trailing_dot_is_not_an_error.

(* ... it is the generated validator of the Start class that refuses it, before run_compile *)
Theorem Start_validator_rejects_trailing_dot : forall cname sc s,
  In (cname, Simple sc) palette -> s_run sc = RKStart ->
  eval_validator (s_params sc) (s_verify_arg sc) (AStr (s ++ [dot])) = Ok false.
Proof. exact start_validator_rejects_trailing_dot. Qed.
Print Assumptions Start_validator_rejects_trailing_dot.

Theorem Start_trailing_dot_is_InvalidArguments : forall (fo : FloatOps) cx cur cname sc s num orig rest (st0 : st fo),
  In (cname, Simple sc) palette -> s_run sc = RKStart ->
  verify_each fo cx cur (s_params sc) (s_verify_arg sc) (mkLine (AStr (s ++ [dot])) num orig :: rest) st0 =
  (mkSt (s_g st0) (s_env st0) (Some orig),
   IErr EInvalidArguments (Some (here cx cur (Some orig)))).
Proof. exact start_trailing_dot_rejected. Qed.
Print Assumptions Start_trailing_dot_is_InvalidArguments.
