(* C04 -- precedence and associativity.  Statements only; proofs live in Proofs/. *)
From Coq Require Import NArith List Bool.
From DS Require Import Base PyStr Values Expr ExprAst TreeProofs.
Import ListNotations.

(* the precedence passes rebuild exactly the well-bracketed tree of a flat token sequence *)
Theorem build_tree_correct_C04 : forall (fo : FloatOps) (t : ptree fo),
  wb fo all_rows t -> build_tree fo (flatten fo t) = Ok t.
Proof. exact build_tree_correct. Qed.
Print Assumptions build_tree_correct_C04.

(* the same for an arbitrary precedence table *)
Theorem build_with_correct_C04 : forall (fo : FloatOps) (rows : list (list str)) (t : ptree fo),
  wb fo rows t -> build_with fo rows (flatten fo t) = Ok t.
Proof. exact build_with_correct. Qed.
Print Assumptions build_with_correct_C04.

(* a token sequence has at most one well-bracketed reading, so the tree above is THE tree *)
Theorem wb_unique_C04 : forall (fo : FloatOps) (rows : list (list str)) (t1 t2 : ptree fo),
  wb fo rows t1 -> wb fo rows t2 -> flatten fo t1 = flatten fo t2 -> t1 = t2.
Proof. exact wb_flatten_inj. Qed.
Print Assumptions wb_unique_C04.

(* the ranks the code's table assigns *)
Theorem rank_table_C04 :
  rank_in all_rows sym_pow = Some 0 /\
  rank_in all_rows sym_times = Some 1 /\
  rank_in all_rows sym_div = Some 1 /\
  rank_in all_rows sym_fdiv = Some 1 /\
  rank_in all_rows sym_mod = Some 1 /\
  rank_in all_rows sym_plus = Some 2 /\
  rank_in all_rows sym_minus = Some 2 /\
  rank_in all_rows sym_eq = Some 3 /\
  rank_in all_rows sym_ne = Some 3 /\
  rank_in all_rows sym_lt = Some 3 /\
  rank_in all_rows sym_gt = Some 3 /\
  rank_in all_rows sym_le = Some 3 /\
  rank_in all_rows sym_ge = Some 3 /\
  rank_in all_rows [44]%N = Some 4.
Proof. exact rank_table. Qed.
Print Assumptions rank_table_C04.
