(* C01 (whole script) -- a flat script of valid Rubber Ducky 1.0 / Flipper BadUSB lines compiles,
   without error, warning or print, to its canonical lines in order; the result is independent of the
   spelling (casing of command words, blanks, line numbers).  Statements only.
   The line language [vline], its validity [vline_ok], spelling [spell_line]/[spelling_ok] and
   canonical output [canon] are pinned by hand in Spec/FlatScript.v.

   Where the informal statement ("exactly the same lines") is FALSE of the code, the canonical output
   says what is true instead (witnesses: Proofs/FlatExamples.v):
     - DELAY / DEFAULT_DELAY re-print their number:  "DELAY 007"  compiles to  "DELAY 7";
     - ALT upper-cases a listed key name:            "ALT esc"    compiles to  "ALT ESC"
       (CTRL keeps it:                               "CTRL esc"   compiles to  "CTRL esc");
     - a bare "REM" (no text) is emitted as "REM". *)
From Coq Require Import NArith ZArith List Bool.
From DS Require Import Base PyStr Values TabParse Interp Tables Constants.
From DS Require Import DuckyGrammar Spelling FlatScript FlatStrings FlatProofs FlatWhole FlatDigits FlatExamples.
Import ListNotations.
Arguments IOk {A}. Arguments s_g {fo}. Arguments s_env {fo}. Arguments mkSt {fo}.
Arguments e_sys {fo}. Arguments e_user {fo}. Arguments e_temp {fo}. Arguments e_funcs {fo}. Arguments mkEnv {fo}.
Arguments mkCompiled {fo}. Arguments out {fo}. Arguments warnings {fo}. Arguments prints {fo}.

(* one line, in any state, for any child runner: exactly the canonical lines (tagged with the class
   the generated palette dispatches the word to), signal Normal, prints and warnings untouched, the
   environment untouched except $DEFAULT_DELAY after a DEFAULT_DELAY line *)
Theorem C01b_flat_line :
  forall (fo : FloatOps) (child : runner fo) (cx : ctx) (s : spelling) (l : vline) (n : Z) (st0 : st fo),
    vline_ok l -> spelling_ok s l -> flip_allowed cx l -> dd_ready fo l (s_env st0) ->
    exec_line fo child cx (spell_line s l) n None st0 =
    (mkSt (s_g st0) (env_after l (s_env st0)) (Some (spell_line s l, n)),
     IOk (mkCret (olines (include_comments (c_opts cx)) l) SNormal)).
Proof. exact flat_line. Qed.
Print Assumptions C01b_flat_line.

Theorem C01b_olines_text : forall comments l, map o_text (olines comments l) = canon comments l.
Proof. exact olines_text. Qed.
Print Assumptions C01b_olines_text.

(* Stack.run over the whole script, from any state and accumulator, for ANY child runner *)
Theorem C01b_flat_script_exec :
  forall (fo : FloatOps) (child : runner fo) (cx : ctx) (sc : script) (n : Z) (acc : list oline) (st0 : st fo),
    script_ok sc -> script_flip_ok (c_opts cx) (lines_of sc) ->
    script_dd_ready (lines_of sc) (s_env st0) ->
    exists l2,
      exec_cmds fo child cx (flat_items n sc) acc st0 =
      (mkSt (s_g st0) (env_after_all (lines_of sc) (s_env st0)) l2,
       IOk (mkCret (acc ++ concat (map (olines (include_comments (c_opts cx))) (lines_of sc))) SNormal)).
Proof. exact flat_script_exec. Qed.
Print Assumptions C01b_flat_script_exec.

(* Compiler.compile: the exact result *)
Theorem C01b_flat_script_compile :
  forall (fo : FloatOps) (o : options) (fs : fsys) (file : option path) (sc : script) (n : Z),
    script_ok sc -> script_flip_ok o (lines_of sc) ->
    compile_items fo o fs file (flat_items n sc) =
    (mkGlob [] [],
     IOk (mkCompiled (concat (map (olines (include_comments o)) (lines_of sc))) []
                     (env_after_all (lines_of sc) (initial_env fo)) [])).
Proof. exact flat_script_compile. Qed.
Print Assumptions C01b_flat_script_compile.

(* C01: no error, no warning, no print; the output texts are the canonical lines, in order *)
Theorem C01b_flat_script_passthrough :
  forall (fo : FloatOps) (o : options) (fs : fsys) (file : option path) (sc : script) (n : Z),
    script_ok sc -> script_flip_ok o (lines_of sc) ->
    exists c,
      compile_items fo o fs file (flat_items n sc) = (mkGlob [] [], IOk c) /\
      map o_text (out c) = canon_script (include_comments o) (lines_of sc) /\
      warnings c = [] /\ prints c = [].
Proof. exact flat_script_passthrough. Qed.
Print Assumptions C01b_flat_script_passthrough.

(* the result does not depend on the letter case of the command words (nor on blanks / numbering) *)
Theorem C01b_case_independence :
  forall (fo : FloatOps) (o : options) (fs : fsys) (file : option path) (sc1 sc2 : script) (n1 n2 : Z),
    script_ok sc1 -> script_ok sc2 -> lines_of sc1 = lines_of sc2 ->
    script_flip_ok o (lines_of sc1) ->
    compile_items fo o fs file (flat_items n1 sc1) = compile_items fo o fs file (flat_items n2 sc2).
Proof. exact case_independence. Qed.
Print Assumptions C01b_case_independence.

(* the final environment: only $DEFAULT_DELAY may change, to the value of the last DEFAULT_DELAY *)
Theorem C01b_flat_final_env : forall (fo : FloatOps) (ls : list vline) (e : env fo),
  env_after_all ls e =
  match last_default_delay ls None with
  | None => e
  | Some z => mkEnv (upd default_delay_var (VInt z) (e_sys e)) (e_user e) (e_temp e) (e_funcs e)
  end.
Proof. exact flat_final_env. Qed.
Print Assumptions C01b_flat_final_env.

(* why [spelling_ok] needs no "no blank inside the command word" clause: it follows from  upper cmd = WORD *)
Theorem C01b_upper_nows : forall cmd, FlatStrings.nows (upper cmd) -> FlatStrings.nows cmd.
Proof. exact FlatStrings.upper_nows. Qed.
Print Assumptions C01b_upper_nows.

(* DELAY digits without a leading zero are emitted unchanged *)
Theorem C01b_canonical_digits : forall ds,
  is_digits ds = true -> (hd 0%N ds <> 48%N \/ ds = [48%N]) ->
  Z_to_str (Z.of_N (dec_value ds 0)) = ds.
Proof. exact canonical_digits. Qed.
Print Assumptions C01b_canonical_digits.

(* witnesses: the hypotheses are satisfiable and the corrections above are real *)
Theorem C01b_example_ok : script_ok example_script /\ script_flip_ok default_options (lines_of example_script).
Proof. exact example_ok. Qed.
Print Assumptions C01b_example_ok.

Theorem C01b_example_output :
  option_map (map o_text) (compiled_out (compile_items dfo default_options (fun _ => None) None (flat_items 1 example_script)))
  = Some example_expected.
Proof. exact example_output. Qed.
Print Assumptions C01b_example_output.
