(* C14c -- THE STACK LIMIT IS EXACT, on the unified reference semantics (Spec/CoreAll.v, CoreAllErr.v)
   and, through the two refinement theorems, on the interpreter.  Proofs in Proofs/CoreAllDepth.v,
   CoreAllDepthTop.v, CoreAllDepthExample.v.

     min_depth R d0          d0 is the least index at which R holds
     the MINIMAL DEPTH of a program (in a start state): the least index d with a success derivation
                             [exec_list d ...]; by C12e_depth_mono derivations exist from d0 on
     room_of_limit L         L - 1: the stacks that fit above the main one under the stack limit L

   1. with less room than a derivation has, the only new outcome is the error StackOverflow;
   2. a program of minimal depth d0 compiles under the limit L iff d0 < L, and for L <= d0
      Compiler.compile returns the located error StackOverflow (exact limits);
   3. statements that follow one another consume no depth (max); a block / call consumes one level;
   4. unbounded recursion has no success derivation at any depth and, for every stack limit, ends in
      the compile error StackOverflow with a trace of exactly limit frames.
   Hypotheses on names ([prog_names_ok], [tab_names_ok], [unames_ok_list]: every VAR assigns to an
   identifier) are those under which the failure judgement is meaningful (Properties/C10e.v); they
   follow from [prog_ok] (the file system holds the well-spelled program). *)
From Coq Require Import String NArith ZArith List Bool.
From DS Require Import Base PyStr Values Expr TabParse Tables Constants Interp ImportGraph.
From DS Require Import CoreLang CoreFunc CoreAll CoreAllErr CoreAllBase CoreAllRefine CoreAllErrRefine CoreAllDet.
From DS Require Import CoreAllConverse CoreAllExample CoreAllErrExample.
From DS Require Import CoreAllDepth CoreAllDepthTop CoreAllDepthExample.
Import ListNotations.
Arguments IOk {A}. Arguments IErr {A}.

(* ================================================================== 1. on the specification *)
(* a derivation at index D: at every smaller index d the SAME derivation, or a StackOverflow failure *)
Theorem C14c_less_room_same_or_overflow :
  forall (fo : FloatOps) (sys : store fo) prog inc sup, prog_names_ok prog ->
  forall D d pile cf n F f vs p sg F' f' vs' out ev,
  exec_list fo sys prog inc sup D pile cf n F f vs p sg F' f' vs' out ev ->
  tab_names_ok F -> unames_ok_list p -> d <= D ->
  exec_list fo sys prog inc sup d pile cf n F f vs p sg F' f' vs' out ev \/
  (exists ch ev', fails_list fo sys prog inc sup d pile cf n F f vs p EStackOverflow ch ev').
Proof. exact exec_list_or_overflow. Qed.
Print Assumptions C14c_less_room_same_or_overflow.

(* the same for statements, IF chains, REPEAT and WHILE loops *)
Theorem C14c_less_room_all : forall (fo : FloatOps) (sys : store fo) prog inc sup, prog_names_ok prog ->
  (forall D pile cf n F f vs s sg F' f' vs' out ev,
     exec fo sys prog inc sup D pile cf n F f vs s sg F' f' vs' out ev ->
     O_stmt fo sys prog inc sup D pile cf n F f vs s sg F' f' vs' out ev) /\
  (forall D pile cf n F f vs p sg F' f' vs' out ev,
     exec_list fo sys prog inc sup D pile cf n F f vs p sg F' f' vs' out ev ->
     O_list fo sys prog inc sup D pile cf n F f vs p sg F' f' vs' out ev) /\
  (forall D pile cf first n F b vs arms els sg t vs' out ev,
     exec_arms fo sys prog inc sup D pile cf first n F b vs arms els sg t vs' out ev ->
     O_arms fo sys prog inc sup D pile cf first n F b vs arms els sg t vs' out ev) /\
  (forall D pile cf n F f c e body k vs sg vs' out ev,
     exec_repeat fo sys prog inc sup D pile cf n F f c e body k vs sg vs' out ev ->
     O_repeat fo sys prog inc sup D pile cf n F f c e body k vs sg vs' out ev) /\
  (forall D pile cf n F c e body k vs sg vs' out ev,
     exec_while fo sys prog inc sup D pile cf n F c e body k vs sg vs' out ev ->
     O_while fo sys prog inc sup D pile cf n F c e body k vs sg vs' out ev).
Proof. exact exec_or_overflow_all. Qed.
Print Assumptions C14c_less_room_all.

(* a derivation at S d and none at d: StackOverflow at d and below *)
Theorem C14c_depth_needed_step :
  forall (fo : FloatOps) (sys : store fo) prog inc sup, prog_names_ok prog ->
  forall d pile cf n F f vs p sg F' f' vs' out ev,
  tab_names_ok F -> unames_ok_list p ->
  exec_list fo sys prog inc sup (S d) pile cf n F f vs p sg F' f' vs' out ev ->
  ~ exec_list fo sys prog inc sup d pile cf n F f vs p sg F' f' vs' out ev ->
  forall d', d' <= d -> exists ch ev', fails_list fo sys prog inc sup d' pile cf n F f vs p EStackOverflow ch ev'.
Proof. exact depth_needed_step. Qed.
Print Assumptions C14c_depth_needed_step.

(* THE MINIMAL DEPTH d0: success (same results) at every d >= d0; at every d < d0 a StackOverflow
   failure derivation and no success derivation at all *)
Theorem C14c_depth_needed :
  forall (fo : FloatOps) (sys : store fo) prog inc sup, prog_names_ok prog ->
  forall d0 pile cf n F f vs p sg F' f' vs' out ev,
  tab_names_ok F -> unames_ok_list p ->
  min_depth (fun d => exec_list fo sys prog inc sup d pile cf n F f vs p sg F' f' vs' out ev) d0 ->
  forall d,
    (d0 <= d -> exec_list fo sys prog inc sup d pile cf n F f vs p sg F' f' vs' out ev) /\
    (d < d0 -> (exists ch ev', fails_list fo sys prog inc sup d pile cf n F f vs p EStackOverflow ch ev') /\
               forall sg2 F2 f2 vs2 o2 e2, ~ exec_list fo sys prog inc sup d pile cf n F f vs p sg2 F2 f2 vs2 o2 e2).
Proof. exact depth_needed. Qed.
Print Assumptions C14c_depth_needed.

Theorem C14c_min_depth_unique : forall R a b, min_depth R a -> min_depth R b -> a = b.
Proof. exact min_depth_unique. Qed.
Print Assumptions C14c_min_depth_unique.

(* the results of a derivation do not depend on the index *)
Theorem C14c_results_independent_of_depth :
  forall (fo : FloatOps) (sys : store fo) prog inc sup d1 d2 pile cf n F f vs p sg1 F1 f1 vs1 o1 e1 sg2 F2 f2 vs2 o2 e2,
  exec_list fo sys prog inc sup d1 pile cf n F f vs p sg1 F1 f1 vs1 o1 e1 ->
  exec_list fo sys prog inc sup d2 pile cf n F f vs p sg2 F2 f2 vs2 o2 e2 ->
  sg1 = sg2 /\ F1 = F2 /\ f1 = f2 /\ vs1 = vs2 /\ o1 = o2 /\ e1 = e2.
Proof. exact exec_list_same_results. Qed.
Print Assumptions C14c_results_independent_of_depth.

(* ================================================================== 3. sequences and blocks *)
(* BLOCKS THAT FOLLOW ONE ANOTHER CONSUME NO DEPTH: the minimal depth of a ++ b is the max *)
Theorem C14c_sequence_is_max :
  forall (fo : FloatOps) (sys : store fo) prog inc sup a b da db pile cf n F f vs F1 f1 vs1 o1 e1 sg F2 f2 vs2 o2 e2,
  min_depth (fun d => exec_list fo sys prog inc sup d pile cf n F f vs a Normal F1 f1 vs1 o1 e1) da ->
  min_depth (fun d => exec_list fo sys prog inc sup d pile cf (n + sum_sizes usize a) F1 f1 vs1 b sg F2 f2 vs2 o2 e2) db ->
  min_depth (fun d => exec_list fo sys prog inc sup d pile cf n F f vs (a ++ b) sg F2 f2 vs2 (o1 ++ o2) (e1 ++ e2))
            (Nat.max da db).
Proof. exact min_depth_app. Qed.
Print Assumptions C14c_sequence_is_max.

(* a statement R that holds at d iff d = S d' and its body B holds at d': one level more *)
Theorem C14c_block_is_one_more : forall (R B : nat -> Prop) b,
  (forall d, R d <-> exists d', d = S d' /\ B d') -> min_depth B b -> min_depth R (S b).
Proof. exact min_depth_S. Qed.
Print Assumptions C14c_block_is_one_more.

(* ... which is the form of an IF chain whose first condition holds ... *)
Theorem C14c_if_is_block :
  forall (fo : FloatOps) (sys : store fo) prog inc sup d pile cf n F f vs c body rest els v sg F' f' vs' out ev,
  eval fo sys (Some (match f with Some b => b | None => false end)) vs c v -> truthy fo v = true ->
  (exec fo sys prog inc sup d pile cf n F f vs (UIf ((c, body) :: rest) els) sg F' f' vs' out ev <->
   exists d', d = S d' /\ exists F1 f1 vs1,
     exec_list fo sys prog inc sup d' (pile ++ [mkSF cf (if_head true c) n false]) cf (n + 1) F None vs body sg F1 f1 vs1 out ev /\
     (sg = Normal -> Forall (fun cb => exists v', eval fo sys (Some true) (copy_back fo vs vs1) (fst cb) v') rest) /\
     F' = F /\ f' = Some true /\ vs' = copy_back fo vs vs1).
Proof. exact if_taken_iff. Qed.
Print Assumptions C14c_if_is_block.

(* ... and of a call *)
Theorem C14c_run_is_block :
  forall (fo : FloatOps) (sys : store fo) prog inc sup d pile cf n F f vs name args sg F' f' vs' out ev,
  exec fo sys prog inc sup d pile cf n F f vs (URun name args) sg F' f' vs' out ev <->
  exists d', d = S d' /\ exists vals df sgb F1 f1 vs1,
    run_args fo sys f vs args vals /\ lookup name F = Some df /\ length (d_params df) = length vals /\
    exec_list fo sys prog inc sup d' (pile ++ [mkSF cf (run_head name args) n true]) (d_file df) (d_line df + 1) F None
              (bind_params fo (d_params df) vals vs) (d_body df) sgb F1 f1 vs1 out ev /\
    (sgb = Normal \/ sgb = Returned) /\
    sg = Normal /\ F' = F /\ f' = f /\ vs' = copy_back fo vs vs1.
Proof. exact run_iff. Qed.
Print Assumptions C14c_run_is_block.

(* hence: a taken IF arm needs one level more than its body, a call one more than the function body *)
Theorem C14c_if_one_more_than_body :
  forall (fo : FloatOps) (sys : store fo) prog inc sup b pile cf n F f vs c body rest els v sg F1 f1 vs1 out ev,
  eval fo sys (Some (match f with Some b => b | None => false end)) vs c v -> truthy fo v = true ->
  (sg = Normal -> Forall (fun cb => exists v', eval fo sys (Some true) (copy_back fo vs vs1) (fst cb) v') rest) ->
  min_depth (fun d => exec_list fo sys prog inc sup d (pile ++ [mkSF cf (if_head true c) n false]) cf (n + 1) F None vs body
                                sg F1 f1 vs1 out ev) b ->
  min_depth (fun d => exec fo sys prog inc sup d pile cf n F f vs (UIf ((c, body) :: rest) els) sg F (Some true)
                           (copy_back fo vs vs1) out ev) (S b).
Proof. exact min_depth_if. Qed.
Print Assumptions C14c_if_one_more_than_body.

Theorem C14c_run_one_more_than_body :
  forall (fo : FloatOps) (sys : store fo) prog inc sup b pile cf n F f vs name args vals df sgb F1 f1 vs1 out ev,
  run_args fo sys f vs args vals -> lookup name F = Some df -> length (d_params df) = length vals ->
  sgb = Normal \/ sgb = Returned ->
  min_depth (fun d => exec_list fo sys prog inc sup d (pile ++ [mkSF cf (run_head name args) n true]) (d_file df) (d_line df + 1) F None
                                (bind_params fo (d_params df) vals vs) (d_body df) sgb F1 f1 vs1 out ev) b ->
  min_depth (fun d => exec fo sys prog inc sup d pile cf n F f vs (URun name args) Normal F f (copy_back fo vs vs1) out ev) (S b).
Proof. exact min_depth_run. Qed.
Print Assumptions C14c_run_one_more_than_body.

(* ================================================================== 2. on the interpreter *)
(* below the minimal depth of the entry file: the failure StackOverflow of the specification *)
Theorem C14c_below_min_depth_fails :
  forall (fo : FloatOps) dir prog fs, prog_ok dir prog fs ->
  forall inc sup entry d0 sg F' f' vs' out ev,
  min_depth (fun d => uruns fo prog inc sup entry d sg F' f' vs' out ev) d0 ->
  forall d, d < d0 -> exists ch ev', ufails fo prog inc sup entry d EStackOverflow ch ev'.
Proof. exact ufails_below_min_depth. Qed.
Print Assumptions C14c_below_min_depth_fails.

(* d0 < L: Compiler.compile returns the success of the derivation (observes: output texts, final
   variables, flag, functions, prints, warnings) *)
Theorem C14c_within_limit_compiles :
  forall (fo : FloatOps) dir prog fs, prog_ok dir prog fs -> prog_closed dir prog fs ->
  forall o entry stmts d0 sg F' f' vs' out ev,
  (1 <= stack_limit o)%Z -> lookup entry prog = Some stmts ->
  min_depth (fun d => uruns fo prog (include_comments o) (supress_command_not_exist o) entry d sg F' f' vs' out ev) d0 ->
  (Z.of_nat d0 < stack_limit o)%Z ->
  observes fo dir (compile_items fo o fs (Some (file_of dir entry)) (uitems_of stmts)) (UOk sg F' f' vs' out ev).
Proof. exact limit_ok. Qed.
Print Assumptions C14c_within_limit_compiles.

(* L <= d0: the located compile error StackOverflow *)
Theorem C14c_beyond_limit_overflows :
  forall (fo : FloatOps) dir prog fs, prog_ok dir prog fs -> prog_closed dir prog fs ->
  forall o entry stmts d0 sg F' f' vs' out ev,
  (1 <= stack_limit o)%Z -> lookup entry prog = Some stmts ->
  min_depth (fun d => uruns fo prog (include_comments o) (supress_command_not_exist o) entry d sg F' f' vs' out ev) d0 ->
  (stack_limit o <= Z.of_nat d0)%Z ->
  exists ch ev', ch <> [] /\
    ufails fo prog (include_comments o) (supress_command_not_exist o) entry (room_of_limit (stack_limit o)) EStackOverflow ch ev' /\
    compile_items fo o fs (Some (file_of dir entry)) (uitems_of stmts) =
    (CoreAllBase.apply_evs dir ev' (mkGlob [] []), IErr EStackOverflow (Some (map (CoreAllBase.conc_frame dir) ch))).
Proof. exact limit_overflow. Qed.
Print Assumptions C14c_beyond_limit_overflows.

(* COMPILES IFF THE MINIMAL DEPTH IS BELOW THE STACK LIMIT *)
Theorem C14c_compiles_iff_below_limit :
  forall (fo : FloatOps) dir prog fs, prog_ok dir prog fs -> prog_closed dir prog fs ->
  forall o entry stmts d0 sg F' f' vs' out ev,
  (1 <= stack_limit o)%Z -> lookup entry prog = Some stmts ->
  min_depth (fun d => uruns fo prog (include_comments o) (supress_command_not_exist o) entry d sg F' f' vs' out ev) d0 ->
  ((exists g c, compile_items fo o fs (Some (file_of dir entry)) (uitems_of stmts) = (g, IOk c)) <->
   (Z.of_nat d0 < stack_limit o)%Z).
Proof. exact limit_iff. Qed.
Print Assumptions C14c_compiles_iff_below_limit.

(* ================================================================== 4. unbounded recursion *)
(* calls_again S p: every execution path of p reaches a RUN of a function of S (after plain
   commands, FUNC definitions -- those of S having the property themselves --, or through every arm
   of an IF chain with an ELSE);  rec_table S F: every definition in F of a name of S calls again.
   NO SUCCESS DERIVATION AT ANY DEPTH. *)
Theorem C14c_recursion_never_succeeds :
  forall (fo : FloatOps) (sys : store fo) prog inc sup d S p F pile cf n f vs sg F' f' vs' out ev,
  calls_again S p -> rec_table S F -> ~ exec_list fo sys prog inc sup d pile cf n F f vs p sg F' f' vs' out ev.
Proof. exact calls_again_no_success. Qed.
Print Assumptions C14c_recursion_never_succeeds.

Theorem C14c_rec_self_calls_again : forall f, calls_again [f] (rec_self f).
Proof. exact rec_self_calls_again. Qed.
Print Assumptions C14c_rec_self_calls_again.

Theorem C14c_rec_mutual_calls_again : forall f g, calls_again [f; g] (rec_mutual f g).
Proof. exact rec_mutual_calls_again. Qed.
Print Assumptions C14c_rec_mutual_calls_again.

(* FUNC f / RUN f ; RUN f *)
Theorem C14c_rec_self_no_success :
  forall (fo : FloatOps) (sys : store fo) prog inc sup f d pile cf n fl vs sg F' f' vs' out ev,
  ~ exec_list fo sys prog inc sup d pile cf n [] fl vs (rec_self f) sg F' f' vs' out ev.
Proof. exact rec_self_no_success. Qed.
Print Assumptions C14c_rec_self_no_success.

Theorem C14c_rec_self_overflows_at_every_room :
  forall (fo : FloatOps) (sys : store fo) prog inc sup f d pile cf n fl vs,
  exists ch, fails_list fo sys prog inc sup d pile cf n [] fl vs (rec_self f) EStackOverflow ch [] /\ length ch = S d.
Proof. exact rec_self_overflow. Qed.
Print Assumptions C14c_rec_self_overflows_at_every_room.

(* FUNC f / RUN g ; FUNC g / RUN f ; RUN f *)
Theorem C14c_rec_mutual_no_success :
  forall (fo : FloatOps) (sys : store fo) prog inc sup f g d pile cf n fl vs sg F' f' vs' out ev,
  ~ exec_list fo sys prog inc sup d pile cf n [] fl vs (rec_mutual f g) sg F' f' vs' out ev.
Proof. exact rec_mutual_no_success. Qed.
Print Assumptions C14c_rec_mutual_no_success.

Theorem C14c_rec_mutual_overflows_at_every_room :
  forall (fo : FloatOps) (sys : store fo) prog inc sup f g d pile cf n fl vs, str_eqb f g = false ->
  exists ch, fails_list fo sys prog inc sup d pile cf n [] fl vs (rec_mutual f g) EStackOverflow ch [] /\ length ch = S d.
Proof. exact rec_mutual_overflow. Qed.
Print Assumptions C14c_rec_mutual_overflows_at_every_room.

(* any ring of parameterless functions each of which only calls the next *)
Theorem C14c_ring_overflows_at_every_room :
  forall (fo : FloatOps) (sys : store fo) prog inc sup S F, pure_ring S F ->
  forall d g pile cf n f vs, In g S ->
  exists ch, fails fo sys prog inc sup d pile cf n F f vs (URun g []) EStackOverflow ch [] /\ length ch = Datatypes.S d.
Proof. exact ring_overflow. Qed.
Print Assumptions C14c_ring_overflows_at_every_room.

(* ON THE INTERPRETER, FOR EVERY STACK LIMIT: the error StackOverflow, no print, no warning, a trace
   of exactly limit frames *)
Theorem C14c_rec_self_interpreter :
  forall (fo : FloatOps) dir prog fs, prog_ok dir prog fs -> prog_closed dir prog fs ->
  forall o entry f, (1 <= stack_limit o)%Z -> lookup entry prog = Some (rec_self f) ->
  exists ch, length ch = Z.to_nat (stack_limit o) /\
    compile_items fo o fs (Some (file_of dir entry)) (uitems_of (rec_self f)) =
    (mkGlob [] [], IErr EStackOverflow (Some (map (CoreAllBase.conc_frame dir) ch))).
Proof. exact rec_self_interpreter. Qed.
Print Assumptions C14c_rec_self_interpreter.

Theorem C14c_rec_mutual_interpreter :
  forall (fo : FloatOps) dir prog fs, prog_ok dir prog fs -> prog_closed dir prog fs ->
  forall o entry f g, (1 <= stack_limit o)%Z -> str_eqb f g = false -> lookup entry prog = Some (rec_mutual f g) ->
  exists ch, length ch = Z.to_nat (stack_limit o) /\
    compile_items fo o fs (Some (file_of dir entry)) (uitems_of (rec_mutual f g)) =
    (mkGlob [] [], IErr EStackOverflow (Some (map (CoreAllBase.conc_frame dir) ch))).
Proof. exact rec_mutual_interpreter. Qed.
Print Assumptions C14c_rec_mutual_interpreter.

(* the general form (tame: every expression inside the modelled evaluator): for every stack limit a
   located compile error -- never a success, never a crash; compile_items is a total function: never a hang *)
Theorem C14c_recursion_always_compile_error :
  forall (fo : FloatOps) dir prog fs, prog_ok dir prog fs -> prog_closed dir prog fs ->
  forall o entry stmts S,
  tame_prog fo prog -> (1 <= stack_limit o)%Z -> lookup entry prog = Some stmts -> calls_again S stmts ->
  exists g er ch, ch <> [] /\
    compile_items fo o fs (Some (file_of dir entry)) (uitems_of stmts) =
    (g, IErr er (Some (map (CoreAllBase.conc_frame dir) ch))).
Proof. exact calls_again_interpreter. Qed.
Print Assumptions C14c_recursion_always_compile_error.

(* ================================================================== non-vacuity *)
(* FUNC g / IF TRUE / REPEAT 1 / STRING deep ; RUN g ; STRING after : minimal depth 3 *)
Theorem C14c_example_min_depth_3 : forall (fo : FloatOps) inc sup,
  prog_ok ex_dir dp_prog dp_fs /\
  min_depth (fun d => uruns fo dp_prog inc sup n_main d Normal dp_F None [] dp_out []) 3.
Proof. exact dp_all. Qed.
Print Assumptions C14c_example_min_depth_3.

Theorem C14c_example_limit_4_compiles : forall (fo : FloatOps) inc sup, exists g c,
  compile_items fo (dp_opts 4 inc sup) dp_fs (Some (file_of ex_dir n_main)) (uitems_of dp_main) = (g, IOk c).
Proof. exact dp_limit_4. Qed.
Print Assumptions C14c_example_limit_4_compiles.

Theorem C14c_example_limit_3_overflows : forall (fo : FloatOps) inc sup, exists ch ev', ch <> [] /\
  compile_items fo (dp_opts 3 inc sup) dp_fs (Some (file_of ex_dir n_main)) (uitems_of dp_main) =
  (CoreAllBase.apply_evs ex_dir ev' (mkGlob [] []), IErr EStackOverflow (Some (map (CoreAllBase.conc_frame ex_dir) ch))).
Proof. exact dp_limit_3. Qed.
Print Assumptions C14c_example_limit_3_overflows.

(* by computation on the interpreter *)
Theorem C14c_example_computed : forall fo : FloatOps,
  (match compile_items fo (dp_opts 4 false false) dp_fs (Some (file_of ex_dir n_main)) (uitems_of dp_main) with
   | (_, IOk c) => map o_text (out fo c) = [S_ "STRING deep"; S_ "STRING after"]
   | _ => False
   end) /\
  (match compile_items fo (dp_opts 3 false false) dp_fs (Some (file_of ex_dir n_main)) (uitems_of dp_main) with
   | (_, IErr EStackOverflow (Some tr)) => map (fun fr => snd (fr_line fr)) tr = [5; 2; 3]%Z
   | _ => False
   end).
Proof. exact dp_computed. Qed.
Print Assumptions C14c_example_computed.

(* the recursive program on a concrete file system, every limit *)
Theorem C14c_example_recursion_every_limit : forall (fo : FloatOps) limit inc sup, (1 <= limit)%Z ->
  exists ch, length ch = Z.to_nat limit /\
    compile_items fo (dp_opts limit inc sup) r_fs (Some (file_of ex_dir n_main)) (uitems_of r_main) =
    (mkGlob [] [], IErr EStackOverflow (Some (map (CoreAllBase.conc_frame ex_dir) ch))).
Proof. exact r_every_limit. Qed.
Print Assumptions C14c_example_recursion_every_limit.

Theorem C14c_example_recursion_computed : forall fo : FloatOps,
  (match compile_items fo (dp_opts 1 false false) r_fs (Some (file_of ex_dir n_main)) (uitems_of r_main) with
   | (_, IErr EStackOverflow (Some tr)) => length tr = 1 | _ => False end) /\
  (match compile_items fo (dp_opts 5 false false) r_fs (Some (file_of ex_dir n_main)) (uitems_of r_main) with
   | (_, IErr EStackOverflow (Some tr)) => length tr = 5 | _ => False end) /\
  (match compile_items fo (dp_opts 40 false false) r_fs (Some (file_of ex_dir n_main)) (uitems_of r_main) with
   | (_, IErr EStackOverflow (Some tr)) => length tr = 40 | _ => False end).
Proof. exact r_interpreter_limits. Qed.
Print Assumptions C14c_example_recursion_computed.

(* the two-function ring FUNC f / RUN g ; FUNC g / RUN f ; RUN f on a concrete file system *)
Theorem C14c_example_mutual_every_limit : forall (fo : FloatOps) limit inc sup, (1 <= limit)%Z ->
  prog_ok ex_dir m_prog m_fs /\
  exists ch, length ch = Z.to_nat limit /\
    compile_items fo (dp_opts limit inc sup) m_fs (Some (file_of ex_dir n_main)) (uitems_of m_main) =
    (mkGlob [] [], IErr EStackOverflow (Some (map (CoreAllBase.conc_frame ex_dir) ch))).
Proof. exact m_all. Qed.
Print Assumptions C14c_example_mutual_every_limit.

Theorem C14c_example_mutual_computed : forall fo : FloatOps,
  match compile_items fo (dp_opts 6 false false) m_fs (Some (file_of ex_dir n_main)) (uitems_of m_main) with
  | (_, IErr EStackOverflow (Some tr)) => map (fun fr => snd (fr_line fr)) tr = [5; 2; 4; 2; 4; 2]%Z
  | _ => False
  end.
Proof. exact m_interpreter_limit_6. Qed.
Print Assumptions C14c_example_mutual_computed.
