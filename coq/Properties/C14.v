(* C14 -- depth and iteration limits are exact and end in compile errors, never in a hang
   (model fuel) or a host-language stack failure.  Statements only; proofs live in Proofs/. *)
From Coq Require Import NArith ZArith List Bool.
From DS Require Import Base PyStr Values Expr TabParse Constants Interp LimitSpec LimitProofs.
Import ListNotations.

(* L1: with enough model depth for the configured limit, the depth limit is enforced by the
   StackOverflowError check and the model's KRecursion is unreachable *)
Theorem depth_limit_no_recursion : forall fo d cx g e cmds,
  (stack_limit (c_opts cx) <= Z.of_nat (length (c_pile cx)) + 1 + Z.of_nat d)%Z ->
  forall g' k, run fo d cx g e cmds = (g', ICrash _ k) -> k <> KRecursion.
Proof. exact depth_limit_no_recursion_lemma. Qed.
Print Assumptions depth_limit_no_recursion.

(* ... hence Compiler.compile never ends in a host-language recursion failure, for every options value *)
Theorem compile_items_no_recursion : forall fo o fs file cmds g,
  compile_items fo o fs file cmds <> (g, ICrash _ KRecursion).
Proof. exact compile_items_no_recursion_lemma. Qed.
Print Assumptions compile_items_no_recursion.

Theorem compile_text_no_recursion : forall fo o fs file text g,
  compile_text fo o fs file text <> (g, ICrash _ KRecursion).
Proof. exact compile_text_no_recursion_lemma. Qed.
Print Assumptions compile_text_no_recursion.

Theorem compile_raw_no_recursion : forall fo o fs file lines g,
  compile_raw fo o fs file lines <> (g, ICrash _ KRecursion).
Proof. exact compile_raw_no_recursion_lemma. Qed.
Print Assumptions compile_raw_no_recursion.

(* L2a: REPEAT / WHILE started at count 0 behave identically with any amount of extra fuel:
   the loops' own out-of-fuel branch is never taken *)
Theorem repeat_loop_fuel_irrelevant : forall fo child cx cur var_name argument code acc extra s,
  repeat_loop fo child cx cur (loop_fuel + extra) var_name argument code 0 acc s =
  repeat_loop fo child cx cur loop_fuel var_name argument code 0 acc s.
Proof. exact repeat_loop_fuel_irrelevant_lemma. Qed.
Print Assumptions repeat_loop_fuel_irrelevant.

Theorem while_loop_fuel_irrelevant : forall fo child cx cur var_name argument code acc extra s,
  while_loop fo child cx cur (loop_fuel + extra) var_name argument code 0 acc s =
  while_loop fo child cx cur loop_fuel var_name argument code 0 acc s.
Proof. exact while_loop_fuel_irrelevant_lemma. Qed.
Print Assumptions while_loop_fuel_irrelevant.

(* L2b: the loops only end in KOutOfFuel if the expression tokenizer or the child runner does *)
Theorem repeat_loop_no_fuel_crash : forall fo child cx cur var_name argument code acc,
  (forall vars s, tokenize fo vars s <> Crash KOutOfFuel) ->
  (forall cx' g e c g', child cx' g e c <> (g', ICrash _ KOutOfFuel)) ->
  forall s s',
    repeat_loop fo child cx cur loop_fuel var_name argument code 0 acc s <> (s', ICrash _ KOutOfFuel).
Proof. exact repeat_loop_no_fuel_crash_lemma. Qed.
Print Assumptions repeat_loop_no_fuel_crash.

Theorem while_loop_no_fuel_crash : forall fo child cx cur var_name argument code acc,
  (forall vars s, tokenize fo vars s <> Crash KOutOfFuel) ->
  (forall cx' g e c g', child cx' g e c <> (g', ICrash _ KOutOfFuel)) ->
  forall s s',
    while_loop fo child cx cur loop_fuel var_name argument code 0 acc s <> (s', ICrash _ KOutOfFuel).
Proof. exact while_loop_no_fuel_crash_lemma. Qed.
Print Assumptions while_loop_no_fuel_crash.

(* L3: the depth limit is exact.  For a chain of k nested `IF TRUE` around `STRING x` (LimitSpec.nest_at)
   and every limit L >= 1: k < L compiles to the single line, k >= L is a StackOverflowError *)
Theorem nest_compile_within : forall fo o fs file n k,
  (Z.of_nat k < stack_limit o)%Z ->
  compile_items fo o fs file (nest_at n k) =
  (mkGlob [] [], IOk _ (mkCompiled fo [mkO (ByCommand s_String) s_STRING_x] [] (env_after fo k) [])).
Proof. exact nest_compile_within_lemma. Qed.
Print Assumptions nest_compile_within.

Theorem nest_compile_overflow : forall fo o fs file n k,
  (1 <= stack_limit o)%Z -> (stack_limit o <= Z.of_nat k)%Z ->
  exists t, compile_items fo o fs file (nest_at n k) = (mkGlob [] [], IErr _ EStackOverflow (Some t)).
Proof. exact nest_compile_overflow_lemma. Qed.
Print Assumptions nest_compile_overflow.

Theorem nest_exact : forall fo o fs file n k,
  (1 <= stack_limit o)%Z ->
  ((exists g c, compile_items fo o fs file (nest_at n k) = (g, IOk _ c)) <-> (Z.of_nat k < stack_limit o)%Z).
Proof. exact nest_exact_lemma. Qed.
Print Assumptions nest_exact.
