(* C18d -- PRINTS on the unified reference semantics (Spec/CoreAll.v), on the specification alone.
   Statements only; proofs in Proofs/CoreAllCor.v, CoreAllImports.v, CoreAllExample.v.
   (Properties/C18c.v already holds the interpreter-level print-erasure theorems; this file is the
   specification-level counterpart asked for under the name C18c.)
   The events of a derivation are in execution order by construction (L_Cons, R_Iter, W_Iter
   append); prints_of keeps that order; the output type [uline] has no constructor for prints. *)
From Coq Require Import String NArith ZArith List Bool.
From DS Require Import Base PyStr Values Expr TabParse CoreLang CoreFunc CoreAll CoreAllCor CoreAllImports CoreAllExample.
Import ListNotations.

(* PRINT never touches the output or the state: it is ONE event carrying the text, the line of the
   PRINT statement and the current file *)
Theorem C18d_print_rule : forall (fo : FloatOps) (sys : store fo) prog inc sup d pile cf n F f vs text sg F' f' vs' out ev,
  CoreAll.exec fo sys prog inc sup d pile cf n F f vs (UPrint text) sg F' f' vs' out ev ->
  sg = Normal /\ F' = F /\ f' = f /\ vs' = vs /\ out = [] /\ ev = [EvPrint text n cf].
Proof. exact print_law. Qed.
Print Assumptions C18d_print_rule.

Theorem C18d_print_eval_rule : forall (fo : FloatOps) (sys : store fo) prog inc sup d pile cf n F f vs e sg F' f' vs' out ev,
  CoreAll.exec fo sys prog inc sup d pile cf n F f vs (UPrintEval e) sg F' f' vs' out ev ->
  sg = Normal /\ F' = F /\ f' = f /\ vs' = vs /\ out = [] /\
  exists v t, eval fo sys f vs e v /\ py_str fo v = Some t /\ ev = [EvPrint t n cf].
Proof. exact print_eval_law. Qed.
Print Assumptions C18d_print_eval_rule.

(* execution order: the events of a list are those of its first statement, then the others *)
Theorem C18d_events_in_order : forall (fo : FloatOps) (sys : store fo) prog inc sup d pile cf n F f vs s r sg F' f' vs' out ev,
  CoreAll.exec_list fo sys prog inc sup d pile cf n F f vs (s :: r) sg F' f' vs' out ev ->
  exists sg1 F1 f1 vs1 out1 ev1 ev2,
    CoreAll.exec fo sys prog inc sup d pile cf n F f vs s sg1 F1 f1 vs1 out1 ev1 /\ ev = ev1 ++ ev2.
Proof. exact exec_list_head. Qed.
Print Assumptions C18d_events_in_order.

(* prints made inside an imported file carry THAT file and the line there *)
Theorem C18d_imported_print_carries_file : forall (fo : FloatOps) (sys : store fo) prog inc sup d pile cf n F f vs k name t rest sg F' f' vs' out ev,
  lookup name prog = Some (UPrint t :: rest) ->
  CoreAll.exec fo sys prog inc sup d pile cf n F f vs (UStart k name) sg F' f' vs' out ev ->
  exists ev', ev = EvPrint t 1 name :: ev'.
Proof. exact imported_print_carries_file. Qed.
Print Assumptions C18d_imported_print_carries_file.

(* witness: the print inside a function defined in lib and called from main carries lib and the
   line of the PRINT in lib; order = execution order *)
Theorem C18d_two_files_prints : forall sup,
  prints_of (ex_events sup) =
  [(CoreAllExample.S_ "loaded", 4%Z, n_lib); (CoreAllExample.S_ "hello", 2%Z, n_lib)].
Proof. exact two_files_prints. Qed.
Print Assumptions C18d_two_files_prints.
