(* C18e -- PRINT ERASURE ON THE SPECIFICATION (Spec/CoreAll.v, Spec/CoreAllErase.v).  Statements only.

   erase_prints p : the statement list p without its PRINT / $PRINT statements, at every depth
                    (arms, ELSE, loop and function bodies);  erase_prog: every file erased.
   A derivation of p gives a derivation of (erase_prints p) -- in the erased program, from the
   function table with every body erased -- with the SAME signal, flag, store, output lines and
   stack need; its events are the events of p MINUS THE PRINTS, UP TO LOCATIONS:
       map shape (no_prints ev) = map shape ev2          (shape: the event without line/file/pile)
   because removing lines moves the line numbers of what follows (inside warnings, stack frames
   and function definitions).  The final tables correspond (tsim true []: same names, parameters,
   defining FILES; bodies erased; the defining LINES may differ).  In particular the erased
   program prints nothing (prints_of ev2 = []).
   NOT claimed: equality of the de-duplicated warning lists (de-duplication compares locations).

   Empty bodies.  A body made of prints only becomes EMPTY.  The reference semantics gives an empty
   body a meaning (it does nothing), so the theorems above need no restriction; but an empty body
   cannot be written as text (uwf).  Under [erase_safe_list p] (no body of p consists of prints
   only) the erased list is again well formed and plain (C18e_erased_wf / _plain), so C12e applies
   to it: C18e_erase_files compares the two programs THROUGH THE COMPILER, on disk.
   Proofs: Proofs/CoreAllSim.v (one simulation, er = true), CoreAllEraseProofs.v, CoreAllEraseFiles.v. *)
From Coq Require Import NArith ZArith List Bool.
From DS Require Import Base PyStr Values Expr TabParse Tables Constants Interp ImportGraph BlockTree.
From DS Require Import CoreLang CoreFunc CoreText CoreTextParse CoreAll CoreAllText CoreAllErase CoreAllLines CoreAllBase.
From DS Require Import CoreAllTextForest CoreAllTextParse CoreAllSim CoreAllEraseProofs CoreAllEraseFiles CoreAllPaste.
Import ListNotations.

Arguments IOk {A}. Arguments IErr {A}.
Arguments e_sys : clear implicits. Arguments e_user : clear implicits. Arguments e_temp : clear implicits.
Arguments e_funcs : clear implicits. Arguments mkEnv : clear implicits.

(* the erasure theorem, for a statement list anywhere (any pile, file, line, table, flag, store) *)
Theorem C18e_erase_list : forall (fo : FloatOps) (sys : store fo) prog inc sup d pile cf n F f vs p sg F' f' vs' out ev,
  CoreAll.exec_list fo sys prog inc sup d pile cf n F f vs p sg F' f' vs' out ev ->
  exists F2' ev2,
    CoreAll.exec_list fo sys (erase_prog prog) inc sup d pile cf n (erase_tab F) f vs (erase_prints p) sg F2' f' vs' out ev2 /\
    tsim true [] F' F2' /\ map shape (no_prints ev) = map shape ev2 /\ prints_of ev2 = [].
Proof. exact erase_list. Qed.
Print Assumptions C18e_erase_list.

(* ... for whole programs *)
Theorem C18e_erase_program : forall fo prog inc sup entry d sg F' f' vs' out ev,
  uruns fo prog inc sup entry d sg F' f' vs' out ev ->
  exists F2' ev2,
    uruns fo (erase_prog prog) inc sup entry d sg F2' f' vs' out ev2 /\
    tsim true [] F' F2' /\ map shape (no_prints ev) = map shape ev2 /\ prints_of ev2 = [].
Proof. exact erase_uruns. Qed.
Print Assumptions C18e_erase_program.

(* the transformation with er = false is the identity (the same simulation proves C12e_relocate) *)
Theorem C18e_no_erasure_is_identity : forall p, trl false p = p.
Proof. exact trl_false. Qed.
Print Assumptions C18e_no_erasure_is_identity.

(* ------------------------------------------------------------------ empty bodies *)
Theorem C18e_erased_wf : forall p, uwf_list p -> erase_safe_list p -> uwf_list (erase_prints p).
Proof. exact erase_prints_wf. Qed.
Print Assumptions C18e_erased_wf.

Theorem C18e_erased_plain : forall p, uheads_plain p = true -> uheads_plain (erase_prints p) = true.
Proof. exact erase_prints_plain. Qed.
Print Assumptions C18e_erased_plain.

Theorem C18e_erased_prog_wf : forall prog, prog_wf prog -> prog_erase_safe prog -> prog_wf (erase_prog prog).
Proof. exact erase_prog_wf. Qed.
Print Assumptions C18e_erased_prog_wf.

(* the restriction is needed for writability: REPEAT 3 / PRINT a *)
Theorem C18e_empty_body :
  erase_prints prog_only_print = [URepeat None [51]%N []] /\ ~ erase_safe_list prog_only_print /\
  ~ uwf_list (erase_prints prog_only_print).
Proof. exact erase_empty_body. Qed.
Print Assumptions C18e_empty_body.

(* ------------------------------------------------------------------ through the compiler, on disk *)
(* the program and the erased program, both written to disk (any unit) and compiled: same output
   texts, same final variables and flag; the erased one has no print *)
Theorem C18e_erase_files : forall (fo : FloatOps) (u : str) (dir : path) (prog : program) o entry d sg Fs' f' vs' out ev,
  wf_unit u -> no_nl u -> prog_wf prog -> prog_erase_safe prog ->
  uruns fo prog (include_comments o) (supress_command_not_exist o) entry d sg Fs' f' vs' out ev ->
  (Z.of_nat d < stack_limit o)%Z ->
  exists stmts ol1 ol2 F1 F2 g1 g2 ws2,
    lookup entry prog = Some stmts /\
    map o_text ol1 = map line_text out /\ map o_text ol2 = map line_text out /\
    compile_text fo o (fs_of u dir prog) (Some (file_of dir entry)) (utext_of u stmts) =
    (g1, IOk (mkCompiled fo ol1 (map (CoreAllBase.conc_warning dir) (warnings_of ev))
                (mkEnv fo (initial_sys fo) vs' (flag_var fo f') F1)
                (map (CoreAllBase.conc_print dir) (prints_of ev)))) /\
    compile_text fo o (fs_of u dir (erase_prog prog)) (Some (file_of dir entry)) (utext_of u (erase_prints stmts)) =
    (g2, IOk (mkCompiled fo ol2 ws2 (mkEnv fo (initial_sys fo) vs' (flag_var fo f') F2) [])).
Proof. exact erase_files. Qed.
Print Assumptions C18e_erase_files.
