(* C09 (tokenizer part) -- every failure of the expression tokenizer is a compile error, never a
   crash.  Statements only; proofs live in Proofs/ExprSafety.v. *)
From Coq Require Import NArith ZArith List Bool.
From DS Require Import Base PyStr Values Tables Constants Expr ExprSafety ExprFuel ExprTotal.
Import ListNotations.

(* E1: the scanner output alternates value / operator, starts with a value, has odd length *)
Theorem C09_scanner_alternates : forall (fo : FloatOps) (vars : vars_t fo) (s : str) toks,
  convert_string fo vars s = Ok toks -> alt fo false toks /\ Nat.even (length toks) = false.
Proof. exact convert_string_alternates. Qed.
Print Assumptions C09_scanner_alternates.

(* E1, step form: an iteration of the scanner loop preserves the invariant and never crashes *)
Theorem C09_scan_step_invariant : forall (fo : FloatOps) (vars : vars_t fo) (s : sd fo) r,
  Inv fo s -> scan_step fo vars s = Some r -> safe (Inv fo) r.
Proof. exact scan_step_spec. Qed.
Print Assumptions C09_scan_step_invariant.

(* E2: the tree builder can always index the scanner output (no IndexError) *)
Theorem C09_structure_total : forall (fo : FloatOps) (vars : vars_t fo) (s : str) toks,
  convert_string fo vars s = Ok toks -> structure fo toks <> None.
Proof. exact convert_string_structure. Qed.
Print Assumptions C09_structure_total.

(* E3: NotImplementedError of the comparison operator needs a symbol outside the six operators ... *)
Theorem C09_cond_op_total : forall (fo : FloatOps) sym (l r : value fo),
  In sym cond_ops -> nocrash (cond_op fo sym l r).
Proof. exact cond_op_nocrash. Qed.
Print Assumptions C09_cond_op_total.

(* ... and every tree built from scanner output carries complete operators and value leaves *)
Theorem C09_trees_well_formed : forall (fo : FloatOps) (vars : vars_t fo) (s : str) toks,
  convert_string fo vars s = Ok toks -> safe (good_tree fo) (build_tree fo toks).
Proof.
  intros fo vars s toks H. apply build_tree_spec.
  pose proof (convert_string_spec fo vars s) as Hs. rewrite H in Hs. exact Hs.
Qed.
Print Assumptions C09_trees_well_formed.

(* E4: the only modelled crash of the tokenizer is exhaustion of the model's own step budget *)
Theorem C09_tokenize_crash_only_fuel : forall (fo : FloatOps) (vars : vars_t fo) (s : str) k,
  tokenize fo vars s = Crash k -> k = KOutOfFuel.
Proof. exact tokenize_crash_only_fuel. Qed.
Print Assumptions C09_tokenize_crash_only_fuel.

(* E5: the step budget of the scanner model, (n+2)*(n+8), is never exhausted ... *)
Theorem C09_scanner_budget_suffices : forall (fo : FloatOps) (vars : vars_t fo) (s : str),
  convert_string fo vars s <> Crash KOutOfFuel.
Proof. exact convert_string_fuel. Qed.
Print Assumptions C09_scanner_budget_suffices.

(* ... each iteration of the scanner loop pays two units of the potential Phi ... *)
Theorem C09_scan_step_potential : forall (fo : FloatOps) (vars : vars_t fo) (s : sd fo) r,
  Inv fo s -> Inv5 fo s -> scan_step fo vars s = Some r ->
  okP (fun s' => Inv5 fo s' /\ Phi fo s' + 2 <= Phi fo s) r.
Proof. exact scan_step_spec5. Qed.
Print Assumptions C09_scan_step_potential.

(* ... so the scanner never crashes *)
Theorem C09_scanner_never_crashes : forall (fo : FloatOps) (vars : vars_t fo) (s : str) k,
  convert_string fo vars s <> Crash k.
Proof. exact convert_string_never_crashes. Qed.
Print Assumptions C09_scanner_never_crashes.

(* the group strings handed to the recursive call are strictly shorter than the input *)
Theorem C09_groups_shorter : forall (fo : FloatOps) (vars : vars_t fo) (s : str) toks,
  convert_string fo vars s = Ok toks ->
  Forall (fun p => match p with PGroup inner _ => length inner < length s | _ => True end) toks.
Proof.
  intros fo vars s toks H. pose proof (convert_string_groups fo vars s) as Hg.
  rewrite H in Hg. exact Hg.
Qed.
Print Assumptions C09_groups_shorter.

(* E4 + E5, the main theorem: for all inputs the tokenizer model returns a value, a documented
   compile error, or Unmodelled -- never a crash, not even exhaustion of its own fuel *)
Theorem C09_tokenize_never_crashes : forall (fo : FloatOps) (vars : vars_t fo) (s : str) k,
  tokenize fo vars s <> Crash k.
Proof. exact tokenize_never_crashes. Qed.
Print Assumptions C09_tokenize_never_crashes.
