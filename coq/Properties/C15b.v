(* C15 (two-run simulations) -- the effect of each compile option, as a relation between two runs
   of the same commands under option records that differ in exactly one field.
   Statements only; proofs live in Proofs/RelLift.v (relational lifting library) and
   Proofs/TwoRuns.v (the three instances).

   [set_comments o b], [set_suppress o b], [set_flipper o b] : [o] with one field replaced.
   [same_failure r1 r2] : both succeed, or both fail with the same error class and the same trace,
     or both crash with the same kind, or both leave the modelled fragment.
   [erase_rem d] : [d] without the lines tagged [ByCommand "Rem"] ("Rem" is the one class of the
     generated palette whose run kind is RKRem).
   [keepw w] : the text of [w] does not start with "The command on line " -- in any run, exactly the
     warnings that are not unknown-command warnings (C15b_unknown_warning_iff).
   [flipper_line cur] : the first word of [cur] is claimed by a Flipper-only class of the palette.
   [is_flip_tag t] : [t] is [ByCommand n] with [n] the name of a Flipper-only class of the palette.

   NOTE (3): the statement "if the enabled run succeeds and no output line is tagged by a
   Flipper-only class, the disabled run gives the same result" is FALSE of the model
   (C15b_startenv_hides_flipper: STARTENV discards the output of the file it runs).  It is proved for
   programs that cannot import files (C15b_flipper_gate_no_imports_partial and the iff below); the
   gap is: file systems with files, where the hypothesis would have to be "no STARTENV is executed". *)
From Coq Require Import String Ascii NArith ZArith List Bool.
From DS Require Import Base PyStr Values Expr TabParse Tables Constants Interp.
From DS Require Import DuckyGrammar RelLift TwoRuns FlipEvidence.
Import ListNotations.
Arguments IOk {A}. Arguments IErr {A}. Arguments ICrash {A}. Arguments IUnmod {A}.

(* ------------------------------------------------------------------ (1) comments *)
Theorem C15b_rem_class_unique :
  map fst (filter (fun p => is_rem_class (snd p)) palette) = [rem_name]
  /\ rem_name = map N_of_ascii (list_ascii_of_string "Rem").
Proof. exact (conj rem_class_unique rem_name_text). Qed.
Print Assumptions C15b_rem_class_unique.

Theorem C15b_comments_interleave :
  forall (fo : FloatOps) (o : options) (fs : fsys) (file : option path) (cmds : list item) g1 r1 g2 r2,
  compile_items fo (set_comments o true) fs file cmds = (g1, r1) ->
  compile_items fo (set_comments o false) fs file cmds = (g2, r2) ->
  g1 = g2 /\ same_failure r1 r2 /\
  forall c1 c2, r1 = IOk c1 -> r2 = IOk c2 ->
    erase_rem (out fo c1) = out fo c2 /\
    (forall l, In l (out fo c2) -> is_rem_tag (o_tag l) = false) /\
    final_env fo c1 = final_env fo c2 /\ prints fo c1 = prints fo c2 /\ warnings fo c1 = warnings fo c2.
Proof. exact comments_interleave. Qed.
Print Assumptions C15b_comments_interleave.

Theorem C15b_comments_interleave_text :
  forall (fo : FloatOps) (o : options) (fs : fsys) (file : option path) (text : str) g1 r1 g2 r2,
  compile_text fo (set_comments o true) fs file text = (g1, r1) ->
  compile_text fo (set_comments o false) fs file text = (g2, r2) ->
  g1 = g2 /\ same_failure r1 r2 /\
  forall c1 c2, r1 = IOk c1 -> r2 = IOk c2 ->
    erase_rem (out fo c1) = out fo c2 /\
    (forall l, In l (out fo c2) -> is_rem_tag (o_tag l) = false) /\
    final_env fo c1 = final_env fo c2 /\ prints fo c1 = prints fo c2 /\ warnings fo c1 = warnings fo c2.
Proof. exact comments_interleave_text. Qed.
Print Assumptions C15b_comments_interleave_text.

(* ------------------------------------------------------------------ (2) suppressed warnings *)
Theorem C15b_suppress_warnings :
  forall (fo : FloatOps) (o : options) (fs : fsys) (file : option path) (cmds : list item) g1 r1 g2 r2,
  compile_items fo (set_suppress o false) fs file cmds = (g1, r1) ->
  compile_items fo (set_suppress o true) fs file cmds = (g2, r2) ->
  g_prints g1 = g_prints g2 /\ g_warnings g2 = filter keepw (g_warnings g1) /\ same_failure r1 r2 /\
  forall c1 c2, r1 = IOk c1 -> r2 = IOk c2 ->
    out fo c1 = out fo c2 /\ final_env fo c1 = final_env fo c2 /\ prints fo c1 = prints fo c2 /\
    warnings fo c2 = filter keepw (warnings fo c1).
Proof. exact suppress_warnings. Qed.
Print Assumptions C15b_suppress_warnings.

(* in any run, the warnings removed by [filter keepw] are exactly the unknown-command warnings *)
Theorem C15b_unknown_warning_iff :
  forall (fo : FloatOps) (o : options) (fs : fsys) (file : option path) (cmds : list item) g r w,
  compile_items fo o fs file cmds = (g, r) -> In w (g_warnings g) ->
  (is_unknown_warning w = true <-> exists n, w_text w = unknown_warning_text n).
Proof. exact unknown_warning_iff. Qed.
Print Assumptions C15b_unknown_warning_iff.

(* ------------------------------------------------------------------ (3) the Flipper gate *)
Theorem C15b_flipper_gate :
  forall (fo : FloatOps) (o : options) (fs : fsys) (file : option path) (cmds : list item) g1 r1 g2 r2,
  compile_items fo (set_flipper o true) fs file cmds = (g1, r1) ->
  compile_items fo (set_flipper o false) fs file cmds = (g2, r2) ->
  (g1 = g2 /\ r1 = r2) \/
  (exists t pile fr, r2 = IErr EInvalidCommand t /\ t = Some (pile ++ [fr]) /\ flipper_line (fr_line fr)).
Proof. exact flipper_gate. Qed.
Print Assumptions C15b_flipper_gate.

Theorem C15b_flipper_line_refused :
  forall (fo : FloatOps) (child : runner fo) (cx : ctx) c n cb cmd more cname cl (s : st fo),
  flipper_commands (c_opts cx) = false ->
  split_ws1 c = cmd :: more -> find_command palette cmd cb = Some (cname, cl) ->
  cls_flipper_only cl = true ->
  exec_line fo child cx c n cb s = (s, IErr EInvalidCommand (Some (here cx (c, n) (s_line2 fo s)))).
Proof. exact flipper_line_refused. Qed.
Print Assumptions C15b_flipper_line_refused.

(* the disabled run never emits a line tagged by a Flipper-only class *)
Theorem C15b_disabled_no_flipper_output :
  forall (fo : FloatOps) (o : options) (fs : fsys) (file : option path) (cmds : list item) g c,
  flipper_commands o = false ->
  compile_items fo o fs file cmds = (g, IOk c) ->
  forall l, In l (out fo c) -> is_flip_tag (o_tag l) = false.
Proof. exact disabled_no_flipper_output. Qed.
Print Assumptions C15b_disabled_no_flipper_output.

(* COUNTEREXAMPLE to the output-tag formulation in general:
   main.txt = "STARTENV lib" / "STRING x", lib.txt = "ALTCHAR 65" *)
Theorem C15b_startenv_hides_flipper : forall fo : FloatOps,
  exists g1 c1 g2 t,
    compile_items fo (set_flipper cex_opts true) cex_fs (Some [lit "main.txt"]) cex_prog = (g1, IOk c1)
    /\ map o_text (out fo c1) = [lit "STRING x"]
    /\ existsb (fun l => is_flip_tag (o_tag l)) (out fo c1) = false
    /\ compile_items fo (set_flipper cex_opts false) cex_fs (Some [lit "main.txt"]) cex_prog
       = (g2, IErr EInvalidCommand t).
Proof. exact startenv_hides_flipper. Qed.
Print Assumptions C15b_startenv_hides_flipper.

(* the corrected statement, for programs that cannot import files *)
Theorem C15b_flipper_gate_no_imports_partial :
  forall (fo : FloatOps) (o : options) (fs : fsys) (file : option path) (cmds : list item) g1 r1 g2 r2,
  (forall target, fs target = None) ->
  compile_items fo (set_flipper o true) fs file cmds = (g1, r1) ->
  compile_items fo (set_flipper o false) fs file cmds = (g2, r2) ->
  forall c1, r1 = IOk c1 -> (forall l, In l (out fo c1) -> is_flip_tag (o_tag l) = false) ->
  g2 = g1 /\ r2 = r1.
Proof. exact flipper_gate_no_imports_partial. Qed.
Print Assumptions C15b_flipper_gate_no_imports_partial.

Theorem C15b_flipper_gate_iff_no_imports_partial :
  forall (fo : FloatOps) (o : options) (fs : fsys) (file : option path) (cmds : list item) g1 c1 g2 r2,
  (forall target, fs target = None) ->
  compile_items fo (set_flipper o true) fs file cmds = (g1, IOk c1) ->
  compile_items fo (set_flipper o false) fs file cmds = (g2, r2) ->
  ((forall l, In l (out fo c1) -> is_flip_tag (o_tag l) = false) <-> (g2 = g1 /\ r2 = IOk c1)) /\
  ((exists l, In l (out fo c1) /\ is_flip_tag (o_tag l) = true) ->
   exists t pile fr, r2 = IErr EInvalidCommand t /\ t = Some (pile ++ [fr]) /\ flipper_line (fr_line fr)).
Proof. exact flipper_gate_iff_no_imports_partial. Qed.
Print Assumptions C15b_flipper_gate_iff_no_imports_partial.

(* ------------------------------------------------------------------ witnesses (non-vacuity of (1), (2)) *)
Theorem C15b_comments_witness : forall fo : FloatOps,
  exists g1 c1 g2 c2,
    compile_items fo (set_comments wit_opts true) (fun _ => None) None wit_prog = (g1, IOk c1) /\
    compile_items fo (set_comments wit_opts false) (fun _ => None) None wit_prog = (g2, IOk c2) /\
    map o_text (out fo c1) = [lit "REM hello"; lit "STRING x"; lit "FOO bar"; lit "REM a"; lit "REM b"] /\
    map o_text (out fo c2) = [lit "STRING x"; lit "FOO bar"].
Proof. exact comments_witness. Qed.
Print Assumptions C15b_comments_witness.

Theorem C15b_suppress_witness : forall fo : FloatOps,
  exists g1 c1 g2 c2,
    compile_items fo (set_suppress wit_opts false) (fun _ => None) None wit_prog = (g1, IOk c1) /\
    compile_items fo (set_suppress wit_opts true) (fun _ => None) None wit_prog = (g2, IOk c2) /\
    map w_text (warnings fo c1) = [unknown_warning_text 3] /\ warnings fo c2 = [].
Proof. exact suppress_witness. Qed.
Print Assumptions C15b_suppress_witness.
