(* C07 -- RUN / FUNC / RETURN.  Statements only.
   "RUN f a1,...,ak executes the body of the latest visible definition of f with each argument
    bound to the parameter in the same position, splices the body's output at the call site;
    RETURN ends only the function; calling an undefined function, passing the wrong number of
    arguments, or letting BREAKLOOP/CONTINUELOOP escape a function is a compile error." *)
From Coq Require Import NArith ZArith List Bool.
From DS Require Import Base PyStr Values Expr TabParse Interp Tables Constants.
From DS Require Import ScopeProofs PipelineProofs StackLift UnknownWarn MoreProofs Spelling RunProofs FuncProofs RunArgs.
Import ListNotations.
Arguments IOk {A}. Arguments IErr {A}. Arguments ICrash {A}. Arguments IUnmod {A}.
Arguments s_g {fo}. Arguments s_env {fo}. Arguments s_line2 {fo}. Arguments mkSt {fo}.

(* ------------------------------------------------------------------ run_compile for RUN, completely *)
Theorem run_unfold : forall (fo : FloatOps) child cx cur cname sc name a num orig fname var_string s,
  s_run sc = RKRun ->
  break_arg (content_text a) = (fname, var_string) ->
  run_compile fo child cx cur cname sc name (Some (mkLine a num orig)) s =
  match arg_values fo (s_env s) var_string with
  | Ok vals =>
      match lookup fname (e_funcs fo (s_env s)) with
      | None => (s, IErr EVarNonExistent (Some (here cx cur (s_line2 s))))
      | Some f =>
          if negb (Nat.eqb (length (fn_args f)) (length vals))
          then (s, IErr EInvalidArguments (Some (here cx cur (s_line2 s))))
          else call_result fo child cx cur f vals s
      end
  | Err e => (s, IErr e (Some (here cx cur (s_line2 s))))
  | Crash k => (s, ICrash k)
  | Unmodelled => (s, IUnmod)
  end.
Proof. exact RunProofs.run_unfold. Qed.
Print Assumptions run_unfold.

(* (a) *)
Theorem run_undefined : forall (fo : FloatOps) child cx cur cname sc name a num orig fname var_string s vals,
  s_run sc = RKRun -> break_arg (content_text a) = (fname, var_string) ->
  arg_values fo (s_env s) var_string = Ok vals ->
  lookup fname (e_funcs fo (s_env s)) = None ->
  run_compile fo child cx cur cname sc name (Some (mkLine a num orig)) s =
  (s, IErr EVarNonExistent (Some (here cx cur (s_line2 s)))).
Proof. exact RunProofs.run_undefined. Qed.
Print Assumptions run_undefined.

(* (b) *)
Theorem run_arity : forall (fo : FloatOps) child cx cur cname sc name a num orig fname var_string s vals f,
  s_run sc = RKRun -> break_arg (content_text a) = (fname, var_string) ->
  arg_values fo (s_env s) var_string = Ok vals ->
  lookup fname (e_funcs fo (s_env s)) = Some f ->
  length (fn_args f) <> length vals ->
  run_compile fo child cx cur cname sc name (Some (mkLine a num orig)) s =
  (s, IErr EInvalidArguments (Some (here cx cur (s_line2 s)))).
Proof. exact RunProofs.run_arity. Qed.
Print Assumptions run_arity.

(* (c) the child is called with the function's code, its file (the caller's when it has none), the
   copied-in environment with the parameters written in order; the output is spliced; SNormal and
   SReturn are absorbed, SBreak / SContinue are an error; the caller's environment is updated from
   the callee's final one *)
Theorem run_binds : forall (fo : FloatOps) child cx cur cname sc name a num orig fname var_string s vals f g' cr cenv2,
  s_run sc = RKRun -> break_arg (content_text a) = (fname, var_string) ->
  arg_values fo (s_env s) var_string = Ok vals ->
  lookup fname (e_funcs fo (s_env s)) = Some f ->
  length (fn_args f) = length vals ->
  stack_full cx = false ->
  child (mkCtx (c_opts cx) (c_fs cx) (here cx cur (s_line2 s))
               (match fn_file f with Some p => Some p | None => c_file cx end))
        (s_g s)
        (bind_params fo (fn_args f) vals (append_env fo (empty_env fo) (s_env s)))
        (fn_code f) = (g', IOk (cr, cenv2)) ->
  run_compile fo child cx cur cname sc name (Some (mkLine a num orig)) s =
  (mkSt g' (update_from_env fo (s_env s) cenv2) (s_line2 s),
   if escapes (cr_sig cr) then IErr EStackReturnType (Some (here cx cur (s_line2 s)))
   else IOk (RComp (mkCret (cr_data cr) SNormal))).
Proof. exact RunProofs.run_binds. Qed.
Print Assumptions run_binds.

Theorem run_body_error : forall (fo : FloatOps) child cx cur cname sc name a num orig fname var_string s vals f g' e t,
  s_run sc = RKRun -> break_arg (content_text a) = (fname, var_string) ->
  arg_values fo (s_env s) var_string = Ok vals ->
  lookup fname (e_funcs fo (s_env s)) = Some f ->
  length (fn_args f) = length vals ->
  stack_full cx = false ->
  child (callee_ctx cx cur f (s_line2 s)) (s_g s) (callee_env fo f vals (s_env s)) (fn_code f) = (g', IErr e t) ->
  run_compile fo child cx cur cname sc name (Some (mkLine a num orig)) s =
  (mkSt g' (s_env s) (s_line2 s), IErr e t).
Proof. exact RunProofs.run_body_error. Qed.
Print Assumptions run_body_error.

Theorem run_stack_overflow : forall (fo : FloatOps) child cx cur cname sc name a num orig fname var_string s vals f,
  s_run sc = RKRun -> break_arg (content_text a) = (fname, var_string) ->
  arg_values fo (s_env s) var_string = Ok vals ->
  lookup fname (e_funcs fo (s_env s)) = Some f ->
  length (fn_args f) = length vals ->
  stack_full cx = true ->
  run_compile fo child cx cur cname sc name (Some (mkLine a num orig)) s =
  (s, IErr EStackOverflow (Some (here cx cur (s_line2 s)))).
Proof. exact RunProofs.run_stack_overflow. Qed.
Print Assumptions run_stack_overflow.

(* positional binding *)
Theorem bind_params_positional : forall (fo : FloatOps) (params : list str) vals (ce : env fo) i,
  NoDup params -> length params = length vals -> i < length params ->
  lookup (nth i params []) (e_user fo (bind_params fo params vals ce)) = Some (nth i vals VNone).
Proof. exact RunProofs.bind_params_positional. Qed.
Print Assumptions bind_params_positional.

(* in general the last pair with the name wins; other names keep the copied-in value *)
Theorem bind_params_lookup : forall (fo : FloatOps) (params : list str) vals (ce : env fo) (x : str),
  lookup x (e_user fo (bind_params fo params vals ce)) =
  match lookup x (rev (combine params vals)) with
  | Some v => Some v
  | None => lookup x (e_user fo ce)
  end.
Proof. exact RunProofs.bind_params_lookup. Qed.
Print Assumptions bind_params_lookup.

Theorem bind_params_duplicate_last : forall (fo : FloatOps) (ce : env fo) (p : str) (v1 v2 : value fo),
  lookup p (e_user fo (bind_params fo [p; p] [v1; v2] ce)) = Some v2.
Proof. exact RunProofs.bind_params_duplicate_last. Qed.
Print Assumptions bind_params_duplicate_last.

Theorem callee_param_bound : forall (fo : FloatOps) f vals (caller : env fo) i,
  NoDup (fn_args f) -> length (fn_args f) = length vals -> i < length (fn_args f) ->
  lookup (nth i (fn_args f) []) (e_user fo (callee_env fo f vals caller)) = Some (nth i vals VNone).
Proof. exact RunProofs.callee_param_bound. Qed.
Print Assumptions callee_param_bound.

Theorem callee_sees_caller_vars : forall (fo : FloatOps) f vals (caller : env fo) x,
  nodup_keys (e_user fo caller) -> ~ In x (fn_args f) ->
  lookup x (e_user fo (callee_env fo f vals caller)) = lookup x (e_user fo caller).
Proof. exact RunProofs.callee_sees_caller_vars. Qed.
Print Assumptions callee_sees_caller_vars.

Theorem caller_after_call : forall (fo : FloatOps) (caller cenv2 : env fo) x,
  lookup x (e_user fo (update_from_env fo caller cenv2)) =
  (if has_key x (e_user fo caller) then lookup x (e_user fo cenv2) else None) /\
  e_funcs fo (update_from_env fo caller cenv2) = e_funcs fo caller /\
  e_temp fo (update_from_env fo caller cenv2) = e_temp fo caller.
Proof. exact RunProofs.caller_after_call. Qed.
Print Assumptions caller_after_call.

(* (d) the argument values *)
Theorem arg_values_single : forall (fo : FloatOps) (e : env fo) vs v,
  is_blank vs = false -> tokenize fo (all_vars fo e) vs = Ok v ->
  (forall xs, v <> VList xs) -> arg_values fo e (Some vs) = Ok [v].
Proof. exact RunProofs.arg_values_single. Qed.
Print Assumptions arg_values_single.

Theorem arg_values_list : forall (fo : FloatOps) (e : env fo) vs xs,
  is_blank vs = false -> tokenize fo (all_vars fo e) vs = Ok (VList xs) ->
  arg_values fo e (Some vs) = Ok xs.
Proof. exact RunProofs.arg_values_list. Qed.
Print Assumptions arg_values_list.

(* t1 , t2 , ... , tk (k >= 2) in any whitespace layout: argument i is the value of token i *)
Theorem arg_values_comma : forall (fo : FloatOps) (e : env fo) lay t1 t2 ts,
  let vars := all_vars fo e in
  let toks := comma_toks t1 (t2 :: ts) in
  is_sop t1 = false -> is_sop t2 = false -> value_toks ts ->
  well_formed fo vars toks -> layout_ok lay -> boundaries_ok fo vars lay toks ->
  not_list fo (val_of fo vars t1) ->
  is_blank (spell lay toks) = false ->
  arg_values fo e (Some (spell lay toks)) = Ok (map (val_of fo vars) (t1 :: t2 :: ts)).
Proof. exact RunArgs.arg_values_comma. Qed.
Print Assumptions arg_values_comma.

Theorem arg_values_one : forall (fo : FloatOps) (e : env fo) lay t,
  let vars := all_vars fo e in
  is_sop t = false -> well_formed fo vars [t] -> layout_ok lay -> boundaries_ok fo vars lay [t] ->
  is_blank (spell lay [t]) = false ->
  arg_values fo e (Some (spell lay [t])) = Ok (spread fo (normalise fo (val_of fo vars t))).
Proof. exact RunArgs.arg_values_one. Qed.
Print Assumptions arg_values_one.

(* (e) FUNC stores the record; the latest definition is the visible one; a definition made in a
   block dies with it *)
Theorem func_defines : forall (fo : FloatOps) child cx cur bc cname cmd num (a : str) code_block fname var_string s,
  is_func_class bc -> a <> [] ->
  break_arg (strip a) = (fname, var_string) ->
  names_ok fname (func_params var_string) = true ->
  block_compile fo child cx cur bc cname cmd num (Some a) code_block s =
  (mkSt (s_g s)
        (define fo fname (mkFunc (func_params var_string) (block_of code_block) (c_file cx)) (s_env s))
        (s_line2 s),
   IOk RNone).
Proof. exact FuncProofs.func_defines. Qed.
Print Assumptions func_defines.

Theorem func_bad_name : forall (fo : FloatOps) child cx cur bc cname cmd num (a : str) code_block fname var_string s,
  is_func_class bc -> a <> [] ->
  break_arg (strip a) = (fname, var_string) ->
  names_ok fname (func_params var_string) = false ->
  block_compile fo child cx cur bc cname cmd num (Some a) code_block s =
  (s, IErr EUnacceptableVarName (Some (here cx cur (s_line2 s)))).
Proof. exact FuncProofs.func_bad_name. Qed.
Print Assumptions func_bad_name.

Theorem func_dispatch : forall cmd k x r, (k = s_FUNC \/ k = s_FUNCTION) -> upper cmd = k -> starts_dollar cmd = false ->
  exists cname bc, find_command palette cmd (Some (x :: r)) = Some (cname, Block bc) /\ is_func_class bc.
Proof. exact FuncProofs.find_func. Qed.
Print Assumptions func_dispatch.

Theorem latest_definition : forall (fo : FloatOps) fname f1 f2 (e : env fo),
  lookup fname (e_funcs fo (define fo fname f2 (define fo fname f1 e))) = Some f2 /\
  define fo fname f2 (define fo fname f1 e) = define fo fname f2 e.
Proof. exact FuncProofs.latest_definition. Qed.
Print Assumptions latest_definition.

Theorem define_lookup_other : forall (fo : FloatOps) fname g f (e : env fo), g <> fname ->
  lookup g (e_funcs fo (define fo fname f e)) = lookup g (e_funcs fo e).
Proof. exact FuncProofs.define_lookup_other. Qed.
Print Assumptions define_lookup_other.

Theorem definition_dies_with_block : forall (fo : FloatOps) child cx cur code file setup pre s s' r,
  run_child_with fo child cx cur code file false setup pre s = (s', r) ->
  e_funcs fo (s_env s') = e_funcs fo (s_env s).
Proof. exact FuncProofs.definition_dies_with_block. Qed.
Print Assumptions definition_dies_with_block.

Theorem call_keeps_caller_funcs : forall (fo : FloatOps) child cx cur f vals s,
  e_funcs fo (s_env (fst (call_result fo child cx cur f vals s))) = e_funcs fo (s_env s).
Proof. exact FuncProofs.call_keeps_caller_funcs. Qed.
Print Assumptions call_keeps_caller_funcs.

(* (f) RETURN in a stack, in the body of a function, in the main stack *)
Theorem return_top_level : forall (fo : FloatOps) child cx pre c cmd n post acc s s1 acc1,
  is_blank c = false -> split_ws1 c = [cmd] -> return_word cmd -> block_after post = None ->
  exec_cmds fo child cx pre acc s = (s1, IOk (mkCret acc1 SNormal)) ->
  exec_cmds fo child cx (pre ++ Ln c n :: post) acc s =
  (mkSt (s_g s1) (s_env s1) (Some (c, n)), IOk (mkCret acc1 SReturn)).
Proof. exact FuncProofs.return_top_level. Qed.
Print Assumptions return_top_level.

Theorem run_with_return : forall (fo : FloatOps) child cx pre c cmd n post g e s1 acc1,
  is_blank c = false -> split_ws1 c = [cmd] -> return_word cmd -> block_after post = None ->
  exec_cmds fo child cx pre [] (mkSt g e None) = (s1, IOk (mkCret acc1 SNormal)) ->
  run_with fo child cx g e (pre ++ Ln c n :: post) = (s_g s1, IOk (mkCret acc1 SReturn, s_env s1)).
Proof. exact FuncProofs.run_with_return. Qed.
Print Assumptions run_with_return.

Theorem compile_items_return : forall (fo : FloatOps) o fs file pre c cmd n post s1 acc1,
  is_blank c = false -> split_ws1 c = [cmd] -> return_word cmd -> block_after post = None ->
  exec_cmds fo (child_of fo (run_depth o)) (mkCtx o fs [] file) pre []
            (mkSt (mkGlob [] []) (initial_env fo) None) = (s1, IOk (mkCret acc1 SNormal)) ->
  compile_items fo o fs file (pre ++ Ln c n :: post) =
  (s_g s1, IOk (mkCompiled fo acc1 (rev (g_warnings (s_g s1))) (s_env s1) (rev (g_prints (s_g s1))))).
Proof. exact FuncProofs.compile_items_return. Qed.
Print Assumptions compile_items_return.

(* a RUN line in a stack *)
Theorem run_line_splices : forall (fo : FloatOps) child cx c cmd (a : str) more n rest acc s fname var_string vals f g' cr cenv2,
  is_blank c = false -> split_ws1 c = cmd :: a :: more -> upper cmd = s_RUN -> starts_dollar cmd = false ->
  a <> [] -> block_after rest = None ->
  break_arg (strip a) = (fname, var_string) ->
  arg_values fo (s_env s) var_string = Ok vals ->
  lookup fname (e_funcs fo (s_env s)) = Some f ->
  length (fn_args f) = length vals ->
  stack_full cx = false ->
  child (callee_ctx cx (c, n) f (Some (c, n))) (s_g s) (callee_env fo f vals (s_env s)) (fn_code f)
    = (g', IOk (cr, cenv2)) ->
  cr_sig cr = SNormal \/ cr_sig cr = SReturn ->
  exec_cmds fo child cx (Ln c n :: rest) acc s =
  exec_cmds fo child cx rest (acc ++ cr_data cr)
            (mkSt g' (update_from_env fo (s_env s) cenv2) (Some (c, n))).
Proof. exact FuncProofs.run_line_splices. Qed.
Print Assumptions run_line_splices.

Theorem run_line_undefined : forall (fo : FloatOps) child cx c cmd (a : str) more n rest acc s fname var_string vals,
  is_blank c = false -> split_ws1 c = cmd :: a :: more -> upper cmd = s_RUN -> starts_dollar cmd = false ->
  a <> [] -> block_after rest = None ->
  break_arg (strip a) = (fname, var_string) ->
  arg_values fo (s_env s) var_string = Ok vals ->
  lookup fname (e_funcs fo (s_env s)) = None ->
  exec_cmds fo child cx (Ln c n :: rest) acc s =
  (mkSt (s_g s) (s_env s) (Some (c, n)), IErr EVarNonExistent (Some (here cx (c, n) (Some (c, n))))).
Proof. exact FuncProofs.run_line_undefined. Qed.
Print Assumptions run_line_undefined.

Theorem run_line_arity : forall (fo : FloatOps) child cx c cmd (a : str) more n rest acc s fname var_string vals f,
  is_blank c = false -> split_ws1 c = cmd :: a :: more -> upper cmd = s_RUN -> starts_dollar cmd = false ->
  a <> [] -> block_after rest = None ->
  break_arg (strip a) = (fname, var_string) ->
  arg_values fo (s_env s) var_string = Ok vals ->
  lookup fname (e_funcs fo (s_env s)) = Some f ->
  length (fn_args f) <> length vals ->
  exec_cmds fo child cx (Ln c n :: rest) acc s =
  (mkSt (s_g s) (s_env s) (Some (c, n)), IErr EInvalidArguments (Some (here cx (c, n) (Some (c, n))))).
Proof. exact FuncProofs.run_line_arity. Qed.
Print Assumptions run_line_arity.

Theorem run_line_escape : forall (fo : FloatOps) child cx c cmd (a : str) more n rest acc s fname var_string vals f g' cr cenv2,
  is_blank c = false -> split_ws1 c = cmd :: a :: more -> upper cmd = s_RUN -> starts_dollar cmd = false ->
  a <> [] -> block_after rest = None ->
  break_arg (strip a) = (fname, var_string) ->
  arg_values fo (s_env s) var_string = Ok vals ->
  lookup fname (e_funcs fo (s_env s)) = Some f ->
  length (fn_args f) = length vals ->
  stack_full cx = false ->
  child (callee_ctx cx (c, n) f (Some (c, n))) (s_g s) (callee_env fo f vals (s_env s)) (fn_code f)
    = (g', IOk (cr, cenv2)) ->
  cr_sig cr = SBreak \/ cr_sig cr = SContinue ->
  exists s', exec_cmds fo child cx (Ln c n :: rest) acc s =
             (s', IErr EStackReturnType (Some (here cx (c, n) (Some (c, n))))).
Proof. exact FuncProofs.run_line_escape. Qed.
Print Assumptions run_line_escape.
