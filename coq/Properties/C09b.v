(* C09 (whole model) -- for any source text and any options, compiling either returns a result or
   raises an error of the documented compile-error family; no other exception ever escapes.
   Statements only; proofs live in Proofs/CrashFree.v.  In the model an escaping Python exception
   outside the compile-error family is the outcome [ICrash k]. *)
From Coq Require Import NArith ZArith List Bool.
From DS Require Import Base PyStr Values Expr TabParse Tables Constants Interp CrashKinds CrashFree.
Import ListNotations.

(* ------------------------------------------------------------------ the main theorems *)
Theorem C09_compile_text_never_crashes :
  forall (fo : FloatOps) (o : options) (fs : fsys) (file : option path) (text : str) g k,
    compile_text fo o fs file text <> (g, ICrash _ k).
Proof. exact compile_text_never_crashes. Qed.
Print Assumptions C09_compile_text_never_crashes.

Theorem C09_compile_items_never_crashes :
  forall (fo : FloatOps) (o : options) (fs : fsys) (file : option path) (cmds : list item) g k,
    compile_items fo o fs file cmds <> (g, ICrash _ k).
Proof. exact compile_items_never_crashes. Qed.
Print Assumptions C09_compile_items_never_crashes.

Theorem C09_compile_raw_never_crashes :
  forall (fo : FloatOps) (o : options) (fs : fsys) (file : option path) (lines : list raw) g k,
    compile_raw fo o fs file lines <> (g, ICrash _ k).
Proof. exact compile_raw_never_crashes. Qed.
Print Assumptions C09_compile_raw_never_crashes.

(* positive form: the three possible outcomes *)
Theorem C09_compile_text_outcomes :
  forall (fo : FloatOps) (o : options) (fs : fsys) (file : option path) (text : str),
  exists g, (exists c, compile_text fo o fs file text = (g, IOk _ c))
         \/ (exists e t, compile_text fo o fs file text = (g, IErr _ e t))
         \/ compile_text fo o fs file text = (g, IUnmod _).
Proof. exact compile_text_outcomes. Qed.
Print Assumptions C09_compile_text_outcomes.

(* the depth-indexed interpreter, for every stack of the pile: given at least as much model depth
   as the configured limit can still use, Stack.run never crashes *)
Theorem C09_run_never_crashes : forall (fo : FloatOps) d cx g e cmds,
  (stack_limit (c_opts cx) <= Z.of_nat (length (c_pile cx)) + 1 + Z.of_nat d)%Z ->
  forall g' k, run fo d cx g e cmds <> (g', ICrash _ k).
Proof. exact run_never_crashes. Qed.
Print Assumptions C09_run_never_crashes.

(* the generic form: Stack.run over [child] introduces NO crash kind of its own -- for every set K
   of kinds, if the child stack (called after the limit check) and the expression tokenizer stay
   within K, so does Stack.run.  (Proofs/CrashKinds.run_with_kinds needs six premises  K k .) *)
Theorem C09_stack_run_adds_no_crash : forall (fo : FloatOps) (K : crashkind -> Prop) child cx,
  child_ok fo K child cx ->
  (forall vars s, res_ok K (tokenize fo vars s)) ->
  forall g e cmds, ires_ok K (run_with fo child cx g e cmds).
Proof. exact run_with_ok'. Qed.
Print Assumptions C09_stack_run_adds_no_crash.

(* ------------------------------------------------------------------ the guards, site by site *)
(* 1: Stack.run only dispatches non-blank lines, whose first word exists *)
Theorem C09_first_word_exists : forall c, is_blank c = false -> split_ws1 c <> [].
Proof. exact split_ws1_nonblank. Qed.
Print Assumptions C09_first_word_exists.

(* 2, 3, 5, 7: the facts about the GENERATED palette, checked by evaluation *)
Theorem C09_palette_ok : palette_ok = true.
Proof. exact palette_ok_true. Qed.
Print Assumptions C09_palette_ok.

Theorem C09_dispatch_ok : forall cmd cb n c, find_command palette cmd cb = Some (n, c) -> cls_ok c = true.
Proof. exact find_command_ok. Qed.
Print Assumptions C09_dispatch_ok.

Theorem C09_unknown_command_ok : simple_ok generic_simple = true.
Proof. exact generic_simple_ok. Qed.
Print Assumptions C09_unknown_command_ok.

(* 4: Var -- strip().split(maxsplit=1) and split(maxsplit=1) have the same number of parts, so the
   validator's verdict covers the unpacking in run_compile *)
Theorem C09_split_strip_len : forall s, length (split_ws1 (strip s)) = length (split_ws1 s).
Proof. exact split_ws1_strip_len. Qed.
Print Assumptions C09_split_strip_len.

Theorem C09_var_validator_guards : forall params v s,
  var_guard v = true -> eval_validator params v (AStr s) = Ok true -> length (split_ws1 s) = 2.
Proof. exact var_guard_accepts. Qed.
Print Assumptions C09_var_validator_guards.

(* 5: a DSL term that is well-typed for the arg_type of its class is total on contents of that type *)
Theorem C09_validator_total : forall params at_ v c,
  validator_typed at_ v = true -> typed at_ c -> exists x, eval_validator params v c = Ok x.
Proof. exact eval_validator_total. Qed.
Print Assumptions C09_validator_total.

Theorem C09_formatter_total : forall params at_ f c,
  formatter_typed at_ f = true -> typed at_ c ->
  exists c', eval_formatter params f c = Ok c' /\ typed at_ c'.
Proof. exact eval_formatter_total. Qed.
Print Assumptions C09_formatter_total.

(* 6: a child stack pushed without a pre-condition always reports a result *)
Theorem C09_run_child_reports : forall (fo : FloatOps) child cx cur code file parallel setup s s' r,
  run_child_with fo child cx cur code file parallel setup (fun _ => Ok true) s = (s', IOk _ r) -> r <> None.
Proof. exact run_child_with_some. Qed.
Print Assumptions C09_run_child_reports.

(* 9: the tab parser's own fuel is never exhausted *)
Theorem C09_prepare_text_total : forall text, prepare_text text <> TErr TabFuel.
Proof. exact prepare_text_total. Qed.
Print Assumptions C09_prepare_text_total.

(* 2: a command whose run_compile dereferences its argument is never run without one ... *)
Theorem C09_required_commands_get_an_argument : forall sc,
  simple_ok sc = true -> needs_arg (s_run sc) = true -> arg_pre sc None -> False.
Proof. exact arg_none_contra. Qed.
Print Assumptions C09_required_commands_get_an_argument.

(* 3: ... and Enter / Whitespace / DefaultDelay only ever see integer contents (so the
   [unmod] branch of DefaultDelay on a str content is unreachable as well) *)
Theorem C09_int_commands_get_ints : forall sc l s,
  simple_ok sc = true -> int_run (s_run sc) = true -> arg_pre sc (Some l) -> l_content l = AStr s -> False.
Proof. exact arg_str_contra. Qed.
Print Assumptions C09_int_commands_get_ints.

(* the command pipeline establishes [arg_pre] for every argument handed to run_compile, for every
   class accepted by [simple_ok]; Start additionally needs the file checked by exec_line *)
Theorem C09_simple_compile_adds_no_crash :
  forall (fo : FloatOps) (K : crashkind -> Prop) child cx,
  child_ok fo K child cx -> (forall vars s, res_ok K (tokenize fo vars s)) ->
  forall cur cname tg sc cmd num argument code_block,
  simple_ok sc = true -> (s_run sc = RKStart -> c_file cx <> None) ->
  M_ok K (simple_compile fo child cx cur cname tg sc cmd num argument code_block).
Proof. exact simple_compile_ok'. Qed.
Print Assumptions C09_simple_compile_adds_no_crash.

Theorem C09_block_compile_adds_no_crash :
  forall (fo : FloatOps) (K : crashkind -> Prop) child cx,
  child_ok fo K child cx -> (forall vars s, res_ok K (tokenize fo vars s)) ->
  forall cur bc cname cmd num argument code_block,
  block_ok bc = true ->
  M_ok K (block_compile fo child cx cur bc cname cmd num argument code_block).
Proof. exact block_compile_ok'. Qed.
Print Assumptions C09_block_compile_adds_no_crash.
