(* C04 (scanner part) -- the value is independent of spacing; variables contribute their current
   value, including names that are prefixes of one another.  Statements only; proofs live in Proofs/.
   Vocabulary: Spec/Spelling.v.  Token kinds: integer literals, negative integer literals, string
   literals, TRUE/FALSE, defined variables, the 14 operator symbols (no floats, no groups). *)
From Coq Require Import NArith ZArith List Bool.
From DS Require Import Base PyStr Values Tables Expr ExprSafety ExprAst Spelling ScanRun ScanTokens ScanSpelled.
Import ListNotations.

(* Scanner correctness: for every whitespace layout (runs of any length, possibly empty, of any Unicode
   whitespace) the scanner returns exactly the tokens that were spelled.  The only side conditions are
   those on variable names ([well_formed]: first character, no keyword is a prefix, defined) and on the
   character that follows a variable name ([boundaries_ok]). *)
Theorem scan_spelled_C04b : forall (fo : FloatOps) (vars : vars_t fo) (lay : layout) (toks : list stok),
  alternating toks -> well_formed fo vars toks -> layout_ok lay -> boundaries_ok fo vars lay toks ->
  convert_string fo vars (spell lay toks) = Ok (map (ptok_of fo vars) toks).
Proof. exact scan_spelled. Qed.
Print Assumptions scan_spelled_C04b.

(* When every defined name is an identifier (VariableEnvironment.is_var) and the names used are
   identifiers that neither start with TRUE/FALSE nor are a prefix of them, no layout can go wrong:
   [boundaries_ok] holds for every layout. *)
Theorem boundaries_of_ident_C04b : forall (fo : FloatOps) (vars : vars_t fo) (toks : list stok) (lay : layout),
  vars_ident fo vars -> alternating toks -> well_formed fo vars toks -> strict toks -> layout_ok lay ->
  boundaries_ok fo vars lay toks.
Proof. exact boundaries_of_ident_alt. Qed.
Print Assumptions boundaries_of_ident_C04b.

Theorem scan_spelled_ident_C04b : forall (fo : FloatOps) (vars : vars_t fo) (lay : layout) (toks : list stok),
  vars_ident fo vars -> alternating toks -> well_formed fo vars toks -> strict toks -> layout_ok lay ->
  convert_string fo vars (spell lay toks) = Ok (map (ptok_of fo vars) toks).
Proof. exact scan_spelled_ident. Qed.
Print Assumptions scan_spelled_ident_C04b.

(* Spacing independence of the token list ... *)
Theorem spacing_independent_tokens_C04b : forall (fo : FloatOps) (vars : vars_t fo) (lay1 lay2 : layout) (toks : list stok),
  alternating toks -> well_formed fo vars toks ->
  layout_ok lay1 -> boundaries_ok fo vars lay1 toks ->
  layout_ok lay2 -> boundaries_ok fo vars lay2 toks ->
  convert_string fo vars (spell lay1 toks) = convert_string fo vars (spell lay2 toks).
Proof. exact spacing_independent_tokens. Qed.
Print Assumptions spacing_independent_tokens_C04b.

(* ... and of the value: [tokenize] of any layout is the layout-free [value_of_tokens] (precedence
   passes on the spelled tokens, then evaluation) *)
Theorem tokenize_spelled_C04b : forall (fo : FloatOps) (vars : vars_t fo) (lay : layout) (toks : list stok),
  alternating toks -> well_formed fo vars toks -> layout_ok lay -> boundaries_ok fo vars lay toks ->
  tokenize fo vars (spell lay toks) = value_of_tokens fo vars toks.
Proof. exact tokenize_spelled. Qed.
Print Assumptions tokenize_spelled_C04b.

(* with C04 (precedence): if the spelled tokens are the in-order tokens of a well-bracketed tree, the
   value is the value of that tree *)
Theorem tokenize_spelled_tree_C04b : forall (fo : FloatOps) (vars : vars_t fo) (lay : layout) (toks : list stok) (t : ptree fo),
  alternating toks -> well_formed fo vars toks -> layout_ok lay -> boundaries_ok fo vars lay toks ->
  map (ptok_of fo vars) toks = flatten fo t -> wb fo all_rows t ->
  tokenize fo vars (spell lay toks) =
  (do v <- solve fo (fun _ => Crash KOther) t; Ok (normalise fo v)).
Proof. exact tokenize_spelled_tree. Qed.
Print Assumptions tokenize_spelled_tree_C04b.

Theorem spacing_independent_C04b : forall (fo : FloatOps) (vars : vars_t fo) (lay1 lay2 : layout) (toks : list stok),
  alternating toks -> well_formed fo vars toks ->
  layout_ok lay1 -> boundaries_ok fo vars lay1 toks ->
  layout_ok lay2 -> boundaries_ok fo vars lay2 toks ->
  tokenize fo vars (spell lay1 toks) = tokenize fo vars (spell lay2 toks).
Proof. exact spacing_independent. Qed.
Print Assumptions spacing_independent_C04b.

Theorem spacing_independent_ident_C04b : forall (fo : FloatOps) (vars : vars_t fo) (lay1 lay2 : layout) (toks : list stok),
  vars_ident fo vars -> alternating toks -> well_formed fo vars toks -> strict toks ->
  layout_ok lay1 -> layout_ok lay2 ->
  tokenize fo vars (spell lay1 toks) = tokenize fo vars (spell lay2 toks).
Proof. exact spacing_independent_ident. Qed.
Print Assumptions spacing_independent_ident_C04b.

(* The prefix-chain case, at the level of one token: the name c0 :: n' is defined with value v.
   Whatever other names are defined -- prefixes of it, extensions of it -- the scanner, started at the
   name, appends exactly PVal v and stops right after the name, provided (1) the first character is not
   whitespace, a quote, numeric, "-" or ".", (2) no keyword is a prefix of the name, (3) no keyword
   starts with name ++ [next character] (with the name itself when the text ends there), and (4) no
   defined name starts with name ++ [next character]. *)
Theorem var_token_C04b : forall (fo : FloatOps) (vars : vars_t fo) c0 n' r out v,
  name_first_ok c0 ->
  (forall w, In w bool_keywords -> startswith w (c0 :: n') = false) ->
  match r with
  | [] => cands bool_keywords (c0 :: n') = []
  | c :: _ => cands bool_keywords ((c0 :: n') ++ [c]) = []
  end ->
  lookup (c0 :: n') vars = Some v ->
  kw_follow (map fst vars) (c0 :: n') r ->
  leads fo vars (TS fo ((c0 :: n') ++ r) false out) (TS fo r true (PVal v :: out)).
Proof. exact var_token. Qed.
Print Assumptions var_token_C04b.

(* Operators: from a token-start state in operator position whose text begins with one of the 14
   symbols, the scanner appends exactly that operator (after back-tracking through the earlier operator
   classes), provided no operator of the class starts with sym ++ [next character] ... *)
Theorem op_token_C04b : forall (fo : FloatOps) (vars : vars_t fo) oc sym r out,
  In (oc, sym) op_table -> kw_follow (ops_of oc) sym r ->
  leads fo vars (TS fo (sym ++ r) true out) (TS fo r false (POp oc sym :: out)).
Proof. exact op_token. Qed.
Print Assumptions op_token_C04b.

(* ... which can only fail for "/" before "/" and "<", ">" before "=" -- never before whitespace or a
   value.  In particular "-" in operator position is always the operator. *)
Theorem op_follow_any_C04b : forall oc sym c,
  In (oc, sym) op_table -> sym <> [47]%N -> sym <> [60]%N -> sym <> [62]%N ->
  cands (ops_of oc) (sym ++ [c]) = [].
Proof. exact op_follow_any. Qed.
Print Assumptions op_follow_any_C04b.

Theorem op_follow_ok_C04b : forall oc sym c,
  In (oc, sym) op_table -> (c =? 47)%N = false -> (c =? 61)%N = false ->
  cands (ops_of oc) (sym ++ [c]) = [].
Proof. exact op_follow_ok. Qed.
Print Assumptions op_follow_ok_C04b.

(* [leads] is about results of the scanner loop with enough fuel; the budget of convert_string is enough *)
Theorem reaches_convert_C04b : forall (fo : FloatOps) (vars : vars_t fo) (s : str) r,
  reaches fo vars (TS fo s false []) r -> convert_string fo vars s = r.
Proof. exact reaches_convert. Qed.
Print Assumptions reaches_convert_C04b.

(* condition (3) is necessary at the end of the text: a variable whose name is a proper prefix of
   TRUE / FALSE cannot be read there, whatever is defined (defect: Boolean is tried before Variable) *)
Theorem keyword_prefix_name_at_end_fails_C04b : forall (fo : FloatOps) (vars : vars_t fo) name out,
  In name [[84]; [84;82]; [84;82;85]; [70]; [70;65]; [70;65;76]; [70;65;76;83]]%N ->
  reaches fo vars (TS fo name false out) (Err EExpectedToken).
Proof. exact keyword_prefix_name_at_end_fails. Qed.
Print Assumptions keyword_prefix_name_at_end_fails_C04b.

(* the decimal value used by [ptok_of] is what Python's int() returns; the pinned operator table is
   the generated one *)
Theorem py_int_digits_C04b : forall ds, is_digits ds = true -> py_int ds = Some (Z.of_N (dec_value ds 0)).
Proof. exact py_int_digits. Qed.
Print Assumptions py_int_digits_C04b.

Theorem op_table_generated_C04b : forall oc sym, In (oc, sym) op_table <-> In sym (ops_of oc).
Proof. exact op_table_generated. Qed.
Print Assumptions op_table_generated_C04b.
