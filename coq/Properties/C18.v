(* C18 -- PRINT is a side channel.  Statements only. *)
From Coq Require Import NArith ZArith List Bool.
From DS Require Import Base PyStr Values TabParse Interp MoreProofs.
Import ListNotations.

Theorem print_adds_one_record_and_no_output : forall (fo : FloatOps) child cx cur cname sc name a num orig s,
  s_run sc = RKPrint ->
  run_compile fo child cx cur cname sc name (Some (mkLine a num orig)) s =
  (mkSt (mkGlob (mkPrint (content_text a) num (c_file cx) :: g_prints (s_g s)) (g_warnings (s_g s))) (s_env s) (s_line2 s),
   IOk (RComp (mkCret [] SNormal))).
Proof. exact print_is_side_channel. Qed.
Print Assumptions print_adds_one_record_and_no_output.

Theorem pass_emits_nothing : forall (fo : FloatOps) child cx cur cname sc name arg s,
  s_run sc = RKPass -> run_compile fo child cx cur cname sc name arg s = (s, IOk RNone).
Proof. exact pass_is_silent. Qed.
Print Assumptions pass_emits_nothing.
