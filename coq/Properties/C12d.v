(* C12d -- THE UNIFIED REFERENCE SEMANTICS (Spec/CoreAll.v) and its refinement.  Statements only.

   Spec/CoreAll.v extends Spec/CoreFunc.v with PRINT / $PRINT, REM, unknown words and the START
   family over a multi-file program.  The judgement
       exec_list fo sys prog inc sup  d pile cf n F f vs p   sg F' f' vs' out ev
   reads: the statements p stand from line n on in file cf, the stacks below are [pile] (one frame
   per running block / call / import: file, line text, line number), they start with function
   table F, IF flag f, store vs and end with signal sg, table F', flag f', store vs', output lines
   out (code lines and comment lines) and EVENTS ev (prints with text, line, file; warnings), in
   execution order, needing at most d stacks above the current one.  prog : the files; inc / sup :
   the options include_comments / supress_command_not_exist.
       uruns fo prog inc sup entry d sg F' f' vs' out ev  = the same for compiling the entry file.
   prints_of ev: the prints; warnings_of ev: the warnings, DE-DUPLICATED as the code does (a warning
   equal to an earlier one -- same text, same located pile of stacks -- is dropped).

   Proofs: Proofs/CoreAllLines.v (well-formedness uwf, the new line forms), CoreAllBase.v (reading
   the spec's frames / warnings / prints on the interpreter side: conc_*, apply_evs; tables utab_rel;
   simulation relation over a GROWING glob), CoreAllRefine.v (the induction), CoreAllTop.v
   (Compiler.compile), CoreAllExample.v (two-file witness), CoreAllCor.v / CoreAllNoUnknown.v /
   CoreAllImports.v (corollaries on the specification alone).

   Findings (what the code does where the obvious semantics says otherwise), all confirmed by the
   refinement theorem:
     (!) an unknown word passes through IN UPPER CASE;
     (!) warnings are de-duplicated by (text, whole stack trace): an unknown command in a loop body
         warns once, in a function called from two lines twice;
     (!) START/STARTENV assign EVERY variable and function of the imported file's final state in
         the importer (existing ones are UPDATED in place, new ones appended); STARTCODE behaves
         like a block (assignments to existing variables persist, nothing new, table unchanged);
     (!) the imported file runs with NO IF flag and cannot change the importer's;
     (!) RETURN in the file ends the file only; a stray BREAKLOOP / CONTINUELOOP ends the file too,
         with the warning "Program was exited using ..." -- the import itself ends normally;
     (!) STARTENV drops the file's output but KEEPS its prints and warnings;
     (!) the circularity test looks at the files of ALL running stacks, including the DEFINING file
         of a function being called: a function defined in lib and called from main cannot import
         main (via_function_has_no_derivation);
     (!) the body of a function runs "in" its defining file: its prints carry that file and the
         line numbers of the definition, whoever calls it. *)
From Coq Require Import String NArith ZArith List Bool.
From DS Require Import Base PyStr Values Expr TabParse Tables Constants Interp ScopeProofs ImportGraph.
From DS Require Import CoreLang CoreWf CoreRefine CoreFunc CoreFuncRefine.
From DS Require Import CoreAll CoreAllLines CoreAllBase CoreAllRefine CoreAllTop CoreAllExample CoreAllCor CoreAllImports.
Import ListNotations.

Arguments IOk {A}. Arguments IErr {A}.
Arguments e_sys : clear implicits. Arguments e_user : clear implicits. Arguments e_temp : clear implicits.
Arguments e_funcs : clear implicits. Arguments mkEnv : clear implicits.
Arguments s_g {fo}. Arguments s_env {fo}. Arguments s_line2 {fo}. Arguments mkSt {fo}.

(* ================================================================== 1. the refinement *)
(* [prog_ok dir prog fs]: the file system fs holds every file m of the program at dir/m.txt, its
   text parses (prepare_text) to the concrete form of its statements, which are well spelled (uwf).
   Then a derivation for the entry file within the stack limit IS what Compiler.compile computes:
   output texts, prints (as print_recs with line and file), warnings (de-duplicated, with their
   stack traces), final variables, flag and function table. *)
Theorem C12d_refinement_compile_items : forall (fo : FloatOps) (dir : path) (prog : program) (fs : fsys)
    o entry d sg Fs' f' vs' out ev,
  prog_ok dir prog fs ->
  uruns fo prog (include_comments o) (supress_command_not_exist o) entry d sg Fs' f' vs' out ev ->
  (Z.of_nat d < stack_limit o)%Z ->
  exists stmts ol F', lookup entry prog = Some stmts /\
    map o_text ol = map line_text out /\ utab_rel dir Fs' F' /\
    compile_items fo o fs (Some (file_of dir entry)) (uitems_of stmts) =
    (CoreAllBase.apply_evs dir ev (mkGlob [] []),
     IOk (mkCompiled fo ol
            (map (CoreAllBase.conc_warning dir) (warnings_of ev))
            (mkEnv fo (initial_sys fo) vs' (flag_var fo f') F')
            (map (CoreAllBase.conc_print dir) (prints_of ev)))).
Proof. exact refine_compile_items. Qed.
Print Assumptions C12d_refinement_compile_items.

(* the `run` form: any stack (pile, current file), any starting store and function table *)
Theorem C12d_refinement_run : forall (fo : FloatOps) (sys : store fo), nodup_keys sys ->
  forall (dir : path) (prog : program) (inc sup : bool) (fs : fsys), prog_ok dir prog fs ->
  forall d0 pile cf n Fs vs p sg Fs' f' vs' out ev d cx g F,
  CoreAll.exec_list fo sys prog inc sup d0 pile cf n Fs None vs p sg Fs' f' vs' out ev ->
  uwf_list p -> fits d cx d0 -> cx_ok dir inc sup fs pile cf cx -> nodup_keys vs -> utab_rel dir Fs F ->
  exists ol F', map o_text ol = map line_text out /\ utab_rel dir Fs' F' /\
    run fo d cx g (mkEnv fo sys vs [] F) (uitems_from n p) =
    (CoreAllBase.apply_evs dir ev g, IOk (mkCret ol (sig_of sg), mkEnv fo sys vs' (flag_var fo f') F')).
Proof. exact refine_run. Qed.
Print Assumptions C12d_refinement_run.

(* the `exec_cmds` form: inside any stack, from any related state, after any accumulated output *)
Theorem C12d_refinement_exec_cmds : forall (fo : FloatOps) (sys : store fo), nodup_keys sys ->
  forall (dir : path) (prog : program) (inc sup : bool) (fs : fsys), prog_ok dir prog fs ->
  forall d0 pile cf n Fs f vs p sg Fs' f' vs' out ev d cx acc s g,
  CoreAll.exec_list fo sys prog inc sup d0 pile cf n Fs f vs p sg Fs' f' vs' out ev ->
  uwf_list p -> fits d cx d0 -> cx_ok dir inc sup fs pile cf cx -> CoreAllBase.RR fo sys dir g Fs f vs s ->
  exists s' ol, CoreAllBase.RR fo sys dir (CoreAllBase.apply_evs dir ev g) Fs' f' vs' s' /\
    map o_text ol = map line_text out /\
    exec_cmds fo (CoreRefine.child_of fo d) cx (uitems_from n p) acc s = (s', IOk (mkCret (acc ++ ol) (sig_of sg))).
Proof. exact refine_exec_cmds. Qed.
Print Assumptions C12d_refinement_exec_cmds.

(* reading the glob back: its prints and warnings are those of the events *)
Theorem C12d_glob_prints : forall dir ev,
  rev (g_prints (CoreAllBase.apply_evs dir ev (mkGlob [] []))) = map (CoreAllBase.conc_print dir) (prints_of ev).
Proof. exact prints_of_glob. Qed.
Print Assumptions C12d_glob_prints.

Theorem C12d_glob_warnings : forall dir ev,
  rev (g_warnings (CoreAllBase.apply_evs dir ev (mkGlob [] []))) = map (CoreAllBase.conc_warning dir) (warnings_of ev).
Proof. exact warnings_of_glob. Qed.
Print Assumptions C12d_glob_warnings.

(* the spec's de-duplication test is the code's (warning_eqb on the concrete warnings) *)
Theorem C12d_dedup_is_the_codes : forall dir a b,
  warning_eqb (CoreAllBase.conc_warning dir a) (CoreAllBase.conc_warning dir b) = uwarning_eqb a b.
Proof. exact conc_eqb. Qed.
Print Assumptions C12d_dedup_is_the_codes.

(* ================================================================== 2. the START family, on the spec *)
(* the import rule read both ways: `START name` = the statements of name run as one new stack, in
   file name from line 1, on copies, with no IF flag, any signal absorbed (Broke / Continued with
   the [stray] warning), then merged: overlay (START, STARTENV) or copy_back (STARTCODE); output
   spliced (START, STARTCODE) or dropped (STARTENV); events always kept *)
Theorem C12d_start_rule : forall (fo : FloatOps) (sys : store fo) prog inc sup d pile cf n F f vs k name sg F' f' vs' out ev,
  CoreAll.exec fo sys prog inc sup d pile cf n F f vs (UStart k name) sg F' f' vs' out ev <->
  exists d' stmts sg1 F1 f1 vs1 out1 ev1,
    d = S d' /\ lookup name prog = Some stmts /\ ~ In name (live_files pile cf) /\
    CoreAll.exec_list fo sys prog inc sup d' (pile ++ [mkSF cf (start_head k name) n true]) name 1 F None vs stmts
                      sg1 F1 f1 vs1 out1 ev1 /\
    sg = Normal /\ f' = f /\
    F' = (match k with KCode => F | _ => overlay_defs F1 F end) /\
    vs' = (match k with KCode => copy_back fo vs vs1 | _ => overlay fo vs1 vs end) /\
    out = (match k with KEnv => [] | _ => out1 end) /\
    ev = ev1 ++ stray sg1.
Proof. exact start_iff. Qed.
Print Assumptions C12d_start_rule.

Theorem C12d_startcode_no_new_names : forall (fo : FloatOps) (sys : store fo) prog inc sup d pile cf n F f vs name sg F' f' vs' out ev,
  CoreAll.exec fo sys prog inc sup d pile cf n F f vs (UStart KCode name) sg F' f' vs' out ev ->
  F' = F /\ forall x, In x (map fst vs') -> In x (map fst vs).
Proof. exact startcode_no_new_names. Qed.
Print Assumptions C12d_startcode_no_new_names.

Theorem C12d_startenv_no_output : forall (fo : FloatOps) (sys : store fo) prog inc sup d pile cf n F f vs name sg F' f' vs' out ev,
  CoreAll.exec fo sys prog inc sup d pile cf n F f vs (UStart KEnv name) sg F' f' vs' out ev -> out = [].
Proof. exact startenv_no_output. Qed.
Print Assumptions C12d_startenv_no_output.

(* cycles: a file with a running stack cannot be imported; a missing file neither *)
Theorem C12d_live_file_no_derivation : forall (fo : FloatOps) (sys : store fo) prog inc sup d pile cf n F f vs k name sg F' f' vs' out ev,
  In name (live_files pile cf) ->
  ~ CoreAll.exec fo sys prog inc sup d pile cf n F f vs (UStart k name) sg F' f' vs' out ev.
Proof. exact start_live_no_derivation. Qed.
Print Assumptions C12d_live_file_no_derivation.

Theorem C12d_missing_file_no_derivation : forall (fo : FloatOps) (sys : store fo) prog inc sup d pile cf n F f vs k name sg F' f' vs' out ev,
  lookup name prog = None ->
  ~ CoreAll.exec fo sys prog inc sup d pile cf n F f vs (UStart k name) sg F' f' vs' out ev.
Proof. exact start_missing_no_derivation. Qed.
Print Assumptions C12d_missing_file_no_derivation.

(* diamonds and repeated imports have derivations (the shared file is compiled each time) *)
Theorem C12d_diamond : forall fo inc sup,
  uruns fo diamond inc sup n_a 2 Normal [] None []
        [LCode (CoreAllImports.S_ "STRING leaf"); LCode (CoreAllImports.S_ "STRING leaf")]
        [EvPrint (CoreAllImports.S_ "in d") 2 n_d; EvPrint (CoreAllImports.S_ "in d") 2 n_d].
Proof. exact diamond_has_derivation. Qed.
Print Assumptions C12d_diamond.

Theorem C12d_repeated_import : forall fo inc sup,
  uruns fo twice inc sup n_a 1 Normal [] None [(CoreAllImports.S_ "v", VInt 1)]
        [LCode (CoreAllImports.S_ "STRING leaf"); LCode (CoreAllImports.S_ "STRING leaf")] [].
Proof. exact twice_has_derivation. Qed.
Print Assumptions C12d_repeated_import.

Theorem C12d_cycle : forall fo inc sup d sg F' f' vs' out ev,
  ~ uruns fo cycle inc sup n_a d sg F' f' vs' out ev.
Proof. exact cycle_has_no_derivation. Qed.
Print Assumptions C12d_cycle.

Theorem C12d_self_import : forall fo inc sup d sg F' f' vs' out ev,
  ~ uruns fo self_import inc sup n_a d sg F' f' vs' out ev.
Proof. exact self_import_has_no_derivation. Qed.
Print Assumptions C12d_self_import.

(* (!) the defining file of a function being called is live *)
Theorem C12d_cycle_through_a_function : forall fo inc sup d sg F' f' vs' out ev,
  ~ uruns fo via_function inc sup n_a d sg F' f' vs' out ev.
Proof. exact via_function_has_no_derivation. Qed.
Print Assumptions C12d_cycle_through_a_function.

(* ================================================================== 3. non-vacuity: the two-file program *)
Theorem C12d_two_files_ok : prog_ok ex_dir two_files ex_fs.
Proof. exact two_files_ok. Qed.
Print Assumptions C12d_two_files_ok.

Theorem C12d_two_files_derivation : forall fo inc sup,
  uruns fo two_files inc sup n_main 1 Normal [(CoreAllExample.S_ "greet", greet_def)] None
        [(CoreAllExample.S_ "x", VInt 5)] (ex_out inc) (ex_events sup).
Proof. exact two_files_derivation. Qed.
Print Assumptions C12d_two_files_derivation.

Theorem C12d_two_files_interpreter_comments : forall fo,
  ex_result fo true false =
  Some ([CoreAllExample.S_ "STRING hi"; CoreAllExample.S_ "FOO bar"; CoreAllExample.S_ "REM done"; CoreAllExample.S_ "STRING 5"],
        [mkPrint (CoreAllExample.S_ "loaded") 4 lib_path; mkPrint (CoreAllExample.S_ "hello") 2 lib_path],
        [mkWarn (unknown_warning_text 4) (Some [mkFrame main_path (CoreAllExample.S_ "FOO bar", 4%Z) None])],
        [(CoreAllExample.S_ "x", VInt 5)], [CoreAllExample.S_ "greet"]).
Proof. exact two_files_interpreter_comments. Qed.
Print Assumptions C12d_two_files_interpreter_comments.

Theorem C12d_two_files_interpreter_no_comments : forall fo,
  ex_result fo false false =
  Some ([CoreAllExample.S_ "STRING hi"; CoreAllExample.S_ "FOO bar"; CoreAllExample.S_ "STRING 5"],
        [mkPrint (CoreAllExample.S_ "loaded") 4 lib_path; mkPrint (CoreAllExample.S_ "hello") 2 lib_path],
        [mkWarn (unknown_warning_text 4) (Some [mkFrame main_path (CoreAllExample.S_ "FOO bar", 4%Z) None])],
        [(CoreAllExample.S_ "x", VInt 5)], [CoreAllExample.S_ "greet"]).
Proof. exact two_files_interpreter_no_comments. Qed.
Print Assumptions C12d_two_files_interpreter_no_comments.

Theorem C12d_two_files_by_theorem : forall fo inc sup, exists ol F',
  map o_text ol = map line_text (ex_out inc) /\
  utab_rel ex_dir [(CoreAllExample.S_ "greet", greet_def)] F' /\
  compile_items fo (ex_opts inc sup) ex_fs (Some (file_of ex_dir n_main)) (uitems_of main_stmts) =
  (CoreAllBase.apply_evs ex_dir (ex_events sup) (mkGlob [] []),
   IOk (mkCompiled fo ol
          (map (CoreAllBase.conc_warning ex_dir) (warnings_of (ex_events sup)))
          (mkEnv fo (initial_sys fo) [(CoreAllExample.S_ "x", VInt 5)] [] F')
          (map (CoreAllBase.conc_print ex_dir) (prints_of (ex_events sup))))).
Proof. exact two_files_by_theorem. Qed.
Print Assumptions C12d_two_files_by_theorem.

Theorem C12d_two_files_from_text : forall fo inc sup,
  compile_text fo (ex_opts inc sup) ex_fs (Some (file_of ex_dir n_main)) main_text =
  compile_items fo (ex_opts inc sup) ex_fs (Some (file_of ex_dir n_main)) (uitems_of main_stmts).
Proof. exact two_files_from_text. Qed.
Print Assumptions C12d_two_files_from_text.

(* ================================================================== 4. the rendered file system *)
(* Spec/CoreAllText.v: fs_of u dir prog holds, at dir/m.txt, the text utext_of u stmts of every file.
   PARTIAL: prog_ok for it is reduced to the round trip of each file's text through the parser; the
   general round trip for every well-formed ustmt list is not proved (it is for the witness). *)
From DS Require Import CoreAllText CoreAllFs.

Theorem C12d_prog_ok_fs_of_partial : forall u dir prog,
  (forall m stmts, lookup m prog = Some stmts ->
     uwf_list stmts /\ prepare_text (utext_of u stmts) = TOk (uitems_from 1 stmts)) ->
  prog_ok dir prog (fs_of u dir prog).
Proof. exact prog_ok_fs_of_partial. Qed.
Print Assumptions C12d_prog_ok_fs_of_partial.

Theorem C12d_two_files_texts :
  utext_of four_spaces main_stmts = main_text /\ utext_of four_spaces lib_stmts = lib_text.
Proof. exact two_files_texts. Qed.
Print Assumptions C12d_two_files_texts.

Theorem C12d_two_files_fs_of_ok : prog_ok ex_dir two_files (fs_of four_spaces ex_dir two_files).
Proof. exact two_files_fs_of_ok. Qed.
Print Assumptions C12d_two_files_fs_of_ok.
