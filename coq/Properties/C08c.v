(* C08c -- scoping, as a consequence of the reference semantics Spec/CoreLang.v (which the
   interpreter implements: Properties/C05c.v).  Statements only; proofs in Proofs/CoreScope.v.
     names vs          the variable names of a store, in order
     extends vs vs'    names vs' = names vs ++ extra
     is_block stm      stm is an IF chain, a REPEAT or a WHILE
   The block discipline of the specification is: a body runs on a copy of the enclosing store
   (plus the counter); on exit the enclosing store is  copy_back outer inner. *)
From Coq Require Import NArith ZArith List Bool.
From DS Require Import Base PyStr Values Expr TabParse Tables Constants Interp ScopeProofs.
From DS Require Import CoreLang CoreRefine CoreScope.
Import ListNotations.

(* copy-back, value by value: an outer variable takes the block's value; nothing else exists *)
Theorem C08c_copy_back_values : forall fo (outer inner : store fo) x,
  lookup x (copy_back fo outer inner) = if has_key x outer then lookup x inner else None.
Proof. exact copy_back_values. Qed.
Print Assumptions C08c_copy_back_values.

Theorem C08c_copy_back_names : forall fo (vs vs1 : store fo),
  extends fo vs vs1 -> names fo (copy_back fo vs vs1) = names fo vs.
Proof. exact names_copy_back. Qed.
Print Assumptions C08c_copy_back_names.

(* a block statement is a scope: whatever happens inside (nested blocks, counters, BREAKLOOP),
   the variables after it are those before it, in the same order *)
Theorem C08c_block_statement_is_scope : forall fo sys f vs stm sg f' vs' out,
  exec fo sys f vs stm sg f' vs' out -> is_block stm = true -> names fo vs' = names fo vs.
Proof. exact block_statement_is_scope. Qed.
Print Assumptions C08c_block_statement_is_scope.

(* no statement removes or reorders a variable *)
Theorem C08c_statements_only_add : forall fo sys f vs p sg f' vs' out,
  exec_list fo sys f vs p sg f' vs' out -> extends fo vs vs'.
Proof. exact statements_only_add. Qed.
Print Assumptions C08c_statements_only_add.

Theorem C08c_scope_all : forall fo sys,
  (forall f vs stm sg f' vs' out, exec fo sys f vs stm sg f' vs' out ->
     extends fo vs vs' /\ (is_block stm = true -> names fo vs' = names fo vs)) /\
  (forall f vs p sg f' vs' out, exec_list fo sys f vs p sg f' vs' out -> extends fo vs vs') /\
  (forall b vs arms els sg taken vs' out, exec_arms fo sys b vs arms els sg taken vs' out -> names fo vs' = names fo vs) /\
  (forall f c e body k vs vs' out, exec_repeat fo sys f c e body k vs vs' out -> names fo vs' = names fo vs) /\
  (forall c e body k vs vs' out, exec_while fo sys c e body k vs vs' out -> names fo vs' = names fo vs).
Proof. exact scope_all. Qed.
Print Assumptions C08c_scope_all.
