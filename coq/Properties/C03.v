(* C03 -- indentation alone determines block structure; no code line is ever silently dropped
   or attached to a different block.  Statements only; proofs live in Proofs/TabProofs.v,
   the specification vocabulary in Spec/BlockTree.v. *)
From Coq Require Import NArith ZArith List Bool.
From DS Require Import Base PyStr TabParse BlockTree TabProofs TabRoundTrip.
Import ListNotations.

(* T1: the fuel of the model is sufficient -- the recursion of parse_document is total *)
Theorem C03_fuel_sufficient : forall text tab, parse_doc (S (length text)) text tab <> TErr TabFuel.
Proof. exact parse_doc_total. Qed.
Print Assumptions C03_fuel_sufficient.

Theorem C03_fuel_sufficient_gen : forall fuel text tab,
  length text < fuel -> parse_doc fuel text tab <> TErr TabFuel.
Proof. exact parse_doc_fuel. Qed.
Print Assumptions C03_fuel_sufficient_gen.

(* T2: without quotation lines, the tree lists exactly the non-blank lines, in order, once each *)
Theorem C03_numbers_preserved : forall text t,
  forallb (fun l => negb (char_in 34%N (fst l))) text = true ->
  parse_document text = TOk t ->
  numbers t = map snd (filter (fun l => negb (is_blank (fst l))) text).
Proof. exact parse_document_numbers. Qed.
Print Assumptions C03_numbers_preserved.

(* T3: every leaf of the tree is an input line with the same number, minus leading characters *)
Theorem C03_content_suffix : forall text t,
  parse_document text = TOk t ->
  forall c n, In (c, n) (items_flat t) -> exists c0 p, In (c0, n) text /\ c0 = p ++ c.
Proof. exact parse_document_source. Qed.
Print Assumptions C03_content_suffix.

(* T4: a document whose first code line is indented is rejected, naming that line *)
Theorem C03_orphan_indent : forall blanks a c n rest,
  forallb (fun l : preline => is_blank (fst l)) blanks = true ->
  is_blank (a :: c) = false ->
  a = sp \/ a = tb ->
  parse_document (blanks ++ (a :: c, n) :: rest) = TErr (TabUnexpected n).
Proof. exact orphan_indent_rejected. Qed.
Print Assumptions C03_orphan_indent.

(* T5: round trip.  A forest of statements (Spec/BlockTree.v: each statement text starts with a
   non-whitespace character and does not start with the triple quote), written one statement per
   line with k copies of the indent unit [u] in front of a statement at nesting level k, is parsed
   back to exactly that forest, with line numbers = positions -- for every unit [u] that is
   non-empty, whitespace only and begins with a space or a tab. *)
Theorem C03_round_trip : forall u f,
  wf_unit u -> wf_forest f ->
  parse_document (convert_to (render u f)) = TOk (fst (expected f 1%Z)).
Proof. exact parse_render_round_trip. Qed.
Print Assumptions C03_round_trip.

Theorem C03_unit_independent : forall u1 u2 f,
  wf_unit u1 -> wf_unit u2 -> wf_forest f ->
  parse_document (convert_to (render u1 f)) = parse_document (convert_to (render u2 f)).
Proof. exact parse_render_unit_independent. Qed.
Print Assumptions C03_unit_independent.

(* [render] is the level-prefix rendering: [render_at u pre] writes [pre] in front of the
   statements of the forest and [pre ++ u] in front of their children *)
Theorem C03_render_levels : forall u f, render_at u [] f = render u f.
Proof. exact render_at_eq. Qed.
Print Assumptions C03_render_levels.

(* "no double quote" is enough for a statement text to be well formed *)
Theorem C03_wf_content_no34 : forall x c,
  isspace_c x = false -> char_in 34%N (x :: c) = false -> wf_content (x :: c).
Proof. exact wf_content_no34. Qed.
Print Assumptions C03_wf_content_no34.

(* the hypothesis of T2 is needed: triple-quote delimiter lines are (by design) not in the tree *)
Theorem C03_quote_lines_dropped :
  let text := [(triple_quote, 1%Z); ([97%N], 2%Z); (triple_quote, 3%Z)] in
  parse_document text = TOk [Ln [97%N] 2%Z] /\
  code_numbers text = [1%Z; 2%Z; 3%Z].
Proof. exact quote_lines_dropped. Qed.
Print Assumptions C03_quote_lines_dropped.
