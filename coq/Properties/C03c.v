(* C03c -- indentation alone determines block structure, for CORE PROGRAMS AS TEXT: the compiler's
   result does not depend on the indent unit, and blank lines are irrelevant.  Statements only;
   proofs in Proofs/CoreTextParse.v (unit independence), Proofs/TabRenumber.v (two laws of the
   parser for ANY text: blank lines leave no trace; line numbers are only carried along),
   Proofs/CoreTextBlank.v (blank lines in core programs).  Vocabulary: Spec/CoreText.v (see the
   header of Properties/C05d.v).

   FINDING: at the level of TEXT the round-trip hypothesis [wf_unit u] is not enough: the unit
   must not contain "\n" (wf_unit allows " \n"; witness C05d_unit_newline_counterexample). *)
From Coq Require Import String NArith ZArith List Bool.
From DS Require Import Base PyStr Values Expr TabParse Tables Constants Interp.
From DS Require Import BlockTree ChainLoopExamples CoreLang CoreWf CoreRefine CoreExample.
From DS Require Import CoreText CoreTextForest CoreTextParse CoreTextExample TabRenumber CoreTextBlank.
Import ListNotations.

Arguments IOk {A}. Arguments IErr {A}.

(* ================================================================== unit independence *)
(* from the round trip alone, for ALL core programs whose statement heads are proper code lines
   ([wf_forest (forest_of p)]: first character not white space, no leading triple quote) written
   on one line each: programs that fail, ill-spelled programs, programs with empty blocks
   included.  Both texts are parsed to the same tree, so Compiler.compile gives the same result
   (same output, same error with the same trace, same warnings) *)
Theorem C03c_text_parses_forest : forall u p,
  wf_unit u -> no_nl u -> wf_forest (forest_of p) -> one_line_heads p = true ->
  prepare_text (text_of u p) = TOk (expected_forest (forest_of p) 1%Z).
Proof. exact prepare_text_forest. Qed.
Print Assumptions C03c_text_parses_forest.

Theorem C03c_unit_independence_all : forall fo o fs file u1 u2 p,
  wf_unit u1 -> no_nl u1 -> wf_unit u2 -> no_nl u2 ->
  wf_forest (forest_of p) -> one_line_heads p = true ->
  prepare_text (text_of u1 p) = prepare_text (text_of u2 p) /\
  compile_text fo o fs file (text_of u1 p) = compile_text fo o fs file (text_of u2 p).
Proof. exact unit_independence_forest. Qed.
Print Assumptions C03c_unit_independence_all.

(* well-formed core programs (with or without a derivation) *)
Theorem C03c_unit_independence_core : forall fo o fs file u1 u2 p,
  wf_unit u1 -> no_nl u1 -> wf_unit u2 -> no_nl u2 ->
  wf_list p -> one_line_heads p = true ->
  compile_text fo o fs file (text_of u1 p) = compile_text fo o fs file (text_of u2 p).
Proof. exact unit_independence_core. Qed.
Print Assumptions C03c_unit_independence_core.

(* ================================================================== two laws of the parser, any text *)
(* (1) the parser sees only the non-blank lines (each with its number) *)
Theorem C03c_blank_lines_leave_no_trace : forall fuel text tab,
  parse_doc fuel text tab = parse_doc fuel (filter nonblank_line text) tab.
Proof. exact parse_doc_filter. Qed.
Print Assumptions C03c_blank_lines_leave_no_trace.

(* (2) line numbers are only carried along: renumbering the text by nu (with nu m = 0 <-> m = 0:
       0 is the parser's "no open quotation") renumbers the tree, or the line named by the
       error, and changes nothing else *)
Theorem C03c_renumbering : forall nu : Z -> Z,
  (forall m, (nu m =? 0)%Z = (m =? 0)%Z) ->
  forall fuel text tab,
  parse_doc fuel (map (renum_line nu) text) tab = renum_res nu (parse_doc fuel text tab).
Proof. exact parse_doc_renum. Qed.
Print Assumptions C03c_renumbering.

(* together: blank lines anywhere only move numbers -- the k-th line of ls carries the number
   it has in ls' *)
Theorem C03c_blank_lines_move_numbers : forall ls ls' fuel tab,
  with_blanks ls ls' ->
  exists nu,
    (forall m, (nu m =? 0)%Z = (m =? 0)%Z) /\
    map (renum_line nu) (number_from 1%Z ls) = filter nonblank_line (number_from 1%Z ls') /\
    parse_doc fuel (number_from 1%Z ls') tab = renum_res nu (parse_doc fuel (number_from 1%Z ls) tab).
Proof. exact blank_lines_move_numbers. Qed.
Print Assumptions C03c_blank_lines_move_numbers.

(* ================================================================== blank lines in core programs *)
(* ls' : the lines of a text (none containing "\n") whose non-blank lines are the lines of the
   program.  With and without the blank lines Compiler.compile succeeds with the same output
   texts, the same warnings (signal), the same variables and flag *)
Theorem C03c_blank_lines_irrelevant_core : forall fo o fs file u p ls' sg f' vs' out,
  wf_unit u -> wf_list p -> (Z.of_nat (nesting_list p) < stack_limit o)%Z ->
  with_blanks (lines_of u p) ls' -> Forall no_nl ls' ->
  runs fo p sg f' vs' out ->
  exists ol ol', map o_text ol = out /\ map o_text ol' = out /\
    compile_text fo o fs file (text_of u p) =
    (mkGlob [] (stray_warnings sg),
     IOk (mkCompiled fo ol (stray_warnings sg) (mkEnv fo (initial_sys fo) vs' (flag_var fo f') []) [])) /\
    compile_text fo o fs file (join [nl] ls') =
    (mkGlob [] (stray_warnings sg),
     IOk (mkCompiled fo ol' (stray_warnings sg) (mkEnv fo (initial_sys fo) vs' (flag_var fo f') []) [])).
Proof. exact blank_lines_irrelevant. Qed.
Print Assumptions C03c_blank_lines_irrelevant_core.

(* ================================================================== non-vacuity *)
Open Scope string_scope.
Open Scope list_scope.

(* the main example of C05c with an empty line, lines of blanks and of tabs, blank lines at both ends *)
Theorem C03c_example_with_blanks :
  main_with_blanks =
  [ lit "";
    lit "VAR total 0";
    lit "   ";
    lit "REPEAT i,3";
    tab_unit ++ lit "VAR tmp i*2";
    tab_unit ++ tab_unit ++ tab_unit;
    tab_unit ++ lit "IF i==1";
    tab_unit ++ tab_unit ++ lit "VAR total total+10";
    lit "";
    lit "";
    tab_unit ++ lit "ELSE";
    tab_unit ++ tab_unit ++ lit "VAR total total+tmp";
    tab_unit ++ lit "$STRING total";
    lit " ";
    lit "$STRING total";
    lit "" ] /\
  with_blanks (lines_of tab_unit prog_main) main_with_blanks /\ Forall no_nl main_with_blanks.
Proof. exact (conj eq_refl main_with_blanks_ok). Qed.
Print Assumptions C03c_example_with_blanks.

(* the same tree; the numbers are the positions in the text *)
Theorem C03c_example_with_blanks_parsed :
  exists nu, prepare_text (join [nl] main_with_blanks) = TOk (renum nu (items_of prog_main)) /\
    map nu [1; 2; 3; 4; 5; 6; 7; 8; 9]%Z = [2; 4; 5; 7; 8; 11; 12; 13; 15]%Z.
Proof. exact main_with_blanks_parsed. Qed.
Print Assumptions C03c_example_with_blanks_parsed.

(* the same result (computed) *)
Theorem C03c_example_with_blanks_result : forall fo,
  match compile_text fo default_options (fun _ => None) None (join [nl] main_with_blanks) with
  | (_, IOk c) => Some (map o_text (out fo c), e_user fo (final_env fo c), e_temp fo (final_env fo c), warnings fo c)
  | _ => None
  end = Some ([lit "STRING 0"; lit "STRING 10"; lit "STRING 14"; lit "STRING 14"], [(lit "total", VInt 14)], [], []).
Proof. exact main_with_blanks_result. Qed.
Print Assumptions C03c_example_with_blanks_result.

(* tab and three spaces: the same tree *)
Theorem C03c_example_units :
  prepare_text (text_of tab_unit prog_main) = TOk (items_of prog_main) /\
  prepare_text (text_of three_spaces prog_main) = TOk (items_of prog_main).
Proof. exact main_text_parsed. Qed.
Print Assumptions C03c_example_units.
