(* C10 (whole program) -- "the outer entries list, outermost first, the lines of the blocks, RUN calls
   and START imports that led there; the innermost entry names the command at fault".
   Statements only.  c_pile cx = the frames of the stacks below the current one. *)
From Coq Require Import NArith ZArith List Bool.
From DS Require Import Base PyStr Values TabParse Tables Interp StackLift TraceShape.
Import ListNotations.

(* every error of a stack carries a trace that extends the pile by a line of this stack's file,
   for ANY runner of the stacks above that does the same *)
Theorem trace_extends_pile : forall (fo : FloatOps) (child : runner fo) (cx : ctx),
  (forall cx' g e c g' err t, child cx' g e c = (g', IErr _ err t) ->
     match t with None => True
     | Some fr => exists l2 rest cur, fr = c_pile cx' ++ mkFrame (c_file cx') cur l2 :: rest end) ->
  forall cmds acc s s' err t, exec_cmds fo child cx cmds acc s = (s', IErr _ err t) ->
  match t with None => True
  | Some fr => exists l2 rest cur, fr = c_pile cx ++ mkFrame (c_file cx) cur l2 :: rest end.
Proof. exact TraceShape.exec_cmds_trace_ok. Qed.
Print Assumptions trace_extends_pile.

(* per line: that frame is the command being executed, with its original number *)
Theorem frame_after_pile_is_the_line : forall (fo : FloatOps) (child : runner fo) (cx : ctx),
  trace_runner fo child ->
  forall c n cb s s' err t, exec_line fo child cx c n cb s = (s', IErr _ err t) ->
  match t with None => True
  | Some fr => exists l2 rest, fr = c_pile cx ++ mkFrame (c_file cx) (c, n) l2 :: rest end.
Proof. exact TraceShape.exec_line_trace_at. Qed.
Print Assumptions frame_after_pile_is_the_line.

(* no assumption on the child: where the trace of an error of a line comes from -- no stack at all
   (an imported file that does not parse), raised here, or handed up unchanged from a stack that
   this line started as a block, a RUN call or a START import (child_call, TraceShape.v) *)
Theorem error_origin : forall (fo : FloatOps) (child : runner fo) cx c n cb s s' err t,
  exec_line fo child cx c n cb s = (s', IErr _ err t) ->
  t = None \/
  (exists l2, t = Some (c_pile cx ++ [mkFrame (c_file cx) (c, n) l2])) \/
  (exists l2 file g e code g' err',
     child_call cx c cb file code /\
     child (mkCtx (c_opts cx) (c_fs cx) (c_pile cx ++ [mkFrame (c_file cx) (c, n) l2]) file) g e code
     = (g', IErr _ err' t)).
Proof. exact TraceShape.exec_line_origin. Qed.
Print Assumptions error_origin.

(* a block command (IF / ELSE / REPEAT / WHILE) starts the block that follows it, in the same file *)
Theorem block_runs_its_block_in_the_same_file : forall cx c cb file code cmd more cname bc,
  child_call cx c cb file code ->
  split_ws1 c = cmd :: more -> find_command palette cmd cb = Some (cname, Block bc) ->
  file = c_file cx /\ code = match cb with Some b => b | None => [] end.
Proof. exact TraceShape.child_call_block_inv. Qed.
Print Assumptions block_runs_its_block_in_the_same_file.

(* START starts the parsed text of a file of the file system, under that file's name *)
Theorem start_runs_the_imported_file : forall cx c cb file code cmd more cname sc,
  child_call cx c cb file code ->
  split_ws1 c = cmd :: more -> find_command palette cmd cb = Some (cname, Simple sc) -> s_run sc = RKStart ->
  exists target text, file = Some target /\ c_fs cx target = Some text /\ prepare_text text = TOk code.
Proof. exact TraceShape.child_call_start_inv. Qed.
Print Assumptions start_runs_the_imported_file.

(* raised by this stack itself: the line is the innermost entry *)
Theorem raised_here_is_innermost : forall (fo : FloatOps) (child : runner fo) (cx : ctx),
  (forall cx' g e c g' err t, child cx' g e c <> (g', IErr _ err t)) ->
  forall c n cb s s' err fr, exec_line fo child cx c n cb s = (s', IErr _ err (Some fr)) ->
  exists l2, fr = c_pile cx ++ [mkFrame (c_file cx) (c, n) l2].
Proof. exact TraceShape.exec_line_trace_self. Qed.
Print Assumptions raised_here_is_innermost.

(* the interpreter at every depth *)
Theorem run_trace_ok : forall (fo : FloatOps) d cx g e cmds g' err fr,
  run fo d cx g e cmds = (g', IErr _ err (Some fr)) ->
  exists suffix, fr = c_pile cx ++ suffix /\ suffix <> [].
Proof. exact TraceShape.run_trace_ok. Qed.
Print Assumptions run_trace_ok.

(* the entries beyond the pile, outermost first: each carries the file of its own stack and a
   non-blank top-level line of the code that stack ran; the stack started from it has the entries
   so far as its pile (stack_chain, TraceShape.v); at most depth+1 of them *)
Theorem run_trace_chain : forall (fo : FloatOps) d cx g e cmds g' err fr,
  run fo d cx g e cmds = (g', IErr _ err (Some fr)) ->
  exists suffix, fr = c_pile cx ++ suffix /\ stack_chain cx cmds suffix /\ (length suffix <= S d)%nat.
Proof. exact TraceShape.run_trace_chain. Qed.
Print Assumptions run_trace_chain.

(* two consecutive entries: the first is a line of its stack (with the block that follows it there)
   that started the stack of the second; the second carries that stack's file and one of its lines *)
Theorem trace_step : forall cx cmds fr1 fr2 rest, stack_chain cx cmds (fr1 :: fr2 :: rest) ->
  exists cb file code,
    fr_file fr1 = c_file cx /\ In (fr_line fr1, cb) (line_blocks cmds) /\
    child_call cx (fst (fr_line fr1)) cb file code /\
    fr_file fr2 = file /\ In (fr_line fr2) (top_lines code) /\
    stack_chain (mkCtx (c_opts cx) (c_fs cx) (c_pile cx ++ [fr1]) file) code (fr2 :: rest).
Proof. exact TraceShape.stack_chain_step. Qed.
Print Assumptions trace_step.

(* the innermost entry is the current line of the stack whose pile is everything before it *)
Theorem innermost_names_the_command_at_fault : forall (fo : FloatOps) d cx g e cmds g' err fr,
  run fo d cx g e cmds = (g', IErr _ err (Some fr)) ->
  exists cxL cmdsL cur l2,
    fr = c_pile cxL ++ [mkFrame (c_file cxL) cur l2] /\ In cur (top_lines cmdsL) /\
    (exists pre, c_pile cxL = c_pile cx ++ pre /\ (length pre <= d)%nat).
Proof. exact TraceShape.run_trace_innermost. Qed.
Print Assumptions innermost_names_the_command_at_fault.

(* Compiler.compile: the outermost entry is a line of the main program, in the main file *)
Theorem compile_items_trace : forall (fo : FloatOps) o fs file cmds g err fr,
  compile_items fo o fs file cmds = (g, IErr _ err (Some fr)) ->
  exists c n l2 rest,
    fr = mkFrame file (c, n) l2 :: rest /\ In (Ln c n) cmds /\ is_blank c = false /\
    (length rest <= run_depth o)%nat /\
    stack_chain (mkCtx o fs [] file) cmds fr.
Proof. exact TraceShape.compile_items_trace. Qed.
Print Assumptions compile_items_trace.

Theorem compile_text_trace : forall (fo : FloatOps) o fs file text g err fr,
  compile_text fo o fs file text = (g, IErr _ err (Some fr)) ->
  exists cmds c n l2 rest,
    prepare_text text = TOk cmds /\
    fr = mkFrame file (c, n) l2 :: rest /\ In (Ln c n) cmds /\ is_blank c = false /\
    (length rest <= run_depth o)%nat.
Proof. exact TraceShape.compile_text_trace. Qed.
Print Assumptions compile_text_trace.
