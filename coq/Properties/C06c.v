(* C06c -- "with a counter name the counter takes the values 0..n-1 and exists only inside the
   body" (REPEAT), "its optional counter counting completed iterations" (WHILE).
   Statements only; proofs in Proofs/LoopCounter.v, computed witnesses in Proofs/CounterExamples.v.

   Vocabulary (Proofs/LoopCounter.v):
     iter            one iteration: it_count (counter value), it_start (the parent state it starts
                     in), it_entry (the environment the child stack is ENTERED with), it_cr (what
                     the stack returned), it_exit / it_glob (the environment / globals it left)
     iter_ok vn code i :=
         bind_counter vn (it_count i) (append_env empty_env (s_env (it_start i))) = Ok (it_entry i) /\
         child <ctx of the pushed stack> (s_g (it_start i)) (it_entry i) code = (it_glob i, IOk (it_cr i, it_exit i))
     iter_end i      the parent state after the copy-back (update_from_env) of iteration i
     chain vn code k s its s'   the iterations [its] have counters k, k+1, ... ; the first starts
                     in s, each next one in the iter_end of the previous, the last ends in s'
     while_end vn cond k s_m s' stopped   how a WHILE ends: stopped = true: an iteration stopped it
                     (s' = s_m); stopped = false: the counter was bound to k in a fresh copy of
                     s_m's environment, the condition was false THERE, and that copy was copied back
     dom_le s s'     every user name undefined in s is undefined in s'
   The theorems hold for every child runner (in particular for [run d]) and any fuel.

   FINDING (binding is assignment, and WHILE differs from REPEAT): after `REPEAT i,n` an outer
   variable i holds the counter of the LAST iteration (n-1) unless the body assigned it later;
   after `WHILE i,cond` that ended because cond became false it holds the NUMBER OF COMPLETED
   ITERATIONS (one more than the last counter), because the counter is bound once more for the
   failing check -- also when no iteration ran at all (then 0).  Witnesses below. *)
From Coq Require Import String NArith ZArith List Bool.
From DS Require Import Base PyStr Values Expr TabParse Tables Constants Interp ScopeProofs LoopUnroll LoopCounter.
From DS Require Import ChainLoopExamples CounterExamples.
Import ListNotations.

Arguments IOk {A}. Arguments IErr {A}. Arguments ICrash {A}. Arguments IUnmod {A}.

(* ================================================================== REPEAT *)
(* repeat_counter_values: a successful loop is a chain of iterations with counters count,
   count+1, ... (count = 0 in block_compile); iteration j enters the child stack with
   lookup v = VInt (count + j); the output is the outputs in order *)
Theorem C06c_repeat_counter_values :
  forall (fo : FloatOps) (child : runner fo) (cx : ctx) (cur : preline) (fuel : nat) (v a : str)
         (code : list item) (count : Z) (acc : cret) (s s' : st fo) (cr : cret),
  repeat_loop fo child cx cur fuel (Some v) a code count acc s = (s', IOk cr) ->
  exists its : list (iter fo),
    chain fo child cx cur (Some v) code count s its s' /\
    map (it_count fo) its = map (fun j : nat => (count + Z.of_nat j)%Z) (seq 0 (length its)) /\
    Forall (fun i : iter fo => lookup v (e_user fo (it_entry fo i)) = Some (VInt (it_count fo i))) its /\
    cr_data cr = cr_data acc ++ outputs_of fo its.
Proof. exact repeat_counter_values. Qed.
Print Assumptions C06c_repeat_counter_values.

(* one iteration: the counter is bound, every other user variable is as copied in *)
Theorem C06c_iter_entry_counter :
  forall (fo : FloatOps) (child : runner fo) (cx : ctx) (cur : preline) (v : str) (code : list item) (i : iter fo),
  iter_ok fo child cx cur (Some v) code i ->
  lookup v (e_user fo (it_entry fo i)) = Some (VInt (it_count fo i)) /\
  (forall x : str, x <> v ->
     lookup x (e_user fo (it_entry fo i)) =
     lookup x (e_user fo (append_env fo (empty_env fo) (s_env fo (it_start fo i))))).
Proof. exact iter_entry_counter. Qed.
Print Assumptions C06c_iter_entry_counter.

(* repeat_counter_dies: not defined before the loop => not defined after it -- any number of
   iterations, ANY outcome (success with any signal, compile error, ...), any name *)
Theorem C06c_repeat_counter_dies :
  forall (fo : FloatOps) (child : runner fo) (cx : ctx) (cur : preline) (fuel : nat) (vn : option str)
         (a : str) (code : list item) (count : Z) (acc : cret) (s s' : st fo) (r : ires cret) (x : str),
  repeat_loop fo child cx cur fuel vn a code count acc s = (s', r) ->
  has_key x (e_user fo (s_env fo s)) = false -> has_key x (e_user fo (s_env fo s')) = false.
Proof. exact repeat_counter_dies. Qed.
Print Assumptions C06c_repeat_counter_dies.

(* repeat_counter_assigns_outer: a name defined before the loop: no iteration => state
   unchanged; otherwise (as long as the earlier bodies left the name defined) it holds what the
   LAST iteration's stack left in it, and that stack was entered with the name bound to the
   last counter *)
Theorem C06c_repeat_counter_assigns_outer :
  forall (fo : FloatOps) (child : runner fo) (cx : ctx) (cur : preline) (fuel : nat) (v a : str)
         (code : list item) (count : Z) (acc : cret) (s s' : st fo) (cr : cret),
  repeat_loop fo child cx cur fuel (Some v) a code count acc s = (s', IOk cr) ->
  has_key v (e_user fo (s_env fo s)) = true ->
  exists its : list (iter fo),
    chain fo child cx cur (Some v) code count s its s' /\
    (its = [] -> s' = s) /\
    (forall (pre : list (iter fo)) (i : iter fo),
       its = pre ++ [i] ->
       (forall j : iter fo, In j pre -> has_key v (e_user fo (it_exit fo j)) = true) ->
       lookup v (e_user fo (it_entry fo i)) = Some (VInt (count + Z.of_nat (length pre))) /\
       lookup v (e_user fo (s_env fo s')) = lookup v (e_user fo (it_exit fo i))).
Proof. exact repeat_counter_assigns_outer. Qed.
Print Assumptions C06c_repeat_counter_assigns_outer.

(* ... so when no body touches the name, it ends as the last counter *)
Theorem C06c_repeat_counter_last_value :
  forall (fo : FloatOps) (child : runner fo) (cx : ctx) (cur : preline) (fuel : nat) (v a : str)
         (code : list item) (count : Z) (acc : cret) (s s' : st fo) (cr : cret) (pre : list (iter fo)) (i : iter fo),
  repeat_loop fo child cx cur fuel (Some v) a code count acc s = (s', IOk cr) ->
  has_key v (e_user fo (s_env fo s)) = true ->
  forall its : list (iter fo),
  chain fo child cx cur (Some v) code count s its s' ->
  its = pre ++ [i] ->
  (forall j : iter fo, In j its -> lookup v (e_user fo (it_exit fo j)) = lookup v (e_user fo (it_entry fo j))) ->
  lookup v (e_user fo (s_env fo s')) = Some (VInt (count + Z.of_nat (length pre))).
Proof. exact repeat_counter_last_value. Qed.
Print Assumptions C06c_repeat_counter_last_value.

(* ================================================================== WHILE *)
Theorem C06c_while_counter_values :
  forall (fo : FloatOps) (child : runner fo) (cx : ctx) (cur : preline) (fuel : nat) (v cond : str)
         (code : list item) (count : Z) (acc : cret) (s s' : st fo) (cr : cret),
  while_loop fo child cx cur fuel (Some v) cond code count acc s = (s', IOk cr) ->
  exists (its : list (iter fo)) (s_m : st fo) (stopped : bool),
    chain fo child cx cur (Some v) code count s its s_m /\
    map (it_count fo) its = map (fun j : nat => (count + Z.of_nat j)%Z) (seq 0 (length its)) /\
    Forall (fun i : iter fo =>
              lookup v (e_user fo (it_entry fo i)) = Some (VInt (it_count fo i)) /\
              while_pre fo cond (it_entry fo i) = Ok true) its /\
    while_end fo (Some v) cond (count + Z.of_nat (length its)) s_m s' stopped /\
    cr_data cr = cr_data acc ++ outputs_of fo its.
Proof. exact while_counter_values. Qed.
Print Assumptions C06c_while_counter_values.

Theorem C06c_while_counter_dies :
  forall (fo : FloatOps) (child : runner fo) (cx : ctx) (cur : preline) (fuel : nat) (vn : option str)
         (cond : str) (code : list item) (count : Z) (acc : cret) (s s' : st fo) (r : ires cret) (x : str),
  while_loop fo child cx cur fuel vn cond code count acc s = (s', r) ->
  has_key x (e_user fo (s_env fo s)) = false -> has_key x (e_user fo (s_env fo s')) = false.
Proof. exact while_counter_dies. Qed.
Print Assumptions C06c_while_counter_dies.

(* binding is assignment; ended by the condition: the NUMBER OF COMPLETED ITERATIONS;
   ended by BREAK / RETURN: what the last iteration's stack left (entered with its counter) *)
Theorem C06c_while_counter_assigns_outer :
  forall (fo : FloatOps) (child : runner fo) (cx : ctx) (cur : preline) (fuel : nat) (v cond : str)
         (code : list item) (count : Z) (acc : cret) (s s' : st fo) (cr : cret),
  while_loop fo child cx cur fuel (Some v) cond code count acc s = (s', IOk cr) ->
  has_key v (e_user fo (s_env fo s)) = true ->
  exists (its : list (iter fo)) (s_m : st fo) (stopped : bool),
    chain fo child cx cur (Some v) code count s its s_m /\
    while_end fo (Some v) cond (count + Z.of_nat (length its)) s_m s' stopped /\
    ((forall i : iter fo, In i its -> has_key v (e_user fo (it_exit fo i)) = true) ->
     if stopped
     then forall (pre : list (iter fo)) (i : iter fo),
            its = pre ++ [i] ->
            lookup v (e_user fo (it_entry fo i)) = Some (VInt (count + Z.of_nat (length pre))) /\
            lookup v (e_user fo (s_env fo s')) = lookup v (e_user fo (it_exit fo i))
     else lookup v (e_user fo (s_env fo s')) = Some (VInt (count + Z.of_nat (length its)))).
Proof. exact while_counter_assigns_outer. Qed.
Print Assumptions C06c_while_counter_assigns_outer.

(* ================================================================== the loop command *)
(* block_compile of a REPEAT / WHILE class (what exec_line runs for the loop line, see
   C06b_repeat_line / C06b_while_line): whatever the outcome, no user name is created *)
Theorem C06c_block_compile_loop_dom :
  forall (fo : FloatOps) (child : runner fo) (cx : ctx) (cur : preline) (bc : block_cls) (cname cmd : str)
         (num : Z) (argument : option str) (code_block : option (list item)) (s s' : st fo) (r : ires rc),
  b_kind bc = BKRepeat \/ b_kind bc = BKWhile ->
  block_compile fo child cx cur bc cname cmd num argument code_block s = (s', r) ->
  forall x, has_key x (e_user fo (s_env fo s)) = false -> has_key x (e_user fo (s_env fo s')) = false.
Proof. exact block_compile_loop_dom. Qed.
Print Assumptions C06c_block_compile_loop_dom.

(* ================================================================== computed witnesses *)
Open Scope string_scope.

Theorem C06c_repeat_counter_gone : forall fo,
  texts fo (run_text fo (prog ["REPEAT i,2"; T "$STRING i"; "NOTEXIST i"; "STRING end"]))
  = Some [lit "STRING 0"; lit "STRING 1"; lit "STRING end"].
Proof. exact repeat_counter_gone. Qed.
Print Assumptions C06c_repeat_counter_gone.

Theorem C06c_while_counter_gone : forall fo,
  texts fo (run_text fo (prog ["WHILE i,i<2"; T "$STRING i"; "NOTEXIST i"; "STRING end"]))
  = Some [lit "STRING 0"; lit "STRING 1"; lit "STRING end"].
Proof. exact while_counter_gone. Qed.
Print Assumptions C06c_while_counter_gone.

Theorem C06c_repeat_counter_assigns : forall fo,
  texts fo (run_text fo (prog ["VAR i 100"; "REPEAT i,3"; T "STRING a"; "$STRING i"]))
  = Some [lit "STRING a"; lit "STRING a"; lit "STRING a"; lit "STRING 2"].
Proof. exact repeat_counter_assigns. Qed.
Print Assumptions C06c_repeat_counter_assigns.

Theorem C06c_repeat_zero_keeps : forall fo,
  texts fo (run_text fo (prog ["VAR i 100"; "REPEAT i,0"; T "STRING a"; "$STRING i"])) = Some [lit "STRING 100"].
Proof. exact repeat_zero_keeps. Qed.
Print Assumptions C06c_repeat_zero_keeps.

Theorem C06c_repeat_body_assigns : forall fo,
  texts fo (run_text fo (prog ["VAR i 100"; "REPEAT i,3"; T "VAR i i*10"; "$STRING i"])) = Some [lit "STRING 20"].
Proof. exact repeat_body_assigns. Qed.
Print Assumptions C06c_repeat_body_assigns.

Theorem C06c_while_counter_assigns : forall fo,
  texts fo (run_text fo (prog ["VAR i 100"; "WHILE i,i<3"; T "STRING a"; "$STRING i"]))
  = Some [lit "STRING a"; lit "STRING a"; lit "STRING a"; lit "STRING 3"].
Proof. exact while_counter_assigns. Qed.
Print Assumptions C06c_while_counter_assigns.

Theorem C06c_while_zero_assigns : forall fo,
  texts fo (run_text fo (prog ["VAR i 100"; "WHILE i,FALSE"; T "STRING a"; "$STRING i"])) = Some [lit "STRING 0"].
Proof. exact while_zero_assigns. Qed.
Print Assumptions C06c_while_zero_assigns.

Theorem C06c_while_break_assigns : forall fo,
  texts fo (run_text fo (prog ["VAR i 100"; "WHILE i,TRUE"; T "IF i==2"; T (T "BREAKLOOP"); "$STRING i"]))
  = Some [lit "STRING 2"].
Proof. exact while_break_assigns. Qed.
Print Assumptions C06c_while_break_assigns.
