(* C12 -- path resolution of START.  Statements only. *)
From Coq Require Import NArith ZArith List Bool.
From DS Require Import Base PyStr Values TabParse Interp MoreProofs.
Import ListNotations.

Theorem leading_dot_climbs_one_folder : forall rel wf fuel, wf <> [] ->
  go_up (46%N :: rel) wf (S fuel) = go_up rel (removelast wf) fuel.
Proof. exact go_up_dot. Qed.
Print Assumptions leading_dot_climbs_one_folder.

Theorem climbing_above_root_rejected : forall rel fuel, go_up (46%N :: rel) [] fuel = None.
Proof. exact go_up_root. Qed.
Print Assumptions climbing_above_root_rejected.

Theorem missing_target_is_compile_error :
  forall (fo : FloatOps) child cx cur cname sc name a num orig file target s,
  s_run sc = RKStart -> c_file cx = Some file -> resolve_start file (content_text a) = Ok target -> c_fs cx target = None ->
  run_compile fo child cx cur cname sc name (Some (mkLine a num orig)) s = (s, IErr EInvalidArguments (Some (here cx cur (s_line2 s)))).
Proof. exact start_missing_target. Qed.
Print Assumptions missing_target_is_compile_error.
