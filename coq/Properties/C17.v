(* C17 -- compilations are independent of one another.  Statements only. *)
From Coq Require Import ZArith List Bool.
From DS Require Import Base Values Interp World Constants SmallProofs.
Import ListNotations.

(* the translator's write-effect scan finds no run-time write to class-level / module-level state *)
Theorem no_shared_state_written : world_writes = [].
Proof. exact world_writes_none. Qed.
Print Assumptions no_shared_state_written.

(* the i-th result of any history is the result of that job alone *)
Theorem history_independent : forall (fo : FloatOps) (pre post : list job) (j : job) w,
  nth_error (snd (run_history fo w (pre ++ j :: post))) (length pre) = Some (run_job fo j).
Proof. exact history_independent_lemma. Qed.
Print Assumptions history_independent.

Theorem world_invariant : forall (fo : FloatOps) js w, fst (run_history fo w js) = w.
Proof. exact run_history_world. Qed.
Print Assumptions world_invariant.
