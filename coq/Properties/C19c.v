(* C19c -- CLI o REFERENCE SEMANTICS: "the compile command writes the output file iff compilation
   succeeds, and then its content is exactly the output lines joined by newlines; on a compile
   error it reports the error ... and leaves the output path exactly as it was" -- with
   "compilation succeeds / fails" and "the output lines" now those of the UNIFIED REFERENCE
   SEMANTICS (Spec/CoreAll.v [uruns], Spec/CoreAllErr.v [ufails]), not of the interpreter.
   Statements only; proofs in Proofs/CliSpecCompose.v, witnesses in Proofs/CliSpecExample.v.

   The chain: cli_step = compile_outcome (C19b) ; text on disk parses to the statements (C03d) ;
   compile_items = the derivation (C12d success, C10e failure) ; totality (C09d).

   Vocabulary (Proofs/CliSpecCompose.v):
     on_disk w u dir prog   every file m of prog is the text file dir/m.txt of world w, rendered
                            with the indent unit u.  Nothing is said of the other text files.
     prog_closed dir prog (w_files w)   no script dir/m.txt (m an acceptable name) besides the
                            program's files.  Needed for failure / totality only: `START nope`
                            is an error of the specification, so the file must not exist.
     effective_options w (file_of dir entry) limit comments
                            = calculate_options (flags over the global config) (w_cfg w dir)
                            (C19c_effective_options): ANY global config, ANY flags, the project
                            config of the folder dir.
     world_after_success    the world with OUTPUT written and the two config files normalised.
     cfg_stable w dir pre   if dir has no config.yaml in w, no `new` of pre creates dir.
   Side conditions on the program's spelling, as in C12e: prog_wf prog, wf_unit u, no_nl u.
   Depth: success needs any derivation depth d below the stack limit; a failure derivation is at
   the exact room the limit leaves (room_of_limit), limit >= 1 (as in C10e). *)
From Coq Require Import String NArith ZArith List Bool.
From DS Require Import Base PyStr Values Expr TabParse Tables Constants Interp Options Cli CliWorld ImportGraph.
From DS Require Import FlatExamples CliWorldSpec CliWorldProofs CliWorldHistory.
From DS Require Import BlockTree ChainLoopExamples CoreLang CoreFunc CoreText CoreTextParse.
From DS Require Import CoreAll CoreAllText CoreAllLines CoreAllBase CoreAllRefine CoreAllTop CoreAllExample CoreAllFs.
From DS Require Import CoreAllTextForest CoreAllTextParse CoreAllTextExample CoreAllErr CoreAllErrRefine CoreAllErrExample.
From DS Require Import CoreAllConverse CliSpecCompose CliSpecExample.
Import ListNotations.

(* ================================================================== the hypotheses, read *)
Theorem C19c_effective_options : forall w dir entry limit comments,
  effective_options w (file_of dir entry) limit comments =
  calculate_options (flag_options (global_meaning (w_global w)) limit comments) (w_cfg w dir).
Proof. exact effective_options_file_of. Qed.
Print Assumptions C19c_effective_options.

(* on_disk is exactly what the refinement theorems need of the file system *)
Theorem C19c_on_disk_prog_ok : forall w u dir prog,
  wf_unit u -> no_nl u -> prog_wf prog -> on_disk w u dir prog -> prog_ok dir prog (w_files w).
Proof. exact on_disk_prog_ok. Qed.
Print Assumptions C19c_on_disk_prog_ok.

(* ================================================================== (a) success *)
Theorem C19c_cli_writes_spec_output : forall (fo : FloatOps) w u dir prog entry output limit comments d sg Fs' f' vs' out ev,
  wf_unit u -> no_nl u -> prog_wf prog -> on_disk w u dir prog ->
  uruns fo prog (include_comments (effective_options w (file_of dir entry) limit comments))
        (supress_command_not_exist (effective_options w (file_of dir entry) limit comments))
        entry d sg Fs' f' vs' out ev ->
  (Z.of_nat d < stack_limit (effective_options w (file_of dir entry) limit comments))%Z ->
  exists w',
    cli_step fo w (OpCompile (file_of dir entry) output limit comments) = (w', RSuccess (length (warnings_of ev))) /\
    w_files w' output = Some (join [10%N] (map line_text out)) /\
    (forall q, q <> output -> w_files w' q = w_files w q).
Proof. exact cli_writes_spec_output. Qed.
Print Assumptions C19c_cli_writes_spec_output.

(* the whole new world, configs included *)
Theorem C19c_cli_writes_spec_output_world : forall (fo : FloatOps) w u dir prog entry output limit comments d sg Fs' f' vs' out ev,
  wf_unit u -> no_nl u -> prog_wf prog -> on_disk w u dir prog ->
  uruns fo prog (include_comments (effective_options w (file_of dir entry) limit comments))
        (supress_command_not_exist (effective_options w (file_of dir entry) limit comments))
        entry d sg Fs' f' vs' out ev ->
  (Z.of_nat d < stack_limit (effective_options w (file_of dir entry) limit comments))%Z ->
  cli_step fo w (OpCompile (file_of dir entry) output limit comments) =
  (mkCW (write (w_files w) output (join [10%N] (map line_text out)))
        (w_cfg (normalised w (file_of dir entry) limit comments))
        (w_global (normalised w (file_of dir entry) limit comments)) (w_dirs w),
   RSuccess (length (warnings_of ev))).
Proof. exact cli_writes_spec_output_eq. Qed.
Print Assumptions C19c_cli_writes_spec_output_world.

(* ================================================================== (b) failure *)
(* the report carries the class and the number of prints made before the failure; NO text file
   changes: the file system is the same function, so the output path keeps its content, stale or
   absent *)
Theorem C19c_cli_failure_leaves_output : forall (fo : FloatOps) w u dir prog entry output limit comments er ch ev,
  wf_unit u -> no_nl u -> prog_wf prog -> on_disk w u dir prog -> prog_closed dir prog (w_files w) ->
  (1 <= stack_limit (effective_options w (file_of dir entry) limit comments))%Z ->
  ufails fo prog (include_comments (effective_options w (file_of dir entry) limit comments))
         (supress_command_not_exist (effective_options w (file_of dir entry) limit comments))
         entry (room_of_limit (stack_limit (effective_options w (file_of dir entry) limit comments))) er ch ev ->
  exists w',
    cli_step fo w (OpCompile (file_of dir entry) output limit comments) = (w', RError er (length (prints_of ev))) /\
    w_files w' = w_files w /\ w_files w' output = w_files w output.
Proof. exact cli_failure_leaves_output. Qed.
Print Assumptions C19c_cli_failure_leaves_output.

Theorem C19c_cli_failure_world : forall (fo : FloatOps) w u dir prog entry output limit comments er ch ev,
  wf_unit u -> no_nl u -> prog_wf prog -> on_disk w u dir prog -> prog_closed dir prog (w_files w) ->
  (1 <= stack_limit (effective_options w (file_of dir entry) limit comments))%Z ->
  ufails fo prog (include_comments (effective_options w (file_of dir entry) limit comments))
         (supress_command_not_exist (effective_options w (file_of dir entry) limit comments))
         entry (room_of_limit (stack_limit (effective_options w (file_of dir entry) limit comments))) er ch ev ->
  cli_step fo w (OpCompile (file_of dir entry) output limit comments) =
  (normalised w (file_of dir entry) limit comments, RError er (length (prints_of ev))).
Proof. exact cli_failure_leaves_output_eq. Qed.
Print Assumptions C19c_cli_failure_world.

(* the count in the report: the trace of a failure derivation is always present, so the CLI's
   err_prints is the number of prints of the events *)
Theorem C19c_err_prints : forall dir ev t,
  err_prints (CoreAllBase.apply_evs dir ev (mkGlob [] [])) (Some t) = length (prints_of ev).
Proof. exact err_prints_events. Qed.
Print Assumptions C19c_err_prints.

(* ================================================================== (c) totality *)
Theorem C19c_cli_total : forall (fo : FloatOps) w u dir prog entry stmts output limit comments,
  wf_unit u -> no_nl u -> prog_wf prog -> on_disk w u dir prog -> prog_closed dir prog (w_files w) ->
  tame_prog fo prog -> lookup entry prog = Some stmts ->
  (1 <= stack_limit (effective_options w (file_of dir entry) limit comments))%Z ->
  let o := effective_options w (file_of dir entry) limit comments in
  let step := cli_step fo w (OpCompile (file_of dir entry) output limit comments) in
  (exists sg Fs' f' vs' out ev,
     uruns fo prog (include_comments o) (supress_command_not_exist o) entry (room_of_limit (stack_limit o)) sg Fs' f' vs' out ev /\
     step = (world_after_success w (file_of dir entry) output limit comments out, RSuccess (length (warnings_of ev))))
  \/
  (exists er ch ev,
     ufails fo prog (include_comments o) (supress_command_not_exist o) entry (room_of_limit (stack_limit o)) er ch ev /\
     step = (normalised w (file_of dir entry) limit comments, RError er (length (prints_of ev)))).
Proof. exact cli_total. Qed.
Print Assumptions C19c_cli_total.

Theorem C19c_cli_never_raises : forall (fo : FloatOps) w u dir prog entry stmts output limit comments,
  wf_unit u -> no_nl u -> prog_wf prog -> on_disk w u dir prog -> prog_closed dir prog (w_files w) ->
  tame_prog fo prog -> lookup entry prog = Some stmts ->
  (1 <= stack_limit (effective_options w (file_of dir entry) limit comments))%Z ->
  snd (cli_step fo w (OpCompile (file_of dir entry) output limit comments)) <> RRaised /\
  snd (cli_step fo w (OpCompile (file_of dir entry) output limit comments)) <> RMissingFile.
Proof. exact cli_never_raises. Qed.
Print Assumptions C19c_cli_never_raises.

(* exactly one: a program on disk cannot have both a success derivation within the limit and a
   failure derivation (read off the CLI: the two reports differ) *)
Theorem C19c_success_failure_exclusive : forall (fo : FloatOps) w u dir prog entry limit comments d sg Fs' f' vs' out ev er ch ev',
  wf_unit u -> no_nl u -> prog_wf prog -> on_disk w u dir prog -> prog_closed dir prog (w_files w) ->
  (1 <= stack_limit (effective_options w (file_of dir entry) limit comments))%Z ->
  uruns fo prog (include_comments (effective_options w (file_of dir entry) limit comments))
        (supress_command_not_exist (effective_options w (file_of dir entry) limit comments))
        entry d sg Fs' f' vs' out ev ->
  (Z.of_nat d < stack_limit (effective_options w (file_of dir entry) limit comments))%Z ->
  ufails fo prog (include_comments (effective_options w (file_of dir entry) limit comments))
         (supress_command_not_exist (effective_options w (file_of dir entry) limit comments))
         entry (room_of_limit (stack_limit (effective_options w (file_of dir entry) limit comments))) er ch ev' ->
  False.
Proof. exact cli_success_failure_exclusive. Qed.
Print Assumptions C19c_success_failure_exclusive.

(* ================================================================== (d) histories *)
(* the options of the i-th compile are those of the INITIAL world *)
Theorem C19c_history_effective_options : forall (fo : FloatOps) pre w dir entry limit comments,
  configs_in_existing_dirs w -> cfg_stable w dir pre ->
  effective_options (fst (cli_run fo w pre)) (file_of dir entry) limit comments =
  effective_options w (file_of dir entry) limit comments.
Proof. exact history_effective_options. Qed.
Print Assumptions C19c_history_effective_options.

(* the (length pre)-th operation compiles a program whose files no earlier operation wrote: the
   derivation is stated over the INITIAL world's options and files; the report is its, the output
   file holds its lines, nothing else changes in that step, and a path no operation touched still
   has its initial content *)
Theorem C19c_cli_history_success : forall (fo : FloatOps) pre post w u dir prog entry output limit comments d sg Fs' f' vs' out ev,
  wf_unit u -> no_nl u -> prog_wf prog -> on_disk w u dir prog ->
  (forall m stmts, lookup m prog = Some stmts -> ~ In (file_of dir m) (touched_paths pre)) ->
  configs_in_existing_dirs w -> cfg_stable w dir pre ->
  uruns fo prog (include_comments (effective_options w (file_of dir entry) limit comments))
        (supress_command_not_exist (effective_options w (file_of dir entry) limit comments))
        entry d sg Fs' f' vs' out ev ->
  (Z.of_nat d < stack_limit (effective_options w (file_of dir entry) limit comments))%Z ->
  let op := OpCompile (file_of dir entry) output limit comments in
  nth_error (snd (cli_run fo w (pre ++ op :: post))) (length pre) = Some (RSuccess (length (warnings_of ev))) /\
  w_files (fst (cli_run fo w (pre ++ [op]))) output = Some (join [10%N] (map line_text out)) /\
  (forall q, q <> output -> w_files (fst (cli_run fo w (pre ++ [op]))) q = w_files (fst (cli_run fo w pre)) q) /\
  (forall q, q <> output -> ~ In q (touched_paths pre) -> w_files (fst (cli_run fo w (pre ++ [op]))) q = w_files w q).
Proof. exact cli_history_success. Qed.
Print Assumptions C19c_cli_history_success.

Theorem C19c_cli_history_failure : forall (fo : FloatOps) pre post w u dir prog entry output limit comments er ch ev,
  wf_unit u -> no_nl u -> prog_wf prog -> on_disk w u dir prog -> prog_closed dir prog (w_files w) ->
  (forall m, ~ In (file_of dir m) (touched_paths pre)) ->
  configs_in_existing_dirs w -> cfg_stable w dir pre ->
  (1 <= stack_limit (effective_options w (file_of dir entry) limit comments))%Z ->
  ufails fo prog (include_comments (effective_options w (file_of dir entry) limit comments))
         (supress_command_not_exist (effective_options w (file_of dir entry) limit comments))
         entry (room_of_limit (stack_limit (effective_options w (file_of dir entry) limit comments))) er ch ev ->
  let op := OpCompile (file_of dir entry) output limit comments in
  nth_error (snd (cli_run fo w (pre ++ op :: post))) (length pre) = Some (RError er (length (prints_of ev))) /\
  w_files (fst (cli_run fo w (pre ++ [op]))) = w_files (fst (cli_run fo w pre)).
Proof. exact cli_history_failure. Qed.
Print Assumptions C19c_cli_history_failure.

Theorem C19c_cli_history_total : forall (fo : FloatOps) pre post w u dir prog entry stmts output limit comments,
  wf_unit u -> no_nl u -> prog_wf prog -> on_disk w u dir prog -> prog_closed dir prog (w_files w) ->
  (forall m, ~ In (file_of dir m) (touched_paths pre)) ->
  configs_in_existing_dirs w -> cfg_stable w dir pre ->
  tame_prog fo prog -> lookup entry prog = Some stmts ->
  (1 <= stack_limit (effective_options w (file_of dir entry) limit comments))%Z ->
  let o := effective_options w (file_of dir entry) limit comments in
  let op := OpCompile (file_of dir entry) output limit comments in
  (exists sg Fs' f' vs' out ev,
     uruns fo prog (include_comments o) (supress_command_not_exist o) entry (room_of_limit (stack_limit o)) sg Fs' f' vs' out ev /\
     nth_error (snd (cli_run fo w (pre ++ op :: post))) (length pre) = Some (RSuccess (length (warnings_of ev))) /\
     w_files (fst (cli_run fo w (pre ++ [op]))) output = Some (join [10%N] (map line_text out)))
  \/
  (exists er ch ev,
     ufails fo prog (include_comments o) (supress_command_not_exist o) entry (room_of_limit (stack_limit o)) er ch ev /\
     nth_error (snd (cli_run fo w (pre ++ op :: post))) (length pre) = Some (RError er (length (prints_of ev))) /\
     w_files (fst (cli_run fo w (pre ++ [op]))) = w_files (fst (cli_run fo w pre))).
Proof. exact cli_history_total. Qed.
Print Assumptions C19c_cli_history_total.

(* ================================================================== (e) non-vacuity *)
Open Scope string_scope.
(* world_of prog: the files of prog rendered with a TAB in proj/, a stale out/payload.txt
   ("OLD PAYLOAD"), proj/config.yaml = {include_comments: true} only, no global config *)
Theorem C19c_example_world_hypotheses : forall prog,
  on_disk (world_of prog) u_tab ex_dir prog /\ prog_closed ex_dir prog (w_files (world_of prog)) /\
  configs_in_existing_dirs (world_of prog) /\
  (forall entry, effective_options (world_of prog) (file_of ex_dir entry) None None = ex_opts true false).
Proof. exact world_hypotheses. Qed.
Print Assumptions C19c_example_world_hypotheses.

(* through theorem (a), any FloatOps: one warning (FOO), the comment is kept (project config) *)
Theorem C19c_two_files_cli : forall fo, exists w',
  cli_step fo (world_of two_files) compile_main = (w', RSuccess 1) /\
  w_files w' out_path = Some (ChainLoopExamples.prog ["STRING hi"; "FOO bar"; "REM done"; "STRING 5"]) /\
  (forall q, q <> out_path -> w_files w' q = w_files (world_of two_files) q).
Proof. exact two_files_cli_by_theorem. Qed.
Print Assumptions C19c_two_files_cli.

(* by computation (dummy FloatOps): report, output file, the stale content before, the project
   config rewritten in full, the global config created *)
Theorem C19c_two_files_cli_computed :
  snd (cli_step dfo (world_of two_files) compile_main) = RSuccess 1 /\
  w_files (fst (cli_step dfo (world_of two_files) compile_main)) out_path =
    Some (ChainLoopExamples.prog ["STRING hi"; "FOO bar"; "REM done"; "STRING 5"]) /\
  w_files (world_of two_files) out_path = Some stale /\
  w_cfg (fst (cli_step dfo (world_of two_files) compile_main)) ex_dir = Some (yaml_of_options (ex_opts true false)) /\
  w_global (fst (cli_step dfo (world_of two_files) compile_main)) = Some (yaml_of_options default_options).
Proof. exact two_files_cli_computed. Qed.
Print Assumptions C19c_two_files_cli_computed.

(* through theorem (b): division by zero in an imported function at the second iteration; four
   prints were made; the stale payload is untouched *)
Theorem C19c_failing_cli : forall fo, exists w',
  cli_step fo (world_of a_prog) compile_main = (w', RError EDivideByZero 4) /\
  w_files w' = w_files (world_of a_prog) /\ w_files w' out_path = Some stale.
Proof. exact a_cli_by_theorem. Qed.
Print Assumptions C19c_failing_cli.

Theorem C19c_failing_cli_computed :
  snd (cli_step dfo (world_of a_prog) compile_main) = RError EDivideByZero 4 /\
  w_files (fst (cli_step dfo (world_of a_prog) compile_main)) out_path = Some stale.
Proof. exact a_cli_computed. Qed.
Print Assumptions C19c_failing_cli_computed.

(* through theorem (d): after `new P elsewhere` and a compile of lib.txt to out/lib.txt *)
Theorem C19c_two_files_history : forall fo post,
  nth_error (snd (cli_run fo (world_of two_files) (ex_pre ++ compile_main :: post))) 2 = Some (RSuccess 1) /\
  w_files (fst (cli_run fo (world_of two_files) (ex_pre ++ [compile_main]))) out_path =
    Some (ChainLoopExamples.prog ["STRING hi"; "FOO bar"; "REM done"; "STRING 5"]).
Proof. exact two_files_history_by_theorem. Qed.
Print Assumptions C19c_two_files_history.
