(* C20 -- identifier rules.  Statements only; proofs live in Proofs/. *)
From Coq Require Import NArith List Bool.
From DS Require Import Base PyStr Interp Constants IdentSpec IdentProofs.

(* is_var (over the character table regenerated from the code) accepts exactly the identifiers *)
Theorem is_var_spec : forall s : str, is_var s false = identb s.
Proof. exact is_var_spec_lemma. Qed.
Print Assumptions is_var_spec.
