(* C16 -- "The lines of an IGNORE block are emitted verbatim and unchecked."  Statements only. *)
From Coq Require Import NArith ZArith List Bool.
From DS Require Import Base PyStr Values Expr TabParse Interp Tables Constants BlockTree PipelineProofs IgnoreProofs.
Import ListNotations.
Arguments IOk {A}. Arguments IErr {A}.
Arguments s_g {fo}. Arguments s_env {fo}. Arguments s_line2 {fo}. Arguments mkSt {fo}.

(* block_compile of an IGNORE class (kind BKIgnore, arguments not allowed) on a block of plain
   lines: one output line per block line, the text as it is; the state does not change *)
Theorem ignore_verbatim : forall (fo : FloatOps) child cx cur bc cname cmd num argument ls s,
  is_ignore_class bc -> no_argument argument ->
  block_compile fo child cx cur bc cname cmd num argument (Some (plain_block ls)) s =
  (s, IOk (RComp (mkCret (map (mkO ByIgnore) (map fst ls)) SNormal))).
Proof. exact IgnoreProofs.ignore_verbatim. Qed.
Print Assumptions ignore_verbatim.

(* a nested group inside the block *)
Theorem ignore_nested_rejected : forall (fo : FloatOps) child cx cur bc cname cmd num argument b s,
  is_ignore_class bc -> no_argument argument -> has_nested b = true ->
  block_compile fo child cx cur bc cname cmd num argument (Some b) s =
  (s, IErr EGeneral (Some (here cx cur (s_line2 s)))).
Proof. exact IgnoreProofs.ignore_nested_rejected. Qed.
Print Assumptions ignore_nested_rejected.

(* an argument on the IGNORE line *)
Theorem ignore_argument_rejected : forall (fo : FloatOps) child cx cur bc cname cmd num (a : str) code_block s,
  is_ignore_class bc -> a <> [] ->
  block_compile fo child cx cur bc cname cmd num (Some a) code_block s =
  (s, IErr EInvalidArguments (Some (here cx cur (s_line2 s)))).
Proof. exact IgnoreProofs.ignore_argument_rejected. Qed.
Print Assumptions ignore_argument_rejected.

(* the three cases decide every call with a block *)
Theorem ignore_cases : forall (fo : FloatOps) child cx cur bc cname cmd num argument b s,
  is_ignore_class bc ->
  block_compile fo child cx cur bc cname cmd num argument (Some b) s =
  (s, match argument with
      | Some (_ :: _) => IErr EInvalidArguments (Some (here cx cur (s_line2 s)))
      | _ => if has_nested b then IErr EGeneral (Some (here cx cur (s_line2 s)))
             else IOk (RComp (mkCret (map (mkO ByIgnore) (map fst (items_flat b))) SNormal))
      end).
Proof. exact IgnoreProofs.ignore_cases. Qed.
Print Assumptions ignore_cases.

(* the generated palette: any casing of IGNORE followed by a non-empty group is dispatched to such
   a class; without a group the word is claimed by no class (it is an unknown command) *)
Theorem ignore_dispatch : forall cmd x r, upper cmd = s_IGNORE -> starts_dollar cmd = false ->
  exists cname bc, find_command palette cmd (Some (x :: r)) = Some (cname, Block bc) /\ is_ignore_class bc.
Proof. exact IgnoreProofs.find_ignore. Qed.
Print Assumptions ignore_dispatch.

Theorem ignore_needs_block :
  find_command palette s_IGNORE None = None /\ find_command palette s_IGNORE (Some []) = None.
Proof. exact IgnoreProofs.palette_ignore_needs_block. Qed.
Print Assumptions ignore_needs_block.

(* one iteration of Stack.run on the IGNORE line *)
Theorem ignore_line : forall (fo : FloatOps) child cx c cmd n x r s,
  split_ws1 c = [cmd] -> upper cmd = s_IGNORE -> starts_dollar cmd = false ->
  exec_line fo child cx c n (Some (x :: r)) s =
  (s, if has_nested (x :: r) then IErr EGeneral (Some (here cx (c, n) (s_line2 s)))
      else IOk (mkCret (map (mkO ByIgnore) (map fst (items_flat (x :: r)))) SNormal)).
Proof. exact IgnoreProofs.exec_line_ignore. Qed.
Print Assumptions ignore_line.

Theorem ignore_line_argument : forall (fo : FloatOps) child cx c cmd (a : str) more n x r s,
  split_ws1 c = cmd :: a :: more -> upper cmd = s_IGNORE -> starts_dollar cmd = false -> a <> [] ->
  exec_line fo child cx c n (Some (x :: r)) s =
  (s, IErr EInvalidArguments (Some (here cx (c, n) (s_line2 s)))).
Proof. exact IgnoreProofs.exec_line_ignore_argument. Qed.
Print Assumptions ignore_line_argument.

(* in a stack: the lines are spliced in place and the stack goes on after the block *)
Theorem ignore_in_stack : forall (fo : FloatOps) child cx c cmd n ls l0 rest acc s,
  is_blank c = false -> split_ws1 c = [cmd] -> upper cmd = s_IGNORE -> starts_dollar cmd = false ->
  exec_cmds fo child cx (Ln c n :: Blk (plain_block (l0 :: ls)) :: rest) acc s =
  exec_cmds fo child cx rest (acc ++ map (mkO ByIgnore) (map fst (l0 :: ls)))
            (mkSt (s_g s) (s_env s) None).
Proof. exact IgnoreProofs.exec_cmds_ignore. Qed.
Print Assumptions ignore_in_stack.

(* the block written between triple quotes, one unit deep: every non-blank line between the
   delimiters reaches the block minus exactly one indentation unit, whatever it begins with *)
Theorem quoted_block_parse : forall u, wf_unit u -> forall word ls,
  wf_content word ->
  (forall l, In l ls -> is_blank l = false /\ startswith triple_quote l = false) ->
  parse_document (convert_to (quoted_ignore_text u word ls)) =
  TOk [Ln word 1%Z; Blk (plain_block (number_from 3%Z ls))].
Proof. exact IgnoreProofs.quoted_block_parse. Qed.
Print Assumptions quoted_block_parse.

(* ... and is then emitted verbatim *)
Theorem quoted_ignore_compiles : forall (fo : FloatOps) word ls child cx rest acc s,
  split_ws1 word = [word] -> is_blank word = false ->
  upper word = s_IGNORE -> starts_dollar word = false ->
  ls <> [] ->
  exec_cmds fo child cx (Ln word 1%Z :: Blk (plain_block (number_from 3%Z ls)) :: rest) acc s =
  exec_cmds fo child cx rest (acc ++ map (mkO ByIgnore) ls) (mkSt (s_g s) (s_env s) None).
Proof. exact IgnoreProofs.quoted_ignore_compiles. Qed.
Print Assumptions quoted_ignore_compiles.
