(* C03d -- THE TEXT ROUND TRIP FOR THE UNIFIED LANGUAGE (Spec/CoreAll.v ustmt).  Statements only.

   Spec/CoreAllText.v: a statement list p is turned into a forest (uforest_of), rendered with an
   indent unit u, joined by "\n": [utext_of u p].  The indentation parser (prepare_text) gives back
   the concrete form [uitems_from 1 p] -- same lines, same blocks, same consecutive line numbers --
   for every well-formed p (uwf_list), under:
       wf_unit u           u is not empty, blanks only, begins with a space or a tab
       no_nl u             u contains no newline
       uheads_plain p      no head line contains a newline, none BEGINS with three double quotes
   The last condition is on the free texts of p; its second half can only fail for an unknown word
   (UUnknown) spelled with three leading double quotes, which the item-level theorem C12d accepts:
   see C03d_quote_word_counterexample.
   Proofs: Proofs/CoreAllTextForest.v, Proofs/CoreAllTextParse.v (ports of CoreTextForest/Parse). *)
From Coq Require Import NArith ZArith List Bool.
From DS Require Import Base PyStr Values Expr TabParse Interp BlockTree CoreLang CoreFunc CoreText CoreTextParse.
From DS Require Import CoreAll CoreAllText CoreAllLines CoreAllErase CoreAllTextForest CoreAllTextParse CoreAllEraseProofs.
Import ListNotations.

(* the round trip *)
Theorem C03d_text_round_trip : forall u p,
  wf_unit u -> no_nl u -> uwf_list p -> uheads_plain p = true ->
  prepare_text (utext_of u p) = TOk (uitems_from 1 p).
Proof. exact uprepare_text. Qed.
Print Assumptions C03d_text_round_trip.

(* the general form: no condition on spelling, only "every head is a proper code line" *)
Theorem C03d_text_round_trip_forest : forall u p,
  wf_unit u -> no_nl u -> wf_forest (uforest_of p) -> forallb node_one_line (uforest_of p) = true ->
  prepare_text (utext_of u p) = TOk (expected_forest (uforest_of p) 1%Z).
Proof. exact uprepare_text_forest. Qed.
Print Assumptions C03d_text_round_trip_forest.

(* the forest of p numbered from n IS the concrete form of p when no block is empty *)
Theorem C03d_forest_is_items : forall p n, ublocks_nonempty_list p ->
  expected_forest (uforest_of p) n = uitems_from n p.
Proof. exact uexpected_forest_items. Qed.
Print Assumptions C03d_forest_is_items.

Theorem C03d_forest_size : forall p, ublocks_nonempty_list p ->
  Z.of_nat (forest_size (uforest_of p)) = sum_sizes usize p.
Proof. exact uforest_size_program. Qed.
Print Assumptions C03d_forest_size.

Theorem C03d_wf_forest : forall p, uwf_list p -> uheads_plain p = true -> wf_forest (uforest_of p).
Proof. exact uwf_list_forest. Qed.
Print Assumptions C03d_wf_forest.

(* compiling the text = compiling the concrete form; hence the indent unit does not matter *)
Theorem C03d_compile_text : forall fo o fs file u p,
  wf_unit u -> no_nl u -> uwf_list p -> uheads_plain p = true ->
  compile_text fo o fs file (utext_of u p) = compile_items fo o fs file (uitems_of p).
Proof. exact ucompile_text. Qed.
Print Assumptions C03d_compile_text.

Theorem C03d_unit_independence : forall fo o fs file u1 u2 p,
  wf_unit u1 -> no_nl u1 -> wf_unit u2 -> no_nl u2 -> uwf_list p -> uheads_plain p = true ->
  compile_text fo o fs file (utext_of u1 p) = compile_text fo o fs file (utext_of u2 p).
Proof. exact uunit_independence. Qed.
Print Assumptions C03d_unit_independence.

(* [uheads_plain] decomposed: one-line heads (the condition of C05d) + no unknown word that opens
   a quotation; for every other statement form the head begins with a keyword, a command name or `$` *)
Theorem C03d_plain_from_one_line : forall p, uwf_list p -> each uquote_free p ->
  forallb node_one_line (uforest_of p) = true -> uheads_plain p = true.
Proof. exact uheads_plain_from. Qed.
Print Assumptions C03d_plain_from_one_line.

(* the side condition is needed: a well-formed unknown word that begins with three double quotes *)
Theorem C03d_quote_word_counterexample :
  uwf_list prog_quote /\ uheads_plain prog_quote = false /\
  prepare_text (utext_of [9]%N prog_quote) <> TOk (uitems_from 1 prog_quote).
Proof. exact (conj quote_word_is_wf quote_word_counterexample). Qed.
Print Assumptions C03d_quote_word_counterexample.

(* ... and a newline inside a text *)
Theorem C03d_newline_counterexample :
  uwf_list prog_unl /\ uheads_plain prog_unl = false /\
  prepare_text (utext_of [9]%N prog_unl) = TOk [Ln (print_head [97]%N) 1%Z; Ln [98]%N 2%Z].
Proof. exact uhead_newline_counterexample. Qed.
Print Assumptions C03d_newline_counterexample.

(* erasing the prints keeps a program writable, when no body consists of prints only *)
Theorem C03d_erased_wf : forall p, uwf_list p -> erase_safe_list p -> uwf_list (erase_prints p).
Proof. exact erase_prints_wf. Qed.
Print Assumptions C03d_erased_wf.

Theorem C03d_erased_plain : forall p, uheads_plain p = true -> uheads_plain (erase_prints p) = true.
Proof. exact erase_prints_plain. Qed.
Print Assumptions C03d_erased_plain.
