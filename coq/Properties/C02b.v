(* C02 (whole program) -- whenever compilation succeeds, every output line whose command
   DucklingScript validates is legal for that command, however the argument was delivered
   (inline, grouped block, `$` expression, variable, function parameter, loop counter).
   Statements only; proofs live in Proofs/OutputInv.v, Proofs/OutputLegal.v, Proofs/NoUnknown.v.

   An output line carries the name of the palette class whose run_compile produced it
   ([ByCommand cname]).  [line_ok] (Spec/LineGrammar.v, hand-pinned) says, for a line tagged with
     - one of the nine validated classes Alt, Ctrl, Shift, Gui, FlipperSysrq, FlipperModifierKeys,
       Delay, DefaultDelay, FlipperAltChar:
         the text is  WORD ++ " " ++ content_text a  with WORD one of the pinned command words of
         that command and  legal_arg c a = true  (Spec/DuckyGrammar.v) -- or the bare WORD, only for
         the six modifier commands whose argument is optional;
     - Whitespace: the text is the empty line;
     - ArrowKeys, Extended, Menu (no argument allowed) and Enter: the text is exactly one of the
       pinned key words ("keys that take no argument have none");
     - any other tag: nothing. *)
From Coq Require Import String NArith ZArith List Bool.
From DS Require Import Base PyStr Values Expr TabParse Tables Interp.
From DS Require Import DuckyGrammar GrammarProofs LineGrammar CrashFree OutputInv NoUnknown OutputLegal OutputText.
Import ListNotations.

(* ------------------------------------------------------------------ the main theorems *)
Theorem C02b_program_outputs_legal :
  forall (fo : FloatOps) (o : options) (fs : fsys) (file : option path) (cmds : list item) g c,
    compile_items fo o fs file cmds = (g, IOk _ c) -> Forall line_ok (out fo c).
Proof. exact program_outputs_legal. Qed.
Print Assumptions C02b_program_outputs_legal.

Theorem C02b_program_outputs_legal_text :
  forall (fo : FloatOps) (o : options) (fs : fsys) (file : option path) (text : str) g c,
    compile_text fo o fs file text = (g, IOk _ c) -> Forall line_ok (out fo c).
Proof. exact program_outputs_legal_text. Qed.
Print Assumptions C02b_program_outputs_legal_text.

Theorem C02b_program_outputs_legal_raw :
  forall (fo : FloatOps) (o : options) (fs : fsys) (file : option path) (lines : list raw) g c,
    compile_raw fo o fs file lines = (g, IOk _ c) -> Forall line_ok (out fo c).
Proof. exact program_outputs_legal_raw. Qed.
Print Assumptions C02b_program_outputs_legal_raw.

(* the pinned line grammar, spelled out for one validated command: a GUI line *)
Theorem C02b_gui_line : forall text, line_ok (mkO (ByCommand n_Gui) text) <->
  exists w, In w w_Gui /\
    ((exists a, legal_arg SGui a = true /\ text = w ++ [32%N] ++ content_text a) \/ (true = true /\ text = w)).
Proof. intro text. split; intro H; exact H. Qed.
Print Assumptions C02b_gui_line.

(* ------------------------------------------------------------------ the same, on the TEXT alone
   (the tags of the model are not needed to recognise the lines of a validated command):
   every output line that is not a raw IGNORE line and whose first word -- the text up to the first
   space -- is a command word of a validated command is legal for that command; and a line whose first
   word is a no-argument key (or ENTER) is exactly such a key.  IGNORE blocks pass their text
   through verbatim by design, so their lines are excluded. *)
Theorem C02b_program_text_legal :
  forall (fo : FloatOps) (o : options) (fs : fsys) (file : option path) (cmds : list item) g c,
    compile_items fo o fs file cmds = (g, IOk _ c) ->
    Forall (fun l => o_tag l <> ByIgnore ->
              (forall c, In (fst (split_char1 32 (o_text l))) (cmd_words c) -> legal_line c (o_text l))
              /\ (forall cn ws, bare_words cn = Some ws ->
                     In (fst (split_char1 32 (o_text l))) ws -> In (o_text l) ws))
           (out fo c).
Proof. exact program_text_legal. Qed.
Print Assumptions C02b_program_text_legal.

Theorem C02b_program_text_legal_text :
  forall (fo : FloatOps) (o : options) (fs : fsys) (file : option path) (text : str) g c,
    compile_text fo o fs file text = (g, IOk _ c) ->
    Forall (fun l => o_tag l <> ByIgnore -> text_ok (o_text l) /\ bare_text_ok (o_text l)) (out fo c).
Proof. exact program_text_legal_text. Qed.
Print Assumptions C02b_program_text_legal_text.

(* the unknown-command fall-back never prints a word that a simple class of the palette answers to *)
Theorem C02b_unknown_line_unfold : forall text, line_inv (mkO ByUnknown text) <->
  exists name arg, no_ws name
    /\ (forall n sc, In (n, Simple sc) palette -> ~ In (upper name) (s_names sc))
    /\ text = name_line name arg.
Proof. intro text. split; intro H; exact H. Qed.
Print Assumptions C02b_unknown_line_unfold.

(* ------------------------------------------------------------------ the model-level invariant
   (stronger, in terms of the generated palette; covers EVERY palette class, e.g. STRING, REM):
   a line tagged [ByCommand cn] was emitted by run_compile of the class [find_class cn] for a command
   word [name] that upper-cases to one of the names of that class and -- for the kinds that print
   `NAME argument` -- for an argument that is typed by the class's arg_type and is the formatted image
   of a content the class's validator accepted ([arg_pre], Proofs/CrashFree.v), absent only if the
   class does not require one, and always absent if the class allows none. *)
Theorem C02b_line_invariant :
  forall (fo : FloatOps) (o : options) (fs : fsys) (file : option path) (cmds : list item) g c,
    compile_items fo o fs file cmds = (g, IOk _ c) -> Forall line_inv (out fo c).
Proof. exact compile_items_inv. Qed.
Print Assumptions C02b_line_invariant.

Theorem C02b_line_inv_unfold : forall cn text, line_inv (mkO (ByCommand cn) text) <->
  exists sc name, find_class cn = Some sc /\ In (upper name) (s_names sc) /\
    match s_run sc with
    | RKDefault | RKRem | RKDefaultDelay =>
        exists arg, (arg_pre sc arg /\ (s_arg_req sc = NotAllowed -> arg = None)) /\ text = name_line name arg
    | RKEnter => text = upper name \/ text = s_ENTER
    | RKWhitespace => text = []
    | _ => False
    end.
Proof. intros cn text. split; intro H; exact H. Qed.
Print Assumptions C02b_line_inv_unfold.

Theorem C02b_invariant_implies_grammar : forall l, line_inv l -> line_ok l.
Proof. exact line_inv_ok. Qed.
Print Assumptions C02b_invariant_implies_grammar.

(* the invariant holds for ANY runner of the stacks above, one Stack.run at a time *)
Theorem C02b_stack_run_invariant : forall (fo : FloatOps) child,
  runner_data_ok fo child -> runner_data_ok fo (run_with fo child).
Proof. exact run_with_data_ok. Qed.
Print Assumptions C02b_stack_run_invariant.

(* ------------------------------------------------------------------ supporting facts *)
(* dispatch: the record found by find_command is the one its class name denotes *)
Theorem C02b_dispatch_class : forall cmd cb cname sc,
  find_command palette cmd cb = Some (cname, Simple sc) -> find_class cname = Some sc.
Proof. exact find_command_class. Qed.
Print Assumptions C02b_dispatch_class.

Theorem C02b_palette_names_distinct : distinct_names palette = true.
Proof. exact palette_distinct. Qed.
Print Assumptions C02b_palette_names_distinct.

(* the command word handed to run_compile (the `$` removed) upper-cases to a name of the class *)
Theorem C02b_command_word : forall sc cmd cb,
  is_this_command (Simple sc) cmd cb = true ->
  In (upper (if starts36 (upper cmd) then tl cmd else cmd)) (s_names sc).
Proof. exact simple_name_in. Qed.
Print Assumptions C02b_command_word.

(* block commands emit no text line under their own tag *)
Theorem C02b_block_no_lines : forall (fo : FloatOps) child cx, runner_data_ok fo child ->
  forall cur bc cname cmd num argument code_block,
  post fo brc_ok (block_compile fo child cx cur bc cname cmd num argument code_block).
Proof. exact block_compile_post. Qed.
Print Assumptions C02b_block_no_lines.

(* ------------------------------------------------------------------ no DucklingScript keyword
   slips through: without warnings (and with the unknown-command warning not suppressed) no output
   line comes from the unknown-command fall-back *)
Theorem C02b_no_unknown_lines :
  forall (fo : FloatOps) (o : options) (fs : fsys) (file : option path) (cmds : list item) g c,
    supress_command_not_exist o = false ->
    compile_items fo o fs file cmds = (g, IOk _ c) ->
    warnings fo c = [] ->
    Forall (fun l => o_tag l <> ByUnknown) (out fo c).
Proof. exact compile_items_no_unknown. Qed.
Print Assumptions C02b_no_unknown_lines.

Theorem C02b_no_unknown_lines_text :
  forall (fo : FloatOps) (o : options) (fs : fsys) (file : option path) (text : str) g c,
    supress_command_not_exist o = false ->
    compile_text fo o fs file text = (g, IOk _ c) ->
    warnings fo c = [] ->
    Forall (fun l => o_tag l <> ByUnknown) (out fo c).
Proof. exact compile_text_no_unknown. Qed.
Print Assumptions C02b_no_unknown_lines_text.

(* ... so every line was produced by a class of the palette and is legal for it, or is a raw
   IGNORE line / the legacy `REPEAT n` line *)
Theorem C02b_lines_from_palette :
  forall (fo : FloatOps) (o : options) (fs : fsys) (file : option path) (cmds : list item) g c,
    supress_command_not_exist o = false ->
    compile_items fo o fs file cmds = (g, IOk _ c) ->
    warnings fo c = [] ->
    Forall (fun l => match o_tag l with
                     | ByCommand cn => (exists sc, find_class cn = Some sc) /\ line_ok l
                     | ByIgnore | ByLegacyRepeat => True
                     | ByUnknown => False
                     end) (out fo c).
Proof. exact program_lines_from_palette. Qed.
Print Assumptions C02b_lines_from_palette.

(* warnings are never removed: de-duplication never drops the last copy *)
Theorem C02b_add_warning_nonempty : forall w g, g_warnings (add_warning w g) <> [].
Proof. exact add_warning_nonempty. Qed.
Print Assumptions C02b_add_warning_nonempty.

(* ------------------------------------------------------------------ the statements are not vacuous *)
(* [line_ok] separates legal from illegal lines *)
Example C02b_gui_r_ok : line_ok (mkO (ByCommand n_Gui) (lit "GUI r")).
Proof.
  exists (lit "GUI"). split; [left; reflexivity|]. left. exists (AStr (lit "r")). split; reflexivity.
Qed.

Example C02b_gui_ab_bad : ~ line_ok (mkO (ByCommand n_Gui) (lit "GUI ab")).
Proof.
  intros [w [Hw [[a [Hl He]] | [_ He]]]]; cbn in Hw;
    destruct Hw as [<- | [<- | [<- | []]]]; try discriminate He.
  destruct a as [s|z]; [|discriminate Hl]. cbn in He. injection He as <-. discriminate Hl.
Qed.

Example C02b_delay_negative_bad : ~ line_ok (mkO (ByCommand n_Delay) (lit "DELAY -5")).
Proof.
  intros [w [Hw [[a [Hl He]] | [Hb _]]]]; [|discriminate Hb]. cbn in Hw.
  destruct Hw as [<- | []].
  destruct a as [s|z]; [discriminate Hl|]. cbn [legal_arg] in Hl. apply Z.leb_le in Hl.
  cbn [content_text o_text] in He.
  change (lit "DELAY -5") with (lit "DELAY" ++ [32%N] ++ [45%N; 53%N]) in He.
  apply app_inv_head in He. apply app_inv_head in He.
  pose proof (Z_to_str_digit_string z Hl) as Hd. rewrite <- He in Hd. discriminate Hd.
Qed.

Example C02b_up_with_argument_bad : ~ line_ok (mkO (ByCommand n_ArrowKeys) (lit "UP 3")).
Proof. intro H. cbn in H. repeat (destruct H as [H|H]; [discriminate H|]). exact H. Qed.

(* a program that delivers its arguments inline, through `$`, a variable, a grouped block, a loop
   counter and a function parameter compiles, for every float implementation *)
Definition c02b_opts : options := mkOptions 20 true true false false.
Definition c02b_prog : list item :=
  [Ln (lit "GUI r") 1; Ln (lit "$DELAY 50+50") 2; Ln (lit "VAR k 7") 3;
   Ln (lit "DELAY") 4; Blk [Ln (lit "k*2") 5];
   Ln (lit "REPEAT i,2") 6; Blk [Ln (lit "$WHITESPACE i+1") 7; Ln (lit "CTRL esc") 8];
   Ln (lit "FUNC f x") 9; Blk [Ln (lit "DELAY x") 10];
   Ln (lit "RUN f 30") 11; Ln (lit "UP") 12].

Example C02b_witness : forall fo : FloatOps,
  exists g c, compile_items fo c02b_opts (fun _ => None) None c02b_prog = (g, IOk _ c)
    /\ map (o_text) (out fo c)
       = [lit "GUI r"; lit "DELAY 100"; lit "DELAY 14"; []; lit "CTRL esc"; []; []; lit "CTRL esc";
          lit "DELAY 30"; lit "UP"]
    /\ warnings fo c = [].
Proof. intro fo. eexists. eexists. split; [vm_compute; reflexivity|]. split; vm_compute; reflexivity. Qed.

(* ... and an argument outside the grammar is refused, not emitted *)
Example C02b_witness_refused : forall fo : FloatOps,
  exists g t, compile_items fo c02b_opts (fun _ => None) None [Ln (lit "GUI ab") 1] = (g, IErr _ EInvalidArguments t).
Proof. intro fo. eexists. eexists. vm_compute. reflexivity. Qed.
