(* C08 -- block scope: copy-in on entry, copy-back on exit.  Statements only; proofs live in Proofs/. *)
From Coq Require Import NArith ZArith List Bool.
From DS Require Import Base PyStr Values Expr TabParse Tables Constants Interp ScopeProofs ScopeInvariant.
Import ListNotations.

(* association lists (Python dicts) *)
Theorem C08_lookup_upd_same : forall (A : Type) (k : str) (v : A) (l : list (str * A)),
  lookup k (upd k v l) = Some v.
Proof. exact @lookup_upd_same. Qed.
Print Assumptions C08_lookup_upd_same.

Theorem C08_lookup_upd_other : forall (A : Type) (k k' : str) (v : A) (l : list (str * A)),
  str_eqb k k' = false -> lookup k (upd k' v l) = lookup k l.
Proof. exact @lookup_upd_other. Qed.
Print Assumptions C08_lookup_upd_other.

Theorem C08_str_eqb_eq : forall a b : str, str_eqb a b = true <-> a = b.
Proof. exact str_eqb_eq. Qed.
Print Assumptions C08_str_eqb_eq.

(* the invariant "no key twice" and its preservation *)
Theorem C08_nodup_upd : forall (A : Type) (k : str) (v : A) (l : list (str * A)),
  nodup_keys l -> nodup_keys (upd k v l).
Proof. exact @nodup_keys_upd. Qed.
Print Assumptions C08_nodup_upd.

Theorem C08_nodup_upd_all : forall (A : Type) (src dst : list (str * A)),
  nodup_keys dst -> nodup_keys (upd_all src dst).
Proof. exact @nodup_keys_upd_all. Qed.
Print Assumptions C08_nodup_upd_all.

Theorem C08_nodup_restrict_from : forall (A : Type) (self other : list (str * A)),
  nodup_keys self -> nodup_keys (restrict_from self other).
Proof. exact @nodup_keys_restrict_from. Qed.
Print Assumptions C08_nodup_restrict_from.

Theorem C08_wf_initial : forall fo, env_wf fo (initial_env fo).
Proof. exact env_wf_initial. Qed.
Print Assumptions C08_wf_initial.

Theorem C08_wf_upd_user : forall fo e k v,
  env_wf fo e -> env_wf fo (mkEnv fo (e_sys fo e) (upd k v (e_user fo e)) (e_temp fo e) (e_funcs fo e)).
Proof. exact env_wf_upd_user. Qed.
Print Assumptions C08_wf_upd_user.

Theorem C08_wf_append_env : forall fo self other, env_wf fo self -> env_wf fo (append_env fo self other).
Proof. exact env_wf_append_env. Qed.
Print Assumptions C08_wf_append_env.

Theorem C08_wf_update_from_env : forall fo self other, env_wf fo self -> env_wf fo (update_from_env fo self other).
Proof. exact env_wf_update_from_env. Qed.
Print Assumptions C08_wf_update_from_env.

Theorem C08_wf_entry : forall fo parent, env_wf fo (append_env fo (empty_env fo) parent).
Proof. exact env_wf_entry. Qed.
Print Assumptions C08_wf_entry.

Theorem C08_wf_run_child_with :
  forall fo child cx cur code file parallel setup pre s s' r,
  env_wf fo (s_env fo s) ->
  run_child_with fo child cx cur code file parallel setup pre s = (s', r) ->
  env_wf fo (s_env fo s').
Proof. exact run_child_with_wf. Qed.
Print Assumptions C08_wf_run_child_with.

(* every variable visible at the point of entry can be read inside the block *)
Theorem C08_entry_sees_outer : forall fo (parent : env fo) (x : str),
  nodup_keys (e_user fo parent) ->
  lookup x (e_user fo (append_env fo (empty_env fo) parent)) = lookup x (e_user fo parent).
Proof. exact entry_sees_outer. Qed.
Print Assumptions C08_entry_sees_outer.

Theorem C08_entry_sees_outer_sys : forall fo (parent : env fo) (x : str),
  nodup_keys (e_sys fo parent) ->
  lookup x (e_sys fo (append_env fo (empty_env fo) parent)) = lookup x (e_sys fo parent).
Proof. exact entry_sees_outer_sys. Qed.
Print Assumptions C08_entry_sees_outer_sys.

Theorem C08_entry_sees_outer_funcs : forall fo (parent : env fo) (x : str),
  nodup_keys (e_funcs fo parent) ->
  lookup x (e_funcs fo (append_env fo (empty_env fo) parent)) = lookup x (e_funcs fo parent).
Proof. exact entry_sees_outer_funcs. Qed.
Print Assumptions C08_entry_sees_outer_funcs.

(* the hypothesis cannot be dropped *)
Theorem C08_entry_sees_outer_needs_nodup : forall fo,
  let parent := mkEnv fo [] [([97%N], VInt 1); ([97%N], VInt 2)] [] [] in
  lookup [97%N] (e_user fo (append_env fo (empty_env fo) parent)) = Some (VInt 2) /\
  lookup [97%N] (e_user fo parent) = Some (VInt 1).
Proof. exact entry_sees_outer_needs_nodup. Qed.
Print Assumptions C08_entry_sees_outer_needs_nodup.

Theorem C08_entry_has_key : forall fo (parent : env fo) (x : str),
  has_key x (e_user fo (append_env fo (empty_env fo) parent)) = has_key x (e_user fo parent).
Proof. exact entry_has_key. Qed.
Print Assumptions C08_entry_has_key.

(* a block starts with no temp variables *)
Theorem C08_entry_temp_empty : forall fo (parent : env fo), e_temp fo (append_env fo (empty_env fo) parent) = [].
Proof. exact entry_temp_empty. Qed.
Print Assumptions C08_entry_temp_empty.

(* what a block creates dies with it; assignments to outer variables survive *)
Theorem C08_exit_values : forall fo (parent child : env fo) (x : str),
  lookup x (e_user fo (update_from_env fo parent child)) =
  if has_key x (e_user fo parent) then lookup x (e_user fo child) else None.
Proof. exact exit_values. Qed.
Print Assumptions C08_exit_values.

Theorem C08_exit_dom : forall fo (parent child : env fo),
  (forall k, has_key k (e_user fo parent) = true -> has_key k (e_user fo child) = true) ->
  map fst (e_user fo (update_from_env fo parent child)) = map fst (e_user fo parent).
Proof. exact exit_dom. Qed.
Print Assumptions C08_exit_dom.

Theorem C08_exit_dom_general : forall fo (parent child : env fo),
  map fst (e_user fo (update_from_env fo parent child)) =
  filter (fun k => has_key k (e_user fo child)) (map fst (e_user fo parent)).
Proof. exact exit_dom_general. Qed.
Print Assumptions C08_exit_dom_general.

Theorem C08_exit_funcs : forall fo (parent child : env fo), e_funcs fo (update_from_env fo parent child) = e_funcs fo parent.
Proof. exact exit_funcs. Qed.
Print Assumptions C08_exit_funcs.

Theorem C08_exit_temp : forall fo (parent child : env fo), e_temp fo (update_from_env fo parent child) = e_temp fo parent.
Proof. exact exit_temp. Qed.
Print Assumptions C08_exit_temp.

(* child_preserves_parent_temp, and the rest of the frame of run_child_with *)
Theorem C08_child_preserves_parent_temp :
  forall fo child cx cur code file parallel setup pre s s' r,
  run_child_with fo child cx cur code file parallel setup pre s = (s', IOk _ r) ->
  e_temp fo (s_env fo s') = e_temp fo (s_env fo s) /\
  s_line2 fo s' = s_line2 fo s /\
  (parallel = false -> e_funcs fo (s_env fo s') = e_funcs fo (s_env fo s)).
Proof. exact run_child_with_frame. Qed.
Print Assumptions C08_child_preserves_parent_temp.

Theorem C08_child_failure_keeps_env :
  forall fo child cx cur code file parallel setup pre s s' res,
  run_child_with fo child cx cur code file parallel setup pre s = (s', res) ->
  (forall r, res <> IOk _ r) ->
  s_env fo s' = s_env fo s /\ s_line2 fo s' = s_line2 fo s.
Proof. exact run_child_with_fail_env. Qed.
Print Assumptions C08_child_failure_keeps_env.

(* the whole round trip of a plain block *)
Theorem C08_block_scope :
  forall fo child cx cur code file s s' cr,
  nodup_keys (e_user fo (s_env fo s)) ->
  run_child fo child cx cur code file false (fun e => Ok e) s = (s', IOk _ cr) ->
  exists g' cenv1 cenv2,
    (forall x, lookup x (e_user fo cenv1) = lookup x (e_user fo (s_env fo s))) /\
    e_temp fo cenv1 = [] /\
    child (mkCtx (c_opts cx) (c_fs cx) (here cx cur (s_line2 fo s)) file) (s_g fo s) cenv1 code = (g', IOk _ (cr, cenv2)) /\
    (forall x, lookup x (e_user fo (s_env fo s')) =
               if has_key x (e_user fo (s_env fo s)) then lookup x (e_user fo cenv2) else None) /\
    e_temp fo (s_env fo s') = e_temp fo (s_env fo s) /\ e_funcs fo (s_env fo s') = e_funcs fo (s_env fo s).
Proof. exact block_scope. Qed.
Print Assumptions C08_block_scope.

(* the invariant is global: every action of the interpreter keeps it ... *)
Theorem C08_wf_exec_cmds : forall fo child cx cmds acc s s' r,
  env_wf fo (s_env fo s) -> exec_cmds fo child cx cmds acc s = (s', r) -> env_wf fo (s_env fo s').
Proof. exact pres_exec_cmds. Qed.
Print Assumptions C08_wf_exec_cmds.

Theorem C08_wf_block_compile : forall fo child cx cur bc cname cmd num argument code_block s s' r,
  env_wf fo (s_env fo s) ->
  block_compile fo child cx cur bc cname cmd num argument code_block s = (s', r) -> env_wf fo (s_env fo s').
Proof. exact pres_block_compile. Qed.
Print Assumptions C08_wf_block_compile.

Theorem C08_wf_simple_compile : forall fo child cx cur cname tg sc cmd num argument code_block s s' r,
  env_wf fo (s_env fo s) ->
  simple_compile fo child cx cur cname tg sc cmd num argument code_block s = (s', r) -> env_wf fo (s_env fo s').
Proof. exact pres_simple_compile. Qed.
Print Assumptions C08_wf_simple_compile.

Theorem C08_wf_run : forall fo d cx g e cmds g' cr e',
  env_wf fo e -> run fo d cx g e cmds = (g', IOk _ (cr, e')) -> env_wf fo e'.
Proof. exact run_wf. Qed.
Print Assumptions C08_wf_run.

Theorem C08_wf_compile_items : forall fo o fs file cmds g c,
  compile_items fo o fs file cmds = (g, IOk _ c) -> env_wf fo (final_env fo c).
Proof. exact compile_items_wf. Qed.
Print Assumptions C08_wf_compile_items.

(* ... every child stack is started on a well-formed environment ... *)
Theorem C08_child_starts_wf :
  forall fo child cx cur code file setup pre s s' cr,
  setup_wf fo setup ->
  run_child_with fo child cx cur code file false setup pre s = (s', IOk _ (Some cr)) ->
  exists cx' g cenv1 g' cenv2,
    child cx' g cenv1 code = (g', IOk _ (cr, cenv2)) /\ env_wf fo cenv1.
Proof. exact child_starts_wf. Qed.
Print Assumptions C08_child_starts_wf.

Theorem C08_setup_wf_bind_counter : forall fo v count, setup_wf fo (bind_counter fo v count).
Proof. exact setup_wf_bind_counter. Qed.
Print Assumptions C08_setup_wf_bind_counter.

(* ... so the hypothesis of entry_sees_outer holds at every block entry of a compilation: the
   interpreter is equal to the one that diverts to an arbitrary [bad] behaviour whenever a stack
   would be started on an environment with a duplicated key *)
Theorem C08_env_wfb_spec : forall fo e, env_wfb fo e = true <-> env_wf fo e.
Proof. exact env_wfb_spec. Qed.
Print Assumptions C08_env_wfb_spec.

Theorem C08_run_guarded_eq : forall fo bad d cx g e code,
  env_wf fo e -> run fo d cx g e code = run_guarded fo (env_wfb fo) bad d cx g e code.
Proof. exact run_guarded_eq. Qed.
Print Assumptions C08_run_guarded_eq.
