(* C16 (whole program) -- "at least one warning locating that line is produced".  Statements only. *)
From Coq Require Import NArith ZArith List Bool.
From DS Require Import Base PyStr Values TabParse Interp Tables Constants StackLift PrintsMono UnknownWarn.
Import ListNotations.

(* one line, any result (success, error, crash): the warning is in the glob after the line *)
Theorem unknown_line_warns : forall (fo : FloatOps) (child : runner fo) (cx : ctx),
  (forall cx' g e c g' res, child cx' g e c = (g', res) -> incl (g_warnings g) (g_warnings g')) ->
  forall c n cb cmd more s s' r,
  split_ws1 c = cmd :: more ->
  find_command palette cmd cb = None ->
  supress_command_not_exist (c_opts cx) = false ->
  exec_line fo child cx c n cb s = (s', r) ->
  In (mkWarn (unknown_warning_text n) (Some (c_pile cx ++ [mkFrame (c_file cx) (c, n) (s_line2 fo s)])))
     (g_warnings (s_g fo s')).
Proof. exact UnknownWarn.unknown_warning_line. Qed.
Print Assumptions unknown_line_warns.

(* in a stack: line_2 has been reset, and the warning is still there when the stack ends *)
Theorem unknown_head_warns : forall (fo : FloatOps) (child : runner fo) (cx : ctx),
  (forall cx' g e c g' res, child cx' g e c = (g', res) -> incl (g_warnings g) (g_warnings g')) ->
  forall c n rest acc s s' r,
  (is_blank c = false /\
   find_command palette (hd [] (split_ws1 c)) (match rest with Blk b :: _ => Some b | _ => None end) = None /\
   supress_command_not_exist (c_opts cx) = false) ->
  exec_cmds fo child cx (Ln c n :: rest) acc s = (s', r) ->
  In (mkWarn (unknown_warning_text n) (Some (c_pile cx ++ [mkFrame (c_file cx) (c, n) None])))
     (g_warnings (s_g fo s')).
Proof. exact UnknownWarn.unknown_warning_head. Qed.
Print Assumptions unknown_head_warns.

(* anywhere in the stack, provided the lines before it complete without a signal *)
Theorem unknown_reached_warns : forall (fo : FloatOps) (child : runner fo) (cx : ctx),
  (forall cx' g e c g' res, child cx' g e c = (g', res) -> incl (g_warnings g) (g_warnings g')) ->
  forall pre c n rest acc s s1 acc1 s' r,
  unknown_line cx c rest ->
  exec_cmds fo child cx pre acc s = (s1, IOk _ (mkCret acc1 SNormal)) ->
  exec_cmds fo child cx (pre ++ Ln c n :: rest) acc s = (s', r) ->
  In (mkWarn (unknown_warning_text n) (Some (c_pile cx ++ [mkFrame (c_file cx) (c, n) None])))
     (g_warnings (s_g fo s')).
Proof. exact UnknownWarn.unknown_warning_reached. Qed.
Print Assumptions unknown_reached_warns.

Theorem unknown_run_warns : forall (fo : FloatOps) d cx c n rest g e g' r,
  unknown_line cx c rest ->
  run fo d cx g e (Ln c n :: rest) = (g', r) ->
  In (mkWarn (unknown_warning_text n) (Some (c_pile cx ++ [mkFrame (c_file cx) (c, n) None]))) (g_warnings g').
Proof. exact UnknownWarn.unknown_warning_run. Qed.
Print Assumptions unknown_run_warns.

(* Compiler.compile on a program that starts with an unknown command *)
Theorem unknown_compile_warns : forall (fo : FloatOps) o fs file c n rest g res,
  is_blank c = false ->
  find_command palette (hd [] (split_ws1 c)) (match rest with Blk b :: _ => Some b | _ => None end) = None ->
  supress_command_not_exist o = false ->
  compile_items fo o fs file (Ln c n :: rest) = (g, res) ->
  In (mkWarn (unknown_warning_text n) (Some [mkFrame file (c, n) None])) (g_warnings g) /\
  (forall cp, res = IOk _ cp ->
     In (mkWarn (unknown_warning_text n) (Some [mkFrame file (c, n) None])) (warnings fo cp)).
Proof. exact UnknownWarn.unknown_warning_compile_items. Qed.
Print Assumptions unknown_compile_warns.

(* ... or that reaches one: the lines before it in the main stack complete without a signal *)
Theorem unknown_compile_reached_warns : forall (fo : FloatOps) o fs file pre c n rest s1 acc1 g res,
  is_blank c = false ->
  find_command palette (hd [] (split_ws1 c)) (match rest with Blk b :: _ => Some b | _ => None end) = None ->
  supress_command_not_exist o = false ->
  exec_cmds fo (match run_depth o with O => no_child fo | S d' => run fo d' end) (mkCtx o fs [] file) pre []
            (mkSt fo (mkGlob [] []) (initial_env fo) None) = (s1, IOk _ (mkCret acc1 SNormal)) ->
  compile_items fo o fs file (pre ++ Ln c n :: rest) = (g, res) ->
  In (mkWarn (unknown_warning_text n) (Some [mkFrame file (c, n) None])) (g_warnings g) /\
  (forall cp, res = IOk _ cp ->
     In (mkWarn (unknown_warning_text n) (Some [mkFrame file (c, n) None])) (warnings fo cp)).
Proof. exact UnknownWarn.unknown_warning_compile_items_reached. Qed.
Print Assumptions unknown_compile_reached_warns.

(* the de-duplicating append never loses the warning it is given *)
Theorem add_warning_keeps : forall w g, In w (g_warnings (add_warning w g)).
Proof. exact UnknownWarn.add_warning_In. Qed.
Print Assumptions add_warning_keeps.
