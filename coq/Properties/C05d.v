(* C05d -- the reference semantics of the core language (Spec/CoreLang.v, Properties/C05c.v)
   composed with the INDENTATION PARSER: the end-to-end statement is about program TEXT.
   Statements only; proofs in Proofs/CoreTextForest.v (forest of a program vs its item tree),
   Proofs/CoreTextParse.v (text -> lines -> tree -> refinement), Proofs/CoreRefineNum.v (the
   refinement for any line numbering), Proofs/TabRenumber.v + Proofs/CoreTextBlank.v (blank lines),
   Proofs/CoreTextExample.v (computed witnesses).

   Spec/CoreText.v (mentions neither parser nor interpreter):
     forest_of p          the program as a forest of statements (Spec/BlockTree.v): one node per
                          statement head -- the very strings of [stmt_items] --, the body as children;
                          an IF chain is one node per arm (IF / ELIF / ELSE)
     lines_of u p         := render u (forest_of p), the project's forest rendering: a statement at
                          nesting level k is prefixed by k copies of the unit u
     text_of u p          := join "\n" (lines_of u p)                          THE TEXT
     one_line_heads p     no statement head contains "\n"
     blocks_nonempty_list p   every block has a statement, every chain has its IF
     with_blanks ls ls'   ls' is ls with blank (empty / white-space-only) lines inserted anywhere
     renum nu t           the item tree t with every line number m replaced by nu m
   no_nl s := char_in "\n" s = false   (Proofs/CoreTextParse.v)

   MISMATCHES between [items_of] and what the parser produces for [text_of], each with a witness:
     (a) NUMBERING: none.  [items_of] numbers consecutively from 1, a block's lines following its
         header; so does the parser on a text without blank lines ([C05d_forest_is_item_tree],
         [C05d_text_parses]).  With blank lines the numbers move, nothing else
         ([C05d_text_parses_blank_lines]); the semantics ignores them ([C05d_refinement_any_numbering]).
     (b) EMPTY BODIES: [items_of] writes [Blk []] after the header of an empty block; no text is
         parsed to that (the parser makes no block of no lines): [C05d_empty_block_mismatch].
         Excluded by [wf_list] (blocks and chains are non-empty).
     (c) NEWLINES inside a statement: the strings of a [stmt] are arbitrary; "\n" inside an
         expression or output text cuts the line in two ([C05d_head_newline_counterexample]).
         [wf_list] does NOT exclude it (it only forbids blanks at both ends): hence the extra
         hypothesis [one_line_heads p = true] of the theorems below.
     (d) THE UNIT: the hypothesis [wf_unit u] of the round trip on LINES (non-empty, white space
         only, begins with space or tab) allows " \n"; as TEXT that unit is cut in two and the
         block is lost ([C05d_unit_newline_counterexample]).  Hence the extra hypothesis [no_nl u].
     (e) TRAILING BLANKS / the EMPTY PROGRAM: [text_of] has no final "\n"; the text of the empty
         program is "", which the parser reads as one blank line and returns the empty tree
         ([C05d_empty_program]). *)
From Coq Require Import String NArith ZArith List Bool.
From DS Require Import Base PyStr Values Expr TabParse Tables Constants Interp ScopeProofs.
From DS Require Import BlockTree ChainLoopExamples CoreLang CoreWf CoreRefine CoreRefineNum CoreExample.
From DS Require Import CoreText CoreTextForest CoreTextParse CoreTextExample TabRenumber CoreTextBlank.
Import ListNotations.

Arguments IOk {A}. Arguments IErr {A}. Arguments s_env {fo}.

(* ================================================================== the forest of a program IS its item tree *)
(* what the parser must produce (Spec/BlockTree.v, [expected_forest]) for the forest of p whose
   first line has number n is [items_from n p]: same lines, same blocks, same numbers *)
Theorem C05d_forest_is_item_tree : forall p n, blocks_nonempty_list p ->
  expected_forest (forest_of p) n = items_from n p.
Proof. exact expected_forest_items. Qed.
Print Assumptions C05d_forest_is_item_tree.

Theorem C05d_forest_size : forall p, blocks_nonempty_list p ->
  Z.of_nat (forest_size (forest_of p)) = sum_sizes size p.
Proof. exact forest_size_program. Qed.
Print Assumptions C05d_forest_size.

(* a well-formed program has no empty block, and all its heads are proper code lines (first
   character not white space, not beginning with the triple quote): [wf_forest] is the hypothesis
   of the round trip *)
Theorem C05d_wf_blocks_nonempty : forall p, wf_list p -> blocks_nonempty_list p.
Proof. exact wf_list_blocks_nonempty. Qed.
Print Assumptions C05d_wf_blocks_nonempty.

Theorem C05d_wf_forest : forall p, wf_list p -> wf_forest (forest_of p).
Proof. exact wf_list_forest. Qed.
Print Assumptions C05d_wf_forest.

(* ================================================================== text -> lines -> tree *)
Theorem C05d_text_lines : forall u p,
  no_nl u -> one_line_heads p = true -> forest_of p <> [] ->
  lines_of_text (text_of u p) = lines_of u p.
Proof. exact lines_of_text_of. Qed.
Print Assumptions C05d_text_lines.

(* the parser on the text of a well-formed program returns [items_of p], numbers included *)
Theorem C05d_text_parses : forall u p,
  wf_unit u -> no_nl u -> wf_list p -> one_line_heads p = true ->
  prepare_text (text_of u p) = TOk (items_of p).
Proof. exact prepare_text_core. Qed.
Print Assumptions C05d_text_parses.

Theorem C05d_compile_text_is_compile_items : forall fo o fs file u p,
  wf_unit u -> no_nl u -> wf_list p -> one_line_heads p = true ->
  compile_text fo o fs file (text_of u p) = compile_items fo o fs file (items_of p).
Proof. exact compile_text_core. Qed.
Print Assumptions C05d_compile_text_is_compile_items.

(* ================================================================== THE END-TO-END THEOREM *)
(* every indent unit accepted by the round trip and free of newlines, every well-formed core
   program written on one line per head, nesting below the stack limit, any options, any file
   system, any file name: a derivation of the reference semantics is what Compiler.compile
   computes from the TEXT *)
Theorem C05d_text_refinement : forall fo o fs file u p sg f' vs' out,
  wf_unit u -> no_nl u ->
  wf_list p -> one_line_heads p = true -> (Z.of_nat (nesting_list p) < stack_limit o)%Z ->
  runs fo p sg f' vs' out ->
  exists ol, map o_text ol = out /\
    compile_text fo o fs file (text_of u p) =
    (mkGlob [] (stray_warnings sg),
     IOk (mkCompiled fo ol (stray_warnings sg) (mkEnv fo (initial_sys fo) vs' (flag_var fo f') []) [])).
Proof. exact text_refinement. Qed.
Print Assumptions C05d_text_refinement.

(* ================================================================== any numbering, blank lines *)
(* the refinement theorems of C05c for the item tree with ANY line numbers (nu arbitrary) *)
Theorem C05d_refinement_any_numbering_exec_cmds :
  forall fo sys, nodup_keys sys ->
  forall (nu : Z -> Z) f vs p sg f' vs' out d cx n acc s g F,
  exec_list fo sys f vs p sg f' vs' out ->
  wf_list p -> fits d cx (nesting_list p) -> R fo sys g F f vs s ->
  exists s' ol, R fo sys g F f' vs' s' /\ map o_text ol = out /\
    exec_cmds fo (child_of fo d) cx (renum nu (items_from n p)) acc s = (s', IOk (mkCret (acc ++ ol) (sig_of sg))).
Proof. exact CoreRefineNum.refine_exec_cmds. Qed.
Print Assumptions C05d_refinement_any_numbering_exec_cmds.

Theorem C05d_refinement_any_numbering : forall fo (nu : Z -> Z) o fs file p sg f' vs' out,
  runs fo p sg f' vs' out -> wf_list p -> (Z.of_nat (nesting_list p) < stack_limit o)%Z ->
  exists ol, map o_text ol = out /\
    compile_items fo o fs file (renum nu (items_of p)) =
    (mkGlob [] (stray_warnings sg),
     IOk (mkCompiled fo ol (stray_warnings sg) (mkEnv fo (initial_sys fo) vs' (flag_var fo f') []) [])).
Proof. exact refine_compile_items_num. Qed.
Print Assumptions C05d_refinement_any_numbering.

(* a text (given by its lines ls', none containing "\n") whose non-blank lines are the lines of
   the program: the parser returns the tree of the program with other numbers *)
Theorem C05d_text_parses_blank_lines : forall u p ls',
  wf_unit u -> wf_list p ->
  with_blanks (lines_of u p) ls' -> Forall no_nl ls' ->
  exists nu, prepare_text (join [nl] ls') = TOk (renum nu (items_of p)).
Proof. exact prepare_text_blanks. Qed.
Print Assumptions C05d_text_parses_blank_lines.

(* the end-to-end theorem with blank / white-space-only lines anywhere in the text *)
Theorem C05d_text_refinement_blank_lines : forall fo o fs file u p ls' sg f' vs' out,
  wf_unit u -> wf_list p -> (Z.of_nat (nesting_list p) < stack_limit o)%Z ->
  with_blanks (lines_of u p) ls' -> Forall no_nl ls' ->
  runs fo p sg f' vs' out ->
  exists ol, map o_text ol = out /\
    compile_text fo o fs file (join [nl] ls') =
    (mkGlob [] (stray_warnings sg),
     IOk (mkCompiled fo ol (stray_warnings sg) (mkEnv fo (initial_sys fo) vs' (flag_var fo f') []) [])).
Proof. exact text_refinement_blanks. Qed.
Print Assumptions C05d_text_refinement_blank_lines.

(* ================================================================== the side conditions are needed *)
(* (d) the unit " \n" satisfies wf_unit; the text of  IF TRUE / STRING a  written with it loses the block *)
Theorem C05d_unit_newline_counterexample :
  wf_unit [32; 10]%N /\
  items_of prog_block = [Ln (kw_IF ++ 32%N :: w_TRUE) 1%Z; Blk [Ln (w_STRING ++ 32%N :: w_a) 2%Z]] /\
  prepare_text (text_of [32; 10]%N prog_block) =
  TOk [Ln (kw_IF ++ 32%N :: w_TRUE) 1%Z; Ln (w_STRING ++ 32%N :: w_a) 3%Z].
Proof. exact unit_newline_counterexample. Qed.
Print Assumptions C05d_unit_newline_counterexample.

(* (c) SEmit "STRING" "a\nb" *)
Theorem C05d_head_newline_counterexample :
  one_line_heads prog_nl = false /\
  items_of prog_nl = [Ln (w_STRING ++ 32%N :: [97; 10; 98]%N) 1%Z] /\
  prepare_text (text_of [9]%N prog_nl) = TOk [Ln (w_STRING ++ 32%N :: [97]%N) 1%Z; Ln [98]%N 2%Z].
Proof. exact head_newline_counterexample. Qed.
Print Assumptions C05d_head_newline_counterexample.

(* (b) SRepeat None "3" [] *)
Theorem C05d_empty_block_mismatch :
  items_of prog_empty = [Ln (kw_REPEAT ++ [32; 51]%N) 1%Z; Blk []] /\
  prepare_text (text_of [9]%N prog_empty) = TOk [Ln (kw_REPEAT ++ [32; 51]%N) 1%Z] /\
  ~ blocks_nonempty_list prog_empty.
Proof. exact empty_block_mismatch. Qed.
Print Assumptions C05d_empty_block_mismatch.

(* (e) *)
Theorem C05d_empty_program : forall u, text_of u [] = [] /\ prepare_text (text_of u []) = TOk (items_of []).
Proof. exact empty_program_text. Qed.
Print Assumptions C05d_empty_program.

(* ================================================================== non-vacuity *)
Open Scope string_scope.
Open Scope list_scope.

(* the main example of C05c as text, indent unit = one tab *)
Theorem C05d_example_lines_tab :
  lines_of tab_unit prog_main =
  [ lit "VAR total 0";
    lit "REPEAT i,3";
    tab_unit ++ lit "VAR tmp i*2";
    tab_unit ++ lit "IF i==1";
    tab_unit ++ tab_unit ++ lit "VAR total total+10";
    tab_unit ++ lit "ELSE";
    tab_unit ++ tab_unit ++ lit "VAR total total+tmp";
    tab_unit ++ lit "$STRING total";
    lit "$STRING total" ].
Proof. exact main_lines_tab. Qed.
Print Assumptions C05d_example_lines_tab.

(* ... and three spaces *)
Theorem C05d_example_lines_spaces :
  lines_of three_spaces prog_main =
  [ lit "VAR total 0";
    lit "REPEAT i,3";
    lit "   VAR tmp i*2";
    lit "   IF i==1";
    lit "      VAR total total+10";
    lit "   ELSE";
    lit "      VAR total total+tmp";
    lit "   $STRING total";
    lit "$STRING total" ].
Proof. exact main_lines_spaces. Qed.
Print Assumptions C05d_example_lines_spaces.

Theorem C05d_example_units_ok :
  (wf_unit tab_unit /\ no_nl tab_unit) /\ (wf_unit three_spaces /\ no_nl three_spaces) /\
  one_line_heads prog_main = true.
Proof. exact (conj tab_unit_ok (conj three_spaces_ok main_one_line)). Qed.
Print Assumptions C05d_example_units_ok.

Theorem C05d_example_parsed :
  prepare_text (text_of tab_unit prog_main) = TOk (items_of prog_main) /\
  prepare_text (text_of three_spaces prog_main) = TOk (items_of prog_main).
Proof. exact main_text_parsed. Qed.
Print Assumptions C05d_example_parsed.

(* result_text fo u p = Some (texts of the output, user variables, temp variables, warnings) of
   compile_text (default options) on text_of u p: computed, equal to the derivation's result
   (C05c_example_derivation: runs fo prog_main Normal f' [total := 14] out_main) *)
Theorem C05d_example_interpreter_tab : forall fo,
  result_text fo tab_unit prog_main =
  Some ([lit "STRING 0"; lit "STRING 10"; lit "STRING 14"; lit "STRING 14"], [(lit "total", VInt 14)], [], []).
Proof. exact main_text_tab. Qed.
Print Assumptions C05d_example_interpreter_tab.

Theorem C05d_example_interpreter_spaces : forall fo,
  result_text fo three_spaces prog_main =
  Some ([lit "STRING 0"; lit "STRING 10"; lit "STRING 14"; lit "STRING 14"], [(lit "total", VInt 14)], [], []).
Proof. exact main_text_spaces. Qed.
Print Assumptions C05d_example_interpreter_spaces.

(* the same through the theorem: its hypotheses hold for the example *)
Theorem C05d_example_by_theorem : forall fo u, u = tab_unit \/ u = three_spaces ->
  exists ol f',
  map o_text ol = [lit "STRING 0"; lit "STRING 10"; lit "STRING 14"; lit "STRING 14"] /\
  compile_text fo default_options (fun _ => None) None (text_of u prog_main) =
  (mkGlob [] [], IOk (mkCompiled fo ol [] (mkEnv fo (initial_sys fo) [(lit "total", VInt 14)] (flag_var fo f') []) [])).
Proof. exact main_text_by_theorem. Qed.
Print Assumptions C05d_example_by_theorem.

(* a stray BREAKLOOP, as text: signal Broke, the one warning *)
Theorem C05d_example_stray_break : forall fo,
  result_text fo tab_unit prog_stray = Some ([lit "STRING a"], [], [], stray_warnings Broke).
Proof. exact stray_text. Qed.
Print Assumptions C05d_example_stray_break.
