(* C14 (extension) -- "a program whose deepest chain of nested blocks and calls is k levels compiles
   iff k is below the configured stack limit; blocks that follow one another consume no depth".
   Statements only; proofs live in Proofs/NestKinds.v and Proofs/NestRun.v.
   Vocabulary (Spec/NestSpec.v, Proofs/NestKinds.v):
     knest n ks   the chain of nested constructs ks (outermost first) from {IF TRUE, REPEAT 1,
                  WHILE TRUE ... BREAKLOOP}, numbered from line n, with `STRING x` at the bottom;
     rnest / wnest  the pure REPEAT 1 / WHILE TRUE chains;   kseq n kss   chains one after the other;
     call_chain k k functions f, fa, faa, ... (NestCalls.v): the body of the i-th is `RUN <the next>`, the
                  last one's is `STRING x`; the program ends with `RUN f`;
     fnest n k    k nested calls by shadowing (each level: FUNC f / <level below> / RUN f);
     rec_prog     FUNC f / RUN f, then RUN f.
   NOTE on WHILE: a chain of `WHILE TRUE` with a single BREAKLOOP at the very bottom does NOT compile
   for k >= 2 (BREAKLOOP ends the innermost loop only; every outer loop runs into the iteration limit,
   ExceededLimitError): each WHILE TRUE of [knest]/[wnest] has its own BREAKLOOP as last line of its block. *)
From Coq Require Import NArith ZArith List Bool.
From DS Require Import Base PyStr Values Expr TabParse Constants Interp LimitSpec NestSpec NestKinds NestRun NestCalls.
Import ListNotations.

(* (a) exactness for REPEAT 1 chains, for every limit L >= 1 *)
Theorem nest_exact_repeat : forall fo o fs file n k,
  (1 <= stack_limit o)%Z ->
  ((exists g c, compile_items fo o fs file (rnest n k) = (g, IOk c)) <-> (Z.of_nat k < stack_limit o)%Z).
Proof. exact nest_exact_repeat_lemma. Qed.
Print Assumptions nest_exact_repeat.

(* (a) exactness for WHILE TRUE ... BREAKLOOP chains *)
Theorem nest_exact_while : forall fo o fs file n k,
  (1 <= stack_limit o)%Z ->
  ((exists g c, compile_items fo o fs file (wnest n k) = (g, IOk c)) <-> (Z.of_nat k < stack_limit o)%Z).
Proof. exact nest_exact_while_lemma. Qed.
Print Assumptions nest_exact_while.

(* (a) exactness for an arbitrary mix of IF TRUE / REPEAT 1 / WHILE TRUE: only the length counts *)
Theorem nest_exact_mixed : forall fo o fs file n (ks : list kind),
  (1 <= stack_limit o)%Z ->
  ((exists g c, compile_items fo o fs file (knest n ks) = (g, IOk c)) <-> (Z.of_nat (length ks) < stack_limit o)%Z).
Proof. exact nest_exact_mixed_lemma. Qed.
Print Assumptions nest_exact_mixed.

(* ... with the two outcomes spelled out: the single line, or StackOverflowError (never anything else) *)
Theorem nest_mixed_within : forall fo o fs file n ks,
  (Z.of_nat (length ks) < stack_limit o)%Z ->
  compile_items fo o fs file (knest n ks) =
  (mkGlob [] [], IOk (mkCompiled fo [x_line] [] (after fo (initial_env fo) ks) [])).
Proof. exact nest_mixed_within_lemma. Qed.
Print Assumptions nest_mixed_within.

Theorem nest_mixed_overflow : forall fo o fs file n ks,
  (1 <= stack_limit o)%Z -> (stack_limit o <= Z.of_nat (length ks))%Z ->
  exists t, compile_items fo o fs file (knest n ks) = (mkGlob [] [], IErr EStackOverflow (Some t)).
Proof. exact nest_mixed_overflow_lemma. Qed.
Print Assumptions nest_mixed_overflow.

(* the old IF chain is the instance ks = [KIf; ...; KIf] *)
Theorem nest_at_is_knest : forall k n, nest_at n k = knest n (repeat KIf k).
Proof. exact nest_at_knest. Qed.
Print Assumptions nest_at_is_knest.

(* (b) k >= 1 functions f_0 .. f_(k-1), f_i's body is `RUN f_(i+1)`, the last one emits a line, the
   program ends with `RUN f_0`: every RUN pushes one stack *)
Theorem nest_exact_run : forall fo o fs file k,
  (1 <= k)%nat ->
  ((exists g c, compile_items fo o fs file (call_chain k) = (g, IOk c)) <-> (Z.of_nat k < stack_limit o)%Z).
Proof. exact call_chain_exact_lemma. Qed.
Print Assumptions nest_exact_run.

Theorem nest_run_within : forall fo o fs file k,
  (1 <= k)%nat -> (Z.of_nat k < stack_limit o)%Z ->
  exists e', compile_items fo o fs file (call_chain k) =
             (mkGlob [] [], IOk (mkCompiled fo [x_line] [] e' [])).
Proof. exact call_chain_within_lemma. Qed.
Print Assumptions nest_run_within.

Theorem nest_run_overflow : forall fo o fs file k,
  (1 <= k)%nat -> (stack_limit o <= Z.of_nat k)%Z ->
  exists t, compile_items fo o fs file (call_chain k) = (mkGlob [] [], IErr EStackOverflow (Some t)).
Proof. exact call_chain_overflow_lemma. Qed.
Print Assumptions nest_run_overflow.

(* (b') the same for k calls nested by shadowing (every level defines `f` and runs it) *)
Theorem nest_exact_run_nested : forall fo o fs file n k,
  (1 <= stack_limit o)%Z ->
  ((exists g c, compile_items fo o fs file (fnest n k) = (g, IOk c)) <-> (Z.of_nat k < stack_limit o)%Z).
Proof. exact nest_exact_run_lemma. Qed.
Print Assumptions nest_exact_run_nested.

(* (b) direct recursion ends in StackOverflowError -- for EVERY options value (limits below 1 included),
   never in a model-fuel crash, a host recursion failure or any other outcome *)
Theorem unbounded_recursion_overflows : forall fo o fs file,
  exists t, compile_items fo o fs file rec_prog = (mkGlob [] [], IErr EStackOverflow (Some t)).
Proof. exact unbounded_recursion_overflows_lemma. Qed.
Print Assumptions unbounded_recursion_overflows.

(* (c) every push made by one stack -- by whichever of its lines, whatever it pushes -- meets the same
   test [limit_test cx], and [exec_cmds] runs every line of a stack with the same [cx] *)
Theorem limit_test_same_for_siblings : forall fo child cx cur code file par setup pre s,
  run_child_with fo child cx cur code file par setup pre s =
  if limit_test cx then (s, IErr EStackOverflow (Some (here cx cur (s_line2 s))))
  else push_unchecked fo child cx cur code file par setup pre s.
Proof. exact limit_test_same_for_siblings_lemma. Qed.
Print Assumptions limit_test_same_for_siblings.

(* the test looks at nothing but the number of stacks below and the configured limit *)
Theorem limit_test_depends_on_depth : forall cx,
  limit_test cx = (stack_limit (c_opts cx) <=? Z.of_nat (length (c_pile cx)) + 1)%Z.
Proof. exact limit_test_depends_on_depth_lemma. Qed.
Print Assumptions limit_test_depends_on_depth.

(* (c) the second of two blocks runs in the same stack (same child runner, same cx) from the state the
   first left: nothing of the first block's depth remains *)
Theorem sequential_same_stack : forall fo child cx g e pre c n rest g1 out e1,
  run_with fo child cx g e pre = (g1, IOk (mkCret out SNormal, e1)) ->
  run_with fo child cx g e (pre ++ Ln c n :: rest) = prepend fo out (run_with fo child cx g1 e1 (Ln c n :: rest)).
Proof. exact run_with_app_ok. Qed.
Print Assumptions sequential_same_stack.

(* (c) m copies of a block that runs to completion from every state of an invariant set *)
Theorem sequential_blocks_generic : forall fo child cx (Inv : glob -> env fo -> Prop) c n r,
  (forall g e, Inv g e -> exists g' out e',
     run_with fo child cx g e (Ln c n :: r) = (g', IOk (mkCret out SNormal, e')) /\ Inv g' e') ->
  forall m g e, Inv g e -> exists g' out e',
     run_with fo child cx g e (concat (repeat (Ln c n :: r) m)) = (g', IOk (mkCret out SNormal, e')) /\ Inv g' e'.
Proof. exact sequential_blocks_generic_lemma. Qed.
Print Assumptions sequential_blocks_generic.

(* (c) m copies of a chain that compiles at limit L, one after the other, compile at limit L *)
Theorem sequential_blocks_ok : forall fo o fs file n ks m,
  (1 <= stack_limit o)%Z ->
  (exists g c, compile_items fo o fs file (knest n ks) = (g, IOk c)) ->
  exists e1, compile_items fo o fs file (kseq n (repeat ks m)) =
             (mkGlob [] [], IOk (mkCompiled fo (repeat x_line m) [] e1 [])).
Proof. exact sequential_blocks_ok_lemma. Qed.
Print Assumptions sequential_blocks_ok.

(* (c) in full: a sequence of chains compiles iff EACH chain is below the limit -- the depth a
   program needs is the maximum over its consecutive blocks, not the sum *)
Theorem sequential_free : forall fo o fs file n (kss : list (list kind)),
  (1 <= stack_limit o)%Z ->
  ((exists g c, compile_items fo o fs file (kseq n kss) = (g, IOk c)) <->
   Forall (fun ks => (Z.of_nat (length ks) < stack_limit o)%Z) kss).
Proof. exact seq_exact_lemma. Qed.
Print Assumptions sequential_free.
