(* C03b / C11 -- "Lines between triple quotes in a group are taken verbatim, keeping their
   indentation relative to the quotes": the round trip of Properties/C03.v extended to forests
   with QUOTED regions.  Statements only; vocabulary in Spec/BlockTreeQ.v, proofs in
   Proofs/QuotedRoundTrip.v (parser) and Proofs/QuotedCompile.v (compiler), computed witnesses in
   Proofs/CounterExamples.v.

   Spec/BlockTreeQ.v:  nodeq := StmtQ c kids | QuotedQ c lines.   QuotedQ c ls is rendered as the
   line c, then one unit deeper the delimiter line, the lines ls (each prefixed by that same
   indentation, otherwise as they are), the delimiter line.  Expected tree:
   Ln c n :: Blk [Ln l1 (n+2); ...; Ln lk (n+k+1)] -- lines verbatim, delimiters absent.
   region_line l := is_blank l = false /\ startswith triple_quote l = false.

   FINDINGS.
   - a blank line inside a region is dropped ([C03b_quoted_blank_dropped]);
   - a region line beginning with the delimiter closes the region ([C03b_region_line_needed]);
   - IGNORE and STRING / STRINGLN emit the region verbatim (leading white space kept), but the
     unknown-word fall-back STRIPS each line (its class has strip_args = True): there the
     relative indentation kept by the parser is lost in the output ([C03b_quoted_unknown_emits],
     witness [C03b_ex_quoted_unknown_stripped]). *)
From Coq Require Import String NArith ZArith List Bool.
From DS Require Import Base PyStr Values Expr TabParse Tables Constants Interp.
From DS Require Import PipelineProofs IgnoreProofs GroupProofs BlockTree BlockTreeQ TabRoundTrip QuotedRoundTrip QuotedCompile.
From DS Require Import ChainLoopExamples CounterExamples.
Import ListNotations.

Arguments IOk {A}. Arguments IErr {A}. Arguments ICrash {A}. Arguments IUnmod {A}.
Arguments s_g {fo}. Arguments s_env {fo}. Arguments s_line2 {fo}. Arguments mkSt {fo}.

(* ================================================================== the parser *)
(* THE round trip: every indent unit, every forest of statements and quoted regions *)
Theorem C03b_parse_render_round_trip_q : forall u f,
  wf_unit u -> wf_forestq f ->
  parse_document (convert_to (renderq u f)) = TOk (expected_forestq f 1%Z).
Proof. exact parse_render_round_trip_q. Qed.
Print Assumptions C03b_parse_render_round_trip_q.

(* the lax form: blank lines allowed inside regions (region_line_b l := blank \/ does not begin
   with the delimiter); they are dropped, the other lines keep their original numbers *)
Theorem C03b_parse_render_round_trip_qb : forall u f,
  wf_unit u -> wf_forestq_b f ->
  parse_document (convert_to (renderq u f)) = TOk (expected_forestq_b f 1%Z).
Proof. exact parse_render_round_trip_qb. Qed.
Print Assumptions C03b_parse_render_round_trip_qb.

(* quoted_blank_dropped: the limitation, precisely *)
Theorem C03b_quoted_blank_dropped : forall u c ls,
  wf_unit u -> wf_content c -> Forall region_line_b ls ->
  parse_document (convert_to (renderq u [QuotedQ c ls])) =
  TOk [Ln c 1%Z; Blk (lines_block (filter nonblank_line (number_from 3%Z ls)))].
Proof. exact quoted_blank_dropped. Qed.
Print Assumptions C03b_quoted_blank_dropped.

(* one step of the loop: a blank line leaves no trace, inside or outside a quotation *)
Theorem C03b_blank_line_skipped : forall rec l m rest tab newc ret free first,
  is_blank l = true ->
  pd_loop rec ((l, m) :: rest) tab newc ret free first = pd_loop rec rest tab newc ret free first.
Proof. exact blank_line_skipped. Qed.
Print Assumptions C03b_blank_line_skipped.

(* a region line is in the tree exactly as written below the delimiters: its own leading
   characters [pre] (blanks, tabs, quotes, ...) are kept *)
Theorem C03b_region_keeps_indentation : forall u c (pre l : str) before after,
  wf_unit u -> wf_content c ->
  Forall region_line (before ++ (pre ++ l) :: after) ->
  parse_document (convert_to (renderq u [QuotedQ c (before ++ (pre ++ l) :: after)])) =
  TOk [Ln c 1%Z;
       Blk (lines_block (number_from 3%Z before) ++
            Ln (pre ++ l) (3 + Z.of_nat (length before))%Z ::
            lines_block (number_from (3 + Z.of_nat (length before) + 1)%Z after))].
Proof. exact region_keeps_indentation. Qed.
Print Assumptions C03b_region_keeps_indentation.

(* forests without regions are those of Spec/BlockTree.v, rendered the same *)
Theorem C03b_renderq_embed : forall u f, renderq u (map embed f) = render u f.
Proof. exact renderq_embed. Qed.
Print Assumptions C03b_renderq_embed.

(* the condition on region lines is needed *)
Theorem C03b_region_line_needed :
  let tq := triple_quote in
  parse_document (convert_to (renderq [tb] [QuotedQ [65%N] [tq ++ [120%N]; [98%N]]])) =
  TOk [Ln [65%N] 1%Z; Blk [Ln [98%N] 4%Z; Ln tq 5%Z]].
Proof. exact region_line_needed. Qed.
Print Assumptions C03b_region_line_needed.

(* ================================================================== the compiler *)
(* STRING / STRINGLN (any casing) with a quoted region: one line per region line, verbatim *)
Theorem C03b_quoted_string_emits :
  forall (fo : FloatOps) (child : runner fo) (cx : ctx) (k word : str) (ls : list str) (n : Z) (rest : list item)
         (acc : list oline) (s : st fo),
  k = s_STRING \/ k = s_STRINGLN ->
  split_ws1 word = [word] -> is_blank word = false -> upper word = k -> starts_dollar word = false ->
  ls <> [] ->
  exists (cname : str) (l2 : option preline),
    exec_cmds fo child cx (expected_nodeq (QuotedQ word ls) n ++ rest) acc s =
    exec_cmds fo child cx rest
      (acc ++ map (fun l => mkO (ByCommand cname) (k ++ [32%N] ++ l)) ls)
      (mkSt (s_g s) (s_env s) l2).
Proof. exact quoted_string_emits. Qed.
Print Assumptions C03b_quoted_string_emits.

(* IGNORE: the lines themselves *)
Theorem C03b_quoted_ignore_emits :
  forall (fo : FloatOps) (child : runner fo) (cx : ctx) (word : str) (ls : list str) (n : Z) (rest : list item)
         (acc : list oline) (s : st fo),
  split_ws1 word = [word] -> is_blank word = false ->
  upper word = s_IGNORE -> starts_dollar word = false -> ls <> [] ->
  exec_cmds fo child cx (expected_nodeq (QuotedQ word ls) n ++ rest) acc s =
  exec_cmds fo child cx rest (acc ++ map (mkO ByIgnore) ls) (mkSt (s_g s) (s_env s) None).
Proof. exact quoted_ignore_emits. Qed.
Print Assumptions C03b_quoted_ignore_emits.

(* an unknown word: each line STRIPPED (not verbatim), after the usual warning *)
Theorem C03b_quoted_unknown_emits :
  forall (fo : FloatOps) (child : runner fo) (cx : ctx) (word : str) (ls : list str) (n : Z) (rest : list item)
         (acc : list oline) (s : st fo),
  split_ws1 word = [word] -> is_blank word = false ->
  find_command palette word (Some (lines_block (number_from (n + 2)%Z ls))) = None ->
  no_dollar word -> ls <> [] ->
  let g' := if supress_command_not_exist (c_opts cx) then s_g s
            else add_warning (mkWarn (unknown_warning_text n) (Some (here cx (word, n) None))) (s_g s) in
  exists l2 : option preline,
    exec_cmds fo child cx (expected_nodeq (QuotedQ word ls) n ++ rest) acc s =
    exec_cmds fo child cx rest
      (acc ++ map (fun l => mkO ByUnknown (upper word ++ [32%N] ++ strip l)) ls)
      (mkSt g' (s_env s) l2).
Proof. exact quoted_unknown_emits. Qed.
Print Assumptions C03b_quoted_unknown_emits.

(* text to output: a document that is one IGNORE statement with a quoted region *)
Theorem C03b_quoted_ignore_text_compiles :
  forall (fo : FloatOps) (u : str) (o : options) (fs : fsys) (file : option path) (word : str) (ls : list str),
  wf_unit u -> wf_content word -> Forall region_line ls ->
  split_ws1 word = [word] -> upper word = s_IGNORE -> starts_dollar word = false -> ls <> [] ->
  exists cmds : list item,
    parse_document (convert_to (renderq u [QuotedQ word ls])) = TOk cmds /\
    compile_items fo o fs file cmds =
    (mkGlob [] [], IOk (mkCompiled fo (map (mkO ByIgnore) ls) [] (initial_env fo) [])).
Proof. exact quoted_ignore_text_compiles. Qed.
Print Assumptions C03b_quoted_ignore_text_compiles.

(* ================================================================== computed witnesses (whole compiler) *)
Open Scope string_scope.

Theorem C03b_ex_quoted_string : forall fo,
  texts fo (run_text fo (prog ["STRING"; T q3; T "  a"; T (T "b"); T q3; "STRING end"]))
  = Some [lit "STRING   a"; lit (String.append "STRING " (T "b")); lit "STRING end"].
Proof. exact quoted_string. Qed.
Print Assumptions C03b_ex_quoted_string.

Theorem C03b_ex_quoted_ignore : forall fo,
  texts fo (run_text fo (prog ["IGNORE"; T q3; T "  a"; T (T "b"); T "  "; T q3; "STRING end"]))
  = Some [lit "  a"; lit (T "b"); lit "STRING end"].
Proof. exact quoted_ignore. Qed.
Print Assumptions C03b_ex_quoted_ignore.

Theorem C03b_ex_quoted_unknown_stripped : forall fo,
  texts fo (run_text fo (prog ["FOO"; T q3; T "  a"; T (T "b"); T q3; "STRING end"]))
  = Some [lit "FOO a"; lit "FOO b"; lit "STRING end"].
Proof. exact quoted_unknown_stripped. Qed.
Print Assumptions C03b_ex_quoted_unknown_stripped.
