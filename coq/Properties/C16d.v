(* C16d -- UNKNOWN COMMANDS on the unified reference semantics (Spec/CoreAll.v), on the specification
   alone.  Statements only; proofs in Proofs/CoreAllCor.v, CoreAllNoUnknown.v.
   (The interpreter side -- the line passes through the generic simple command, the warning text
   "The command on line N may not exist" with its stack trace, de-duplication by warning_eqb --
   is the case E_Unknown of the refinement theorem, Properties/C12d.v.) *)
From Coq Require Import NArith ZArith List Bool.
From DS Require Import Base PyStr Values Expr TabParse CoreLang CoreFunc CoreText CoreAll CoreAllCor CoreAllNoUnknown.
Import ListNotations.

(* each executed unknown word yields its line in the output -- (!) the word in UPPER CASE -- and,
   unless suppressed, ONE warning that locates it: the pile of running stacks, the file, the text
   of the line, the line number; the state does not change *)
Theorem C16d_unknown_rule : forall (fo : FloatOps) (sys : store fo) prog inc sup d pile cf n F f vs w args sg F' f' vs' out ev,
  CoreAll.exec fo sys prog inc sup d pile cf n F f vs (UUnknown w args) sg F' f' vs' out ev ->
  sg = Normal /\ F' = F /\ f' = f /\ vs' = vs /\ out = [LCode (upper w ++ sp :: args)] /\
  ev = if sup then [] else [EvWarn (WUnknown pile cf (unknown_head w args) n)].
Proof. exact unknown_law. Qed.
Print Assumptions C16d_unknown_rule.

(* a program in which no UUnknown statement occurs (in any file -- hence in any function body)
   yields no "may not exist" warning: neither as an event nor in the final warning list *)
Theorem C16d_no_unknown_no_warning : forall fo prog inc sup entry d sg F' f' vs' out ev,
  (forall m stmts, lookup m prog = Some stmts -> each unknown_free stmts) ->
  uruns fo prog inc sup entry d sg F' f' vs' out ev ->
  forall p f t n, ~ In (WUnknown p f t n) (warnings_of ev) /\ ~ In (EvWarn (WUnknown p f t n)) ev.
Proof. exact no_unknown_no_warning. Qed.
Print Assumptions C16d_no_unknown_no_warning.

(* the same for any statement list inside any stack, given a function table without unknown words *)
Theorem C16d_no_unknown_list : forall (fo : FloatOps) (sys : store fo) prog inc sup,
  (forall m stmts, lookup m prog = Some stmts -> each unknown_free stmts) ->
  forall d pile cf n F f vs p sg F' f' vs' out ev,
  CoreAll.exec_list fo sys prog inc sup d pile cf n F f vs p sg F' f' vs' out ev ->
  each unknown_free p -> tab_free F -> tab_free F' /\ quiet ev.
Proof. exact no_unknown_list. Qed.
Print Assumptions C16d_no_unknown_list.

(* suppression removes exactly these warnings (see also Properties/C15d.v) *)
Theorem C16d_suppression : forall (fo : FloatOps) (sys : store fo) prog inc d pile cf n F f vs p sg F' f' vs' out ev,
  CoreAll.exec_list fo sys prog inc false d pile cf n F f vs p sg F' f' vs' out ev ->
  CoreAll.exec_list fo sys prog inc true d pile cf n F f vs p sg F' f' vs' out
                    (filter (fun e => negb (is_unknown_ev e)) ev).
Proof. exact suppression_erasure. Qed.
Print Assumptions C16d_suppression.
