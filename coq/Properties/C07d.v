(* C07d -- FUNCTIONS (FUNC / RUN / RETURN) against a reference semantics.  Statements only.

   Spec/CoreFunc.v extends the reference semantics Spec/CoreLang.v (see Properties/C05c.v) with
     FFunc name params body     FUNC name p1,...,pk  + block
     FRun name args             RUN name a1,...,an
     FReturn                    RETURN
   The judgement   exec_list fo sys d F f vs p  sg F' f' vs' out   reads: the statement list p,
   started with function table F, IF flag f and store vs, ends with signal sg (Normal | Broke |
   Continued | Returned), table F', flag f', store vs', having emitted the lines out, and needs at
   most d stacks above the current one (every block and every CALL is one stack: recursion is
   allowed, the depth of the DERIVATION is what the stack limit bounds).
     fruns fo p d sg F' f' vs' out   = the same for a whole program (no variable, flag, function).
   Proofs: Proofs/CoreFuncRefine.v (refinement), CoreFuncCor.v (the specification alone),
   CoreFuncExample.v (witnesses), CoreFuncLines.v (well-formedness fwf, the three new lines).

   What the code does where the "obvious" semantics of functions says otherwise -- rule E_Run of
   Spec/CoreFunc.v, confirmed by the refinement theorem and by the witnesses below:
     (!) DYNAMIC SCOPING: the body runs on a copy of the CALLER's store (plus parameters) and with
         the caller's function table at call time;
     (!) assignments of the body to variables the caller already has PERSIST (copy-back);
     (!) a parameter named like a variable of the caller OVERWRITES that variable on return;
     (!) the argument text is ONE expression; a single argument whose value is a list is SPREAD;
     (!) a definition made inside any block or body is dropped when the block ends;
     (!) WHILE needs one stack even for its final, false test of the condition. *)
From Coq Require Import String NArith ZArith List Bool.
From DS Require Import Base PyStr Values Expr TabParse Tables Constants Interp ScopeProofs.
From DS Require Import ExprAst TreeProofs MoreProofs Spelling ScanSpelled RunProofs RunArgs.
From DS Require Import ChainLoopExamples CoreLang CoreWf CoreLines CoreRefine CoreScope.
From DS Require Import CoreFunc CoreFuncLines CoreFuncRefine CoreFuncCor CoreFuncExample.
Import ListNotations.

Arguments IOk {A}. Arguments IErr {A}. Arguments s_line2 {fo}.

(* ================================================================== 1. the refinement *)
(* Compiler.compile of the model on the concrete form of a well-formed program that has a
   derivation of depth below the stack limit: IOk, the derivation's lines, final store, flag and
   FUNCTION TABLE (tab_rel: same names in the same order, same parameters, code = the concrete form
   of the body).  A program that ends with Returned (RETURN at top level) ends NORMALLY and
   silently; Broke / Continued add the "Program was exited using ..." warning. *)
Theorem C07d_refinement_compile_items :
  forall (fo : FloatOps) o fs file p d sg Fs' f' vs' out,
  fruns fo p d sg Fs' f' vs' out -> fwf_list p -> (Z.of_nat d < stack_limit o)%Z ->
  exists ol F', map o_text ol = out /\ tab_rel Fs' F' /\
    compile_items fo o fs file (fitems_of p) =
    (mkGlob [] (stray_warnings sg),
     IOk (mkCompiled fo ol (stray_warnings sg) (mkEnv fo (initial_sys fo) vs' (flag_var fo f') F') [])).
Proof. exact refine_compile_items. Qed.
Print Assumptions C07d_refinement_compile_items.

Theorem C07d_stray_warnings :
  stray_warnings Normal = [] /\ stray_warnings Returned = [] /\
  stray_warnings Broke <> [] /\ stray_warnings Continued <> [].
Proof. exact stray_warnings_values. Qed.
Print Assumptions C07d_stray_warnings.

(* what tab_rel says *)
Theorem C07d_tab_rel_meaning : forall Fs F, tab_rel Fs F ->
  map fst F = map fst Fs /\
  forall x ps body, lookup x Fs = Some (ps, body) ->
    exists fn, lookup x F = Some fn /\ fn_args fn = ps /\ (exists n, fn_code fn = fitems_from n body) /\
               body <> [] /\ fwf_list body.
Proof. exact tab_rel_meaning. Qed.
Print Assumptions C07d_tab_rel_meaning.

(* the depth-indexed interpreter on any stack with room for the derivation (fits d cx d0: d0 more
   stacks fit under both the fuel d and the stack limit), from any store and any function table *)
Theorem C07d_refinement_run :
  forall (fo : FloatOps) (sys : store fo), nodup_keys sys ->
  forall d0 Fs vs p sg Fs' f' vs' out d cx n g F,
  exec_list fo sys d0 Fs None vs p sg Fs' f' vs' out ->
  fwf_list p -> fits d cx d0 -> nodup_keys vs -> tab_rel Fs F ->
  exists ol F', map o_text ol = out /\ tab_rel Fs' F' /\
    run fo d cx g (mkEnv fo sys vs [] F) (fitems_from n p) =
    (g, IOk (mkCret ol (sig_of sg), mkEnv fo sys vs' (flag_var fo f') F')).
Proof. exact refine_run. Qed.
Print Assumptions C07d_refinement_run.

(* Stack.run (exec_cmds) in the middle of a stack: RR g Fs f vs s = the state s has glob g, the
   store vs as its user variables, the flag f, and a function table that represents Fs *)
Theorem C07d_refinement_exec_cmds :
  forall (fo : FloatOps) (sys : store fo), nodup_keys sys ->
  forall d0 Fs f vs p sg Fs' f' vs' out d cx n acc s g,
  exec_list fo sys d0 Fs f vs p sg Fs' f' vs' out ->
  fwf_list p -> fits d cx d0 -> RR fo sys g Fs f vs s ->
  exists s' ol, RR fo sys g Fs' f' vs' s' /\ map o_text ol = out /\
    exec_cmds fo (child_of fo d) cx (fitems_from n p) acc s = (s', IOk (mkCret (acc ++ ol) (sig_of sg))).
Proof. exact refine_exec_cmds. Qed.
Print Assumptions C07d_refinement_exec_cmds.

(* the call itself, as one line of a stack: rule E_Run is what RUN does *)
Theorem C07d_refinement_call :
  forall (fo : FloatOps) (sys : store fo), nodup_keys sys ->
  forall d0 Fs f vs name args vals ps body sg F1 f1 vs1 out,
  run_args fo sys f vs args vals -> lookup name Fs = Some (ps, body) -> length ps = length vals ->
  exec_list fo sys d0 Fs None (bind_params fo ps vals vs) body sg F1 f1 vs1 out ->
  sg = Normal \/ sg = Returned ->
  forall d cx n rest acc s g,
    RR fo sys g Fs f vs s -> fwf (FRun name args) -> fits d cx (S d0) -> head_ok rest ->
    exists s' ol, RR fo sys g Fs f (copy_back fo vs vs1) s' /\ map o_text ol = out /\
      exec_cmds fo (child_of fo d) cx (fstmt_items n (FRun name args) ++ rest) acc s =
      exec_cmds fo (child_of fo d) cx rest (acc ++ ol) s'.
Proof. exact refine_call. Qed.
Print Assumptions C07d_refinement_call.

(* the three errors of C07 on the interpreter: unknown name, wrong arity (both after the arguments
   were evaluated), and BREAKLOOP / CONTINUELOOP escaping the body (AFTER the body ran) *)
Theorem C07d_call_unknown_is_error :
  forall (fo : FloatOps) (sys : store fo) Fs f vs name args vals,
  run_args fo sys f vs args vals -> lookup name Fs = None ->
  forall child cx n rest acc s g,
    RR fo sys g Fs f vs s -> fwf (FRun name args) -> head_ok rest ->
    exists s' t, exec_cmds fo child cx (fstmt_items n (FRun name args) ++ rest) acc s = (s', IErr EVarNonExistent t).
Proof. exact refine_call_unknown. Qed.
Print Assumptions C07d_call_unknown_is_error.

Theorem C07d_call_arity_is_error :
  forall (fo : FloatOps) (sys : store fo) Fs f vs name args vals ps body,
  run_args fo sys f vs args vals -> lookup name Fs = Some (ps, body) -> length ps <> length vals ->
  forall child cx n rest acc s g,
    RR fo sys g Fs f vs s -> fwf (FRun name args) -> head_ok rest ->
    exists s' t, exec_cmds fo child cx (fstmt_items n (FRun name args) ++ rest) acc s = (s', IErr EInvalidArguments t).
Proof. exact refine_call_arity. Qed.
Print Assumptions C07d_call_arity_is_error.

Theorem C07d_call_escape_is_error :
  forall (fo : FloatOps) (sys : store fo), nodup_keys sys ->
  forall d0 Fs f vs name args vals ps body sg F1 f1 vs1 out,
  run_args fo sys f vs args vals -> lookup name Fs = Some (ps, body) -> length ps = length vals ->
  exec_list fo sys d0 Fs None (bind_params fo ps vals vs) body sg F1 f1 vs1 out ->
  sg = Broke \/ sg = Continued ->
  forall d cx n rest acc s g,
    RR fo sys g Fs f vs s -> fwf (FRun name args) -> fits d cx (S d0) -> head_ok rest ->
    exists s' t, exec_cmds fo (child_of fo d) cx (fstmt_items n (FRun name args) ++ rest) acc s =
                 (s', IErr EStackReturnType t).
Proof. exact refine_call_escape. Qed.
Print Assumptions C07d_call_escape_is_error.

(* ================================================================== 2. the specification alone *)
(* the depth index is an upper bound *)
Theorem C07d_depth_mono : forall (fo : FloatOps) sys d d' F f vs p sg F' f' vs' out,
  exec_list fo sys d F f vs p sg F' f' vs' out -> (d <= d')%nat ->
  exec_list fo sys d' F f vs p sg F' f' vs' out.
Proof. exact depth_mono. Qed.
Print Assumptions C07d_depth_mono.

(* everything a derivation of RUN contains *)
Theorem C07d_run_inversion : forall (fo : FloatOps) sys d F f vs name args sg F' f' vs' out,
  exec fo sys d F f vs (FRun name args) sg F' f' vs' out ->
  exists d1 vals ps body sgb F1 f1 vs1,
    d = S d1 /\
    run_args fo sys f vs args vals /\
    lookup name F = Some (ps, body) /\
    length ps = length vals /\
    exec_list fo sys d1 F None (bind_params fo ps vals vs) body sgb F1 f1 vs1 out /\
    (sgb = Normal \/ sgb = Returned) /\
    sg = Normal /\
    F' = F /\ f' = f /\ vs' = copy_back fo vs vs1.
Proof. exact run_inv. Qed.
Print Assumptions C07d_run_inversion.

(* arguments: evaluated in the caller; k >= 2 comma-separated value tokens give k arguments in order *)
Theorem C07d_arguments_in_caller_order : forall (fo : FloatOps) sys f vs args lay t1 t2 ts,
  let vars := visible fo sys f vs in
  let toks := comma_toks t1 (t2 :: ts) in
  args <> [] -> comma_list args = spell lay toks ->
  is_sop t1 = false -> is_sop t2 = false -> value_toks ts ->
  well_formed fo vars toks -> layout_ok lay -> boundaries_ok fo vars lay toks ->
  not_list fo (val_of fo vars t1) ->
  run_args fo sys f vs args (map (val_of fo vars) (t1 :: t2 :: ts)).
Proof. exact run_args_comma. Qed.
Print Assumptions C07d_arguments_in_caller_order.

Theorem C07d_single_argument_spread : forall (fo : FloatOps) sys f vs a r v,
  eval fo sys f vs (comma_list (a :: r)) v ->
  run_args fo sys f vs (a :: r) (match v with VList xs => xs | _ => [v] end).
Proof. exact run_args_single. Qed.
Print Assumptions C07d_single_argument_spread.

(* positional binding; every other variable of the caller is visible in the body *)
Theorem C07d_binding_is_positional : forall (fo : FloatOps) ps vals (vs : store fo) i,
  NoDup ps -> length ps = length vals -> (i < length ps)%nat ->
  lookup (nth i ps []) (bind_params fo ps vals vs) = Some (nth i vals VNone).
Proof. exact binding_is_positional. Qed.
Print Assumptions C07d_binding_is_positional.

Theorem C07d_body_sees_caller_variables : forall (fo : FloatOps) ps vals (vs : store fo) x,
  ~ In x ps -> lookup x (bind_params fo ps vals vs) = lookup x vs.
Proof. exact body_sees_caller_variables. Qed.
Print Assumptions C07d_body_sees_caller_variables.

(* the body's output is placed at the call site *)
Theorem C07d_output_at_call_site : forall (fo : FloatOps) sys d F f vs name args r sg F' f' vs' out,
  exec_list fo sys d F f vs (FRun name args :: r) sg F' f' vs' out ->
  exists d1 vals ps body sgb F1 f1 vs1 ob o2,
    d = S d1 /\ run_args fo sys f vs args vals /\ lookup name F = Some (ps, body) /\
    exec_list fo sys d1 F None (bind_params fo ps vals vs) body sgb F1 f1 vs1 ob /\
    exec_list fo sys d F f (copy_back fo vs vs1) r sg F' f' vs' o2 /\
    out = ob ++ o2.
Proof. exact output_at_call_site. Qed.
Print Assumptions C07d_output_at_call_site.

(* RETURN ends only the innermost call: the statements after the call run *)
Theorem C07d_return_ends_only_the_call :
  forall (fo : FloatOps) sys d F f vs name args vals ps body F1 f1 vs1 ob r sg F2 f2 vs2 o2,
  run_args fo sys f vs args vals -> lookup name F = Some (ps, body) -> length ps = length vals ->
  exec_list fo sys d F None (bind_params fo ps vals vs) body Returned F1 f1 vs1 ob ->
  exec_list fo sys (S d) F f (copy_back fo vs vs1) r sg F2 f2 vs2 o2 ->
  exec_list fo sys (S d) F f vs (FRun name args :: r) sg F2 f2 vs2 (ob ++ o2).
Proof. exact return_ends_only_the_call. Qed.
Print Assumptions C07d_return_ends_only_the_call.

Theorem C07d_call_keeps_flag_and_table : forall (fo : FloatOps) sys d F f vs name args sg F' f' vs' out,
  exec fo sys d F f vs (FRun name args) sg F' f' vs' out -> F' = F /\ f' = f /\ sg = Normal.
Proof. exact call_keeps_flag_and_table. Qed.
Print Assumptions C07d_call_keeps_flag_and_table.

(* the latest definition wins *)
Theorem C07d_latest_definition_wins : forall x d1 d2 (F : ftable),
  lookup x (set_fun x d2 (set_fun x d1 F)) = Some d2 /\
  set_fun x d2 (set_fun x d1 F) = set_fun x d2 F.
Proof. exact latest_definition_wins. Qed.
Print Assumptions C07d_latest_definition_wins.

Theorem C07d_redefinition_replaces : forall (fo : FloatOps) sys d F f vs name ps1 b1 ps2 b2 r sg F' f' vs' out,
  exec_list fo sys d F f vs (FFunc name ps1 b1 :: FFunc name ps2 b2 :: r) sg F' f' vs' out ->
  exec_list fo sys d (set_fun name (ps2, b2) F) f vs r sg F' f' vs' out /\
  lookup name (set_fun name (ps2, b2) F) = Some (ps2, b2).
Proof. exact redefinition_replaces. Qed.
Print Assumptions C07d_redefinition_replaces.

(* a definition made inside a block (IF arm, loop body, function body) is invisible after it:
   only a FUNC statement of the stack itself changes its table *)
Theorem C07d_definition_invisible_after_block : forall (fo : FloatOps) sys d F f vs stm sg F' f' vs' out,
  exec fo sys d F f vs stm sg F' f' vs' out -> is_func stm = false -> F' = F.
Proof. exact table_changes_only_by_func. Qed.
Print Assumptions C07d_definition_invisible_after_block.

(* parameters and variables created by the body do not leak: the caller has exactly the same
   variables, in the same order, after the call ... *)
Theorem C07d_call_is_scope : forall (fo : FloatOps) sys d F f vs name args sg F' f' vs' out,
  exec fo sys d F f vs (FRun name args) sg F' f' vs' out -> map fst vs' = map fst vs.
Proof. exact call_is_scope. Qed.
Print Assumptions C07d_call_is_scope.

(* ... each with the value it has at the END OF THE BODY (vs1): assignments to the caller's
   variables persist, and a parameter named like one of them overwrites it *)
Theorem C07d_call_values : forall (fo : FloatOps) sys d F f vs name args sg F' f' vs' out,
  exec fo sys d F f vs (FRun name args) sg F' f' vs' out ->
  exists d1 vals ps body sgb F1 f1 vs1,
    exec_list fo sys d1 F None (bind_params fo ps vals vs) body sgb F1 f1 vs1 out /\
    forall x, lookup x vs' = if has_key x vs then lookup x vs1 else None.
Proof. exact call_values. Qed.
Print Assumptions C07d_call_values.

(* unknown names and wrong arity: no derivation (the interpreter: EVarNonExistent /
   EInvalidArguments, Properties/C07b.v run_line_undefined / run_line_arity) *)
Theorem C07d_unknown_function : forall (fo : FloatOps) sys d F f vs name args sg F' f' vs' out,
  lookup name F = None -> ~ exec fo sys d F f vs (FRun name args) sg F' f' vs' out.
Proof. exact unknown_function_no_derivation. Qed.
Print Assumptions C07d_unknown_function.

Theorem C07d_wrong_arity : forall (fo : FloatOps) sys d F f vs name args vals ps body sg F' f' vs' out,
  lookup name F = Some (ps, body) -> run_args fo sys f vs args vals -> length ps <> length vals ->
  ~ exec fo sys d F f vs (FRun name args) sg F' f' vs' out.
Proof. exact wrong_arity_no_derivation. Qed.
Print Assumptions C07d_wrong_arity.

(* ================================================================== 3. witnesses *)
Open Scope string_scope.

(* FUNC down n / IF n>0 / $STRING n / RUN down n-1 ; RUN down 3 : a derivation of depth 7
   (4 calls + 3 IF blocks), the interpreter, and tightness of the depth hypothesis *)
Theorem C07d_recursive_countdown : forall fo,
  fruns fo prog_down 7 Normal tab_down None [] [lit "STRING 3"; lit "STRING 2"; lit "STRING 1"] /\
  fwf_list prog_down /\
  fresult fo prog_down = Some ([lit "STRING 3"; lit "STRING 2"; lit "STRING 1"], [], [], [lit "down"], []) /\
  match compile_items fo (opts_limit 7) (fun _ => None) None (fitems_of prog_down) with
  | (_, IErr EStackOverflow _) => True | _ => False end.
Proof. exact all_recursive_countdown. Qed.
Print Assumptions C07d_recursive_countdown.

Theorem C07d_recursive_countdown_limit_8 : forall fo, exists ol F',
  map o_text ol = [lit "STRING 3"; lit "STRING 2"; lit "STRING 1"] /\ tab_rel tab_down F' /\
  compile_items fo (opts_limit 8) (fun _ => None) None (fitems_of prog_down) =
  (mkGlob [] [], IOk (mkCompiled fo ol [] (mkEnv fo (initial_sys fo) [] [] F') [])).
Proof. exact down_limit_8. Qed.
Print Assumptions C07d_recursive_countdown_limit_8.

(* FUNC f / REPEAT i,5 / (IF i==2 / RETURN) ; $STRING i / STRING never ; RUN f ; STRING after *)
Theorem C07d_return_inside_repeat : forall fo,
  fruns fo prog_ret 3 Normal [(lit "f", ([], ret_body))] None []
        [lit "STRING 0"; lit "STRING 1"; lit "STRING after"] /\
  fwf_list prog_ret /\
  fresult fo prog_ret = Some ([lit "STRING 0"; lit "STRING 1"; lit "STRING after"], [], [], [lit "f"], []).
Proof. exact all_return_inside_repeat. Qed.
Print Assumptions C07d_return_inside_repeat.

(* FUNC f / STRING one ; RUN f ; FUNC f / STRING two ; RUN f *)
Theorem C07d_redefinition : forall fo,
  fruns fo prog_redef 1 Normal [(lit "f", ([], [FEmit (lit "STRING") (lit "two")]))] None []
        [lit "STRING one"; lit "STRING two"] /\
  fwf_list prog_redef /\
  fresult fo prog_redef = Some ([lit "STRING one"; lit "STRING two"], [], [], [lit "f"], []).
Proof. exact all_redefinition. Qed.
Print Assumptions C07d_redefinition.

(* (!) VAR x 1 ; VAR n 10 ; FUNC f n / VAR x n+1 ; VAR y 5 ; RUN f 7 ; $STRING x ; $STRING n
   x = 8 (assignment persists), y is gone, n = 7 (the parameter overwrote the caller's n) *)
Theorem C07d_call_and_caller_variables : forall fo,
  (exists F', fruns fo prog_scope 1 Normal F' None [(lit "x", VInt 8); (lit "n", VInt 7)]
                    [lit "STRING 8"; lit "STRING 7"]) /\
  fwf_list prog_scope /\
  fresult fo prog_scope = Some ([lit "STRING 8"; lit "STRING 7"], [(lit "x", VInt 8); (lit "n", VInt 7)], [], [lit "f"], []).
Proof. exact all_call_and_caller_variables. Qed.
Print Assumptions C07d_call_and_caller_variables.

(* (!) dynamic scoping: show reads a variable that only exists in the call of outer that called it *)
Theorem C07d_dynamic_scoping : forall fo,
  (exists F', fruns fo prog_dyn 2 Normal F' None [] [lit "STRING 42"]) /\
  fwf_list prog_dyn /\
  fresult fo prog_dyn = Some ([lit "STRING 42"], [], [], [lit "show"; lit "outer"], []).
Proof. exact all_dynamic_scoping. Qed.
Print Assumptions C07d_dynamic_scoping.

(* (!) VAR p 1,2 ; RUN add p : one argument text, two arguments *)
Theorem C07d_list_argument_is_spread : forall fo,
  (exists F' vs', fruns fo prog_spread 1 Normal F' None vs' [lit "STRING 3"; lit "STRING 30"]) /\
  fwf_list prog_spread /\
  match fresult fo prog_spread with
  | Some (o, _, _, _, _) => o = [lit "STRING 3"; lit "STRING 30"] | None => False end.
Proof. exact all_list_argument_is_spread. Qed.
Print Assumptions C07d_list_argument_is_spread.

(* STRING a ; RETURN ; STRING b : the program ends at the RETURN, normally, no warning *)
Theorem C07d_return_at_top_level : forall fo,
  fruns fo prog_top 0 Returned [] None [] [lit "STRING a"] /\
  fwf_list prog_top /\
  fresult fo prog_top = Some ([lit "STRING a"], [], [], [], []).
Proof. exact all_return_at_top_level. Qed.
Print Assumptions C07d_return_at_top_level.

(* IF TRUE / (FUNC g / STRING x) ; RUN g   is fine and leaves NO function;  one more RUN g after
   the block is an error *)
Theorem C07d_definition_dies_with_block : forall fo,
  fruns fo prog_local_ok 2 Normal [] (Some true) [] [lit "STRING x"] /\
  fresult fo prog_local_ok = Some ([lit "STRING x"], [], [(if_success, VBool true)], [], []) /\
  ferror fo prog_local = Some EVarNonExistent.
Proof. exact all_definition_dies_with_block. Qed.
Print Assumptions C07d_definition_dies_with_block.

(* RUN nope ;  FUNC f a ... RUN f 1,2 ;  FUNC f / BREAKLOOP ... REPEAT 2 / RUN f *)
Theorem C07d_errors : forall fo,
  ferror fo prog_unknown = Some EVarNonExistent /\
  ferror fo prog_arity = Some EInvalidArguments /\
  ferror fo prog_escape = Some EStackReturnType.
Proof. exact errors_interpreter. Qed.
Print Assumptions C07d_errors.
