(* C07c -- "RETURN ends only the function being run (from ANY depth of loops and IF blocks inside
   it) and, outside any function, ends the program keeping the output produced so far."
   Statements only.  Signal paths [raises] / [if_nest]: Spec/SignalPath.v (summary in
   Properties/C06d.v); for SReturn a path goes through taken IF arms AND loop iterations
   (REPEAT / WHILE), mixed, to any depth.

     callee_ctx cx (c, n) f l2     context of the stack that runs the body of f called from line (c, n)
     callee_start s f vals         its start state: globals of s, copied-in environment with the
                                   parameters bound (RunProofs.callee_env), line_2 None           *)
From Coq Require Import String NArith ZArith List Bool.
From DS Require Import Base PyStr Values Expr TabParse Tables Constants Interp.
From DS Require Import ScopeProofs LimitProofs ChainProofs LoopUnroll LoopBlock UnknownWarn PipelineProofs.
From DS Require Import RunProofs FuncProofs PasteTop SignalPath SignalProofs SignalTheorems.
From DS Require Import ChainLoopExamples C07Examples SignalExamples SignalWitness.
Import ListNotations.
Arguments IOk {A}. Arguments IErr {A}. Arguments ICrash {A}. Arguments IUnmod {A}.
Arguments s_g {fo}. Arguments s_env {fo}. Arguments s_line2 {fo}. Arguments mkSt {fo}.

(* the paths are sound for the interpreter (all four rules, RETURN through loops included) *)
Theorem C07c_signal_path_sound :
  forall (fo : FloatOps) d cx s cmds sg segs s',
  raises fo d cx s cmds sg segs s' ->
  forall acc, exec_cmds fo (child_of fo d) cx cmds acc s = (s', IOk (mkCret (acc ++ concat segs) sg)).
Proof. exact raises_sound. Qed.
Print Assumptions C07c_signal_path_sound.

Theorem C07c_block_raises :
  forall (fo : FloatOps) d cx cur code file setup s cenv1 sg segs sB,
  stack_full cx = false ->
  setup (entry_env fo s) = Ok cenv1 ->
  raises fo d (child_ctx fo cx cur s file) (enter fo s cenv1) code sg segs sB ->
  run_child fo (run fo d) cx cur code file false setup s = (leave fo s sB, IOk (mkCret (concat segs) sg)).
Proof. exact block_raises. Qed.
Print Assumptions C07c_block_raises.

(* ================================================================== (b) RETURN ends the function *)
Theorem C07c_return_ends_the_function :
  forall (fo : FloatOps) d cx c cmd (a : str) more n rest acc s fname var_string vals f segs sB,
  is_blank c = false -> split_ws1 c = cmd :: a :: more -> upper cmd = s_RUN ->
  PipelineProofs.starts_dollar cmd = false ->
  a <> [] -> block_after rest = None ->
  break_arg (strip a) = (fname, var_string) ->
  arg_values fo (s_env s) var_string = Ok vals ->
  lookup fname (e_funcs fo (s_env s)) = Some f ->
  length (fn_args f) = length vals ->
  stack_full cx = false ->
  raises fo d (callee_ctx cx (c, n) f (Some (c, n))) (callee_start fo s f vals) (fn_code f) SReturn segs sB ->
  exec_cmds fo (run fo d) cx (Ln c n :: rest) acc s =
  exec_cmds fo (run fo d) cx rest (acc ++ concat segs)
            (mkSt (s_g sB) (update_from_env fo (s_env s) (s_env sB)) (Some (c, n))).
Proof. exact return_ends_the_function. Qed.
Print Assumptions C07c_return_ends_the_function.

(* ================================================================== (b') RETURN ends the program *)
Theorem C07c_return_ends_the_program :
  forall (fo : FloatOps) o fs file cmds segs s1,
  raises fo (run_depth o) (mkCtx o fs [] file) (mkSt (mkGlob [] []) (initial_env fo) None) cmds SReturn segs s1 ->
  compile_items fo o fs file cmds =
  (s_g s1, IOk (mkCompiled fo (concat segs) (rev (g_warnings (s_g s1))) (s_env s1) (rev (g_prints (s_g s1))))).
Proof. exact return_ends_the_program. Qed.
Print Assumptions C07c_return_ends_the_program.

(* contrast: BREAKLOOP / CONTINUELOOP reaching the top level adds the warning *)
Theorem C07c_loop_signal_ends_the_program_with_warning :
  forall (fo : FloatOps) o fs file cmds sg nest segs s1 w,
  if_nest fo nest (run_depth o) (mkCtx o fs [] file) (mkSt (mkGlob [] []) (initial_env fo) None) cmds sg segs s1 ->
  s_sig_warning sg = Some w ->
  let g' := add_warning (mkWarn w None) (s_g s1) in
  compile_items fo o fs file cmds =
  (g', IOk (mkCompiled fo (concat segs) (rev (g_warnings g')) (s_env s1) (rev (g_prints g')))).
Proof. exact loop_signal_ends_the_program_with_warning. Qed.
Print Assumptions C07c_loop_signal_ends_the_program_with_warning.

(* ================================================================== (c) BREAKLOOP / CONTINUELOOP escaping a function *)
Theorem C07c_break_escaping_function_is_error :
  forall (fo : FloatOps) d cx c cmd (a : str) more n rest acc s fname var_string vals f sg nest segs sB,
  is_blank c = false -> split_ws1 c = cmd :: a :: more -> upper cmd = s_RUN ->
  PipelineProofs.starts_dollar cmd = false ->
  a <> [] -> block_after rest = None ->
  break_arg (strip a) = (fname, var_string) ->
  arg_values fo (s_env s) var_string = Ok vals ->
  lookup fname (e_funcs fo (s_env s)) = Some f ->
  length (fn_args f) = length vals ->
  stack_full cx = false ->
  sg = SBreak \/ sg = SContinue ->
  if_nest fo nest d (callee_ctx cx (c, n) f (Some (c, n))) (callee_start fo s f vals) (fn_code f) sg segs sB ->
  exists s', exec_cmds fo (run fo d) cx (Ln c n :: rest) acc s =
             (s', IErr EStackReturnType (Some (here cx (c, n) (Some (c, n))))).
Proof. exact break_escaping_function_is_error. Qed.
Print Assumptions C07c_break_escaping_function_is_error.

(* ... also when the RUN line is in iteration j of a REPEAT of the caller: the caller's loop does
   not absorb the callee's BREAKLOOP; the REPEAT line fails with the error raised at the RUN line *)
Theorem C07c_break_escaping_function_in_loop_is_error :
  forall (fo : FloatOps) d cx a0 n0 rest acc s var_name count_expr (m j : nat) (sts : nat -> st fo) (crs : nat -> cret)
         bpre o1 s1 c cmd (a : str) more n brest fname var_string vals f sg nest segs sB,
  is_blank a0 = false ->
  split_loop_arg (strip a0) = (var_name, count_expr) -> counter_ok var_name ->
  sts 0%nat = clear_line2 fo s ->
  (forall k, (k <= j)%nat ->
     tokenize_count fo cx (s_REPEAT ++ 32%N :: a0, n0) count_expr (sts k) = (sts k, IOk (Z.of_nat m))) ->
  (j < m)%nat ->
  (forall k, (k < j)%nat ->
     run_child fo (run fo (S d)) cx (s_REPEAT ++ 32%N :: a0, n0) (bpre ++ Ln c n :: brest) (c_file cx) false
       (bind_counter fo var_name (Z.of_nat k)) (sts k) = (sts (S k), IOk (crs k))) ->
  (forall k, (k < j)%nat -> cr_sig (crs k) = SNormal \/ cr_sig (crs k) = SContinue) ->
  stack_full cx = false ->
  let cx' := child_ctx fo cx (s_REPEAT ++ 32%N :: a0, n0) (sts j) (c_file cx) in
  runs fo (S d) cx' (enter fo (sts j) (counter_env fo var_name (Z.of_nat j) (entry_env fo (sts j)))) bpre o1 s1 ->
  is_blank c = false -> split_ws1 c = cmd :: a :: more -> upper cmd = s_RUN ->
  PipelineProofs.starts_dollar cmd = false ->
  a <> [] -> block_after brest = None ->
  break_arg (strip a) = (fname, var_string) ->
  arg_values fo (s_env s1) var_string = Ok vals ->
  lookup fname (e_funcs fo (s_env s1)) = Some f ->
  length (fn_args f) = length vals ->
  stack_full cx' = false ->
  sg = SBreak \/ sg = SContinue ->
  if_nest fo nest d (callee_ctx cx' (c, n) f (Some (c, n))) (callee_start fo s1 f vals) (fn_code f) sg segs sB ->
  exists s', exec_cmds fo (run fo (S d)) cx (Ln (s_REPEAT ++ 32%N :: a0) n0 :: Blk (bpre ++ Ln c n :: brest) :: rest) acc s =
             (s', IErr EStackReturnType (Some (here cx' (c, n) (Some (c, n))))).
Proof. exact break_escaping_function_in_loop_is_error. Qed.
Print Assumptions C07c_break_escaping_function_in_loop_is_error.

(* a failing iteration fails the REPEAT line (any child runner) *)
Theorem C07c_repeat_line_fails_at :
  forall (fo : FloatOps) child cx a n body rest acc s var_name count_expr (m j : nat)
    (sts : nat -> st fo) (crs : nat -> cret) sJ e t,
  is_blank a = false -> body <> [] ->
  split_loop_arg (strip a) = (var_name, count_expr) -> counter_ok var_name ->
  sts 0%nat = clear_line2 fo s ->
  (forall k, (k <= j)%nat ->
     tokenize_count fo cx (s_REPEAT ++ 32%N :: a, n) count_expr (sts k) = (sts k, IOk (Z.of_nat m))) ->
  (j < m)%nat ->
  (forall k, (k < j)%nat ->
     run_child fo child cx (s_REPEAT ++ 32%N :: a, n) body (c_file cx) false
       (bind_counter fo var_name (Z.of_nat k)) (sts k) = (sts (S k), IOk (crs k))) ->
  (forall k, (k < j)%nat -> cr_sig (crs k) = SNormal \/ cr_sig (crs k) = SContinue) ->
  run_child fo child cx (s_REPEAT ++ 32%N :: a, n) body (c_file cx) false
    (bind_counter fo var_name (Z.of_nat j)) (sts j) = (sJ, IErr e t) ->
  exec_cmds fo child cx (Ln (s_REPEAT ++ 32%N :: a) n :: Blk body :: rest) acc s = (sJ, IErr e t).
Proof. exact repeat_line_fails_at. Qed.
Print Assumptions C07c_repeat_line_fails_at.

(* ================================================================== computed witnesses, depth 3 *)
Open Scope string_scope.

Theorem C07c_return_depth_mixed :
  sig_run ["FUNC f"; T "STRING s"; T "REPEAT i,3"; T2 "STRING a"; T2 "IF i==1"; T3 "WHILE TRUE";
           T4 "STRING w"; T4 "IF TRUE"; T5 "ret"; T4 "STRING never"; T2 "STRING b"; T "STRING never2";
           "REPEAT 2"; T "RUN f"; T "STRING after"]
  = inl (lits ["STRING s"; "STRING a"; "STRING b"; "STRING a"; "STRING w"; "STRING after";
               "STRING s"; "STRING a"; "STRING b"; "STRING a"; "STRING w"; "STRING after"], 0).
Proof. exact return_depth_mixed. Qed.
Print Assumptions C07c_return_depth_mixed.

Theorem C07c_return_program_depth3 :
  sig_run ["STRING a"; "IF TRUE"; T "REPEAT 2"; T2 "STRING b"; T2 "IF TRUE"; T3 "RETURN";
           T2 "STRING never"; T "STRING never"; "STRING never"]
  = inl (lits ["STRING a"; "STRING b"], 0).
Proof. exact return_program_depth3. Qed.
Print Assumptions C07c_return_program_depth3.

Theorem C07c_break_escapes_function_depth3 :
  sig_run ["FUNC f"; T "IF TRUE"; T2 "IF TRUE"; T3 "IF TRUE"; T4 "BREAKLOOP";
           "REPEAT 2"; T "STRING a"; T "RUN f"]
  = inr (Some EStackReturnType).
Proof. exact break_escapes_function_depth3. Qed.
Print Assumptions C07c_break_escapes_function_depth3.

Theorem C07c_continue_escapes_function_depth3 :
  sig_run ["FUNC f"; T "IF TRUE"; T2 "IF TRUE"; T3 "IF TRUE"; T4 "CONTINUELOOP"; "WHILE TRUE"; T "RUN f"]
  = inr (Some EStackReturnType).
Proof. exact continue_escapes_function_depth3. Qed.
Print Assumptions C07c_continue_escapes_function_depth3.

Theorem C07c_break_top_level_warns :
  sig_run ["STRING a"; "IF TRUE"; T "IF TRUE"; T2 "BREAKLOOP"; "STRING never"] = inl (lits ["STRING a"], 1).
Proof. exact break_top_level_warns. Qed.
Print Assumptions C07c_break_top_level_warns.

(* the paths are inhabited: a derivation built rule by rule for a concrete program (RETURN under
   two IF arms at the top level), and return_ends_the_program applied to it *)
Theorem C07c_path_inhabited : exists s1,
  if_nest fo0 2 20 w_cx w_s0 w_top SReturn
          [[mkO (ByCommand (lit "String")) (lit "STRING a")]; [mkO (ByCommand (lit "String")) (lit "STRING b")]; []] s1.
Proof. exact w_path. Qed.
Print Assumptions C07c_path_inhabited.

Theorem C07c_witness_by_theorem :
  prepare_text w_text = TOk w_top /\
  texts fo0 (compile_text fo0 o0 (fun _ => None) None w_text) = Some [lit "STRING a"; lit "STRING b"].
Proof. exact w_witness. Qed.
Print Assumptions C07c_witness_by_theorem.
