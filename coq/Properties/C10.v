(* C10 -- "asking for the last n entries returns exactly the n innermost".  Statements only. *)
From Coq Require Import ZArith List Bool.
From DS Require Import Trace SmallProofs.

Theorem last_n : forall A (pile : list A) (limit : Z),
  (0 <= limit)%Z -> get_stacktrace pile limit = lastn (Z.to_nat limit) pile.
Proof. exact get_stacktrace_lastn. Qed.
Print Assumptions last_n.

Theorem whole_trace : forall A (pile : list A), get_stacktrace pile (-1) = pile.
Proof. exact get_stacktrace_all. Qed.
Print Assumptions whole_trace.

Theorem trace_is_suffix : forall A (pile : list A) (limit : Z), exists pre, pile = pre ++ get_stacktrace pile limit.
Proof. exact get_stacktrace_suffix. Qed.
Print Assumptions trace_is_suffix.
