(* C15d -- THE TWO OPTIONS on the unified reference semantics (Spec/CoreAll.v), on the specification
   alone.  Statements only; proofs in Proofs/CoreAllCor.v.

   include_comments (inc) and supress_command_not_exist (sup) are parameters of the judgement
   (see Properties/C12d.v).  Only two rules mention them: E_Rem (one LRem line iff inc) and
   E_Unknown (one warning event unless sup).
     out_view inc out : out if inc, else out WITHOUT its LRem lines (filter is_code);
     ev_view sup ev   : ev WITHOUT its unknown-command warnings if sup, else ev. *)
From Coq Require Import NArith ZArith List Bool.
From DS Require Import Base PyStr Values Expr TabParse CoreLang CoreFunc CoreAll CoreAllCor.
Import ListNotations.

(* REM is one comment line iff include_comments; it changes nothing else *)
Theorem C15d_rem_rule : forall (fo : FloatOps) (sys : store fo) prog inc sup d pile cf n F f vs text sg F' f' vs' out ev,
  CoreAll.exec fo sys prog inc sup d pile cf n F f vs (URem text) sg F' f' vs' out ev ->
  sg = Normal /\ F' = F /\ f' = f /\ vs' = vs /\ ev = [] /\
  out = if inc then [LRem (rem_head text)] else [].
Proof. exact rem_law. Qed.
Print Assumptions C15d_rem_rule.

(* every run, under any setting of the two options, is the VIEW of the most verbose run: same
   signal, function table, flag, variables ... *)
Theorem C15d_options_view : forall (fo : FloatOps) (sys : store fo) prog inc sup d pile cf n F f vs p sg F' f' vs' out ev,
  CoreAll.exec_list fo sys prog true false d pile cf n F f vs p sg F' f' vs' out ev ->
  CoreAll.exec_list fo sys prog inc sup d pile cf n F f vs p sg F' f' vs' (out_view inc out) (ev_view sup ev).
Proof. exact options_view. Qed.
Print Assumptions C15d_options_view.

(* ... and every run is such a view *)
Theorem C15d_options_source : forall (fo : FloatOps) (sys : store fo) prog inc sup d pile cf n F f vs p sg F' f' vs' out ev,
  CoreAll.exec_list fo sys prog inc sup d pile cf n F f vs p sg F' f' vs' out ev ->
  exists out0 ev0, CoreAll.exec_list fo sys prog true false d pile cf n F f vs p sg F' f' vs' out0 ev0 /\
                   out = out_view inc out0 /\ ev = ev_view sup ev0.
Proof. exact options_source. Qed.
Print Assumptions C15d_options_source.

(* with comments enabled the output is the comments-disabled output with each executed REM
   inserted at its place: erasing the REM-tagged lines gives the comments-disabled run; nothing
   else (signal, functions, flag, variables, prints, warnings) changes *)
Theorem C15d_comments_erasure : forall (fo : FloatOps) (sys : store fo) prog sup d pile cf n F f vs p sg F' f' vs' out ev,
  CoreAll.exec_list fo sys prog true sup d pile cf n F f vs p sg F' f' vs' out ev ->
  CoreAll.exec_list fo sys prog false sup d pile cf n F f vs p sg F' f' vs' (filter is_code out) ev.
Proof. exact comments_erasure. Qed.
Print Assumptions C15d_comments_erasure.

Theorem C15d_comments_insertion : forall (fo : FloatOps) (sys : store fo) prog sup d pile cf n F f vs p sg F' f' vs' out ev,
  CoreAll.exec_list fo sys prog false sup d pile cf n F f vs p sg F' f' vs' out ev ->
  exists out1, CoreAll.exec_list fo sys prog true sup d pile cf n F f vs p sg F' f' vs' out1 ev /\
               out = filter is_code out1.
Proof. exact comments_insertion. Qed.
Print Assumptions C15d_comments_insertion.

(* suppression removes exactly the unknown-command warnings; output and state are the same *)
Theorem C15d_suppression : forall (fo : FloatOps) (sys : store fo) prog inc d pile cf n F f vs p sg F' f' vs' out ev,
  CoreAll.exec_list fo sys prog inc false d pile cf n F f vs p sg F' f' vs' out ev ->
  CoreAll.exec_list fo sys prog inc true d pile cf n F f vs p sg F' f' vs' out
                    (filter (fun e => negb (is_unknown_ev e)) ev).
Proof. exact suppression_erasure. Qed.
Print Assumptions C15d_suppression.
