(* C10e -- the ERROR JUDGEMENT of the UNIFIED reference semantics (core + functions + PRINT / REM /
   unknown words + START family over a multi-file program) and its refinement.  Statements only.

   The specification is Spec/CoreAllErr.v (on top of Spec/CoreAll.v); it does not mention the
   interpreter:
     fails fo sys prog inc sup  d pile cf n F f vs s   er chain ev
         statement s, standing on line n of file cf while the stacks [pile] run below, started with
         function table F, IF flag f and store vs, FAILS with the compile error of class er;
     fails_list / fails_arms / fails_repeat / fails_while    the same for a statement list, the
         remaining arms of a chain, a loop from iteration k on;
     ufails fo prog inc sup entry d er chain ev               compiling the entry file of prog.
     d : nat               HOW MANY MORE STACKS FIT above the current one; a block, call or import
                           entered with d = 0 is the error StackOverflow (rules F_RunOverflow,
                           F_StartOverflow, FA_Overflow, FA_ElseOverflow, FR_Overflow, FW_Overflow);
                           for a whole program d = room_of_limit L = L - 1 under the stack limit L;
     chain : list sframe   the frames (file, head line text, line number, inline?) pushed above
                           [pile] by the blocks / calls / imports entered, outermost first, ENDING
                           with the frame of the line at fault; chain_lines chain = its (file, line)
                           list.  A failure inside a function body: the RUN line, then lines of the
                           DEFINING file; inside an imported file: the START line, then lines of
                           that file.
     ev : list event       the prints and warnings raised BEFORE the failure (the interpreter keeps
                           them in the glob of a failed compilation).
     unames_ok s           every VAR inside s (also inside FUNC bodies) assigns to an identifier;
                           the success premises are used for such statements only (as in C10d).
   Error classes beyond those of C10d: RUN of an unknown function EVarNonExistent, wrong arity
   EInvalidArguments, body ending Broke / Continued EStackReturnType (AFTER the body ran: its events
   are kept), START of a missing file EInvalidArguments, of a file with a running stack ECircular,
   no room EStackOverflow.

   Side conditions of the refinement:
     prog_ok dir prog fs       every file of prog is in the file system fs (folder dir), parses to
                               its statements, which are well formed (uwf);
     prog_closed dir prog fs   a file that is not in prog is not in fs;
     uwfx_list p               uwf with ONE relaxation: the name of a VAR is any word
                               (uwf s <-> uwfx s /\ unames_ok s);
     room dd cx d              the stack context cx has room for exactly d more stacks under its
                               stack limit (and the model depth dd suffices);
     1 <= stack_limit o.
   Proofs: Proofs/CoreAllErrLines.v (uwfx, the new failing line forms), CoreAllErrRefine.v (the
   induction, 37 rules), CoreAllErrExample.v (witnesses). *)
From Coq Require Import String NArith ZArith List Bool.
From DS Require Import Base PyStr Values Expr TabParse Tables Constants Interp ScopeProofs ImportGraph.
From DS Require Import CoreLang CoreWf CoreRefine CoreFunc CoreFuncRefine CoreErr.
From DS Require Import CoreAll CoreAllLines CoreAllBase CoreAllRefine CoreAllTop CoreAllExample.
From DS Require Import CoreAllErr CoreAllErrLines CoreAllErrRefine CoreAllErrExample.
Import ListNotations.

Arguments IOk {A}. Arguments IErr {A}.
Arguments e_sys : clear implicits. Arguments e_user : clear implicits. Arguments e_temp : clear implicits.
Arguments e_funcs : clear implicits. Arguments mkEnv : clear implicits.
Arguments s_g {fo}. Arguments s_env {fo}. Arguments s_line2 {fo}. Arguments mkSt {fo}.

(* ================================================================== 1. the refinement *)
(* Compiler.compile on the entry file of a program that has a failure derivation with the room the
   stack limit leaves: the error class, the trace = EXACTLY the frames of the chain (file, line
   text, line number, second line), the glob = the events raised before the failure *)
Theorem C10e_refinement_compile_items :
  forall (fo : FloatOps) dir prog fs o entry er ch ev,
  prog_ok dir prog fs -> prog_closed dir prog fs -> (1 <= stack_limit o)%Z ->
  ufails fo prog (include_comments o) (supress_command_not_exist o) entry (room_of_limit (stack_limit o)) er ch ev ->
  exists stmts, lookup entry prog = Some stmts /\
    compile_items fo o fs (Some (file_of dir entry)) (uitems_of stmts) =
    (CoreAllBase.apply_evs dir ev (mkGlob [] []), IErr er (Some (map (CoreAllBase.conc_frame dir) ch))).
Proof. exact refine_fails_compile_items. Qed.
Print Assumptions C10e_refinement_compile_items.

(* the same, read: the trace's (file, line) list is the chain's; the second lines are those of the
   inline frames; the prints and (de-duplicated) warnings made before the failure are reported *)
Theorem C10e_trace_is_chain :
  forall (fo : FloatOps) dir prog fs o entry er ch ev,
  prog_ok dir prog fs -> prog_closed dir prog fs -> (1 <= stack_limit o)%Z ->
  ufails fo prog (include_comments o) (supress_command_not_exist o) entry (room_of_limit (stack_limit o)) er ch ev ->
  exists stmts g tr, lookup entry prog = Some stmts /\
    compile_items fo o fs (Some (file_of dir entry)) (uitems_of stmts) = (g, IErr er (Some tr)) /\
    map (fun fr => (fr_file fr, snd (fr_line fr))) tr =
      map (fun fl : str * Z => (Some (file_of dir (fst fl)), snd fl)) (chain_lines ch) /\
    map fr_line2 tr = map (fun sf => if sf_inline sf then Some (sf_text sf, sf_num sf) else None) ch /\
    rev (g_prints g) = map (CoreAllBase.conc_print dir) (prints_of ev) /\
    rev (g_warnings g) = map (CoreAllBase.conc_warning dir) (warnings_of ev).
Proof. exact refine_fails_compile_items_chain. Qed.
Print Assumptions C10e_trace_is_chain.

(* the depth-indexed interpreter on any stack with exactly the room of the derivation, from any
   store and any function table *)
Theorem C10e_refinement_run :
  forall (fo : FloatOps) (sys : store fo), nodup_keys sys ->
  forall dir prog inc sup fs, prog_ok dir prog fs -> prog_closed dir prog fs ->
  forall d0 pile cf n Fs vs p er ch ev dd cx g F,
  fails_list fo sys prog inc sup d0 pile cf n Fs None vs p er ch ev ->
  uwfx_list p -> room dd cx d0 -> cx_ok dir inc sup fs pile cf cx -> nodup_keys vs -> utab_rel dir Fs F ->
  run fo dd cx g (mkEnv fo sys vs [] F) (uitems_from n p) =
  (CoreAllBase.apply_evs dir ev g, IErr er (Some (map (CoreAllBase.conc_frame dir) (pile ++ ch)))).
Proof. exact refine_fails_run. Qed.
Print Assumptions C10e_refinement_run.

(* Stack.run (exec_cmds) in the middle of a stack *)
Theorem C10e_refinement_exec_cmds :
  forall (fo : FloatOps) (sys : store fo), nodup_keys sys ->
  forall dir prog inc sup fs, prog_ok dir prog fs -> prog_closed dir prog fs ->
  forall d0 pile cf n Fs f vs p er ch ev dd cx acc s g,
  fails_list fo sys prog inc sup d0 pile cf n Fs f vs p er ch ev ->
  uwfx_list p -> room dd cx d0 -> cx_ok dir inc sup fs pile cf cx -> RR fo sys dir g Fs f vs s ->
  exists s', s_g s' = CoreAllBase.apply_evs dir ev g /\
    exec_cmds fo (CoreRefine.child_of fo dd) cx (uitems_from n p) acc s =
    (s', IErr er (Some (map (CoreAllBase.conc_frame dir) (pile ++ ch)))).
Proof. exact refine_fails_exec_cmds. Qed.
Print Assumptions C10e_refinement_exec_cmds.

(* what [room] says *)
Theorem C10e_room_meaning : forall dd cx d,
  room dd cx d <->
  ((d <= dd)%nat /\ (Z.of_nat (length (c_pile cx)) + Z.of_nat d + 1 = stack_limit (c_opts cx))%Z).
Proof. exact room_meaning. Qed.
Print Assumptions C10e_room_meaning.

(* strict well-formedness = relaxed + names *)
Theorem C10e_uwf_uwfx : forall s, uwf s <-> (uwfx s /\ unames_ok s).
Proof. exact uwf_iff_uwfx_names. Qed.
Print Assumptions C10e_uwf_uwfx.

(* ================================================================== 2. witnesses *)
Open Scope string_scope.

(* A. main: START lib / REPEAT i,2 / PRINT go / RUN boom i     lib: FUNC boom k / PRINT inside / $STRING 5%(1-k)
   fails at the SECOND iteration inside the imported function: the chain crosses two files
   (REPEAT line of main, RUN line of main, $STRING line of lib); four prints survive *)
Theorem C10e_failure_in_imported_function_called_from_loop : forall fo inc sup,
  ufails fo a_prog inc sup n_main (room_of_limit 20) EDivideByZero a_chain a_events /\
  chain_lines a_chain = [(n_main, 2%Z); (n_main, 4%Z); (n_lib, 3%Z)] /\
  prints_of a_events =
    [(S_ "go", 3%Z, n_main); (S_ "inside", 2%Z, n_lib); (S_ "go", 3%Z, n_main); (S_ "inside", 2%Z, n_lib)] /\
  prog_ok ex_dir a_prog a_fs /\
  compile_items fo (ex_opts inc sup) a_fs (Some (file_of ex_dir n_main)) (uitems_of a_main) =
  (CoreAllBase.apply_evs ex_dir a_events (mkGlob [] []),
   IErr EDivideByZero (Some (map (CoreAllBase.conc_frame ex_dir) a_chain))).
Proof. exact a_all. Qed.
Print Assumptions C10e_failure_in_imported_function_called_from_loop.

Theorem C10e_failure_in_imported_function_interpreter : forall fo,
  compile_items fo (ex_opts false false) a_fs (Some (file_of ex_dir n_main)) (uitems_of a_main) =
  (mkGlob [mkPrint (S_ "inside") 2 lib_path; mkPrint (S_ "go") 3 main_path;
           mkPrint (S_ "inside") 2 lib_path; mkPrint (S_ "go") 3 main_path] [],
   IErr EDivideByZero
     (Some [mkFrame main_path (S_ "REPEAT i,2", 2%Z) None;
            mkFrame main_path (S_ "RUN boom i", 4%Z) (Some (S_ "RUN boom i", 4%Z));
            mkFrame lib_path (S_ "$STRING 5%(1-k)", 3%Z) (Some (S_ "$STRING 5%(1-k)", 3%Z))])).
Proof. exact a_interpreter. Qed.
Print Assumptions C10e_failure_in_imported_function_interpreter.

(* B. main: START lib      lib: PRINT here / START main *)
Theorem C10e_circular_import : forall fo inc sup,
  ufails fo b_prog inc sup n_main (room_of_limit 20) ECircular b_chain [EvPrint (S_ "here") 1 n_lib] /\
  b_chain = [mkSF n_main (S_ "START lib") 1 true; mkSF n_lib (S_ "START main") 2 true] /\
  prog_ok ex_dir b_prog b_fs /\
  compile_items fo (ex_opts inc sup) b_fs (Some (file_of ex_dir n_main)) (uitems_of b_main) =
  (CoreAllBase.apply_evs ex_dir [EvPrint (S_ "here") 1 n_lib] (mkGlob [] []),
   IErr ECircular (Some (map (CoreAllBase.conc_frame ex_dir) b_chain))).
Proof. exact b_all. Qed.
Print Assumptions C10e_circular_import.

(* C. FUNC f / RUN f ; RUN f   under the stack limit 8: the 8th stack is refused; the chain has 8
   frames: the RUN of line 3, six RUNs of line 2 that were entered, the RUN of line 2 at fault *)
Theorem C10e_stack_overflow_by_recursion : forall fo inc sup,
  ufails fo r_prog inc sup n_main (room_of_limit 8) EStackOverflow r_chain [] /\
  chain_lines r_chain = (n_main, 3%Z) :: repeat (n_main, 2%Z) 7 /\
  prog_ok ex_dir r_prog r_fs /\
  compile_items fo (r_opts inc sup) r_fs (Some (file_of ex_dir n_main)) (uitems_of r_main) =
  (mkGlob [] [], IErr EStackOverflow (Some (map (CoreAllBase.conc_frame ex_dir) r_chain))).
Proof. exact r_all. Qed.
Print Assumptions C10e_stack_overflow_by_recursion.
