(* C20 (second part) -- names are checked before anything is stored; `$`-names cannot be assigned;
   accepted names can be read back.  Statements only; proofs live in Proofs/NamesInv.v,
   Proofs/NameChecks.v, Proofs/NamesRead.v.

   FINDING (the property as worded is FALSE of the model): not every accepted name can be read.
   Boolean is tried before Variable by the scanner, so
     - a name that STARTS WITH TRUE / FALSE (TRUEX, FALSE_1, ...) is accepted by VAR and can never be
       read ([keyword_prefixed_unreadable_C20b]);
     - a name that is a PROPER PREFIX of TRUE / FALSE (T, TR, TRU, F, FA, FAL, FALS) is accepted and
       cannot be read at the end of an expression ([keyword_prefix_unreadable_C20b]).
   The corrected statement ([accepted_readable_C20b], [var_then_readable_C20b]) carries the side
   condition [bool_safe] of Spec/Spelling.v: the name neither starts with a keyword nor is a prefix
   of one.  EXIST has no such restriction ([exist_ok_C20b], [var_then_readable_C20b]). *)
From Coq Require Import NArith ZArith List Bool.
From DS Require Import Base PyStr Values Expr TabParse Tables Constants Interp ScopeProofs
  IdentSpec Spelling NamesInv NameChecks NamesRead.
Import ListNotations.

(* ================================================================== (1) define_checks_first *)

(* ---- VAR name expr : the expression is evaluated, then the name is checked, then the store *)
Theorem var_accept_C20b : forall (fo : FloatOps) (child : runner fo) cx cur cname sc name l vname expr
    (s : st fo) (v : value fo),
  s_run sc = RKVar ->
  split_ws1 (content_text (l_content l)) = [vname; expr] ->
  tokenize fo (all_vars fo (s_env fo s)) expr = Ok v ->
  identb vname = true ->
  run_compile fo child cx cur cname sc name (Some l) s = (store_user fo vname v s, IOk _ RNone).
Proof. exact var_accept. Qed.
Print Assumptions var_accept_C20b.

(* [store_user]: only e_user changes, by [upd vname v] *)
Theorem store_user_lookup_same_C20b : forall (fo : FloatOps) k (v : value fo) (s : st fo),
  lookup k (e_user fo (s_env fo (store_user fo k v s))) = Some v.
Proof. exact store_user_lookup_same. Qed.
Print Assumptions store_user_lookup_same_C20b.

Theorem store_user_lookup_other_C20b : forall (fo : FloatOps) k (v : value fo) (s : st fo) y, y <> k ->
  lookup y (e_user fo (s_env fo (store_user fo k v s))) = lookup y (e_user fo (s_env fo s)).
Proof. exact store_user_lookup_other. Qed.
Print Assumptions store_user_lookup_other_C20b.

Theorem store_user_frame_C20b : forall (fo : FloatOps) k (v : value fo) (s : st fo),
  e_sys fo (s_env fo (store_user fo k v s)) = e_sys fo (s_env fo s) /\
  e_temp fo (s_env fo (store_user fo k v s)) = e_temp fo (s_env fo s) /\
  e_funcs fo (s_env fo (store_user fo k v s)) = e_funcs fo (s_env fo s) /\
  s_g fo (store_user fo k v s) = s_g fo s /\ s_line2 fo (store_user fo k v s) = s_line2 fo s.
Proof. exact store_user_frame. Qed.
Print Assumptions store_user_frame_C20b.

Theorem var_reject_C20b : forall (fo : FloatOps) (child : runner fo) cx cur cname sc name l vname expr
    (s : st fo) (v : value fo),
  s_run sc = RKVar ->
  split_ws1 (content_text (l_content l)) = [vname; expr] ->
  tokenize fo (all_vars fo (s_env fo s)) expr = Ok v ->
  identb vname = false ->
  run_compile fo child cx cur cname sc name (Some l) s =
  (s, IErr _ EUnacceptableVarName (Some (here cx cur (s_line2 fo s)))).
Proof. exact var_reject. Qed.
Print Assumptions var_reject_C20b.

(* whatever the expression does (it is evaluated first and may fail with its own error) *)
Theorem var_reject_any_C20b : forall (fo : FloatOps) (child : runner fo) cx cur cname sc name l vname expr
    (s s' : st fo) r,
  s_run sc = RKVar ->
  split_ws1 (content_text (l_content l)) = [vname; expr] ->
  identb vname = false ->
  run_compile fo child cx cur cname sc name (Some l) s = (s', r) ->
  s' = s /\ (forall x, r <> IOk _ x).
Proof. exact var_reject_any. Qed.
Print Assumptions var_reject_any_C20b.

Theorem var_accepted_iff_C20b : forall (fo : FloatOps) (child : runner fo) cx cur cname sc name l vname expr
    (s : st fo) (v : value fo),
  s_run sc = RKVar ->
  split_ws1 (content_text (l_content l)) = [vname; expr] ->
  tokenize fo (all_vars fo (s_env fo s)) expr = Ok v ->
  ((exists s', run_compile fo child cx cur cname sc name (Some l) s = (s', IOk _ RNone)) <-> identb vname = true).
Proof. exact var_accepted_iff. Qed.
Print Assumptions var_accepted_iff_C20b.

(* ---- the three defining block classes of the palette: argument required and stripped, not
   flipper-only ([std_block]); [func_sig]: name and parameter list as FUNC reads them *)
Theorem palette_defining_std_C20b : forall n bc,
  In (n, Block bc) palette -> defining_kind (b_kind bc) = true -> std_block bc.
Proof. exact palette_defining_std. Qed.
Print Assumptions palette_defining_std_C20b.

Theorem palette_has_defining_C20b : forall k, defining_kind k = true ->
  exists n bc, In (n, Block bc) palette /\ b_kind bc = k.
Proof. exact palette_has_defining. Qed.
Print Assumptions palette_has_defining_C20b.

(* ---- FUNC name p1,p2,... *)
Theorem func_accept_C20b : forall (fo : FloatOps) (child : runner fo) cx cur bc cname cmd num c a cb
    (s : st fo) fname fvars,
  std_block bc -> b_kind bc = BKFunc ->
  func_sig (strip (c :: a)) = (fname, fvars) ->
  identb fname = true -> forallb identb fvars = true ->
  block_compile fo child cx cur bc cname cmd num (Some (c :: a)) cb s =
  (store_func fo fname (mkFunc fvars (block_of cb) (c_file cx)) s, IOk _ RNone).
Proof. exact func_accept. Qed.
Print Assumptions func_accept_C20b.

Theorem store_func_lookup_same_C20b : forall (fo : FloatOps) k f (s : st fo),
  lookup k (e_funcs fo (s_env fo (store_func fo k f s))) = Some f.
Proof. exact store_func_lookup_same. Qed.
Print Assumptions store_func_lookup_same_C20b.

Theorem store_func_frame_C20b : forall (fo : FloatOps) k f (s : st fo),
  e_sys fo (s_env fo (store_func fo k f s)) = e_sys fo (s_env fo s) /\
  e_user fo (s_env fo (store_func fo k f s)) = e_user fo (s_env fo s) /\
  e_temp fo (s_env fo (store_func fo k f s)) = e_temp fo (s_env fo s) /\
  s_g fo (store_func fo k f s) = s_g fo s /\ s_line2 fo (store_func fo k f s) = s_line2 fo s.
Proof. exact store_func_frame. Qed.
Print Assumptions store_func_frame_C20b.

Theorem func_reject_C20b : forall (fo : FloatOps) (child : runner fo) cx cur bc cname cmd num c a cb
    (s : st fo) fname fvars,
  std_block bc -> b_kind bc = BKFunc ->
  func_sig (strip (c :: a)) = (fname, fvars) ->
  identb fname && forallb identb fvars = false ->
  block_compile fo child cx cur bc cname cmd num (Some (c :: a)) cb s =
  (s, IErr _ EUnacceptableVarName (Some (here cx cur (s_line2 fo s)))).
Proof. exact func_reject. Qed.
Print Assumptions func_reject_C20b.

(* ---- REPEAT v,count with a block: the explicit check before the loop (the count expression is not
   evaluated, no iteration starts) *)
Theorem repeat_counter_reject_C20b : forall (fo : FloatOps) (child : runner fo) cx cur bc cname cmd num c a cb
    (s : st fo) v count_expr,
  std_block bc -> b_kind bc = BKRepeat ->
  split_loop_arg (strip (c :: a)) = (Some v, count_expr) ->
  identb v = false -> block_of cb <> [] ->
  block_compile fo child cx cur bc cname cmd num (Some (c :: a)) cb s =
  (s, IErr _ EUnacceptableVarName (Some (here cx cur (s_line2 fo s)))).
Proof. exact repeat_counter_reject. Qed.
Print Assumptions repeat_counter_reject_C20b.

(* without a block (legacy REPEAT n) a counter is refused whatever its name *)
Theorem repeat_counter_noblock_C20b : forall (fo : FloatOps) (child : runner fo) cx cur bc cname cmd num c a cb
    (s : st fo) v count_expr,
  std_block bc -> b_kind bc = BKRepeat ->
  split_loop_arg (strip (c :: a)) = (Some v, count_expr) ->
  block_of cb = [] ->
  block_compile fo child cx cur bc cname cmd num (Some (c :: a)) cb s =
  (s, IErr _ EInvalidArguments (Some (here cx cur (s_line2 fo s)))).
Proof. exact repeat_counter_noblock. Qed.
Print Assumptions repeat_counter_noblock_C20b.

Theorem repeat_counter_accept_C20b : forall (fo : FloatOps) (child : runner fo) cx cur bc cname cmd num c a cb
    (s : st fo) v count_expr,
  std_block bc -> b_kind bc = BKRepeat ->
  split_loop_arg (strip (c :: a)) = (Some v, count_expr) ->
  identb v = true -> block_of cb <> [] ->
  block_compile fo child cx cur bc cname cmd num (Some (c :: a)) cb s =
  bindM fo (repeat_loop fo child cx cur loop_fuel (Some v) count_expr (block_of cb) 0%Z (mkCret [] SNormal))
        (fun cr => ret fo (RComp cr)) s.
Proof. exact repeat_counter_accept. Qed.
Print Assumptions repeat_counter_accept_C20b.

(* the counter is bound in the child environment of each iteration (REPEAT and WHILE) *)
Theorem bind_counter_accept_C20b : forall (fo : FloatOps) v count (ce : env fo), identb v = true ->
  bind_counter fo (Some v) count ce =
  Ok (mkEnv fo (e_sys fo ce) (upd v (VInt count) (e_user fo ce)) (e_temp fo ce) (e_funcs fo ce)).
Proof. exact bind_counter_accept. Qed.
Print Assumptions bind_counter_accept_C20b.

Theorem bind_counter_reject_C20b : forall (fo : FloatOps) v count (ce : env fo), identb v = false ->
  bind_counter fo (Some v) count ce = Err EUnacceptableVarName.
Proof. exact bind_counter_reject. Qed.
Print Assumptions bind_counter_reject_C20b.

(* ---- WHILE v,cond: no explicit check.  The first attempt to start the block fails while binding the
   counter: before the condition is evaluated, before the child stack runs, state unchanged.  Only the
   stack-limit check comes earlier (then the error is EStackOverflow instead). *)
Theorem while_counter_reject_C20b : forall (fo : FloatOps) (child : runner fo) cx cur bc cname cmd num c a cb
    (s : st fo) v cond,
  std_block bc -> b_kind bc = BKWhile ->
  split_loop_arg (strip (c :: a)) = (Some v, cond) ->
  identb v = false ->
  block_compile fo child cx cur bc cname cmd num (Some (c :: a)) cb s =
  (s, IErr _ (if cmp_eval stack_limit_op (pile_len cx) (stack_limit (c_opts cx))
              then EStackOverflow else EUnacceptableVarName)
           (Some (here cx cur (s_line2 fo s)))).
Proof. exact while_counter_reject. Qed.
Print Assumptions while_counter_reject_C20b.

(* ================================================================== sys_not_assignable *)
Theorem dollar_not_ident_C20b : forall r : str, identb (36%N :: r) = false.
Proof. exact dollar_not_ident. Qed.
Print Assumptions dollar_not_ident_C20b.

Theorem var_dollar_rejected_C20b : forall (fo : FloatOps) (child : runner fo) cx cur cname sc name l rest expr
    (s s' : st fo) r,
  s_run sc = RKVar ->
  split_ws1 (content_text (l_content l)) = [36%N :: rest; expr] ->
  run_compile fo child cx cur cname sc name (Some l) s = (s', r) ->
  s' = s /\ (forall x, r <> IOk _ x).
Proof. exact var_dollar_rejected. Qed.
Print Assumptions var_dollar_rejected_C20b.

Theorem func_dollar_rejected_C20b : forall (fo : FloatOps) (child : runner fo) cx cur bc cname cmd num c a cb
    (s : st fo) fname fvars rest,
  std_block bc -> b_kind bc = BKFunc ->
  func_sig (strip (c :: a)) = (fname, fvars) ->
  fname = 36%N :: rest \/ In (36%N :: rest) fvars ->
  block_compile fo child cx cur bc cname cmd num (Some (c :: a)) cb s =
  (s, IErr _ EUnacceptableVarName (Some (here cx cur (s_line2 fo s)))).
Proof. exact func_dollar_rejected. Qed.
Print Assumptions func_dollar_rejected_C20b.

(* ---- the frame of e_sys.  [keeps_sys_keys child]: on an environment whose e_sys has no duplicate
   key, a successful run of the child leaves  map fst (e_sys _)  unchanged.  Every action of the
   interpreter keeps the keys when the child runner does; hence every [run d], and the whole program. *)
Theorem run_compile_keeps_sys_keys_C20b : forall (fo : FloatOps) (child : runner fo),
  keeps_sys_keys fo child ->
  forall cx cur cname sc name arg (s s' : st fo) r,
  NoDup (map fst (e_sys fo (s_env fo s))) ->
  run_compile fo child cx cur cname sc name arg s = (s', r) ->
  map fst (e_sys fo (s_env fo s')) = map fst (e_sys fo (s_env fo s)).
Proof. exact run_compile_keeps_sys_keys. Qed.
Print Assumptions run_compile_keeps_sys_keys_C20b.

Theorem block_compile_keeps_sys_keys_C20b : forall (fo : FloatOps) (child : runner fo),
  keeps_sys_keys fo child ->
  forall cx cur bc cname cmd num argument code_block (s s' : st fo) r,
  NoDup (map fst (e_sys fo (s_env fo s))) ->
  block_compile fo child cx cur bc cname cmd num argument code_block s = (s', r) ->
  map fst (e_sys fo (s_env fo s')) = map fst (e_sys fo (s_env fo s)).
Proof. exact block_compile_keeps_sys_keys. Qed.
Print Assumptions block_compile_keeps_sys_keys_C20b.

Theorem exec_cmds_keeps_sys_keys_C20b : forall (fo : FloatOps) (child : runner fo),
  keeps_sys_keys fo child ->
  forall cx cmds acc (s s' : st fo) r,
  NoDup (map fst (e_sys fo (s_env fo s))) ->
  exec_cmds fo child cx cmds acc s = (s', r) ->
  map fst (e_sys fo (s_env fo s')) = map fst (e_sys fo (s_env fo s)).
Proof. exact exec_cmds_keeps_sys_keys. Qed.
Print Assumptions exec_cmds_keeps_sys_keys_C20b.

Theorem run_with_keeps_sys_keys_C20b : forall (fo : FloatOps) (child : runner fo),
  keeps_sys_keys fo child -> keeps_sys_keys fo (run_with fo child).
Proof. exact run_with_keeps_sys_keys. Qed.
Print Assumptions run_with_keeps_sys_keys_C20b.

Theorem run_keeps_sys_keys_C20b : forall (fo : FloatOps) d cx g (e : env fo) code g' cr e',
  NoDup (map fst (e_sys fo e)) ->
  run fo d cx g e code = (g', IOk _ (cr, e')) -> map fst (e_sys fo e') = map fst (e_sys fo e).
Proof. exact run_keeps_sys_keys. Qed.
Print Assumptions run_keeps_sys_keys_C20b.

Theorem compile_items_sys_keys_C20b : forall (fo : FloatOps) o fs file cmds g c,
  compile_items fo o fs file cmds = (g, IOk _ c) ->
  map fst (e_sys fo (final_env fo c)) = [default_delay_var].
Proof. exact compile_items_sys_keys. Qed.
Print Assumptions compile_items_sys_keys_C20b.

(* exact frame: every simple command other than DEFAULT_DELAY / RUN / START leaves e_sys as it is;
   DEFAULT_DELAY only updates the existing key default_delay_var; FUNC and IGNORE leave e_sys as it is.
   (RUN, START and the blocks IF / REPEAT / WHILE change e_sys only through the copy-back of their
   child stack -- covered by the keys theorems above.) *)
Theorem run_compile_sys_exact_C20b : forall (fo : FloatOps) (child : runner fo) cx cur cname sc name arg
    (s s' : st fo) r,
  plain_kind (s_run sc) = true ->
  run_compile fo child cx cur cname sc name arg s = (s', r) ->
  e_sys fo (s_env fo s') = e_sys fo (s_env fo s).
Proof. exact run_compile_sys_exact. Qed.
Print Assumptions run_compile_sys_exact_C20b.

Theorem default_delay_sys_C20b : forall (fo : FloatOps) (child : runner fo) cx cur cname sc name arg
    (s s' : st fo) r,
  s_run sc = RKDefaultDelay ->
  run_compile fo child cx cur cname sc name arg s = (s', r) ->
  e_sys fo (s_env fo s') = e_sys fo (s_env fo s) \/
  exists n, has_key default_delay_var (e_sys fo (s_env fo s)) = true /\
            e_sys fo (s_env fo s') = upd default_delay_var (VInt n) (e_sys fo (s_env fo s)).
Proof. exact default_delay_sys. Qed.
Print Assumptions default_delay_sys_C20b.

Theorem block_compile_sys_exact_C20b : forall (fo : FloatOps) (child : runner fo) cx cur bc cname cmd num
    argument cb (s s' : st fo) r,
  (b_kind bc = BKFunc \/ b_kind bc = BKIgnore) ->
  block_compile fo child cx cur bc cname cmd num argument cb s = (s', r) ->
  e_sys fo (s_env fo s') = e_sys fo (s_env fo s).
Proof. exact block_compile_sys_exact. Qed.
Print Assumptions block_compile_sys_exact_C20b.

(* ---- every stored name is an identifier.  [ident_inv e]: the keys of e_sys are [default_delay_var],
   every key of e_user is an identifier, the only key of e_temp is if_success, every function name and
   every parameter name in e_funcs is an identifier.  Kept by the whole interpreter. *)
Theorem run_with_keeps_ident_C20b : forall (fo : FloatOps) (child : runner fo),
  keeps_ident fo child -> keeps_ident fo (run_with fo child).
Proof. exact run_with_keeps_ident. Qed.
Print Assumptions run_with_keeps_ident_C20b.

Theorem run_keeps_ident_C20b : forall (fo : FloatOps) d cx g (e : env fo) code g' cr e',
  ident_inv fo e -> run fo d cx g e code = (g', IOk _ (cr, e')) -> ident_inv fo e'.
Proof. exact run_keeps_ident. Qed.
Print Assumptions run_keeps_ident_C20b.

Theorem compile_items_user_ident_C20b : forall (fo : FloatOps) o fs file cmds g c,
  compile_items fo o fs file cmds = (g, IOk _ c) ->
  (forall k v, lookup k (e_user fo (final_env fo c)) = Some v -> identb k = true) /\
  (forall k f, lookup k (e_funcs fo (final_env fo c)) = Some f ->
               identb k = true /\ forallb identb (fn_args f) = true) /\
  (forall r, has_key (36%N :: r) (e_user fo (final_env fo c)) = false) /\
  (forall r, has_key (36%N :: r) (e_funcs fo (final_env fo c)) = false).
Proof. exact compile_items_user_ident. Qed.
Print Assumptions compile_items_user_ident_C20b.

(* the names an expression can see are identifiers in the sense of Spec/Spelling.v (leading `$` allowed) *)
Theorem ident_inv_vars_ident_C20b : forall (fo : FloatOps) (e : env fo),
  ident_inv fo e -> vars_ident fo (all_vars fo e).
Proof. exact ident_inv_vars_ident. Qed.
Print Assumptions ident_inv_vars_ident_C20b.

(* ================================================================== (2) accepted_readable *)
(* The stored value is read back through [normalise] (a float with an integral value becomes an int).
   Values stored by VAR are results of [tokenize] and are already normalised (see
   [var_then_readable_C20b]); RUN parameters taken from a list are not necessarily. *)
Theorem accepted_readable_C20b : forall (fo : FloatOps) (vars : vars_t fo) n v,
  vars_ident fo vars -> lookup n vars = Some v -> bool_safe n = true ->
  tokenize fo vars n = Ok (normalise fo v).
Proof. exact accepted_readable. Qed.
Print Assumptions accepted_readable_C20b.

Theorem accepted_readable_ws_C20b : forall (fo : FloatOps) (vars : vars_t fo) n v ws1 ws2,
  vars_ident fo vars -> lookup n vars = Some v -> bool_safe n = true ->
  forallb isspace_c ws1 = true -> forallb isspace_c ws2 = true ->
  tokenize fo vars (ws1 ++ n ++ ws2) = Ok (normalise fo v).
Proof. exact accepted_readable_ws. Qed.
Print Assumptions accepted_readable_ws_C20b.

Theorem accepted_readable_plus0_C20b : forall (fo : FloatOps) (vars : vars_t fo) n v,
  vars_ident fo vars -> lookup n vars = Some v -> bool_safe n = true ->
  tokenize fo vars (n ++ [43;48]%N) =
  (do r <- apply_op fo OCMath [43]%N v (VInt 0); Ok (normalise fo r)).
Proof. exact accepted_readable_plus0. Qed.
Print Assumptions accepted_readable_plus0_C20b.

Theorem prefix_names_both_readable_C20b : forall (fo : FloatOps) (vars : vars_t fo) n m v w,
  vars_ident fo vars -> lookup n vars = Some v -> lookup (n ++ m) vars = Some w ->
  bool_safe n = true -> bool_safe (n ++ m) = true ->
  tokenize fo vars n = Ok (normalise fo v) /\ tokenize fo vars (n ++ m) = Ok (normalise fo w).
Proof. exact prefix_names_both_readable. Qed.
Print Assumptions prefix_names_both_readable_C20b.

(* EXIST n succeeds iff n is a key of all_vars; NOT_EXIST the other way round; state unchanged *)
Theorem exist_ok_C20b : forall (fo : FloatOps) (child : runner fo) cx cur cname sc name l (s : st fo),
  s_run sc = RKExist ->
  run_compile fo child cx cur cname sc name (Some l) s =
  (s, if has_key (content_text (l_content l)) (all_vars fo (s_env fo s)) then IOk _ RNone
      else IErr _ EGeneral (Some (here cx cur (s_line2 fo s)))).
Proof. exact exist_ok. Qed.
Print Assumptions exist_ok_C20b.

Theorem not_exist_ok_C20b : forall (fo : FloatOps) (child : runner fo) cx cur cname sc name l (s : st fo),
  s_run sc = RKNotExist ->
  run_compile fo child cx cur cname sc name (Some l) s =
  (s, if has_key (content_text (l_content l)) (all_vars fo (s_env fo s))
      then IErr _ EGeneral (Some (here cx cur (s_line2 fo s))) else IOk _ RNone).
Proof. exact not_exist_ok. Qed.
Print Assumptions not_exist_ok_C20b.

(* end to end: in a state reachable by the interpreter (ident_inv, no duplicate user key), after an
   accepted VAR the name passes EXIST, and -- when bool-safe -- reads back exactly the stored value *)
Theorem var_then_readable_C20b : forall (fo : FloatOps) (child : runner fo) cx cur cname sc name l vname expr
    (s : st fo) (v : value fo),
  ident_inv fo (s_env fo s) -> nodup_keys (e_user fo (s_env fo s)) ->
  s_run sc = RKVar ->
  split_ws1 (content_text (l_content l)) = [vname; expr] ->
  tokenize fo (all_vars fo (s_env fo s)) expr = Ok v ->
  identb vname = true ->
  exists s',
    run_compile fo child cx cur cname sc name (Some l) s = (s', IOk _ RNone) /\
    ident_inv fo (s_env fo s') /\
    has_key vname (all_vars fo (s_env fo s')) = true /\
    (bool_safe vname = true -> tokenize fo (all_vars fo (s_env fo s')) vname = Ok v).
Proof. exact var_then_readable. Qed.
Print Assumptions var_then_readable_C20b.

(* ================================================================== (3) the known finding *)
(* proper prefixes of TRUE / FALSE are identifiers (VAR accepts them) but, whatever is defined, they
   cannot be read when they end the expression *)
Theorem keyword_prefix_unreadable_C20b : forall (fo : FloatOps) (vars : vars_t fo) name,
  In name [[84]; [84;82]; [84;82;85]; [70]; [70;65]; [70;65;76]; [70;65;76;83]]%N ->
  identb name = true /\ tokenize fo vars name = Err EExpectedToken.
Proof. exact keyword_prefix_unreadable. Qed.
Print Assumptions keyword_prefix_unreadable_C20b.

(* names that start with a keyword: TRUEX, FALSE_1 are identifiers and can never be read *)
Theorem keyword_prefixed_unreadable_C20b : forall (fo : FloatOps) (vars : vars_t fo),
  let TRUEX := [84;82;85;69;88]%N in
  let FALSE_1 := [70;65;76;83;69;95;49]%N in
  identb TRUEX = true /\ identb FALSE_1 = true /\
  tokenize fo vars TRUEX = Err EExpectedToken /\
  tokenize fo vars FALSE_1 = Err EExpectedToken /\
  tokenize fo vars (TRUEX ++ [43;49]%N) = Err EExpectedToken.
Proof. exact keyword_prefixed_unreadable. Qed.
Print Assumptions keyword_prefixed_unreadable_C20b.
