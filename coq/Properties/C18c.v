(* C18 -- "PRINT lines contribute nothing to the compiled output: adding them, changing their text
   or replacing them by PASS leaves the output unchanged.  The captured prints list every executed
   PRINT argument exactly once, in execution order, each with its text, its source line number and
   its file."   Statements only; proofs in Proofs/PrintLines.v, PrintOrder.v, PrintErase.v,
   PrintEraseCor.v, PrintFlow.v; evaluated witnesses in Proofs/PrintExamples.v.

   g_prints is kept NEWEST FIRST: "added_b ++ added_a ++ before" = first a's prints, then b's.

   Vocabulary of (1) (PrintErase.v):
     silent c        : the first word of c upper-cases to PRINT (hence no `$`), or c is the single
                       word PASS (any casing);
     perase E Add f p q : q is p where some silent lines NOT followed by an argument group, at
                       line numbers n with E f n, are replaced, with the same number, by a PASS
                       line or -- when the proposition Add holds -- by any silent line (PASS ->
                       PRINT, PRINT t -> PRINT t'); Add := False is pure erasure; recursively
                       inside blocks headed by a line dispatched to a block command other than
                       IGNORE (IF/ELIF/ELSE/REPEAT/WHILE/FUNC: [code_header]); every other line
                       and block is identical;
     prel E Add l1 l2 : l2 is l1 with records p such that E (p_file p) (p_num p) removed and, when
                       Add holds, such records inserted; [removed E l1 l2]: removal only;
     erel fo E Add e1 e2 : same system, user and temporary variables; same function names, parameter
                       lists and files, in the same order; bodies related by perase.
   `$PRINT expr` is excluded because it evaluates expr (dollar_print_is_not_silent); a PRINT line
   inside an argument group is text (print_in_argument_group_is_text). *)
From Coq Require Import NArith ZArith List Bool.
From DS Require Import Base PyStr Values Expr TabParse Tables Constants Interp PipelineProofs
  StackLift PrintsMono LoopUnroll RunProofs StartLaws C07Examples
  PrintLines PrintOrder PrintErase PrintEraseCor PrintFlow PrintExamples.
Import ListNotations.

(* ================================================================== (1) print_invisible *)
Theorem print_invisible : forall (fo : FloatOps) (E : option path -> Z -> Prop) (Add : Prop),
  (forall n f, E None n -> E f n) ->
  forall o fs file cmds1 cmds2 g1 r1 g2 r2,
  perase E Add file cmds1 cmds2 ->
  compile_items fo o fs file cmds1 = (g1, r1) ->
  compile_items fo o fs file cmds2 = (g2, r2) ->
  (g_warnings g1 = g_warnings g2 /\ prel E Add (g_prints g1) (g_prints g2)) /\
  match r1, r2 with
  | IOk c1, IOk c2 =>
      out fo c1 = out fo c2 /\ warnings fo c1 = warnings fo c2 /\
      erel fo E Add (final_env fo c1) (final_env fo c2) /\ prel E Add (prints fo c1) (prints fo c2)
  | IErr e1 t1, IErr e2 t2 => e1 = e2 /\ t1 = t2
  | ICrash k1, ICrash k2 => k1 = k2
  | IUnmod, IUnmod => True
  | _, _ => False
  end.
Proof. exact erase_compile_items. Qed.
Print Assumptions print_invisible.

(* any depth, any stack: related programs, related function tables, related globs *)
Theorem print_invisible_run : forall (fo : FloatOps) (E : option path -> Z -> Prop) (Add : Prop),
  (forall n f, E None n -> E f n) ->
  forall o d fs pile file g1 g2 e1 e2 cmds1 cmds2,
  Rg E Add g1 g2 -> erel fo E Add e1 e2 -> perase E Add file cmds1 cmds2 ->
  postR fo E Add (run fo d (mkCtx o fs pile file) g1 e1 cmds1) (run fo d (mkCtx o fs pile file) g2 e2 cmds2).
Proof. exact rel_run. Qed.
Print Assumptions print_invisible_run.

Theorem erel_shape : forall (fo : FloatOps) (Add : Prop) E (e1 e2 : env fo), erel fo E Add e1 e2 ->
  e_sys fo e1 = e_sys fo e2 /\ e_user fo e1 = e_user fo e2 /\ e_temp fo e1 = e_temp fo e2 /\
  all_vars fo e1 = all_vars fo e2 /\
  map func_sig (e_funcs fo e1) = map func_sig (e_funcs fo e2) /\
  Forall2 (fun a b => perase E Add (fn_file (snd a)) (fn_code (snd a)) (fn_code (snd b))) (e_funcs fo e1) (e_funcs fo e2).
Proof. exact PrintEraseCor.erel_shape. Qed.
Print Assumptions erel_shape.

Theorem prel_filter : forall (E : option path -> Z -> Prop) (Add : Prop) (eb : print_rec -> bool),
  (forall p, E (p_file p) (p_num p) -> eb p = true) ->
  forall l1 l2, prel E Add l1 l2 -> filter (fun p => negb (eb p)) l1 = filter (fun p => negb (eb p)) l2.
Proof. exact PrintErase.prel_filter. Qed.
Print Assumptions prel_filter.

(* modified lines given by their numbers: everything equal, and the print records at the other
   line numbers coincide, in order *)
Theorem print_invisible_numbers : forall (fo : FloatOps) (Add : Prop) (S : Z -> bool) o fs file cmds1 cmds2 g1 r1 g2 r2,
  perase (fun _ n => S n = true) Add file cmds1 cmds2 ->
  compile_items fo o fs file cmds1 = (g1, r1) ->
  compile_items fo o fs file cmds2 = (g2, r2) ->
  g_warnings g1 = g_warnings g2 /\
  filter (fun p => negb (S (p_num p))) (g_prints g1) = filter (fun p => negb (S (p_num p))) (g_prints g2) /\
  match r1, r2 with
  | IOk c1, IOk c2 =>
      out fo c1 = out fo c2 /\ warnings fo c1 = warnings fo c2 /\
      all_vars fo (final_env fo c1) = all_vars fo (final_env fo c2) /\
      map func_sig (e_funcs fo (final_env fo c1)) = map func_sig (e_funcs fo (final_env fo c2)) /\
      filter (fun p => negb (S (p_num p))) (prints fo c1) = filter (fun p => negb (S (p_num p))) (prints fo c2)
  | IErr e1 t1, IErr e2 t2 => e1 = e2 /\ t1 = t2
  | ICrash k1, ICrash k2 => k1 = k2
  | IUnmod, IUnmod => True
  | _, _ => False
  end.
Proof. exact PrintEraseCor.print_invisible_numbers. Qed.
Print Assumptions print_invisible_numbers.

(* the program has a file: only records of THAT file at the given numbers can disappear/change *)
Theorem print_invisible_file : forall (fo : FloatOps) (Add : Prop) (S : Z -> bool) o fs (pth : path) cmds1 cmds2 g1 r1 g2 r2,
  perase (fun f n => f = Some pth /\ S n = true) Add (Some pth) cmds1 cmds2 ->
  compile_items fo o fs (Some pth) cmds1 = (g1, r1) ->
  compile_items fo o fs (Some pth) cmds2 = (g2, r2) ->
  let kept := fun p => negb (opt_eqb path_eqb (p_file p) (Some pth) && S (p_num p)) in
  g_warnings g1 = g_warnings g2 /\
  filter kept (g_prints g1) = filter kept (g_prints g2) /\
  match r1, r2 with
  | IOk c1, IOk c2 =>
      out fo c1 = out fo c2 /\ warnings fo c1 = warnings fo c2 /\
      all_vars fo (final_env fo c1) = all_vars fo (final_env fo c2) /\
      map func_sig (e_funcs fo (final_env fo c1)) = map func_sig (e_funcs fo (final_env fo c2)) /\
      filter kept (prints fo c1) = filter kept (prints fo c2)
  | IErr e1 t1, IErr e2 t2 => e1 = e2 /\ t1 = t2
  | ICrash k1, ICrash k2 => k1 = k2
  | IUnmod, IUnmod => True
  | _, _ => False
  end.
Proof. exact PrintEraseCor.print_invisible_file. Qed.
Print Assumptions print_invisible_file.

(* pure erasure: nothing is added to the prints *)
Theorem print_erase_only : forall (fo : FloatOps) (E : option path -> Z -> Prop),
  (forall n f, E None n -> E f n) ->
  forall o fs file cmds1 cmds2 g1 c1 g2 c2,
  perase E False file cmds1 cmds2 ->
  compile_items fo o fs file cmds1 = (g1, IOk c1) ->
  compile_items fo o fs file cmds2 = (g2, IOk c2) ->
  out fo c1 = out fo c2 /\ warnings fo c1 = warnings fo c2 /\ removed E (prints fo c1) (prints fo c2).
Proof. exact PrintEraseCor.print_erase_only. Qed.
Print Assumptions print_erase_only.

(* the relations are inhabited by non-trivial pairs; the exclusions are necessary *)
Theorem pA_pB_related : perase EAB True None pA pB.
Proof. exact PrintExamples.pA_pB_related. Qed.
Print Assumptions pA_pB_related.

Theorem pA_pE_erased : perase EAB False None pA pE.
Proof. exact PrintExamples.pA_pE_erased. Qed.
Print Assumptions pA_pE_erased.

Theorem pA_pB_pE_results :
  showp (compile_items fo0 o0 (fun _ => None) None pA) =
    inl ([w_STRING_x; w_STRING_x; w_STRING_body],
         [(w_start, 1%Z, None); (w_loop, 6%Z, None); (w_loop, 6%Z, None); (w_yes, 9%Z, None);
          (w_in_f, 3%Z, None); (w_end, 11%Z, None)]) /\
  showp (compile_items fo0 o0 (fun _ => None) None pB) =
    inl ([w_STRING_x; w_STRING_x; w_STRING_body],
         [(w_yes, 9%Z, None); (w_other_text, 3%Z, None); (w_ENDX, 11%Z, None)]) /\
  showp (compile_items fo0 o0 (fun _ => None) None pE) =
    inl ([w_STRING_x; w_STRING_x; w_STRING_body],
         [(w_yes, 9%Z, None); (w_in_f, 3%Z, None); (w_end, 11%Z, None)]).
Proof. exact PrintExamples.pA_pB_pE_results. Qed.
Print Assumptions pA_pB_pE_results.

Theorem dollar_print_is_not_silent :
  showp (compile_items fo0 o0 (fun _ => None) None (items_of tC1)) = inr (Some EExpectedToken, []) /\
  showp (compile_items fo0 o0 (fun _ => None) None (items_of tC2)) = inl ([w_STRING_a], []).
Proof. exact PrintExamples.dollar_print_is_not_silent. Qed.
Print Assumptions dollar_print_is_not_silent.

Theorem print_in_argument_group_is_text :
  showp (compile_items fo0 o0 (fun _ => None) None (items_of tD1)) = inl ([w_STRING_PRINT_hello], []) /\
  showp (compile_items fo0 o0 (fun _ => None) None (items_of tD2)) = inl ([w_STRING_PASS], []).
Proof. exact PrintExamples.print_in_argument_group_is_text. Qed.
Print Assumptions print_in_argument_group_is_text.

Theorem deleting_a_print_line_is_visible :
  showp (compile_items fo0 o0 (fun _ => None) None (items_of tF1)) = inl ([], [(w_x, 2%Z, None); (w_x, 2%Z, None)]) /\
  showp (compile_items fo0 o0 (fun _ => None) None (items_of tF2)) = inl ([w_REPEAT_2], []).
Proof. exact PrintExamples.deleting_a_print_line_is_visible. Qed.
Print Assumptions deleting_a_print_line_is_visible.

(* ================================================================== (2)(a) sequencing *)
Theorem exec_cmds_app_prints : forall (fo : FloatOps) (child : runner fo) cx,
  (forall cx' g e c g' res, child cx' g e c = (g', res) -> exists added, g_prints g' = added ++ g_prints g) ->
  forall pre c n rest acc (s s1 s2 : st fo) out1 r,
  exec_cmds fo child cx pre acc s = (s1, IOk (mkCret out1 SNormal)) ->
  exec_cmds fo child cx (Ln c n :: rest) out1 s1 = (s2, r) ->
  exec_cmds fo child cx (pre ++ Ln c n :: rest) acc s = (s2, r) /\
  exists added_a added_b,
    g_prints (s_g s1) = added_a ++ g_prints (s_g s) /\
    g_prints (s_g s2) = added_b ++ g_prints (s_g s1) /\
    g_prints (s_g s2) = added_b ++ added_a ++ g_prints (s_g s).
Proof. exact PrintOrder.exec_cmds_app_prints. Qed.
Print Assumptions exec_cmds_app_prints.

Theorem exec_cmds_app_prints_inv : forall (fo : FloatOps) (child : runner fo) cx,
  (forall cx' g e c g' res, child cx' g e c = (g', res) -> exists added, g_prints g' = added ++ g_prints g) ->
  forall pre c n rest acc (s s1 s2 : st fo) out1 r,
  exec_cmds fo child cx pre acc s = (s1, IOk (mkCret out1 SNormal)) ->
  exec_cmds fo child cx (pre ++ Ln c n :: rest) acc s = (s2, r) ->
  exec_cmds fo child cx (Ln c n :: rest) out1 s1 = (s2, r) /\
  exists added_a added_b,
    g_prints (s_g s1) = added_a ++ g_prints (s_g s) /\
    g_prints (s_g s2) = added_b ++ g_prints (s_g s1) /\
    g_prints (s_g s2) = added_b ++ added_a ++ g_prints (s_g s).
Proof. exact PrintOrder.exec_cmds_app_prints_inv. Qed.
Print Assumptions exec_cmds_app_prints_inv.

(* ================================================================== (3) failure *)
Theorem failure_prints_are_prefix : forall (fo : FloatOps) (child : runner fo) cx,
  (forall cx' g e c g' res, child cx' g e c = (g', res) -> exists added, g_prints g' = added ++ g_prints g) ->
  forall pre c n rest acc (s s1 s2 : st fo) out1 e t,
  exec_cmds fo child cx pre acc s = (s1, IOk (mkCret out1 SNormal)) ->
  exec_cmds fo child cx (pre ++ Ln c n :: rest) acc s = (s2, IErr e t) ->
  exists added_a added_b,
    g_prints (s_g s1) = added_a ++ g_prints (s_g s) /\
    g_prints (s_g s2) = added_b ++ added_a ++ g_prints (s_g s).
Proof. exact PrintOrder.failure_prints_are_prefix. Qed.
Print Assumptions failure_prints_are_prefix.

Theorem compile_failure_keeps_prefix_prints : forall (fo : FloatOps) o fs file pre c n rest g e t g1 cr1 e1,
  run fo (run_depth o) (mkCtx o fs [] file) (mkGlob [] []) (initial_env fo) pre = (g1, IOk (cr1, e1)) ->
  cr_sig cr1 = SNormal ->
  compile_items fo o fs file (pre ++ Ln c n :: rest) = (g, IErr e t) ->
  exists added_b, g_prints g = added_b ++ g_prints g1.
Proof. exact PrintOrder.compile_failure_keeps_prefix_prints. Qed.
Print Assumptions compile_failure_keeps_prefix_prints.

(* ================================================================== (2)(b) one PRINT line *)
Theorem print_inline_adds : forall (fo : FloatOps) (child : runner fo) cx c n cmd t (s : st fo),
  split_ws1 c = [cmd; t] -> upper cmd = s_PRINT ->
  exec_line fo child cx c n None s =
  (mkSt (mkGlob (mkPrint (strip t) n (c_file cx) :: g_prints (s_g s)) (g_warnings (s_g s))) (s_env s) (Some (c, n)),
   IOk (mkCret [] SNormal)).
Proof. exact PrintOrder.print_inline_adds. Qed.
Print Assumptions print_inline_adds.

Theorem print_bare_adds_nothing : forall (fo : FloatOps) (child : runner fo) cx c n cmd (s : st fo),
  split_ws1 c = [cmd] -> upper cmd = s_PRINT ->
  exec_line fo child cx c n None s = (mkSt (s_g s) (s_env s) (Some (c, n)), IOk (mkCret [] SNormal)).
Proof. exact PrintOrder.print_bare_adds_nothing. Qed.
Print Assumptions print_bare_adds_nothing.

Theorem print_group_adds : forall (fo : FloatOps) (child : runner fo) cx c n cmd more b ls (s : st fo),
  split_ws1 c = cmd :: more -> upper cmd = s_PRINT -> block_lines b = Some ls ->
  exists l2,
  exec_line fo child cx c n (Some b) s =
  (mkSt (mkGlob (rev (match more with
                      | t :: _ => mkPrint (strip t) n (c_file cx) :: group_prints (c_file cx) b
                      | [] => group_prints (c_file cx) b end) ++ g_prints (s_g s))
                (g_warnings (s_g s))) (s_env s) l2,
   IOk (mkCret [] SNormal)).
Proof. exact PrintOrder.print_group_adds. Qed.
Print Assumptions print_group_adds.

Theorem print_group_nested_refused : forall (fo : FloatOps) (child : runner fo) cx c n cmd more b (s : st fo),
  split_ws1 c = cmd :: more -> upper cmd = s_PRINT -> block_lines b = None ->
  exec_line fo child cx c n (Some b) s = (s, IErr EInvalidArguments (Some (here cx (c, n) (s_line2 s)))).
Proof. exact PrintOrder.print_group_nested_refused. Qed.
Print Assumptions print_group_nested_refused.

(* ================================================================== (2)(c) REPEAT *)
Theorem repeat_prints_in_order :
  forall (fo : FloatOps) (child : runner fo) cx cur var_name argument code n (sts : nat -> st fo) (crs : nat -> cret)
         (P : nat -> list print_rec),
  (forall k, (k <= n)%nat -> tokenize_count fo cx cur argument (sts k) = (sts k, IOk (Z.of_nat n))) ->
  (forall k, (k < n)%nat ->
     run_child fo child cx cur code (c_file cx) false (bind_counter fo var_name (Z.of_nat k)) (sts k)
     = (sts (S k), IOk (crs k))) ->
  (forall k, (k < n)%nat -> cr_sig (crs k) = SNormal \/ cr_sig (crs k) = SContinue) ->
  (forall k, (k < n)%nat -> g_prints (s_g (sts (S k))) = P k ++ g_prints (s_g (sts k))) ->
  forall extra acc, cr_sig acc = SNormal ->
  exists s',
    repeat_loop fo child cx cur (loop_fuel + extra) var_name argument code 0 acc (sts 0%nat) =
    (s', IOk (mkCret (cr_data acc ++ outputs crs n) SNormal)) /\
    g_prints (s_g s') = prints_upto P n ++ g_prints (s_g (sts 0%nat)).
Proof. exact PrintFlow.repeat_prints_in_order. Qed.
Print Assumptions repeat_prints_in_order.

Theorem prints_upto_rev : forall P n, rev (prints_upto P n) = concat (map (fun k => rev (P k)) (seq 0 n)).
Proof. exact PrintFlow.prints_upto_rev. Qed.
Print Assumptions prints_upto_rev.

Theorem repeat_prints_until_stop :
  forall (fo : FloatOps) (child : runner fo) cx cur var_name argument code n (sts : nat -> st fo) (crs : nat -> cret)
         (P : nat -> list print_rec) j,
  (forall k, (k <= n)%nat -> tokenize_count fo cx cur argument (sts k) = (sts k, IOk (Z.of_nat n))) ->
  (j < n)%nat ->
  (forall k, (k <= j)%nat ->
     run_child fo child cx cur code (c_file cx) false (bind_counter fo var_name (Z.of_nat k)) (sts k)
     = (sts (S k), IOk (crs k))) ->
  (forall k, (k < j)%nat -> cr_sig (crs k) = SNormal \/ cr_sig (crs k) = SContinue) ->
  (cr_sig (crs j) = SBreak \/ cr_sig (crs j) = SReturn) ->
  (forall k, (k <= j)%nat -> g_prints (s_g (sts (S k))) = P k ++ g_prints (s_g (sts k))) ->
  forall extra acc,
  exists s' cr,
    repeat_loop fo child cx cur (loop_fuel + extra) var_name argument code 0 acc (sts 0%nat) = (s', IOk cr) /\
    g_prints (s_g s') = prints_upto P (S j) ++ g_prints (s_g (sts 0%nat)).
Proof. exact PrintFlow.repeat_prints_until_stop. Qed.
Print Assumptions repeat_prints_until_stop.

Theorem iteration_prints : forall (fo : FloatOps) (child : runner fo) cx cur code var_name k (s s' : st fo) cr,
  run_child fo child cx cur code (c_file cx) false (bind_counter fo var_name k) s = (s', IOk cr) ->
  exists cenv1 cenv2,
    child (mkCtx (c_opts cx) (c_fs cx) (here cx cur (s_line2 s)) (c_file cx)) (s_g s) cenv1 code
    = (s_g s', IOk (cr, cenv2)).
Proof. exact PrintFlow.iteration_prints. Qed.
Print Assumptions iteration_prints.

(* a stack made of inline PRINT lines *)
Theorem print_body_run_with : forall (fo : FloatOps) (child : runner fo) cx body recs g e,
  Forall2 (print_item (c_file cx)) body recs ->
  run_with fo child cx g e body = (mkGlob (rev recs ++ g_prints g) (g_warnings g), IOk (mkCret [] SNormal, e)).
Proof. exact PrintFlow.print_body_run_with. Qed.
Print Assumptions print_body_run_with.

(* ================================================================== (2)(d) RUN *)
Theorem run_glob_is_body_glob :
  forall (fo : FloatOps) (child : runner fo) cx cur cname sc name a num orig fname var_string (s : st fo) vals f g' cr cenv2,
  s_run sc = RKRun -> break_arg (content_text a) = (fname, var_string) ->
  arg_values fo (s_env s) var_string = Ok vals ->
  lookup fname (e_funcs fo (s_env s)) = Some f ->
  length (fn_args f) = length vals ->
  stack_full cx = false ->
  child (callee_ctx cx cur f (s_line2 s)) (s_g s) (callee_env fo f vals (s_env s)) (fn_code f) = (g', IOk (cr, cenv2)) ->
  exists s' r,
    run_compile fo child cx cur cname sc name (Some (mkLine a num orig)) s = (s', r) /\
    s_g s' = g' /\
    c_file (callee_ctx cx cur f (s_line2 s)) = match fn_file f with Some p => Some p | None => c_file cx end.
Proof. exact PrintFlow.run_glob_is_body_glob. Qed.
Print Assumptions run_glob_is_body_glob.

Theorem run_prints_defining_file :
  forall (fo : FloatOps) (child' : runner fo) cx cur cname sc name a num orig fname var_string (s : st fo) vals f recs,
  s_run sc = RKRun -> break_arg (content_text a) = (fname, var_string) ->
  arg_values fo (s_env s) var_string = Ok vals ->
  lookup fname (e_funcs fo (s_env s)) = Some f ->
  length (fn_args f) = length vals ->
  stack_full cx = false ->
  Forall2 (print_item (callee_file cx f)) (fn_code f) recs ->
  exists env',
    run_compile fo (run_with fo child') cx cur cname sc name (Some (mkLine a num orig)) s =
    (mkSt (mkGlob (rev recs ++ g_prints (s_g s)) (g_warnings (s_g s))) env' (s_line2 s),
     IOk (RComp (mkCret [] SNormal))) /\
    Forall (fun p => p_file p = callee_file cx f) recs.
Proof. exact PrintFlow.run_prints_defining_file. Qed.
Print Assumptions run_prints_defining_file.

(* ================================================================== (2)(e) START family *)
Theorem start_glob_is_file_glob :
  forall (fo : FloatOps) (child : runner fo) cx cur cname sc name l file target text commands (s : st fo) g' cr cenv,
  s_run sc = RKStart -> c_file cx = Some file ->
  resolve_start file (content_text (l_content l)) = Ok target ->
  c_fs cx target = Some text -> circ cx target = false -> prepare_text text = TOk commands ->
  below_stack_limit cx ->
  child (start_ctx cx cur (s_line2 s) target) (s_g s) (append_env fo (empty_env fo) (s_env s)) commands
    = (g', IOk (cr, cenv)) ->
  exists s',
    run_compile fo child cx cur cname sc name (Some l) s =
    (s', IOk (if str_eqb (upper name) s_STARTENV then RLines [] else RComp (mkCret (cr_data cr) SNormal))) /\
    g_prints (s_g s') = g_prints g' /\
    c_file (start_ctx cx cur (s_line2 s) target) = Some target.
Proof. exact PrintFlow.start_glob_is_file_glob. Qed.
Print Assumptions start_glob_is_file_glob.

Theorem start_prints_imported_file :
  forall (fo : FloatOps) (child' : runner fo) cx cur cname sc name l file target text commands (s : st fo) recs,
  s_run sc = RKStart -> c_file cx = Some file ->
  resolve_start file (content_text (l_content l)) = Ok target ->
  c_fs cx target = Some text -> circ cx target = false -> prepare_text text = TOk commands ->
  below_stack_limit cx ->
  Forall2 (print_item (Some target)) commands recs ->
  exists env',
    run_compile fo (run_with fo child') cx cur cname sc name (Some l) s =
    (mkSt (mkGlob (rev recs ++ g_prints (s_g s)) (g_warnings (s_g s))) env' (s_line2 s),
     IOk (if str_eqb (upper name) s_STARTENV then RLines [] else RComp (mkCret [] SNormal))).
Proof. exact PrintFlow.start_prints_imported_file. Qed.
Print Assumptions start_prints_imported_file.

(* ================================================================== evaluated witnesses *)
Theorem order_and_files : showp (compile_items fo0 o0 fs1 (Some p_main) (items_of tMAIN)) =
  inl ([], [(w_one, 1%Z, Some p_main); (w_in_lib, 1%Z, Some p_lib); (w_in_lib, 1%Z, Some p_lib);
            (w_in_g, 5%Z, Some p_main); (w_in_g, 5%Z, Some p_main);
            (w_in_libf, 3%Z, Some p_lib); (w_last, 9%Z, Some p_main)]).
Proof. exact PrintExamples.order_and_files. Qed.
Print Assumptions order_and_files.

Theorem prints_before_failure : showp (compile_items fo0 o0 (fun _ => None) None (items_of tFAIL)) =
  inr (Some EInvalidArguments, [(w_before, 1%Z, None); (w_inside, 3%Z, None); (w_inside, 3%Z, None)]).
Proof. exact PrintExamples.prints_before_failure. Qed.
Print Assumptions prints_before_failure.
