(* C10d -- "When a command or one of its arguments is at fault, the innermost entry of the error's
   trace names the file and original 1-based line of that command; the outer entries list,
   outermost first, the lines of the blocks that led there" -- for the CORE FRAGMENT, against an
   ERROR JUDGEMENT that does not mention the interpreter.
   Statements only; proofs in Proofs/CoreErrRefine.v (refinement), Proofs/CoreErrLines.v (one lemma
   per failing line form), Proofs/CoreErrExample.v (computed witnesses).

   The specification is Spec/CoreErr.v (on top of Spec/CoreLang.v):
     fails fo sys f vs n s e arg chain      statement s written from line n on, started with IF
                                            flag f and store vs, fails with class e
     fails_list / fails_arms / fails_repeat / fails_while    the same for a statement list, the
                                            remaining arms of a chain, a loop from iteration k on
     fails_prog fo p e arg chain            the program p (lines from 1), initial state
     chain : list Z    LINE NUMBERS, outermost first: the IF/ELIF/ELSE arm lines and REPEAT/WHILE
                       lines entered, then the line of the statement at fault
     arg : bool        true: fault in the argument of a plain command ($NAME e / VAR x e);
                       false: fault in a block head (condition, count, iteration bound)
     names_ok s        every VAR inside s assigns to an identifier; the success premises ([exec]
                       of CoreLang.v, which does not look at names) are used for such statements only
   Side conditions (Proofs/CoreErrLines.v):
     wfx_list p        CoreWf.wf_list with ONE relaxation: the name of a VAR is any non-empty word
                       without blanks (so that "VAR 9z 5" is in the fragment);
                       wf s <-> wfx s /\ names_ok s.
   Vocabulary of the refinement (Proofs/CoreErrRefine.v):
     shape file arg chain tr     tr has one frame per element of chain, in order;  every frame has
                       fr_file = file;  the line number is  snd (fr_line fr)  (fr_line is the
                       preline (text, number));  fr_line2 = None on every frame but the last;  on
                       the last frame fr_line2 = Some (fr_line fr) if arg, None otherwise.

   WHERE THE TRACE OF THE INTERPRETER IS NOT WHAT ONE MIGHT EXPECT (all confirmed by the theorems,
   witnesses in Proofs/CoreErrExample.v):
     1. A failing ELIF condition is attributed to the ELIF's own line, never to the IF -- also for
        the ELIFs that are evaluated AFTER the taken arm ran (rule FA_Later): chain = [line of that
        ELIF], although the IF's body executed.  The output of that body is lost with the error.
     2. A failure inside an ELSE arm has the ELSE line as outer entry (not the IF line); inside an
        ELIF arm, the ELIF line.
     3. A failing WHILE condition is attributed to the WHILE line ALONE (chain = [n], no second
        line), although it is evaluated inside the iteration's block (counter bound, no IF flag).
     4. A loop head appears ONCE per nesting level, whatever the iteration that fails (each
        iteration is a fresh child stack of the same parent line).
     5. fr_line2 ("second line") is None on every block-head frame and on a fault in a block head;
        on a `$NAME e` or `VAR x e` fault it is the line itself (the argument is inline).
     6. The REPEAT count is checked again before every iteration and after the last: a count that
        becomes invalid inside the loop fails at the REPEAT line AFTER iterations ran (their output
        is lost).  Not a number / non-integral float / outside 0..20000: InvalidArguments.
     7. VAR evaluates its expression BEFORE checking the name: "VAR 9z nosuch" reports the
        expression's class, not UnacceptableVarName.
     8. Nothing else happens: same glob (no warning, no print); the interpreter returns the error
        alone (the output made so far is discarded), so the judgement does not track output. *)
From Coq Require Import String NArith ZArith List Bool.
From DS Require Import Base PyStr Values Expr TabParse Tables Constants Interp ScopeProofs.
From DS Require Import CoreLang CoreWf CoreRefine CoreExample CoreErr CoreErrLines CoreErrRefine CoreErrExample.
Import ListNotations.

Arguments IOk {A}. Arguments IErr {A}. Arguments s_g {fo}.

(* ================================================================== what [shape] says *)
Theorem C10d_shape_numbers : forall file a ch tr,
  shape file a ch tr -> map (fun fr => snd (fr_line fr)) tr = ch.
Proof. exact shape_numbers. Qed.
Print Assumptions C10d_shape_numbers.

Theorem C10d_shape_files : forall file a ch tr,
  shape file a ch tr -> Forall (fun fr => fr_file fr = file) tr.
Proof. exact shape_files. Qed.
Print Assumptions C10d_shape_files.

Theorem C10d_shape_second_lines : forall file a ch tr, shape file a ch tr ->
  exists heads lastf, tr = heads ++ [lastf] /\
    Forall (fun fr => fr_line2 fr = None) heads /\
    fr_line2 lastf = if a then Some (fr_line lastf) else None.
Proof. exact shape_line2. Qed.
Print Assumptions C10d_shape_second_lines.

(* ================================================================== side conditions *)
Theorem C10d_wf_is_wfx_and_names : forall s, wf s <-> wfx s /\ names_ok s.
Proof. exact wf_iff_wfx_names. Qed.
Print Assumptions C10d_wf_is_wfx_and_names.

(* ================================================================== THE REFINEMENT THEOREM *)
(* Stack.run (exec_cmds) at any depth d, in any stack context cx with room for the nesting of the
   program, from any state related to (f, vs), any glob, functions, file system, accumulated
   output: the result is the compile error of class e; its trace is the pile of the stack (the
   frames of the stacks below) followed by frames of shape [chain]; the glob is unchanged. *)
Theorem C10d_refinement_exec_cmds :
  forall fo sys, nodup_keys sys ->
  forall f vs n p er a ch d cx acc s g F,
  fails_list fo sys f vs n p er a ch ->
  wfx_list p -> fits d cx (nesting_list p) -> R fo sys g F f vs s ->
  exists s' tr, s_g s' = g /\ shape (c_file cx) a ch tr /\
    exec_cmds fo (child_of fo d) cx (items_from n p) acc s = (s', IErr er (Some (c_pile cx ++ tr))).
Proof. exact refine_fails_exec_cmds. Qed.
Print Assumptions C10d_refinement_exec_cmds.

Theorem C10d_refinement_run :
  forall fo sys, nodup_keys sys ->
  forall vs n p er a ch d cx g F,
  fails_list fo sys None vs n p er a ch ->
  wfx_list p -> fits d cx (nesting_list p) -> nodup_keys vs ->
  exists tr, shape (c_file cx) a ch tr /\
    run fo d cx g (mkEnv fo sys vs [] F) (items_from n p) = (g, IErr er (Some (c_pile cx ++ tr))).
Proof. exact refine_fails_run. Qed.
Print Assumptions C10d_refinement_run.

(* Compiler.compile on the parsed program: any options whose stack limit exceeds the nesting, any
   file system, any file name *)
Theorem C10d_refinement_compile_items :
  forall fo o fs file p er a ch,
  fails_prog fo p er a ch -> wfx_list p -> (Z.of_nat (nesting_list p) < stack_limit o)%Z ->
  exists tr, shape file a ch tr /\
    compile_items fo o fs file (items_of p) = (mkGlob [] [], IErr er (Some tr)).
Proof. exact refine_fails_compile_items. Qed.
Print Assumptions C10d_refinement_compile_items.

(* the same, with [shape] spelled out: the line numbers of the trace are the chain; every frame
   names the compiled file; the second lines *)
Theorem C10d_trace_is_the_chain :
  forall fo o fs file p er a ch,
  fails_prog fo p er a ch -> wfx_list p -> (Z.of_nat (nesting_list p) < stack_limit o)%Z ->
  exists tr,
    compile_items fo o fs file (items_of p) = (mkGlob [] [], IErr er (Some tr)) /\
    map (fun fr => snd (fr_line fr)) tr = ch /\
    Forall (fun fr => fr_file fr = file) tr /\
    exists heads lastf, tr = heads ++ [lastf] /\
      Forall (fun fr => fr_line2 fr = None) heads /\
      fr_line2 lastf = if a then Some (fr_line lastf) else None.
Proof. exact refine_fails_compile_items_chain. Qed.
Print Assumptions C10d_trace_is_the_chain.

(* the five statements proved together by induction on the derivation (P_fails ... are the
   per-judgement forms, Proofs/CoreErrRefine.v) *)
Theorem C10d_refinement_all :
  forall fo sys, nodup_keys sys ->
  (forall f vs n stm er a ch, fails fo sys f vs n stm er a ch -> P_fails fo sys f vs n stm er a ch) /\
  (forall f vs n p er a ch, fails_list fo sys f vs n p er a ch -> P_fails_list fo sys f vs n p er a ch) /\
  (forall b vs n arms els er a ch,
     fails_arms fo sys b vs n arms els er a ch -> P_fails_arms fo sys b vs n arms els er a ch) /\
  (forall f c e body n k vs er a ch,
     fails_repeat fo sys f c e body n k vs er a ch -> P_fails_repeat fo sys f c e body n k vs er a ch) /\
  (forall c e body n k vs er a ch,
     fails_while fo sys c e body n k vs er a ch -> P_fails_while fo sys c e body n k vs er a ch).
Proof. exact refine_fails_all. Qed.
Print Assumptions C10d_refinement_all.

(* ================================================================== non-vacuity (any FloatOps) *)
(* nested IF inside REPEAT, `$STRING nosuch` fails in the SECOND iteration: derivation, side
   condition, and what the interpreter computes *)
Theorem C10d_example_nested : forall fo,
  fails_prog fo prog_nested EExpectedToken true [1; 2; 3]%Z /\
  wfx_list prog_nested /\
  outcome fo prog_nested =
  IErr EExpectedToken
    (Some [ mkFrame None (S_ "REPEAT i,3", 1%Z) None;
            mkFrame None (S_ "IF i==1", 2%Z) None;
            mkFrame None (S_ "$STRING nosuch", 3%Z) (Some (S_ "$STRING nosuch", 3%Z)) ]).
Proof. intro fo. exact (conj (nested_fails fo) (conj nested_wfx (nested_interpreter fo))). Qed.
Print Assumptions C10d_example_nested.

(* a VAR with a bad name inside an ELSE arm *)
Theorem C10d_example_badname : forall fo,
  fails_prog fo prog_badname EUnacceptableVarName true [4; 5]%Z /\
  wfx_list prog_badname /\
  outcome fo prog_badname =
  IErr EUnacceptableVarName
    (Some [ mkFrame None (S_ "ELSE", 4%Z) None;
            mkFrame None (S_ "VAR 9z 5", 5%Z) (Some (S_ "VAR 9z 5", 5%Z)) ]).
Proof. intro fo. exact (conj (badname_fails fo) (conj badname_wfx (badname_interpreter fo))). Qed.
Print Assumptions C10d_example_badname.

(* an ELIF condition evaluated after the taken arm: blamed on the ELIF line *)
Theorem C10d_example_elif : forall fo,
  fails_prog fo prog_elif EExpectedToken false [3]%Z /\
  outcome fo prog_elif = IErr EExpectedToken (Some [mkFrame None (S_ "ELIF nope", 3%Z) None]).
Proof. intro fo. exact (conj (elif_fails fo) (elif_interpreter fo)). Qed.
Print Assumptions C10d_example_elif.

(* a WHILE condition that stops evaluating in the second iteration: the WHILE line alone *)
Theorem C10d_example_while_condition : forall fo,
  exists er, fails_prog fo prog_whilecond er false [2]%Z /\ wfx_list prog_whilecond /\
    outcome fo prog_whilecond = IErr er (Some [mkFrame None (S_ "WHILE i,10//(1-i)>0", 2%Z) None]).
Proof. exact whilecond_fails. Qed.
Print Assumptions C10d_example_while_condition.

(* a REPEAT count that becomes invalid inside the loop: found at the re-check, REPEAT line *)
Theorem C10d_example_recount : forall fo,
  fails_prog fo prog_recount_bad EInvalidArguments false [2]%Z /\ wfx_list prog_recount_bad /\
  outcome fo prog_recount_bad = IErr EInvalidArguments (Some [mkFrame None (S_ "REPEAT n", 2%Z) None]).
Proof. exact recount_fails. Qed.
Print Assumptions C10d_example_recount.
