(* C06f -- REPEAT on the unified reference semantics (Spec/CoreAll.v).  Specification only; proofs in
   Proofs/CoreAllLoops.v, examples (derivation + interpreter) in Proofs/CoreAllLoopsExample.v.
   The refinement theorem (Properties/C12d.v) carries every derivation to the interpreter.

   The loop  REPEAT [c,]e / body  stands at line n of file cf under the stacks pile; its bodies run
   with room d (so the loop needs S d), function table F; f is the IF flag at the loop.
     body_run .. k vs sg vs1 o ev     ONE run of the body as iteration k from the loop's store vs:
                                      on  with_counter c k vs  (the counter bound to k), no flag, one
                                      stack deeper; ends with signal sg, store vs1, output o, events ev
     iters .. k vs j vs' out ev       the iterations k, k+1, .., j-1 IN THIS ORDER, each going on
                                      (Normal or CONTINUELOOP), iteration i started from the store
                                      copy_back left by iteration i-1; outputs / events concatenated
     all_iterations .. m k ..         signal Normal and  iters k .. m
     stopped_at .. m k ..             iterations k .. j-1 go on, iteration j < m ends Broke / Returned *)
From Coq Require Import String NArith ZArith List Bool.
From DS Require Import Base PyStr Values Expr TabParse Tables Constants Interp ImportGraph.
From DS Require Import CoreLang CoreFunc CoreAll CoreAllBase CoreAllRefine CoreAllExample CoreAllErrExample.
From DS Require Import CoreAllLoops CoreAllLoopsExample.
Import ListNotations.
Arguments IOk {A}. Arguments IErr {A}.
Arguments e_sys : clear implicits. Arguments e_user : clear implicits. Arguments e_temp : clear implicits.
Arguments e_funcs : clear implicits. Arguments mkEnv : clear implicits.

(* ================================================================== the vocabulary *)
Theorem C06f_body_run_meaning :
  forall (fo : FloatOps) (sys : store fo) prog inc sup d pile cf n F c e body k vs sg vs1 o ev,
  body_run fo sys prog inc sup d pile cf n F c e body k vs sg vs1 o ev <->
  exists F1 f1, exec_list fo sys prog inc sup d (pile ++ [mkSF cf (repeat_head c e) n false]) cf (n + 1) F None
                          (with_counter fo c k vs) body sg F1 f1 vs1 o ev.
Proof. exact body_run_meaning. Qed.
Print Assumptions C06f_body_run_meaning.

Theorem C06f_iters_meaning :
  forall (fo : FloatOps) (sys : store fo) prog inc sup d pile cf n F c e body k vs j vs' out ev,
  iters fo sys prog inc sup d pile cf n F c e body k vs j vs' out ev <->
  (j = k /\ vs' = vs /\ out = [] /\ ev = []) \/
  (exists sg vs1 o1 e1 o2 e2,
     body_run fo sys prog inc sup d pile cf n F c e body k vs sg vs1 o1 e1 /\ goes_on sg /\
     iters fo sys prog inc sup d pile cf n F c e body (k + 1) (copy_back fo vs vs1) j vs' o2 e2 /\
     out = o1 ++ o2 /\ ev = e1 ++ e2).
Proof. exact iters_unfold. Qed.
Print Assumptions C06f_iters_meaning.

Theorem C06f_all_iterations_meaning :
  forall (fo : FloatOps) (sys : store fo) prog inc sup d pile cf n F c e body m k vs sg vs' out ev,
  all_iterations fo sys prog inc sup d pile cf n F c e body m k vs sg vs' out ev <->
  (sg = Normal /\ iters fo sys prog inc sup d pile cf n F c e body k vs m vs' out ev).
Proof. exact all_iterations_meaning. Qed.
Print Assumptions C06f_all_iterations_meaning.

Theorem C06f_stopped_at_meaning :
  forall (fo : FloatOps) (sys : store fo) prog inc sup d pile cf n F c e body m k vs sg vs' out ev,
  stopped_at fo sys prog inc sup d pile cf n F c e body m k vs sg vs' out ev <->
  exists j vsj o1 e1 sgb vs1 o2 e2,
    (k <= j < m)%Z /\ iters fo sys prog inc sup d pile cf n F c e body k vs j vsj o1 e1 /\
    body_run fo sys prog inc sup d pile cf n F c e body j vsj sgb vs1 o2 e2 /\ stops sgb /\
    sg = loop_end sgb /\ vs' = copy_back fo vsj vs1 /\ out = o1 ++ o2 /\ ev = e1 ++ e2.
Proof. exact stopped_at_meaning. Qed.
Print Assumptions C06f_stopped_at_meaning.

(* iters k .. j is exactly j - k body runs, with the counter values k, k+1, .., j-1 in this order *)
Theorem C06f_iters_count :
  forall (fo : FloatOps) (sys : store fo) prog inc sup d pile cf n F c e body k vs j vs' o ev,
  iters fo sys prog inc sup d pile cf n F c e body k vs j vs' o ev ->
  exists tr, iters_trace fo sys prog inc sup d pile cf n F c e body k vs j vs' tr /\
             map fst tr = map (fun i => (k + Z.of_nat i)%Z) (seq 0 (Z.to_nat (j - k))).
Proof. exact iters_has_trace. Qed.
Print Assumptions C06f_iters_count.

(* ================================================================== 2a. REPEAT m runs its body exactly m times *)
(* the count expression evaluates to the constant m in every store (e.g. a literal): the
   derivations of the loop ARE the m iterations 0 .. m-1 in order (Normal), or the iterations
   0 .. j-1 and a stopping iteration j < m.  Both directions. *)
Theorem C06f_repeat_exact :
  forall (fo : FloatOps) (sys : store fo) prog inc sup d pile cf n F f c e body m,
  (forall vs, exists v, eval fo sys f vs e v /\ count_of fo v = Some m) -> (0 <= m <= loop_max)%Z ->
  forall vs sg F' f' vs' out ev,
  exec fo sys prog inc sup (S d) pile cf n F f vs (URepeat c e body) sg F' f' vs' out ev <->
  F' = F /\ f' = f /\
  (all_iterations fo sys prog inc sup d pile cf n F c e body m 0 vs sg vs' out ev \/
   stopped_at fo sys prog inc sup d pile cf n F c e body m 0 vs sg vs' out ev).
Proof. exact repeat_exact. Qed.
Print Assumptions C06f_repeat_exact.

(* ... from any iteration k <= m on *)
Theorem C06f_repeat_exact_from :
  forall (fo : FloatOps) (sys : store fo) prog inc sup d pile cf n F f c e body m,
  (forall vs, exists v, eval fo sys f vs e v /\ count_of fo v = Some m) -> (0 <= m <= loop_max)%Z ->
  forall k vs sg vs' out ev, (k <= m)%Z ->
  exec_repeat fo sys prog inc sup (S d) pile cf n F f c e body k vs sg vs' out ev <->
  all_iterations fo sys prog inc sup d pile cf n F c e body m k vs sg vs' out ev \/
  stopped_at fo sys prog inc sup d pile cf n F c e body m k vs sg vs' out ev.
Proof. exact repeat_exact_from. Qed.
Print Assumptions C06f_repeat_exact_from.

(* conversely, m body derivations that go on compose to the loop *)
Theorem C06f_repeat_all_iterations :
  forall (fo : FloatOps) (sys : store fo) prog inc sup d pile cf n F f c e body m,
  (forall vs, exists v, eval fo sys f vs e v /\ count_of fo v = Some m) -> (0 <= m <= loop_max)%Z ->
  forall vs vs' out ev,
  iters fo sys prog inc sup d pile cf n F c e body 0 vs m vs' out ev ->
  exec fo sys prog inc sup (S d) pile cf n F f vs (URepeat c e body) Normal F f vs' out ev.
Proof. exact repeat_all_normal. Qed.
Print Assumptions C06f_repeat_all_iterations.

(* a loop ends Normal or (RETURN inside) Returned: never Broke, never Continued *)
Theorem C06f_loop_signal :
  forall (fo : FloatOps) (sys : store fo) prog inc sup d pile cf n F f c e body m,
  (forall vs, exists v, eval fo sys f vs e v /\ count_of fo v = Some m) -> (0 <= m <= loop_max)%Z ->
  forall vs sg vs' out ev,
  exec_repeat fo sys prog inc sup (S d) pile cf n F f c e body 0 vs sg vs' out ev -> sg = Normal \/ sg = Returned.
Proof. exact repeat_signal_cases. Qed.
Print Assumptions C06f_loop_signal.

(* ================================================================== 2b. BREAKLOOP, CONTINUELOOP *)
(* BREAKLOOP inside iteration j: the loop ends NORMAL, the output of the iterations 0 .. j-1 (o1) and
   the partial output of iteration j (o2) are kept in this order, iterations j+1 .. do not run *)
Theorem C06f_break_ends_loop :
  forall (fo : FloatOps) (sys : store fo) prog inc sup d pile cf n F f c e body m,
  (forall vs, exists v, eval fo sys f vs e v /\ count_of fo v = Some m) -> (0 <= m <= loop_max)%Z ->
  forall vs j vsj o1 e1 vs1 o2 e2,
  iters fo sys prog inc sup d pile cf n F c e body 0 vs j vsj o1 e1 -> (j < m)%Z ->
  body_run fo sys prog inc sup d pile cf n F c e body j vsj Broke vs1 o2 e2 ->
  exec fo sys prog inc sup (S d) pile cf n F f vs (URepeat c e body) Normal F f (copy_back fo vsj vs1) (o1 ++ o2) (e1 ++ e2).
Proof. exact repeat_break. Qed.
Print Assumptions C06f_break_ends_loop.

(* in a body: what was emitted before a BREAKLOOP / CONTINUELOOP that is reached is kept, what
   follows it is not run *)
Theorem C06f_break_keeps_output :
  forall (fo : FloatOps) (sys : store fo) prog inc sup d pile cf n F f vs pre post F1 f1 vs1 o e,
  exec_list fo sys prog inc sup d pile cf n F f vs pre Normal F1 f1 vs1 o e ->
  exec_list fo sys prog inc sup d pile cf n F f vs (pre ++ UBreakLoop :: post) Broke F1 f1 vs1 o e.
Proof. exact break_in_body. Qed.
Print Assumptions C06f_break_keeps_output.

Theorem C06f_continue_keeps_output :
  forall (fo : FloatOps) (sys : store fo) prog inc sup d pile cf n F f vs pre post F1 f1 vs1 o e,
  exec_list fo sys prog inc sup d pile cf n F f vs pre Normal F1 f1 vs1 o e ->
  exec_list fo sys prog inc sup d pile cf n F f vs (pre ++ UContinueLoop :: post) Continued F1 f1 vs1 o e.
Proof. exact continue_in_body. Qed.
Print Assumptions C06f_continue_keeps_output.

(* CONTINUELOOP ends only the iteration: iteration k + 1 starts from the copied-back store *)
Theorem C06f_continue_ends_iteration :
  forall (fo : FloatOps) (sys : store fo) prog inc sup d pile cf n F f c e body m,
  (forall vs, exists v, eval fo sys f vs e v /\ count_of fo v = Some m) -> (0 <= m <= loop_max)%Z ->
  forall k vs vs1 o1 e1 sg vs' o2 e2, (k < m)%Z ->
  body_run fo sys prog inc sup d pile cf n F c e body k vs Continued vs1 o1 e1 ->
  exec_repeat fo sys prog inc sup (S d) pile cf n F f c e body (k + 1) (copy_back fo vs vs1) sg vs' o2 e2 ->
  exec_repeat fo sys prog inc sup (S d) pile cf n F f c e body k vs sg vs' (o1 ++ o2) (e1 ++ e2).
Proof. exact repeat_continue. Qed.
Print Assumptions C06f_continue_ends_iteration.

(* TWO NESTED LOOPS: the BREAKLOOP of the inner loop (in its iteration j) ends the inner loop only:
   the inner statement ends Normal and the statements [post] after it in the outer body run, from
   the store the inner loop left; the outer iteration ends with THEIR signal sgp *)
Theorem C06f_inner_break_outer_goes_on :
  forall (fo : FloatOps) (sys : store fo) prog inc sup
         d pile cf n2 F f2 c2 e2 body2 m2 vs j vsj o1 e1 vs1 o2 ev2 post sgp Fp fp vsp op ep,
  (forall vs0, exists v, eval fo sys f2 vs0 e2 v /\ count_of fo v = Some m2) -> (0 <= m2 <= loop_max)%Z ->
  iters fo sys prog inc sup d pile cf n2 F c2 e2 body2 0 vs j vsj o1 e1 -> (j < m2)%Z ->
  body_run fo sys prog inc sup d pile cf n2 F c2 e2 body2 j vsj Broke vs1 o2 ev2 ->
  exec_list fo sys prog inc sup (S d) pile cf (n2 + usize (URepeat c2 e2 body2)) F f2 (copy_back fo vsj vs1) post sgp Fp fp vsp op ep ->
  exec_list fo sys prog inc sup (S d) pile cf n2 F f2 vs (URepeat c2 e2 body2 :: post) sgp Fp fp vsp
            ((o1 ++ o2) ++ op) ((e1 ++ ev2) ++ ep).
Proof. exact inner_break_outer_goes_on. Qed.
Print Assumptions C06f_inner_break_outer_goes_on.

(* ================================================================== 2c. the counter after the loop *)
Theorem C06f_loop_keeps_names :
  forall (fo : FloatOps) (sys : store fo) prog inc sup d pile cf n F f vs c e body sg F' f' vs' out ev,
  exec fo sys prog inc sup d pile cf n F f vs (URepeat c e body) sg F' f' vs' out ev -> map fst vs' = map fst vs.
Proof. exact repeat_names. Qed.
Print Assumptions C06f_loop_keeps_names.

(* the counter does not exist after the loop unless a variable of that name existed before *)
Theorem C06f_counter_gone :
  forall (fo : FloatOps) (sys : store fo) prog inc sup d pile cf n F f vs x e body sg F' f' vs' out ev,
  exec fo sys prog inc sup d pile cf n F f vs (URepeat (Some x) e body) sg F' f' vs' out ev ->
  has_key x vs = false -> has_key x vs' = false.
Proof. exact counter_gone. Qed.
Print Assumptions C06f_counter_gone.

(* (!) ... and if it did, after m >= 1 iterations it holds what the LAST body run (counter m - 1) left in it *)
Theorem C06f_counter_after_loop :
  forall (fo : FloatOps) (sys : store fo) prog inc sup d pile cf n F x e body vs m vs' out ev,
  iters fo sys prog inc sup d pile cf n F (Some x) e body 0 vs m vs' out ev -> (0 < m)%Z -> has_key x vs = true ->
  exists vsl sg vs1 o1 e1,
    body_run fo sys prog inc sup d pile cf n F (Some x) e body (m - 1) vsl sg vs1 o1 e1 /\
    lookup x (with_counter fo (Some x) (m - 1) vsl) = Some (VInt (m - 1)) /\
    lookup x vs' = lookup x vs1.
Proof. exact counter_after_loop. Qed.
Print Assumptions C06f_counter_after_loop.

(* ... the last counter value when the body never assigns to it (finding of C06e) *)
Theorem C06f_counter_overwrites_outer :
  forall (fo : FloatOps) (sys : store fo) prog inc sup d pile cf n F x e body vs m vs' out ev,
  iters fo sys prog inc sup d pile cf n F (Some x) e body 0 vs m vs' out ev -> (0 < m)%Z -> has_key x vs = true ->
  (forall k vsk sg vs1 o1 e1, body_run fo sys prog inc sup d pile cf n F (Some x) e body k vsk sg vs1 o1 e1 ->
     lookup x vs1 = lookup x (with_counter fo (Some x) k vsk)) ->
  lookup x vs' = Some (VInt (m - 1)).
Proof. exact counter_overwrites_outer. Qed.
Print Assumptions C06f_counter_overwrites_outer.

(* ================================================================== non-vacuity *)
(* REPEAT i,3 / $STRING i ; REPEAT 2 / (STRING in ; BREAKLOOP ; STRING never) ; IF i==1 / BREAKLOOP ;
   STRING after  //  STRING end        and        VAR i 7 / REPEAT i,2 / STRING x ; $STRING i *)
Theorem C06f_examples_derivations : forall (fo : FloatOps) inc sup,
  prog_ok ex_dir lp_prog lp_fs /\ uruns fo lp_prog inc sup n_main 2 Normal [] None [] lp_out [] /\
  prog_ok ex_dir cn_prog cn_fs /\
  uruns fo cn_prog inc sup n_main 1 Normal [] None [(S_ "i", VInt 1)]
        [LCode (S_ "STRING x"); LCode (S_ "STRING x"); LCode (S_ "STRING 1")] [].
Proof. exact lp_all. Qed.
Print Assumptions C06f_examples_derivations.

Theorem C06f_examples_computed : forall fo : FloatOps,
  (match compile_items fo (ex_opts false false) lp_fs (Some (file_of ex_dir n_main)) (uitems_of lp_main) with
   | (_, IOk c) => map o_text (out fo c) =
                     [S_ "STRING 0"; S_ "STRING in"; S_ "STRING after"; S_ "STRING 1"; S_ "STRING in"; S_ "STRING end"] /\
                   e_user fo (final_env fo c) = []
   | _ => False
   end) /\
  (match compile_items fo (ex_opts false false) cn_fs (Some (file_of ex_dir n_main)) (uitems_of cn_main) with
   | (_, IOk c) => map o_text (out fo c) = [S_ "STRING x"; S_ "STRING x"; S_ "STRING 1"] /\
                   e_user fo (final_env fo c) = [(S_ "i", VInt 1)]
   | _ => False
   end).
Proof. exact lp_computed. Qed.
Print Assumptions C06f_examples_computed.

(* the nested-loops program through the refinement theorem, both options arbitrary *)
Theorem C06f_example_by_theorem : forall (fo : FloatOps) inc sup, exists ol,
  map o_text ol = map line_text lp_out /\
  compile_items fo (ex_opts inc sup) lp_fs (Some (file_of ex_dir n_main)) (uitems_of lp_main) =
  (mkGlob [] [], IOk (mkCompiled fo ol [] (mkEnv fo (initial_sys fo) [] [] []) [])).
Proof. exact lp_by_theorem. Qed.
Print Assumptions C06f_example_by_theorem.

(* the inner loop of the example through C06f_break_ends_loop *)
Theorem C06f_example_inner_loop : forall (fo : FloatOps) inc sup d pile cf n F f (vs : store fo),
  exec fo (initial_sys fo) lp_prog inc sup (S d) pile cf n F f vs lp_inner Normal F f
    (copy_back fo vs vs) ([] ++ [LCode (S_ "STRING in")]) ([] ++ []).
Proof. exact lp_inner_by_theorem. Qed.
Print Assumptions C06f_example_inner_loop.
