(* C01 (legacy loop line) -- the Rubber Ducky 1.0 line `REPEAT n` WITHOUT an indented block passes
   through: in any state, for any child runner, the REPEAT block class emits exactly the one line
   "REPEAT <trimmed argument>", signal Normal, and the state (variables, functions, prints, warnings)
   is untouched -- the argument is not evaluated.  Statements only (Proofs/LegacyRepeat.v).
   This closes the part of C01 that earlier rested on correspondence only. *)
From Coq Require Import String NArith ZArith List Bool.
From DS Require Import Base PyStr Values TabParse Interp Tables Constants NameChecks DuckyGrammar FlatExamples LegacyRepeat.
Import ListNotations.
Arguments IOk {A}. Arguments out {fo}. Arguments warnings {fo}. Arguments prints {fo}.

Theorem C01c_repeat_legacy_passthrough :
  forall (fo : FloatOps) (child : runner fo) cx cur bc cname cmd num c a cb (s : st fo) count_expr,
    std_block bc -> b_kind bc = BKRepeat ->
    split_loop_arg (strip (c :: a)) = (None, count_expr) ->
    block_of cb = [] ->
    block_compile fo child cx cur bc cname cmd num (Some (c :: a)) cb s =
    (s, IOk (RComp (mkCret [mkO ByLegacyRepeat (s_REPEAT ++ [space] ++ strip (c :: a))%list] SNormal))).
Proof. exact repeat_legacy_passthrough. Qed.
Print Assumptions C01c_repeat_legacy_passthrough.

(* the generated palette's REPEAT class meets the hypotheses *)
Theorem C01c_palette_repeat_std :
  forall n bc, In (n, Block bc) palette -> b_kind bc = BKRepeat -> std_block bc.
Proof. exact palette_repeat_std. Qed.
Print Assumptions C01c_palette_repeat_std.

(* witnesses on the text entry point: upper-cased word, trimmed argument, nothing evaluated
   ("x+1" with x undefined), no warning, no print *)
Theorem C01c_legacy_text_output :
  match compile_text dfo default_options (fun _ => None) None legacy_text with
  | (_, IOk c) => Some (map o_text (out c), List.length (warnings c), List.length (prints c))
  | _ => None
  end = Some ([lit "STRING a"; lit "REPEAT 3"; lit "REPEAT x+1"; lit "ENTER"; lit "REPEAT 2"], 0, 0).
Proof. exact legacy_text_output. Qed.
Print Assumptions C01c_legacy_text_output.

Theorem C01c_loop_text_output :
  option_map (map o_text) (compiled_out (compile_text dfo default_options (fun _ => None) None loop_text))
  = Some [lit "ENTER"; lit "ENTER"].
Proof. exact loop_text_output. Qed.
Print Assumptions C01c_loop_text_output.
