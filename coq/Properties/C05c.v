(* C05c -- the interpreter implements a READABLE REFERENCE SEMANTICS of the core language
   (output lines, VAR, IF / ELIF / ELSE, REPEAT, WHILE, BREAKLOOP, CONTINUELOOP).
   Statements only; proofs in Proofs/CoreRefine.v (refinement), Proofs/CoreLines.v (one lemma per
   line form), Proofs/CoreExample.v (computed witnesses).

   The specification is Spec/CoreLang.v; it does not mention the interpreter:
     stmt                      the abstract syntax
     items_of p                the program as numbered lines and indented blocks (items_from n: from line n)
     exec_list fo sys f vs p sg f' vs' out
                               big-step: the statements p, started with IF flag f (None = no IF chain
                               yet at this level) and variable store vs, end with signal sg (Normal /
                               Broke / Continued), flag f', store vs', having emitted the lines out.
                               sys = the system variables.  No derivation = the program fails.
     runs fo p sg f' vs' out   exec_list from the initial state ($DEFAULT_DELAY = 0, no variable, no flag)
     set_var / copy_back / overlay / visible   the store operations of the specification
   Side conditions (Proofs/CoreWf.v), about spelling only:
     wf_list p                 names are identifiers (IdentSpec.identb); expressions are non-empty and
                               have no blank at either end; a loop without counter has no comma in its
                               expression; blocks and IF chains are not empty; the NAME of an output line
                               is an upper-case word that the generated palette gives to a pass-through
                               class accepting an argument (STRING, STRINGLN, ...)
     nesting_list p            depth of block nesting of p
   Vocabulary of the refinement (Proofs/CoreRefine.v):
     R sys g F f vs s          the interpreter state s has glob g, system variables sys, user variables
                               EXACTLY the list vs, temp table = flag_var f ([] or [$IF_SUCCESS := b]),
                               functions F, and vs has no name twice
     child_of d                the runner of the stacks above a stack run at depth d (run d = run_with (child_of d))
     fits d cx m               m <= d and  length (pile of cx) + m < stack_limit: room for m more stacks
     sig_of                    Normal -> SNormal, Broke -> SBreak, Continued -> SContinue
     stray_warnings sg         [] for Normal, else the one warning "Program was exited using BREAK /
                               CONTINUE instead of using RETURN"

   FINDINGS written into the specification (marked (!) there) and confirmed by the theorems below:
     1. $IF_SUCCESS is an ordinary readable variable: expressions see the IF flag of their stack.
        The first condition of a chain sees the flag left by the PREVIOUS chain of the same block.
     2. After the taken arm (when its body ends normally) the conditions of all later ELIFs are
        still evaluated, with the flag true, in the store the body left; a failing one fails the program.
     3. The REPEAT count is re-evaluated before every iteration and once after the last, in the
        enclosing store as the iterations left it, and must be in 0..20000 each time.
     4. The WHILE condition is evaluated INSIDE the iteration's block: counter bound, no IF flag.
     5. Copy-back: on leaving a block every variable that existed outside takes the block's value;
        variables created inside (the counter included) disappear; but a counter NAMED LIKE an outer
        variable overwrites it -- even when a WHILE condition is false at once.
     6. A stray BREAKLOOP / CONTINUELOOP at top level ends the program there, output kept, one warning.
     7. System variables and functions are untouched by the fragment; the temp table of the
        program's own stack ends as the flag of its last top-level IF chain (final_env shows it). *)
From Coq Require Import String NArith ZArith List Bool.
From DS Require Import Base PyStr Values Expr TabParse Tables Constants Interp ScopeProofs.
From DS Require Import ChainLoopExamples CoreLang CoreWf CoreRefine CoreExample.
Import ListNotations.

Arguments IOk {A}. Arguments IErr {A}. Arguments s_env {fo}.

(* ================================================================== the store operations are the code's *)
Theorem C05c_set_var_is_upd : forall fo x (v : value fo) l, set_var fo x v l = upd x v l.
Proof. exact set_var_upd. Qed.
Print Assumptions C05c_set_var_is_upd.

Theorem C05c_copy_back_is_restrict_from : forall fo (outer inner : store fo),
  copy_back fo outer inner = restrict_from outer inner.
Proof. exact copy_back_restrict. Qed.
Print Assumptions C05c_copy_back_is_restrict_from.

Theorem C05c_overlay_is_upd_all : forall fo (top bottom : store fo), overlay fo top bottom = upd_all top bottom.
Proof. exact overlay_upd_all. Qed.
Print Assumptions C05c_overlay_is_upd_all.

(* what an expression sees in a related state is what the specification says *)
Theorem C05c_visible_is_all_vars : forall fo sys g F f vs s,
  R fo sys g F f vs s -> all_vars fo (s_env s) = visible fo sys f vs.
Proof. exact all_vars_R. Qed.
Print Assumptions C05c_visible_is_all_vars.

Theorem C05c_constants : flag_name = if_success /\ default_delay_name = default_delay_var /\
  loop_max = repeat_high /\ loop_max = while_limit.
Proof. exact spec_constants. Qed.
Print Assumptions C05c_constants.

(* ================================================================== THE REFINEMENT THEOREM *)
(* Stack.run (exec_cmds) at any depth d, in any stack context cx with room for the nesting of
   the program, from any state related to (f, vs), any glob, any functions, any file system,
   any accumulated output acc: the result is IOk, the texts of the appended output lines are
   exactly [out], the signal is sg, and the final state is related to (f', vs') -- same glob
   (no warning, no print), same system variables, same functions. *)
Theorem C05c_refinement_exec_cmds :
  forall fo sys, nodup_keys sys ->
  forall f vs p sg f' vs' out d cx n acc s g F,
  exec_list fo sys f vs p sg f' vs' out ->
  wf_list p -> fits d cx (nesting_list p) -> R fo sys g F f vs s ->
  exists s' ol, R fo sys g F f' vs' s' /\ map o_text ol = out /\
    exec_cmds fo (child_of fo d) cx (items_from n p) acc s = (s', IOk (mkCret (acc ++ ol) (sig_of sg))).
Proof. exact refine_exec_cmds. Qed.
Print Assumptions C05c_refinement_exec_cmds.

(* the depth-indexed interpreter on a stack that starts without temp variables *)
Theorem C05c_refinement_run :
  forall fo sys, nodup_keys sys ->
  forall vs p sg f' vs' out d cx n g F,
  exec_list fo sys None vs p sg f' vs' out ->
  wf_list p -> fits d cx (nesting_list p) -> nodup_keys vs ->
  exists ol, map o_text ol = out /\
    run fo d cx g (mkEnv fo sys vs [] F) (items_from n p) =
    (g, IOk (mkCret ol (sig_of sg), mkEnv fo sys vs' (flag_var fo f') F)).
Proof. exact refine_run. Qed.
Print Assumptions C05c_refinement_run.

(* Compiler.compile on the parsed program, any options whose stack limit exceeds the nesting,
   any file system, any file name *)
Theorem C05c_refinement_compile_items :
  forall fo o fs file p sg f' vs' out,
  runs fo p sg f' vs' out -> wf_list p -> (Z.of_nat (nesting_list p) < stack_limit o)%Z ->
  exists ol, map o_text ol = out /\
    compile_items fo o fs file (items_of p) =
    (mkGlob [] (stray_warnings sg),
     IOk (mkCompiled fo ol (stray_warnings sg) (mkEnv fo (initial_sys fo) vs' (flag_var fo f') []) [])).
Proof. exact refine_compile_items. Qed.
Print Assumptions C05c_refinement_compile_items.

(* the five statements proved together by induction on the derivation (P_exec ... are the
   per-judgement forms of the theorem above, Proofs/CoreRefine.v) *)
Theorem C05c_refinement_all :
  forall fo sys, nodup_keys sys ->
  (forall f vs stm sg f' vs' out, exec fo sys f vs stm sg f' vs' out -> P_exec fo sys f vs stm sg f' vs' out) /\
  (forall f vs p sg f' vs' out, exec_list fo sys f vs p sg f' vs' out -> P_list fo sys f vs p sg f' vs' out) /\
  (forall b vs arms els sg taken vs' out,
     exec_arms fo sys b vs arms els sg taken vs' out -> P_arms fo sys b vs arms els sg taken vs' out) /\
  (forall f c e body k vs vs' out,
     exec_repeat fo sys f c e body k vs vs' out -> P_repeat fo sys f c e body k vs vs' out) /\
  (forall c e body k vs vs' out,
     exec_while fo sys c e body k vs vs' out -> P_while fo sys c e body k vs vs' out).
Proof. exact refine_all. Qed.
Print Assumptions C05c_refinement_all.

(* ================================================================== non-vacuity *)
Open Scope string_scope.

(*   VAR total 0
     REPEAT i,3
         VAR tmp i*2
         IF i==1
             VAR total total+10
         ELSE
             VAR total total+tmp
         $STRING total
     $STRING total                 tmp and i are gone at the end, total is 14 *)
Theorem C05c_example_derivation : forall fo,
  exists f', runs fo prog_main Normal f' [(lit "total", VInt 14)]
                  [lit "STRING 0"; lit "STRING 10"; lit "STRING 14"; lit "STRING 14"].
Proof. exact main_derivation. Qed.
Print Assumptions C05c_example_derivation.

Theorem C05c_example_wf : wf_list prog_main.
Proof. exact main_wf. Qed.
Print Assumptions C05c_example_wf.

(* result fo p = Some (texts of the output, user variables, temp variables, warnings) of
   compile_items with the default options *)
Theorem C05c_example_interpreter : forall fo,
  result fo prog_main =
  Some ([lit "STRING 0"; lit "STRING 10"; lit "STRING 14"; lit "STRING 14"], [(lit "total", VInt 14)], [], []).
Proof. exact main_interpreter. Qed.
Print Assumptions C05c_example_interpreter.

(* finding 1 *)
Theorem C05c_flag_is_readable : forall fo,
  (exists f', runs fo prog_flag Normal f' [] [lit "STRING a"; lit "STRING True"]) /\
  result fo prog_flag = Some ([lit "STRING a"; lit "STRING True"], [], [(if_success, VBool true)], []).
Proof. exact flag_is_readable. Qed.
Print Assumptions C05c_flag_is_readable.

(* finding 6 *)
Theorem C05c_stray_break : forall fo,
  (exists f', runs fo prog_stray Broke f' [] [lit "STRING a"]) /\
  result fo prog_stray = Some ([lit "STRING a"], [], [], stray_warnings Broke).
Proof. exact stray_break. Qed.
Print Assumptions C05c_stray_break.

(* finding 2:   IF TRUE / STRING a / ELIF nope / STRING b
   the IF arm is taken and the program nevertheless fails on the ELIF line: the specification has
   no derivation for it, whatever the outcome, and the interpreter raises on line 3 *)
Theorem C05c_later_elif_is_evaluated : forall fo,
  (forall sg f' vs' out, ~ runs fo prog_elif sg f' vs' out) /\
  wf_list prog_elif /\
  result fo prog_elif = None /\
  snd (compile_items fo default_options (fun _ => None) None (items_of prog_elif)) =
  IErr EExpectedToken (Some [mkFrame None (lit "ELIF nope", 3%Z) None]).
Proof. exact later_elif_is_evaluated. Qed.
Print Assumptions C05c_later_elif_is_evaluated.
