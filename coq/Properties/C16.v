(* C16 -- unknown commands pass through.  Statements only. *)
From Coq Require Import NArith ZArith List Bool.
From DS Require Import Base PyStr Values TabParse Interp Tables Constants SmallProofs PipelineProofs.
Import ListNotations.
Arguments IOk {A}. Arguments s_g {fo}. Arguments s_env {fo}. Arguments mkSt {fo}.

(* a word no palette class claims is dispatched to the fall-back ... *)
Theorem unknown_word_not_dispatched : forall pal cmd cb,
  (forall n c, In (n, c) pal -> is_this_command c cmd cb = false) -> find_command pal cmd cb = None.
Proof. exact find_command_none. Qed.
Print Assumptions unknown_word_not_dispatched.

(* ... whose pipeline emits the upper-cased word followed by the trimmed argument, in place *)
Theorem unknown_passthrough : forall (fo : FloatOps) child cx cur cmd n a s,
  no_dollar cmd -> a <> [] ->
  simple_compile fo child cx cur [] ByUnknown generic_simple cmd n (Some a) None s =
  (mkSt (s_g s) (s_env s) (Some cur), IOk (mkCret [mkO ByUnknown (upper cmd ++ [32%N] ++ strip a)] SNormal)).
Proof.
  intros fo child cx cur cmd n a s Hnd Ha.
  exact (plain_inline_passthrough fo child cx cur [] ByUnknown generic_simple cmd n a s generic_simple_plain Hnd Ha
           (fun H => match H with eq_refl => I end)).
Qed.
Print Assumptions unknown_passthrough.
