(* C11 -- counted forms.  Statements only. *)
From Coq Require Import NArith ZArith List Bool.
From DS Require Import Base PyStr Values TabParse Interp Tables Constants MoreProofs.
Arguments IOk {A}.

Theorem enter_n_lines : forall (fo : FloatOps) child cx cur cname sc name n num orig s,
  s_run sc = RKEnter -> (n <= count_limit)%Z ->
  run_compile fo child cx cur cname sc name (Some (mkLine (AInt n) num orig)) s = (s, IOk (RLines (repeat s_ENTER (Z.to_nat n)))).
Proof. exact enter_count. Qed.
Print Assumptions enter_n_lines.

Theorem whitespace_n_lines : forall (fo : FloatOps) child cx cur cname sc name n num orig s,
  s_run sc = RKWhitespace -> (n <= count_limit)%Z ->
  run_compile fo child cx cur cname sc name (Some (mkLine (AInt n) num orig)) s = (s, IOk (RLines (repeat nil (Z.to_nat n)))).
Proof. exact whitespace_count. Qed.
Print Assumptions whitespace_n_lines.
