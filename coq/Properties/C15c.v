(* C15 / C19 (whole histories) -- "the only files written besides OUTPUT are the global and the project's
   config.yaml, whose MEANING (the options they denote) is unchanged" -- for every world and every
   sequence of CLI invocations.  Statements only.  State machine: Model/CliWorld.v; vocabulary:
   Spec/CliWorldSpec.v (see the header of Properties/C19b.v).
     meaning_cfg c      = option_map options_of_yaml c       what a project config.yaml denotes
     global_meaning g   = the options the global config denotes (absent file: default_options)
     configs_in_existing_dirs w = every directory that has a config.yaml exists (dir_exists)
     configs_full w     = every config present is yaml_of_options of something; the global is present

   CORRECTION.  "For every directory d that HAD a config, its meaning is unchanged" is FALSE of the
   model for ill-formed worlds: a config recorded for a directory that does not exist is overwritten by
   `new` (cli/new.py tests the directory only).  Witness: C15c_counterexample.  The statements below
   assume [configs_in_existing_dirs] of the INITIAL world only (it is an invariant: C15c_step_wf). *)
From Coq Require Import NArith ZArith List Bool.
From DS Require Import Base PyStr Values TabParse Interp Options Constants Cli CliWorld.
From DS Require Import FlatExamples CliWorldSpec CliWorldProofs CliWorldHistory CliWorldNew CliWorldEquiv CliWorldExamples.
Import ListNotations.

Theorem C15c_options_yaml_round_trip : forall o, options_of_yaml (yaml_of_options o) = o.
Proof. exact options_yaml_round_trip. Qed.
Print Assumptions C15c_options_yaml_round_trip.

(* the compiler's options depend on the project file only through its meaning *)
Theorem C15c_calculate_options_meaning : forall g p1 p2,
  meaning_cfg p1 = meaning_cfg p2 -> calculate_options g p1 = calculate_options g p2.
Proof. exact calculate_options_meaning. Qed.
Print Assumptions C15c_calculate_options_meaning.

(* ================================================================== one invocation (1d) *)
(* the global config: present and full afterwards, same meaning *)
Theorem C15c_step_global : forall (fo : FloatOps) w op w' r,
  cli_step fo w op = (w', r) -> w_global w' = Some (yaml_of_options (global_meaning (w_global w))).
Proof. exact step_global. Qed.
Print Assumptions C15c_step_global.

Theorem C15c_step_global_meaning : forall (fo : FloatOps) w op w' r,
  cli_step fo w op = (w', r) -> global_meaning (w_global w') = global_meaning (w_global w).
Proof. exact step_global_meaning. Qed.
Print Assumptions C15c_step_global_meaning.

(* the config of directory d: same meaning (and still absent if it was), or created by `new` *)
Theorem C15c_step_cfg : forall (fo : FloatOps) w op w' r d,
  cli_step fo w op = (w', r) ->
  meaning_cfg (w_cfg w' d) = meaning_cfg (w_cfg w d) /\ (w_cfg w d = None -> w_cfg w' d = None)
  \/
  (exists dir name, op = OpNew dir name /\ r = RNewCreated /\ d = new_project_dir dir name /\
                    dir_exists w d = false /\ w_cfg w' d = Some (yaml_of_options default_options)).
Proof. exact step_cfg. Qed.
Print Assumptions C15c_step_cfg.

Theorem C15c_step_cfg_meaning : forall (fo : FloatOps) w op w' r d y,
  configs_in_existing_dirs w ->
  cli_step fo w op = (w', r) -> w_cfg w d = Some y ->
  meaning_cfg (w_cfg w' d) = Some (options_of_yaml y).
Proof. exact step_cfg_meaning. Qed.
Print Assumptions C15c_step_cfg_meaning.

Theorem C15c_step_cfg_created : forall (fo : FloatOps) w op w' r d y',
  cli_step fo w op = (w', r) -> w_cfg w d = None -> w_cfg w' d = Some y' ->
  exists dir name, op = OpNew dir name /\ r = RNewCreated /\ d = new_project_dir dir name /\
                   y' = yaml_of_options default_options /\ options_of_yaml y' = default_options.
Proof. exact step_cfg_created. Qed.
Print Assumptions C15c_step_cfg_created.

Theorem C15c_step_wf : forall (fo : FloatOps) w op w' r,
  configs_in_existing_dirs w -> cli_step fo w op = (w', r) -> configs_in_existing_dirs w'.
Proof. exact step_wf. Qed.
Print Assumptions C15c_step_wf.

(* ================================================================== histories (2b) *)
Theorem C15c_cli_history_global_meaning : forall (fo : FloatOps) ops w,
  global_meaning (w_global (fst (cli_run fo w ops))) = global_meaning (w_global w).
Proof. exact cli_history_global_meaning. Qed.
Print Assumptions C15c_cli_history_global_meaning.

Theorem C15c_cli_history_global_full : forall (fo : FloatOps) ops w,
  ops <> [] ->
  w_global (fst (cli_run fo w ops)) = Some (yaml_of_options (global_meaning (w_global w))).
Proof. exact cli_history_global_full. Qed.
Print Assumptions C15c_cli_history_global_full.

(* the global options the i-th operation sees (it runs in the world the operations [pre] left) do not
   depend on the earlier operations *)
Theorem C15c_cli_history_ith_global_options : forall (fo : FloatOps) pre w,
  (forall y, w_global w = Some y ->
             global_meaning (w_global (fst (cli_run fo w pre))) = options_of_yaml y) /\
  (w_global w = None -> global_meaning (w_global (fst (cli_run fo w pre))) = default_options).
Proof. exact cli_history_ith_global_options. Qed.
Print Assumptions C15c_cli_history_ith_global_options.

Theorem C15c_cli_history_wf : forall (fo : FloatOps) ops w,
  configs_in_existing_dirs w -> configs_in_existing_dirs (fst (cli_run fo w ops)).
Proof. exact cli_history_wf. Qed.
Print Assumptions C15c_cli_history_wf.

Theorem C15c_cli_history_config_meaning : forall (fo : FloatOps) ops w d y,
  configs_in_existing_dirs w -> w_cfg w d = Some y ->
  meaning_cfg (w_cfg (fst (cli_run fo w ops)) d) = Some (options_of_yaml y).
Proof. exact cli_history_config_meaning. Qed.
Print Assumptions C15c_cli_history_config_meaning.

Theorem C15c_cli_history_config_created : forall (fo : FloatOps) ops w d y',
  configs_in_existing_dirs w -> w_cfg w d = None ->
  w_cfg (fst (cli_run fo w ops)) d = Some y' ->
  In d (new_dirs ops) /\ options_of_yaml y' = default_options.
Proof. exact cli_history_config_created. Qed.
Print Assumptions C15c_cli_history_config_created.

(* the options a compile of FILE runs with do not depend on the earlier operations *)
Theorem C15c_cli_history_effective_options : forall (fo : FloatOps) pre w file limit comments y,
  configs_in_existing_dirs w -> w_cfg w (parent file) = Some y ->
  effective_options (fst (cli_run fo w pre)) file limit comments = effective_options w file limit comments.
Proof. exact cli_history_effective_options. Qed.
Print Assumptions C15c_cli_history_effective_options.

Theorem C15c_cli_history_effective_options_none : forall (fo : FloatOps) pre w file limit comments,
  configs_in_existing_dirs w -> w_cfg w (parent file) = None -> ~ In (parent file) (new_dirs pre) ->
  effective_options (fst (cli_run fo w pre)) file limit comments = effective_options w file limit comments.
Proof. exact cli_history_effective_options_none. Qed.
Print Assumptions C15c_cli_history_effective_options_none.

(* ================================================================== the CLI sees only the meaning *)
(* two worlds whose configs denote the same options: same reports, and again such worlds *)
Theorem C15c_step_same_meaning : forall (fo : FloatOps) a b op,
  same_meaning a b ->
  snd (cli_step fo a op) = snd (cli_step fo b op) /\
  same_meaning (fst (cli_step fo a op)) (fst (cli_step fo b op)).
Proof. exact step_same_meaning. Qed.
Print Assumptions C15c_step_same_meaning.

Theorem C15c_cli_history_same_meaning : forall (fo : FloatOps) ops a b,
  same_meaning a b ->
  snd (cli_run fo a ops) = snd (cli_run fo b ops) /\
  same_meaning (fst (cli_run fo a ops)) (fst (cli_run fo b ops)).
Proof. exact cli_history_same_meaning. Qed.
Print Assumptions C15c_cli_history_same_meaning.

Theorem C15c_failed_step_same_meaning : forall (fo : FloatOps) w op,
  is_failure (snd (cli_step fo w op)) = true -> same_meaning (fst (cli_step fo w op)) w.
Proof. exact failed_step_same_meaning. Qed.
Print Assumptions C15c_failed_step_same_meaning.

(* ================================================================== idempotence (4) *)
Theorem C15c_load_global_idempotent : forall w, load_global (fst (load_global w)) = load_global w.
Proof. exact load_global_idempotent. Qed.
Print Assumptions C15c_load_global_idempotent.

(* writing the global config back once more is unobservable by any later history *)
Theorem C15c_load_global_unobservable : forall (fo : FloatOps) w ops,
  snd (cli_run fo (only_global w) ops) = snd (cli_run fo w ops) /\
  w_files (fst (cli_run fo (only_global w) ops)) = w_files (fst (cli_run fo w ops)).
Proof. exact load_global_unobservable. Qed.
Print Assumptions C15c_load_global_unobservable.

(* full configs stay full, and then a compile changes no config file at all *)
Theorem C15c_step_configs_full : forall (fo : FloatOps) w op w' r,
  configs_full w -> cli_step fo w op = (w', r) -> configs_full w'.
Proof. exact step_configs_full. Qed.
Print Assumptions C15c_step_configs_full.

Theorem C15c_compile_configs_fixpoint : forall (fo : FloatOps) w file output limit comments w' r,
  configs_full w ->
  cli_step fo w (OpCompile file output limit comments) = (w', r) ->
  w_global w' = w_global w /\ forall d, w_cfg w' d = w_cfg w d.
Proof. exact compile_configs_fixpoint. Qed.
Print Assumptions C15c_compile_configs_fixpoint.

Theorem C15c_new_configs_fixpoint : forall (fo : FloatOps) w dir name w' r,
  configs_full w ->
  cli_step fo w (OpNew dir name) = (w', r) ->
  w_global w' = w_global w /\ forall d, d <> new_project_dir dir name -> w_cfg w' d = w_cfg w d.
Proof. exact new_configs_fixpoint. Qed.
Print Assumptions C15c_new_configs_fixpoint.

(* with NO assumption on the world: the same compile run a second time changes no config file *)
Theorem C15c_compile_twice_configs : forall (fo : FloatOps) w file output limit comments,
  let op := OpCompile file output limit comments in
  let w1 := fst (cli_step fo w op) in
  let w2 := fst (cli_step fo w1 op) in
  w_global w2 = w_global w1 /\ forall d, w_cfg w2 d = w_cfg w1 d.
Proof. exact compile_twice_configs. Qed.
Print Assumptions C15c_compile_twice_configs.

(* ================================================================== witnesses *)
Theorem C15c_example_wf : configs_in_existing_dirs ex_world.
Proof. exact ex_wf. Qed.
Print Assumptions C15c_example_wf.

(* a's partial config {include_comments: true} is rewritten in full and means the same *)
Theorem C15c_example_cfg_a :
  w_cfg ex_final d_a = Some (mkYaml (Some 20%Z) (Some true) (Some true) (Some false) (Some true)) /\
  meaning_cfg (w_cfg ex_final d_a) = meaning_cfg (w_cfg ex_world d_a).
Proof. exact ex_cfg_a. Qed.
Print Assumptions C15c_example_cfg_a.

Theorem C15c_example_cfg_new : meaning_cfg (w_cfg ex_final d_new) = Some default_options.
Proof. exact ex_cfg_new. Qed.
Print Assumptions C15c_example_cfg_new.

Theorem C15c_example_global :
  w_global ex_final = Some (mkYaml (Some 20%Z) (Some false) (Some false) (Some false) (Some true)) /\
  global_meaning (w_global ex_final) = global_meaning (w_global ex_world).
Proof. exact ex_global. Qed.
Print Assumptions C15c_example_global.

(* the counterexample: a config for a directory that does not exist is overwritten by `new` *)
Theorem C15c_counterexample :
  ~ configs_in_existing_dirs ghost_world /\
  let w' := fst (cli_step dfo ghost_world (OpNew d_proj d_ghost_name)) in
  w_cfg ghost_world d_ghost = Some partial_comments /\
  option_map include_comments (meaning_cfg (w_cfg ghost_world d_ghost)) = Some true /\
  option_map include_comments (meaning_cfg (w_cfg w' d_ghost)) = Some false.
Proof. exact ghost_both. Qed.
Print Assumptions C15c_counterexample.
