(* C19 -- the CLI writes its output file all-or-nothing.  Statements only. *)
From Coq Require Import NArith ZArith List Bool.
From DS Require Import Base PyStr Values TabParse Interp Cli MoreProofs.
Import ListNotations.

Theorem output_written_iff_success : forall (fo : FloatOps) fs result output fs' con,
  cli_compile fo fs result output = IOk (fs', con) ->
  (forall q, path_eqb q output = false -> fs' q = fs q) /\
  match result with
  | IOk c => fs' output = Some (join [10%N] (map o_text (out fo c))) /\ con = Reported_success
  | IErr e _ => fs' output = fs output /\ con = Reported_error e
  | _ => False
  end.
Proof. exact output_iff_success. Qed.
Print Assumptions output_written_iff_success.

Theorem new_refuses_existing_project : forall ex fs dir name y,
  ex (dir ++ [name]) = true -> cli_new ex fs dir name y = (fs, false).
Proof. exact new_refuses_existing. Qed.
Print Assumptions new_refuses_existing_project.

Theorem new_project_main_is_hello_world : forall ex fs dir name y fs',
  cli_new ex fs dir name y = (fs', true) -> fs' (dir ++ [name; main_name]) = Some hello_world.
Proof. exact new_creates_hello. Qed.
Print Assumptions new_project_main_is_hello_world.
