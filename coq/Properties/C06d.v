(* C06d -- "BREAKLOOP ends only the innermost enclosing loop and CONTINUELOOP only the current
   iteration of it, also from inside IF blocks nested in the body (ANY depth).  Output produced
   before the break or continue point is kept, in order."   Statements only.

   Signal paths (Spec/SignalPath.v), for a stack with context cx started in state s whose child
   stacks are run by the depth-indexed interpreter (child_of d; the stack itself is what [run d]
   runs):

     raises d cx s cmds sg segs s'      cmds reaches a control line for sg; segs = outputs of the
                                        segments before it, outermost first; s' = final state
       R_ctl     pre ++ Ln c n :: post            pre runs normally, c = one control word for sg
                                                  (BREAKLOOP BREAK_LOOP / CONTINUELOOP CONTINUE_LOOP
                                                  CONTINUE / RETURN RET, any casing)
       R_if      pre ++ chain_items arms ++ post  first true arm's body raises sg (one level deeper)
       R_repeat  pre ++ REPEAT line + body ++ post     (SReturn only) iteration j's body raises SReturn
       R_while   pre ++ WHILE line + body ++ post      (SReturn only)
     if_nest m d cx s cmds sg segs s'   the same with R_ctl / R_if only and explicit depth m:
                                        cmds = pre_0 ++ IF.. / (pre_1 ++ IF.. / (... pre_m ++ CTL));
                                        segs = [out pre_0; ...; out pre_m]

   Hypotheses of the rules: the segments pre_i run successfully with SNormal ([runs]); the truth of
   the IF conditions (as in ChainProofs.chain_first_true: all_false / evals); for the loop rules the
   count / condition and the earlier iterations; and [stack_full cx = false] where a child stack
   is pushed (else the line fails with StackOverflowError -- see stack_not_full).  Nothing about
   the commands after the control point.

     child_ctx cx cur s file   context of the child stack pushed by line cur in state s
     entry_env s               the copied-in environment;   enter s cenv1 = child's start state
     leave s sB                the parent's state after the child ended in sB (copy-back)
     counter_env v k ce        ce with the loop counter bound (what bind_counter returns)        *)
From Coq Require Import String NArith ZArith List Bool.
From DS Require Import Base PyStr Values Expr TabParse Tables Constants Interp.
From DS Require Import ScopeProofs LimitProofs ChainProofs LoopUnroll LoopBlock UnknownWarn PipelineProofs.
From DS Require Import RunProofs FuncProofs PasteTop SignalPath SignalProofs SignalTheorems.
From DS Require Import ChainLoopExamples C07Examples SignalExamples.
Import ListNotations.
Arguments IOk {A}. Arguments IErr {A}. Arguments ICrash {A}. Arguments IUnmod {A}.
Arguments s_g {fo}. Arguments s_env {fo}. Arguments s_line2 {fo}. Arguments mkSt {fo}.

(* ================================================================== generic: Stack.run stops at the first signal *)
Theorem C06d_block_stops_at_signal :
  forall (fo : FloatOps) child cx pre c n tail acc s s1 o1 s2 cr,
  exec_cmds fo child cx pre [] s = (s1, IOk (mkCret o1 SNormal)) ->
  is_blank c = false ->
  exec_line fo child cx c n (block_after tail) (clear_line2 fo s1) = (s2, IOk cr) ->
  cr_sig cr <> SNormal ->
  exec_cmds fo child cx (pre ++ Ln c n :: tail) acc s =
  (s2, IOk (mkCret (acc ++ o1 ++ cr_data cr) (cr_sig cr))).
Proof. exact block_stops_at_signal. Qed.
Print Assumptions C06d_block_stops_at_signal.

(* a control line (any alias, any casing) that is reached *)
Theorem C06d_control_line :
  forall (fo : FloatOps) child cx sg pre c cmd n post acc s s1 o1,
  exec_cmds fo child cx pre [] s = (s1, IOk (mkCret o1 SNormal)) ->
  split_ws1 c = [cmd] -> ctl_word sg cmd -> block_after post = None ->
  exec_cmds fo child cx (pre ++ Ln c n :: post) acc s =
  (mkSt (s_g s1) (s_env s1) (Some (c, n)), IOk (mkCret (acc ++ o1) sg)).
Proof. exact ctl_line_raises. Qed.
Print Assumptions C06d_control_line.

(* ================================================================== soundness of the paths *)
Theorem C06d_signal_path_sound :
  forall (fo : FloatOps) d cx s cmds sg segs s',
  raises fo d cx s cmds sg segs s' ->
  forall acc, exec_cmds fo (child_of fo d) cx cmds acc s = (s', IOk (mkCret (acc ++ concat segs) sg)).
Proof. exact raises_sound. Qed.
Print Assumptions C06d_signal_path_sound.

Theorem C06d_signal_path_run :
  forall (fo : FloatOps) d cx g e cmds sg segs s',
  raises fo d cx (mkSt g e None) cmds sg segs s' ->
  run fo d cx g e cmds = (s_g s', IOk (mkCret (concat segs) sg, s_env s')).
Proof. exact raises_run. Qed.
Print Assumptions C06d_signal_path_run.

Theorem C06d_if_nest_is_path :
  forall (fo : FloatOps) m d cx s cmds sg segs s',
  if_nest fo m d cx s cmds sg segs s' -> raises fo d cx s cmds sg segs s' /\ length segs = S m.
Proof. exact if_nest_is_path. Qed.
Print Assumptions C06d_if_nest_is_path.

(* one more level of an IF nest, written with the upper-case keyword and a condition that is true
   in the state the segment before it left *)
Theorem C06d_if_nest_simple_if :
  forall (fo : FloatOps) m d cx s pre c n body post sg o1 s1 v segs sB,
  runs fo (S d) cx s pre o1 s1 ->
  is_blank c = false -> body <> [] ->
  tokenize fo (all_vars fo (s_env (ensure_flag fo (clear_line2 fo s1)))) (strip c) = Ok v ->
  truthy fo v = true ->
  stack_full cx = false ->
  if_nest fo m d (child_ctx fo cx (s_IF ++ 32%N :: c, n) (arm_state fo s1) (c_file cx))
          (enter fo (arm_state fo s1) (entry_env fo (arm_state fo s1))) body sg segs sB ->
  if_nest fo (S m) (S d) cx s (pre ++ [Ln (s_IF ++ 32%N :: c) n; Blk body] ++ post) sg (o1 :: segs)
          (leave fo (arm_state fo s1) sB).
Proof. exact if_nest_simple_if. Qed.
Print Assumptions C06d_if_nest_simple_if.

(* a path for BREAKLOOP / CONTINUELOOP can only go through IF arms *)
Theorem C06d_loop_signal_path_is_if_nest :
  forall (fo : FloatOps) d cx s cmds sg segs s',
  raises fo d cx s cmds sg segs s' -> sg = SBreak \/ sg = SContinue ->
  exists m, if_nest fo m d cx s cmds sg segs s'.
Proof. exact raises_loop_signal_if_nest. Qed.
Print Assumptions C06d_loop_signal_path_is_if_nest.

(* one iteration / one block: the child stack reaches a control line through an IF nest *)
Theorem C06d_iteration_reaches_control_line :
  forall (fo : FloatOps) d cx cur code file setup s cenv1 sg nest segs sB,
  stack_full cx = false ->
  setup (entry_env fo s) = Ok cenv1 ->
  if_nest fo nest d (child_ctx fo cx cur s file) (enter fo s cenv1) code sg segs sB ->
  run_child fo (run fo d) cx cur code file false setup s = (leave fo s sB, IOk (mkCret (concat segs) sg)).
Proof. exact iteration_reaches_control_line. Qed.
Print Assumptions C06d_iteration_reaches_control_line.

(* ================================================================== (a) BREAKLOOP hits the innermost loop *)
(* the loop line's result is SNormal (execution continues with [rest] in the enclosing block), its
   output is that of iterations 0..j-1 followed by everything iteration j produced before the
   BREAKLOOP line: the outputs of pre_0 .. pre_nest, outermost first *)
Theorem C06d_break_hits_innermost_loop :
  forall (fo : FloatOps) d cx a n body rest acc s var_name count_expr (m j nest : nat)
         (sts : nat -> st fo) (crs : nat -> cret) segs sB,
  is_blank a = false -> body <> [] ->
  split_loop_arg (strip a) = (var_name, count_expr) -> counter_ok var_name ->
  sts 0%nat = clear_line2 fo s ->
  (forall k, (k <= j)%nat ->
     tokenize_count fo cx (s_REPEAT ++ 32%N :: a, n) count_expr (sts k) = (sts k, IOk (Z.of_nat m))) ->
  (j < m)%nat ->
  (forall k, (k < j)%nat ->
     run_child fo (run fo d) cx (s_REPEAT ++ 32%N :: a, n) body (c_file cx) false
       (bind_counter fo var_name (Z.of_nat k)) (sts k) = (sts (S k), IOk (crs k))) ->
  (forall k, (k < j)%nat -> cr_sig (crs k) = SNormal \/ cr_sig (crs k) = SContinue) ->
  stack_full cx = false ->
  if_nest fo nest d (child_ctx fo cx (s_REPEAT ++ 32%N :: a, n) (sts j) (c_file cx))
          (enter fo (sts j) (counter_env fo var_name (Z.of_nat j) (entry_env fo (sts j))))
          body SBreak segs sB ->
  exec_cmds fo (run fo d) cx (Ln (s_REPEAT ++ 32%N :: a) n :: Blk body :: rest) acc s =
  exec_cmds fo (run fo d) cx rest (acc ++ outputs crs j ++ concat segs) (leave fo (sts j) sB)
  /\ length segs = S nest.
Proof. exact break_hits_innermost_loop. Qed.
Print Assumptions C06d_break_hits_innermost_loop.

Theorem C06d_break_hits_innermost_while :
  forall (fo : FloatOps) d cx a n body rest acc s var_name cond (j nest : nat)
         (sts : nat -> st fo) (crs : nat -> cret) cenv1 v segs sB,
  is_blank a = false -> body <> [] ->
  split_loop_arg (strip a) = (var_name, cond) ->
  sts 0%nat = clear_line2 fo s ->
  (Z.of_nat j <= 20000)%Z ->
  (forall k, (k < j)%nat ->
     run_child_with fo (run fo d) cx (s_WHILE ++ 32%N :: a, n) body (c_file cx) false
       (bind_counter fo var_name (Z.of_nat k)) (while_pre fo cond) (sts k) = (sts (S k), IOk (Some (crs k)))) ->
  (forall k, (k < j)%nat -> cr_sig (crs k) = SNormal \/ cr_sig (crs k) = SContinue) ->
  stack_full cx = false ->
  bind_counter fo var_name (Z.of_nat j) (entry_env fo (sts j)) = Ok cenv1 ->
  tokenize fo (all_vars fo cenv1) cond = Ok v -> truthy fo v = true ->
  if_nest fo nest d (child_ctx fo cx (s_WHILE ++ 32%N :: a, n) (sts j) (c_file cx))
          (enter fo (sts j) cenv1) body SBreak segs sB ->
  exec_cmds fo (run fo d) cx (Ln (s_WHILE ++ 32%N :: a) n :: Blk body :: rest) acc s =
  exec_cmds fo (run fo d) cx rest (acc ++ outputs crs j ++ concat segs) (leave fo (sts j) sB)
  /\ length segs = S nest.
Proof. exact break_hits_innermost_while. Qed.
Print Assumptions C06d_break_hits_innermost_while.

(* ... so the enclosing block (pre ++ loop ++ rest), when [rest] runs to its end, ends with SNormal:
   if it is the body of an enclosing loop, that loop keeps iterating *)
Theorem C06d_break_leaves_enclosing_block_normal :
  forall (fo : FloatOps) d cx s0 pre o0 a n body rest acc s var_name count_expr (m j nest : nat)
         (sts : nat -> st fo) (crs : nat -> cret) segs sB s2 o2,
  runs fo (S d) cx s0 pre o0 s ->
  is_blank a = false -> body <> [] ->
  split_loop_arg (strip a) = (var_name, count_expr) -> counter_ok var_name ->
  sts 0%nat = clear_line2 fo s ->
  (forall k, (k <= j)%nat ->
     tokenize_count fo cx (s_REPEAT ++ 32%N :: a, n) count_expr (sts k) = (sts k, IOk (Z.of_nat m))) ->
  (j < m)%nat ->
  (forall k, (k < j)%nat ->
     run_child fo (run fo d) cx (s_REPEAT ++ 32%N :: a, n) body (c_file cx) false
       (bind_counter fo var_name (Z.of_nat k)) (sts k) = (sts (S k), IOk (crs k))) ->
  (forall k, (k < j)%nat -> cr_sig (crs k) = SNormal \/ cr_sig (crs k) = SContinue) ->
  stack_full cx = false ->
  if_nest fo nest d (child_ctx fo cx (s_REPEAT ++ 32%N :: a, n) (sts j) (c_file cx))
          (enter fo (sts j) (counter_env fo var_name (Z.of_nat j) (entry_env fo (sts j))))
          body SBreak segs sB ->
  runs fo (S d) cx (leave fo (sts j) sB) rest o2 s2 ->
  exec_cmds fo (run fo d) cx (pre ++ Ln (s_REPEAT ++ 32%N :: a) n :: Blk body :: rest) acc s0 =
  (s2, IOk (mkCret (acc ++ o0 ++ outputs crs j ++ concat segs ++ o2) SNormal)).
Proof. exact break_leaves_enclosing_block_normal. Qed.
Print Assumptions C06d_break_leaves_enclosing_block_normal.

(* ================================================================== (a') CONTINUELOOP: iteration j + 1 runs next *)
Theorem C06d_continue_hits_innermost_loop :
  forall (fo : FloatOps) d cx a n body rest acc s var_name count_expr (m j nest : nat)
         (sts : nat -> st fo) (crs : nat -> cret) segs sB,
  is_blank a = false -> body <> [] ->
  split_loop_arg (strip a) = (var_name, count_expr) -> counter_ok var_name ->
  sts 0%nat = clear_line2 fo s ->
  (forall k, (k <= m)%nat ->
     tokenize_count fo cx (s_REPEAT ++ 32%N :: a, n) count_expr (sts k) = (sts k, IOk (Z.of_nat m))) ->
  (j < m)%nat ->
  (forall k, (k < m)%nat -> k <> j ->
     run_child fo (run fo d) cx (s_REPEAT ++ 32%N :: a, n) body (c_file cx) false
       (bind_counter fo var_name (Z.of_nat k)) (sts k) = (sts (S k), IOk (crs k))) ->
  (forall k, (k < m)%nat -> k <> j -> cr_sig (crs k) = SNormal \/ cr_sig (crs k) = SContinue) ->
  stack_full cx = false ->
  if_nest fo nest d (child_ctx fo cx (s_REPEAT ++ 32%N :: a, n) (sts j) (c_file cx))
          (enter fo (sts j) (counter_env fo var_name (Z.of_nat j) (entry_env fo (sts j))))
          body SContinue segs sB ->
  sts (S j) = leave fo (sts j) sB ->
  crs j = mkCret (concat segs) SContinue ->
  exec_cmds fo (run fo d) cx (Ln (s_REPEAT ++ 32%N :: a) n :: Blk body :: rest) acc s =
  exec_cmds fo (run fo d) cx rest (acc ++ outputs crs m) (sts m)
  /\ outputs crs m = outputs crs j ++ concat segs ++ outputs (fun k => crs (S j + k)%nat) (m - S j)
  /\ length segs = S nest.
Proof. exact continue_hits_innermost_loop. Qed.
Print Assumptions C06d_continue_hits_innermost_loop.

Theorem C06d_continue_hits_innermost_while :
  forall (fo : FloatOps) d cx a n body rest acc s var_name cond (m j nest : nat)
         (sts : nat -> st fo) (crs : nat -> cret) cenv1 v segs sB s_end,
  is_blank a = false -> body <> [] ->
  split_loop_arg (strip a) = (var_name, cond) ->
  sts 0%nat = clear_line2 fo s ->
  (Z.of_nat m <= 20000)%Z -> (j < m)%nat ->
  (forall k, (k < m)%nat -> k <> j ->
     run_child_with fo (run fo d) cx (s_WHILE ++ 32%N :: a, n) body (c_file cx) false
       (bind_counter fo var_name (Z.of_nat k)) (while_pre fo cond) (sts k) = (sts (S k), IOk (Some (crs k)))) ->
  (forall k, (k < m)%nat -> k <> j -> cr_sig (crs k) = SNormal \/ cr_sig (crs k) = SContinue) ->
  run_child_with fo (run fo d) cx (s_WHILE ++ 32%N :: a, n) body (c_file cx) false
       (bind_counter fo var_name (Z.of_nat m)) (while_pre fo cond) (sts m) = (s_end, IOk None) ->
  stack_full cx = false ->
  bind_counter fo var_name (Z.of_nat j) (entry_env fo (sts j)) = Ok cenv1 ->
  tokenize fo (all_vars fo cenv1) cond = Ok v -> truthy fo v = true ->
  if_nest fo nest d (child_ctx fo cx (s_WHILE ++ 32%N :: a, n) (sts j) (c_file cx))
          (enter fo (sts j) cenv1) body SContinue segs sB ->
  sts (S j) = leave fo (sts j) sB ->
  crs j = mkCret (concat segs) SContinue ->
  exec_cmds fo (run fo d) cx (Ln (s_WHILE ++ 32%N :: a) n :: Blk body :: rest) acc s =
  exec_cmds fo (run fo d) cx rest (acc ++ outputs crs m) s_end
  /\ outputs crs m = outputs crs j ++ concat segs ++ outputs (fun k => crs (S j + k)%nat) (m - S j)
  /\ length segs = S nest.
Proof. exact continue_hits_innermost_while. Qed.
Print Assumptions C06d_continue_hits_innermost_while.

(* ================================================================== the loop lines, for any child runner *)
(* (LoopBlock.repeat_line_break_lemma / _return_lemma with the count expression evaluated only in
   the states that are reached, sts 0 .. sts j) *)
Theorem C06d_repeat_line_stops_at :
  forall (fo : FloatOps) child cx a n body rest acc s var_name count_expr (m j : nat)
    (sts : nat -> st fo) (crs : nat -> cret) sJ crJ,
  is_blank a = false -> body <> [] ->
  split_loop_arg (strip a) = (var_name, count_expr) -> counter_ok var_name ->
  sts 0%nat = clear_line2 fo s ->
  (forall k, (k <= j)%nat ->
     tokenize_count fo cx (s_REPEAT ++ 32%N :: a, n) count_expr (sts k) = (sts k, IOk (Z.of_nat m))) ->
  (j < m)%nat ->
  (forall k, (k < j)%nat ->
     run_child fo child cx (s_REPEAT ++ 32%N :: a, n) body (c_file cx) false
       (bind_counter fo var_name (Z.of_nat k)) (sts k) = (sts (S k), IOk (crs k))) ->
  (forall k, (k < j)%nat -> cr_sig (crs k) = SNormal \/ cr_sig (crs k) = SContinue) ->
  run_child fo child cx (s_REPEAT ++ 32%N :: a, n) body (c_file cx) false
    (bind_counter fo var_name (Z.of_nat j)) (sts j) = (sJ, IOk crJ) ->
  (cr_sig crJ = SBreak \/ cr_sig crJ = SReturn) ->
  exec_cmds fo child cx (Ln (s_REPEAT ++ 32%N :: a) n :: Blk body :: rest) acc s =
  match cr_sig crJ with
  | SReturn => (sJ, IOk (mkCret (acc ++ outputs crs j ++ cr_data crJ) SReturn))
  | _ => exec_cmds fo child cx rest (acc ++ outputs crs j ++ cr_data crJ) sJ
  end.
Proof. exact repeat_line_stops_at. Qed.
Print Assumptions C06d_repeat_line_stops_at.

Theorem C06d_while_line_stops_at :
  forall (fo : FloatOps) child cx a n body rest acc s var_name cond (j : nat)
    (sts : nat -> st fo) (crs : nat -> cret) sJ crJ,
  is_blank a = false -> body <> [] ->
  split_loop_arg (strip a) = (var_name, cond) ->
  sts 0%nat = clear_line2 fo s ->
  (Z.of_nat j <= 20000)%Z ->
  (forall k, (k < j)%nat ->
     run_child_with fo child cx (s_WHILE ++ 32%N :: a, n) body (c_file cx) false
       (bind_counter fo var_name (Z.of_nat k)) (while_pre fo cond) (sts k) = (sts (S k), IOk (Some (crs k)))) ->
  (forall k, (k < j)%nat -> cr_sig (crs k) = SNormal \/ cr_sig (crs k) = SContinue) ->
  run_child_with fo child cx (s_WHILE ++ 32%N :: a, n) body (c_file cx) false
    (bind_counter fo var_name (Z.of_nat j)) (while_pre fo cond) (sts j) = (sJ, IOk (Some crJ)) ->
  (cr_sig crJ = SBreak \/ cr_sig crJ = SReturn) ->
  exec_cmds fo child cx (Ln (s_WHILE ++ 32%N :: a) n :: Blk body :: rest) acc s =
  match cr_sig crJ with
  | SReturn => (sJ, IOk (mkCret (acc ++ outputs crs j ++ cr_data crJ) SReturn))
  | _ => exec_cmds fo child cx rest (acc ++ outputs crs j ++ cr_data crJ) sJ
  end.
Proof. exact while_line_stops_at. Qed.
Print Assumptions C06d_while_line_stops_at.

(* the side condition on the stack limit *)
Theorem C06d_stack_not_full : forall cx,
  (Z.of_nat (length (c_pile cx) + 1) < stack_limit (c_opts cx))%Z -> stack_full cx = false.
Proof. exact stack_not_full. Qed.
Print Assumptions C06d_stack_not_full.

Theorem C06d_child_ctx_pile : forall (fo : FloatOps) cx cur (s : st fo) file,
  length (c_pile (child_ctx fo cx cur s file)) = S (length (c_pile cx)) /\
  c_opts (child_ctx fo cx cur s file) = c_opts cx.
Proof. exact child_ctx_pile. Qed.
Print Assumptions C06d_child_ctx_pile.

(* ================================================================== computed witnesses, depth 3 *)
Open Scope string_scope.

Theorem C06d_break_depth3 :
  sig_run ["REPEAT 2"; T "STRING o"; T "REPEAT i,3"; T2 "STRING a"; T2 "IF TRUE"; T3 "STRING b";
           T3 "IF i==1"; T4 "STRING c"; T4 "if TRUE"; T5 "STRING d"; T5 "Break_Loop"; T5 "STRING never1";
           T4 "STRING never2"; T3 "STRING e"; T2 "STRING f"; T "STRING x"; "STRING end"]
  = inl (lits ["STRING o"; "STRING a"; "STRING b"; "STRING e"; "STRING f";
               "STRING a"; "STRING b"; "STRING c"; "STRING d"; "STRING x";
               "STRING o"; "STRING a"; "STRING b"; "STRING e"; "STRING f";
               "STRING a"; "STRING b"; "STRING c"; "STRING d"; "STRING x";
               "STRING end"], 0).
Proof. exact break_depth3. Qed.
Print Assumptions C06d_break_depth3.

Theorem C06d_break_depth3_while :
  sig_run ["WHILE i,i<5"; T "STRING a"; T "IF i==0"; T2 "STRING zero"; T "ELSE"; T2 "STRING b";
           T2 "IF FALSE"; T3 "STRING no"; T2 "ELIF i==1"; T3 "STRING c"; T3 "IF TRUE"; T4 "BREAKLOOP";
           T3 "STRING never"; T "STRING f"; "STRING end"]
  = inl (lits ["STRING a"; "STRING zero"; "STRING f"; "STRING a"; "STRING b"; "STRING c"; "STRING end"], 0).
Proof. exact break_depth3_while. Qed.
Print Assumptions C06d_break_depth3_while.

Theorem C06d_continue_depth3 :
  sig_run ["REPEAT i,3"; T "STRING a"; T "IF TRUE"; T2 "IF i==1"; T3 "STRING c"; T3 "IF TRUE";
           T4 "continue_loop"; T3 "STRING never"; T "STRING f"; "STRING end"]
  = inl (lits ["STRING a"; "STRING f"; "STRING a"; "STRING c"; "STRING a"; "STRING f"; "STRING end"], 0).
Proof. exact continue_depth3. Qed.
Print Assumptions C06d_continue_depth3.

Theorem C06d_continue_alias_depth3 :
  sig_run ["WHILE i,i<3"; T "STRING a"; T "IF TRUE"; T2 "IF i==1"; T3 "IF TRUE"; T4 "Continue";
           T "STRING f"; "STRING end"]
  = inl (lits ["STRING a"; "STRING f"; "STRING a"; "STRING a"; "STRING f"; "STRING end"], 0).
Proof. exact continue_alias_depth3. Qed.
Print Assumptions C06d_continue_alias_depth3.

(* [stack_full cx = false] cannot be dropped: with stack_limit 3 the third nested block is refused *)
Theorem C06d_stack_limit_matters :
  show (compile_text fo0 (mkOptions 3 false false false false) (fun _ => None) None
          (prog ["REPEAT 2"; T "IF TRUE"; T2 "IF TRUE"; T3 "BREAKLOOP"; "STRING end"]))
  = inr (Some EStackOverflow)
  /\ show (compile_text fo0 (mkOptions 4 false false false false) (fun _ => None) None
          (prog ["REPEAT 2"; T "IF TRUE"; T2 "IF TRUE"; T3 "BREAKLOOP"; "STRING end"]))
  = inl (lits ["STRING end"], 0).
Proof. exact stack_limit_matters. Qed.
Print Assumptions C06d_stack_limit_matters.

Theorem C06d_control_line_with_block_is_rejected :
  sig_run ["REPEAT 2"; T "BREAKLOOP"; T2 "x"; "STRING end"] = inr (Some EInvalidArguments).
Proof. exact control_line_with_block_is_rejected. Qed.
Print Assumptions C06d_control_line_with_block_is_rejected.
