(* C15 -- project config merge.  Statements only. *)
From Coq Require Import ZArith List Bool.
From DS Require Import Base Options Constants SmallProofs.

Theorem project_merge : forall g proj,
  calculate_options g proj =
  match proj with
  | Some y => if use_project_config g && use_project_config (options_of_yaml y) then options_of_yaml y else g
  | None => g
  end.
Proof. exact project_merge_spec. Qed.
Print Assumptions project_merge.

Theorem project_replaces_exactly_when_both_allow : forall g y,
  options_of_yaml y <> g ->
  (calculate_options g (Some y) = options_of_yaml y <-> use_project_config g = true /\ use_project_config (options_of_yaml y) = true).
Proof. exact project_replaces_iff. Qed.
Print Assumptions project_replaces_exactly_when_both_allow.

Theorem rewritten_config_keeps_meaning : forall g y p, rewritten_config g (Some y) = Some p -> p = options_of_yaml y.
Proof. exact rewritten_config_same_meaning. Qed.
Print Assumptions rewritten_config_keeps_meaning.
