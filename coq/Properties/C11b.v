(* C11 -- "writing arguments as an indented group, as separate one-argument lines, or as a first
   argument plus a group gives the same result".  Statements only. *)
From Coq Require Import NArith ZArith List Bool.
From DS Require Import Base PyStr Values Expr TabParse Interp Tables Constants.
From DS Require Import PipelineProofs IgnoreProofs GroupProofs.
Import ListNotations.
Arguments IOk {A}. Arguments IErr {A}.
Arguments s_g {fo}. Arguments s_env {fo}. Arguments s_line2 {fo}. Arguments mkSt {fo}.

(* plain classes (no tokenization, no validator, no formatter, default run_compile: STRING,
   STRINGLN, the unknown-command fall-back): the three spellings of the arguments a1 .. an
   (non-empty texts) produce the same data, one line  WORD <argument>  per argument, in order.
   [s], [s'], [s''] are arbitrary: the pipeline of these classes does not read the state. *)
Theorem plain_group_expand : forall (fo : FloatOps) child cx sc cname tg cmd cur num (a1 : str) n1 (rest : list preline)
    s s' (s'' : preline -> st fo),
  plain_class sc -> no_dollar cmd -> s_arg_req sc <> NotAllowed ->
  a1 <> [] -> Forall (fun a => a <> []) (map fst rest) ->
  let texts := a1 :: map fst rest in
  (* first argument on the line + group of the others *)
  data_of (simple_compile fo child cx cur cname tg sc cmd num (Some a1) (Some (plain_block rest)) s)
    = Some (plain_data sc tg cmd texts) /\
  (* all the arguments as a group *)
  data_of (simple_compile fo child cx cur cname tg sc cmd num None (Some (plain_block ((a1, n1) :: rest))) s')
    = Some (plain_data sc tg cmd texts) /\
  (* n separate one-argument lines, and their concatenation *)
  Forall2 (fun (an : preline) d =>
             data_of (simple_compile fo child cx an cname tg sc cmd (snd an) (Some (fst an)) None (s'' an)) = Some d)
          ((a1, n1) :: rest) (map (fun a => [mkO tg (upper cmd ++ [32%N] ++ norm sc a)]) texts) /\
  concat (map (fun a => [mkO tg (upper cmd ++ [32%N] ++ norm sc a)]) texts) = plain_data sc tg cmd texts.
Proof. exact GroupProofs.plain_group_expand. Qed.
Print Assumptions plain_group_expand.

(* classes with a validator and a formatter but no state effect (ALT, CTRL, GUI, SHIFT, ...): when
   every argument is accepted the same holds, with the formatted contents *)
Theorem group_expand : forall (fo : FloatOps) child cx sc cname tg cmd,
  stateless_class sc -> no_dollar cmd -> s_arg_req sc <> NotAllowed ->
  forall (fm : str -> acontent) cur num (a1 : str) n1 (rest : list preline) s s' (s'' : preline -> st fo),
  a1 <> [] -> Forall (fun a => a <> []) (map fst rest) ->
  Forall (accepted sc fm) (a1 :: map fst rest) ->
  let texts := a1 :: map fst rest in
  data_of (simple_compile fo child cx cur cname tg sc cmd num (Some a1) (Some (plain_block rest)) s)
    = Some (expected_data sc tg cmd fm texts) /\
  data_of (simple_compile fo child cx cur cname tg sc cmd num None (Some (plain_block ((a1, n1) :: rest))) s')
    = Some (expected_data sc tg cmd fm texts) /\
  Forall2 (fun (an : preline) d =>
             data_of (simple_compile fo child cx an cname tg sc cmd (snd an) (Some (fst an)) None (s'' an)) = Some d)
          ((a1, n1) :: rest) (map (fun a => [out_line tg cmd (fm (norm sc a))]) texts) /\
  concat (map (fun a => [out_line tg cmd (fm (norm sc a))]) texts) = expected_data sc tg cmd fm texts.
Proof. exact GroupProofs.group_expand. Qed.
Print Assumptions group_expand.

(* some argument rejected (those before it pass): every spelling is a compile error -- the two
   group spellings as a whole (nothing emitted), the separate-lines spelling at the line of the
   rejected argument (the lines before it have been emitted by then) *)
Theorem group_expand_rejected : forall (fo : FloatOps) child cx sc cname tg cmd,
  stateless_class sc -> no_dollar cmd -> s_arg_req sc <> NotAllowed ->
  forall cur num (a1 : str) n1 (pre : list preline) (bad : preline) (post : list preline) s s' s'',
  let all := (a1, n1) :: pre ++ bad :: post in
  a1 <> [] -> passes sc a1 -> Forall (passes sc) (map fst pre) -> rejected sc (fst bad) -> fst bad <> [] ->
  failed (simple_compile fo child cx cur cname tg sc cmd num (Some a1) (Some (plain_block (pre ++ bad :: post))) s) /\
  failed (simple_compile fo child cx cur cname tg sc cmd num None (Some (plain_block all)) s') /\
  failed (simple_compile fo child cx bad cname tg sc cmd (snd bad) (Some (fst bad)) None s'').
Proof. exact GroupProofs.group_expand_rejected. Qed.
Print Assumptions group_expand_rejected.

Theorem first_plus_group_rejected_first : forall (fo : FloatOps) child cx sc cname tg cmd,
  stateless_class sc -> no_dollar cmd -> s_arg_req sc <> NotAllowed ->
  forall cur num (a1 : str) (rest : list preline) s,
  a1 <> [] -> rejected sc a1 ->
  exists s' t, simple_compile fo child cx cur cname tg sc cmd num (Some a1) (Some (plain_block rest)) s
               = (s', IErr EInvalidArguments t).
Proof. exact GroupProofs.first_plus_group_rejected_first. Qed.
Print Assumptions first_plus_group_rejected_first.

(* the words of the generated palette this applies to, and their dispatch whatever follows the line *)
Theorem group_words_pinned : group_words =
  [ [65;76;84]; [67;84;82;76]; [67;79;78;84;82;79;76]; [71;85;73]; [87;73;78;68;79;87;83]; [77;69;84;65];
    [83;72;73;70;84]; [83;84;82;73;78;71]; [83;84;82;73;78;71;76;78] ]%N.
Proof. exact GroupProofs.group_words_pinned. Qed.
Print Assumptions group_words_pinned.

Theorem group_word_dispatch : forall k cmd cb, In k group_words -> upper cmd = k -> starts_dollar cmd = false ->
  exists cname sc, find_command palette cmd cb = Some (cname, Simple sc) /\
                   stateless_class sc /\ s_arg_req sc <> NotAllowed.
Proof. exact GroupProofs.find_group_class. Qed.
Print Assumptions group_word_dispatch.

Theorem exec_line_simple : forall (fo : FloatOps) child cx c n cb cmd more cname sc s,
  split_ws1 c = cmd :: more -> find_command palette cmd cb = Some (cname, Simple sc) ->
  s_run sc <> RKStart ->
  exec_line fo child cx c n cb s =
  simple_compile fo child cx (c, n) cname (ByCommand cname) sc cmd n
                 (match more with a :: _ => Some a | [] => None end) cb s.
Proof. exact GroupProofs.exec_line_simple. Qed.
Print Assumptions exec_line_simple.

(* the unknown-command fall-back is a plain class that takes arguments *)
Theorem unknown_fallback_plain : plain_class generic_simple /\ s_arg_req generic_simple <> NotAllowed.
Proof. exact GroupProofs.unknown_fallback_plain. Qed.
Print Assumptions unknown_fallback_plain.
