(* C09d -- "every failure is a compile error of the documented family, with a location trace" --
   for the UNIFIED language (core + functions + PRINT / REM / unknown + START family), against
   the two judgements of Spec/CoreAll.v (success) and Spec/CoreAllErr.v (failure).
   Statements only; proofs in Proofs/CoreAllDet.v (determinism, disjointness: specifications
   alone), Proofs/CoreAllTotal.v (totality: specifications alone), Proofs/CoreAllErrFacts.v (the
   family), Proofs/CoreAllConverse.v (with the two refinement theorems C12d and C10e).

   1. DETERMINISM: the success judgement is a partial function of its inputs (no hypothesis).
   2. DISJOINTNESS of success and failure, and determinism of the failure judgement.
      WITHOUT HYPOTHESES DISJOINTNESS IS FALSE: rule E_Var of the success judgement does not look
      at the variable name, so `VAR 9z 5` has both E_Var and F_VarName
      (C09d_overlap_without_names).  As in C10d the success judgement is the meaning of programs
      whose VAR names are identifiers:
        prog_names_ok prog   every file;      tab_names_ok F   every function body of the table F
      (both follow from well-formedness: prog_ok gives prog_names_ok).
   3. TOTALITY on the specifications: for every room d, every statement list whose names are
      identifiers and whose expressions are TAME (the evaluator answers Ok or Err -- not Unmodelled
      -- on them, `$`-arguments print), from every pile, file, line, function table (with good
      bodies), flag and store, EITHER [exec_list d ...] OR [fails_list d ...] is derivable.
      Termination: the room decreases at every block / call / import (so unbounded recursion ends
      in StackOverflow), loops are bounded by 20000.
        good_list fo p = unames_ok_list p /\ every (utame fo) p;  good_tab: every entry of the
        table (NOT only the visible ones: an imported table re-inserts shadowed entries; the
        lookup form of the invariant is false, Proofs/CoreAllTotal.v uall_total_lookup_form_false).
   4. With the refinement theorems: on a tame, well-formed program (prog_ok, prog_closed, stack
      limit >= 1) Compiler.compile returns EXACTLY the success of a derivation or the located
      error of a derivation -- never ICrash, never IUnmod, never an error without trace -- and
      CONVERSELY: IOk c implies a success derivation with that output, state, prints and warnings;
      IErr e t implies a failure derivation of class e whose chain is the trace t, and e is in the
      family [uall_class]. *)
From Coq Require Import String NArith ZArith List Bool.
From DS Require Import Base PyStr Values Expr TabParse Tables Constants Interp ScopeProofs ImportGraph.
From DS Require Import CoreLang CoreFunc CoreErr CoreAll CoreAllLines CoreAllBase CoreAllRefine CoreAllTop CoreAllExample.
From DS Require Import CoreAllErr CoreAllErrLines CoreAllErrRefine CoreAllErrFacts CoreAllErrExample.
From DS Require Import CoreAllDet CoreAllTotal CoreAllConverse CoreAllConverseExample.
Import ListNotations.

Arguments IOk {A}. Arguments IErr {A}. Arguments ICrash {A}. Arguments IUnmod {A}.
Arguments e_sys : clear implicits. Arguments e_user : clear implicits. Arguments e_temp : clear implicits.
Arguments e_funcs : clear implicits. Arguments mkEnv : clear implicits.

(* ================================================================== 1. determinism of success *)
Theorem C09d_exec_list_deterministic :
  forall fo sys prog inc sup d pile cf n F f vs p sg1 F1 f1 vs1 o1 e1 sg2 F2 f2 vs2 o2 e2,
  exec_list fo sys prog inc sup d pile cf n F f vs p sg1 F1 f1 vs1 o1 e1 ->
  exec_list fo sys prog inc sup d pile cf n F f vs p sg2 F2 f2 vs2 o2 e2 ->
  sg1 = sg2 /\ F1 = F2 /\ f1 = f2 /\ vs1 = vs2 /\ o1 = o2 /\ e1 = e2.
Proof. exact exec_list_det. Qed.
Print Assumptions C09d_exec_list_deterministic.

Theorem C09d_exec_deterministic :
  forall fo sys prog inc sup d pile cf n F f vs s sg1 F1 f1 vs1 o1 e1 sg2 F2 f2 vs2 o2 e2,
  exec fo sys prog inc sup d pile cf n F f vs s sg1 F1 f1 vs1 o1 e1 ->
  exec fo sys prog inc sup d pile cf n F f vs s sg2 F2 f2 vs2 o2 e2 ->
  sg1 = sg2 /\ F1 = F2 /\ f1 = f2 /\ vs1 = vs2 /\ o1 = o2 /\ e1 = e2.
Proof. exact exec_det. Qed.
Print Assumptions C09d_exec_deterministic.

(* ================================================================== 2. disjointness; determinism of failure *)
Theorem C09d_overlap_without_names : forall fo sys prog inc sup d pile cf n F f vs x e v,
  IdentSpec.identb x = false -> eval fo sys f vs e v ->
  exec fo sys prog inc sup d pile cf n F f vs (UVar x e) Normal F f (set_var fo x v vs) [] [] /\
  fails fo sys prog inc sup d pile cf n F f vs (UVar x e) EUnacceptableVarName
        [mkSF cf (kw_VAR ++ sp :: x ++ sp :: e) n true] [].
Proof. exact exec_fails_overlap_without_names. Qed.
Print Assumptions C09d_overlap_without_names.

Theorem C09d_success_and_failure_disjoint : forall fo sys prog inc sup, prog_names_ok prog ->
  forall d pile cf n F f vs p sg F' f' vs' out ev er ch ev',
  tab_names_ok F -> unames_ok_list p ->
  exec_list fo sys prog inc sup d pile cf n F f vs p sg F' f' vs' out ev ->
  fails_list fo sys prog inc sup d pile cf n F f vs p er ch ev' -> False.
Proof. exact exec_list_fails_disjoint. Qed.
Print Assumptions C09d_success_and_failure_disjoint.

Theorem C09d_fails_list_deterministic : forall fo sys prog inc sup, prog_names_ok prog ->
  forall d pile cf n F f vs p er1 ch1 ev1 er2 ch2 ev2,
  tab_names_ok F -> unames_ok_list p ->
  fails_list fo sys prog inc sup d pile cf n F f vs p er1 ch1 ev1 ->
  fails_list fo sys prog inc sup d pile cf n F f vs p er2 ch2 ev2 ->
  er1 = er2 /\ ch1 = ch2 /\ ev1 = ev2.
Proof. exact fails_list_det. Qed.
Print Assumptions C09d_fails_list_deterministic.

(* ================================================================== 3. totality, on the specifications alone *)
Theorem C09d_total : forall fo sys prog inc sup, good_prog fo prog ->
  forall d p, good_list fo p -> forall pile cf n F f vs, good_tab fo F ->
  (exists sg F' f' vs' out ev,
     exec_list fo sys prog inc sup d pile cf n F f vs p sg F' f' vs' out ev /\ good_tab fo F') \/
  (exists er ch ev, fails_list fo sys prog inc sup d pile cf n F f vs p er ch ev).
Proof. exact uall_total. Qed.
Print Assumptions C09d_total.

Theorem C09d_total_prog : forall fo prog inc sup entry d stmts,
  good_prog fo prog -> lookup entry prog = Some stmts ->
  (exists sg F' f' vs' out ev, uruns fo prog inc sup entry d sg F' f' vs' out ev) \/
  (exists er ch ev, ufails fo prog inc sup entry d er ch ev).
Proof. exact uprogram_total. Qed.
Print Assumptions C09d_total_prog.

Theorem C09d_tame_means_modelled : forall fo e,
  (forall vars, tokenize fo vars e <> Unmodelled) -> utame_expr fo e.
Proof. exact utame_expr_of_modelled. Qed.
Print Assumptions C09d_tame_means_modelled.

(* the family of classes; there is always a line to blame *)
Theorem C09d_classes : forall fo sys prog inc sup d pile cf n F f vs p er ch ev,
  fails_list fo sys prog inc sup d pile cf n F f vs p er ch ev -> uall_class fo er /\ ch <> [].
Proof. exact ufails_list_class. Qed.
Print Assumptions C09d_classes.

Theorem C09d_family_meaning : forall fo er,
  uall_class fo er <->
  (er = EUnacceptableVarName \/ er = EInvalidArguments \/ er = EExceededLimit \/
   er = EVarNonExistent \/ er = EStackReturnType \/ er = ECircular \/ er = EStackOverflow \/
   exists vars e, tokenize fo vars e = Err er).
Proof. exact uall_class_meaning. Qed.
Print Assumptions C09d_family_meaning.

(* ================================================================== 4. ... and for the interpreter *)
(* tame_prog fo prog: every expression of every file is tame.  The answer of Compiler.compile
   reads ([observes]) as the result r that the judgements define ([spec_result_is]) *)
Theorem C09d_compile_total : forall fo dir prog fs, prog_ok dir prog fs -> prog_closed dir prog fs ->
  forall o entry stmts,
  tame_prog fo prog -> (1 <= stack_limit o)%Z -> lookup entry prog = Some stmts ->
  exists r, spec_result_is fo prog o entry r /\
    observes fo dir (compile_items fo o fs (Some (file_of dir entry)) (uitems_of stmts)) r.
Proof. exact compile_total. Qed.
Print Assumptions C09d_compile_total.

Theorem C09d_compile_ok_has_derivation : forall fo dir prog fs, prog_ok dir prog fs -> prog_closed dir prog fs ->
  forall o entry stmts g c,
  tame_prog fo prog -> (1 <= stack_limit o)%Z -> lookup entry prog = Some stmts ->
  compile_items fo o fs (Some (file_of dir entry)) (uitems_of stmts) = (g, IOk c) ->
  exists sg F' f' vs' outl ev Fi,
    uruns fo prog (include_comments o) (supress_command_not_exist o) entry (room_of_limit (stack_limit o)) sg F' f' vs' outl ev /\
    map o_text (Interp.out fo c) = map line_text outl /\ utab_rel dir F' Fi /\
    final_env fo c = mkEnv fo (initial_sys fo) vs' (flag_var fo f') Fi /\
    prints fo c = map (CoreAllBase.conc_print dir) (prints_of ev) /\
    warnings fo c = map (CoreAllBase.conc_warning dir) (warnings_of ev) /\
    g = CoreAllBase.apply_evs dir ev (mkGlob [] []).
Proof. exact compile_ok_has_derivation. Qed.
Print Assumptions C09d_compile_ok_has_derivation.

Theorem C09d_compile_err_has_derivation : forall fo dir prog fs, prog_ok dir prog fs -> prog_closed dir prog fs ->
  forall o entry stmts g er t,
  tame_prog fo prog -> (1 <= stack_limit o)%Z -> lookup entry prog = Some stmts ->
  compile_items fo o fs (Some (file_of dir entry)) (uitems_of stmts) = (g, IErr er t) ->
  exists ch ev,
    ufails fo prog (include_comments o) (supress_command_not_exist o) entry (room_of_limit (stack_limit o)) er ch ev /\
    t = Some (map (CoreAllBase.conc_frame dir) ch) /\ ch <> [] /\
    g = CoreAllBase.apply_evs dir ev (mkGlob [] []) /\
    uall_class fo er.
Proof. exact compile_err_has_derivation. Qed.
Print Assumptions C09d_compile_err_has_derivation.

Theorem C09d_compile_never_crashes : forall fo dir prog fs, prog_ok dir prog fs -> prog_closed dir prog fs ->
  forall o entry stmts,
  tame_prog fo prog -> (1 <= stack_limit o)%Z -> lookup entry prog = Some stmts ->
  (forall k, snd (compile_items fo o fs (Some (file_of dir entry)) (uitems_of stmts)) <> ICrash k) /\
  snd (compile_items fo o fs (Some (file_of dir entry)) (uitems_of stmts)) <> IUnmod /\
  (forall er, snd (compile_items fo o fs (Some (file_of dir entry)) (uitems_of stmts)) <> IErr er None).
Proof. exact compile_never_crashes. Qed.
Print Assumptions C09d_compile_never_crashes.

(* the hypotheses are satisfiable: the circular-import and the recursive program of C10e are tame *)
Theorem C09d_tame_examples : forall fo,
  tame_prog fo b_prog /\ prog_ok ex_dir b_prog b_fs /\ tame_prog fo r_prog /\ prog_ok ex_dir r_prog r_fs.
Proof. exact tame_examples. Qed.
Print Assumptions C09d_tame_examples.
