(* C10 (RUN frames) -- "the outer entries list the lines of the blocks, RUN calls and START imports
   that led there": closes the gap of C10b, where the stack started by a RUN line was unconstrained.
   Statements only; proofs in Proofs/FuncLift.v (the invariant lifted through the interpreter) and
   Proofs/TraceRun.v.  Vocabulary (TraceRun.v), for a compilation of [prog] as file [file0] over [fs]:
     source fs file0 prog f cmds   [cmds] is something a stack of file [f] can run: the main program,
                                   the block following a line of a source, or the parsed text of a
                                   file that a START line of a source resolves to;
     func_src fs file0 prog fn     fn_code fn = the block following a FUNC line of a source,
                                   fn_file fn = the file of that source;
     funcs_from_program ... e      every function record of e_funcs e satisfies func_src;
     child_call_s / line_call_s / stack_chain_s   TraceShape's child_call / line_call / stack_chain
                                   with the RUN constructor constrained (and START's made precise). *)
From Coq Require Import NArith ZArith List Bool.
From DS Require Import Base PyStr Values TabParse Tables Interp StackLift TraceShape FuncLift TraceRun.
Import ListNotations.

(* the invariant holds initially and is kept by the whole interpreter, at every depth *)
Theorem funcs_from_program_initially : forall fs file0 prog fo,
  funcs_from_program fs file0 prog fo (initial_env fo).
Proof. exact funcs_from_program_initial. Qed.
Print Assumptions funcs_from_program_initially.

Theorem funcs_from_program_preserved : forall fs file0 prog fo d cx g e cmds g' cr e',
  c_fs cx = fs /\ source fs file0 prog (c_file cx) cmds ->
  funcs_from_program fs file0 prog fo e ->
  run fo d cx g e cmds = (g', IOk _ (cr, e')) -> funcs_from_program fs file0 prog fo e'.
Proof. exact run_keeps_provenance. Qed.
Print Assumptions funcs_from_program_preserved.

(* ... by one stack, for ANY runner of the stacks above that keeps it *)
Theorem funcs_from_program_preserved_by_a_stack : forall fs file0 prog fo child,
  prov_runner fs file0 prog fo child -> prov_runner fs file0 prog fo (run_with fo child).
Proof. exact run_with_prov_runner. Qed.
Print Assumptions funcs_from_program_preserved_by_a_stack.

Theorem compile_items_funcs_from_program : forall fo o fs file cmds g c,
  compile_items fo o fs file cmds = (g, IOk _ c) -> funcs_from_program fs file cmds fo (final_env fo c).
Proof. exact compile_items_funcs. Qed.
Print Assumptions compile_items_funcs_from_program.

(* all sources have a file, or none has (START needs a file): so "the caller's file when the
   definition carries none" never differs from the defining file *)
Theorem sources_uniform : forall fs file0 prog f1 c1 f2 c2,
  source fs file0 prog f1 c1 -> source fs file0 prog f2 c2 -> f1 = None -> f2 = None.
Proof. exact source_uniform. Qed.
Print Assumptions sources_uniform.

(* the strengthened call relation implies the old one *)
Theorem child_call_s_implies_child_call : forall fs file0 prog cx c cb file code,
  child_call_s fs file0 prog cx c cb file code -> child_call cx c cb file code.
Proof. exact child_call_s_weaken. Qed.
Print Assumptions child_call_s_implies_child_call.

(* RUN: the code run is the block following a FUNC line of a source and the new stack's file is the
   file of that source -- "resolves relative to the defining file" *)
Theorem run_starts_a_func_body_in_its_defining_file : forall fs file0 prog cx c cb file code,
  child_call_s fs file0 prog cx c cb file code -> run_line c cb ->
  exists dcmds dc dn dcb,
    source fs file0 prog file dcmds /\ In ((dc, dn), dcb) (line_blocks dcmds) /\ func_line dc dcb /\
    code = block_of dcb.
Proof. exact child_call_s_run_inv. Qed.
Print Assumptions run_starts_a_func_body_in_its_defining_file.

(* START: the imported file is the argument resolved relative to the importing stack's file *)
Theorem start_resolves_relative_to_the_importer : forall fs file0 prog cx c cb file code,
  child_call_s fs file0 prog cx c cb file code -> start_line c cb ->
  exists importer rel target text,
    c_file cx = Some importer /\ resolve_start importer rel = Ok target /\ file = Some target /\
    c_fs cx target = Some text /\ prepare_text text = TOk code.
Proof. exact child_call_s_start_inv. Qed.
Print Assumptions start_resolves_relative_to_the_importer.

(* where an error of a stack comes from, with the strong call relation (C10b.error_origin, per stack) *)
Theorem error_origin_s : forall fs file0 prog fo child cx g e cmds g' err t,
  prov_runner fs file0 prog fo child ->
  c_fs cx = fs /\ source fs file0 prog (c_file cx) cmds ->
  funcs_from_program fs file0 prog fo e ->
  run_with fo child cx g e cmds = (g', IErr _ err t) ->
  exists cur, In cur (top_lines cmds) /\
    (t = None \/
     (exists l2, t = Some (c_pile cx ++ [mkFrame (c_file cx) cur l2])) \/
     (exists l2 file g1 e1 code g1' err',
        line_call_s fs file0 prog cx cmds cur file code /\ funcs_from_program fs file0 prog fo e1 /\
        child (mkCtx (c_opts cx) (c_fs cx) (c_pile cx ++ [mkFrame (c_file cx) cur l2]) file) g1 e1 code
        = (g1', IErr _ err' t))).
Proof. exact run_with_error_origin_s. Qed.
Print Assumptions error_origin_s.

(* the chain of entries beyond the pile, with the strong call relation (C10b.run_trace_chain) *)
Theorem run_trace_chain_s : forall fs file0 prog fo d cx g e cmds g' err fr,
  c_fs cx = fs /\ source fs file0 prog (c_file cx) cmds ->
  funcs_from_program fs file0 prog fo e ->
  run fo d cx g e cmds = (g', IErr _ err (Some fr)) ->
  exists suffix, fr = c_pile cx ++ suffix /\ stack_chain_s fs file0 prog cx cmds suffix /\ (length suffix <= S d)%nat.
Proof. exact TraceRun.run_trace_chain_s. Qed.
Print Assumptions run_trace_chain_s.

Theorem stack_chain_s_implies_stack_chain : forall fs file0 prog cx cmds suffix,
  stack_chain_s fs file0 prog cx cmds suffix -> stack_chain cx cmds suffix.
Proof. exact stack_chain_s_weaken. Qed.
Print Assumptions stack_chain_s_implies_stack_chain.

(* [stack_chain_step] restated with the stronger RUN case (C10b.trace_step) *)
Theorem trace_step_s : forall fs file0 prog cx cmds fr1 fr2 rest,
  stack_chain_s fs file0 prog cx cmds (fr1 :: fr2 :: rest) ->
  exists cb file code,
    fr_file fr1 = c_file cx /\ In (fr_line fr1, cb) (line_blocks cmds) /\
    child_call_s fs file0 prog cx (fst (fr_line fr1)) cb file code /\
    fr_file fr2 = file /\ In (fr_line fr2) (top_lines code) /\
    stack_chain_s fs file0 prog (mkCtx (c_opts cx) (c_fs cx) (c_pile cx ++ [fr1]) file) code (fr2 :: rest).
Proof. exact stack_chain_s_step. Qed.
Print Assumptions trace_step_s.

(* ... and by cases on the kind of line of the first entry *)
Theorem trace_step_cases : forall fs file0 prog cx cmds fr1 fr2 rest,
  stack_chain_s fs file0 prog cx cmds (fr1 :: fr2 :: rest) ->
  exists cb,
    fr_file fr1 = c_file cx /\ In (fr_line fr1, cb) (line_blocks cmds) /\
    ((exists cmd more cname bc, split_ws1 (fst (fr_line fr1)) = cmd :: more /\
                                find_command palette cmd cb = Some (cname, Block bc)) ->
       fr_file fr2 = fr_file fr1 /\ In (fr_line fr2) (top_lines (block_of cb))) /\
    (run_line (fst (fr_line fr1)) cb ->
       exists dcmds dc dn dcb,
         source fs file0 prog (fr_file fr2) dcmds /\ In ((dc, dn), dcb) (line_blocks dcmds) /\ func_line dc dcb /\
         In (fr_line fr2) (top_lines (block_of dcb))) /\
    (start_line (fst (fr_line fr1)) cb ->
       exists importer rel target text code,
         fr_file fr1 = Some importer /\ resolve_start importer rel = Ok target /\ fr_file fr2 = Some target /\
         c_fs cx target = Some text /\ prepare_text text = TOk code /\ In (fr_line fr2) (top_lines code)).
Proof. exact stack_chain_s_step_cases. Qed.
Print Assumptions trace_step_cases.

(* Compiler.compile: the whole trace of an error is such a chain, starting in the main program *)
Theorem compile_items_trace_s : forall fo o fs file cmds g err fr,
  compile_items fo o fs file cmds = (g, IErr _ err (Some fr)) ->
  stack_chain_s fs file cmds (mkCtx o fs [] file) cmds fr /\ (length fr <= S (run_depth o))%nat.
Proof. exact TraceRun.compile_items_trace_s. Qed.
Print Assumptions compile_items_trace_s.
