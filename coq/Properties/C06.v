(* C06 -- BREAK / CONTINUE never leave a loop; output before the break point is kept, in order.
   Statements only; proofs live in Proofs/. *)
From Coq Require Import NArith ZArith List Bool.
From DS Require Import Base PyStr Values Expr TabParse Tables Constants Interp ScopeProofs.
Import ListNotations.

Theorem C06_loop_signal_absorbs : forall sg,
  fst (loop_signal sg) = SNormal \/ fst (loop_signal sg) = SReturn.
Proof. exact loop_signal_absorbs. Qed.
Print Assumptions C06_loop_signal_absorbs.

Theorem C06_loop_signal_return : forall sg, fst (loop_signal sg) = SReturn <-> sg = SReturn.
Proof. exact loop_signal_return. Qed.
Print Assumptions C06_loop_signal_return.

Theorem C06_repeat_loop_absorbs :
  forall fo child cx cur fuel v a code count acc s s' cr,
  (cr_sig acc = SNormal \/ cr_sig acc = SReturn) ->
  repeat_loop fo child cx cur fuel v a code count acc s = (s', IOk _ cr) ->
  cr_sig cr = SNormal \/ cr_sig cr = SReturn.
Proof. exact repeat_loop_absorbs. Qed.
Print Assumptions C06_repeat_loop_absorbs.

Theorem C06_while_loop_absorbs :
  forall fo child cx cur fuel v a code count acc s s' cr,
  (cr_sig acc = SNormal \/ cr_sig acc = SReturn) ->
  while_loop fo child cx cur fuel v a code count acc s = (s', IOk _ cr) ->
  cr_sig cr = SNormal \/ cr_sig cr = SReturn.
Proof. exact while_loop_absorbs. Qed.
Print Assumptions C06_while_loop_absorbs.

Theorem C06_repeat_loop_output_prefix :
  forall fo child cx cur fuel v a code count acc s s' cr,
  repeat_loop fo child cx cur fuel v a code count acc s = (s', IOk _ cr) ->
  exists suffix, cr_data cr = cr_data acc ++ suffix.
Proof. exact repeat_loop_output_prefix. Qed.
Print Assumptions C06_repeat_loop_output_prefix.

Theorem C06_while_loop_output_prefix :
  forall fo child cx cur fuel v a code count acc s s' cr,
  while_loop fo child cx cur fuel v a code count acc s = (s', IOk _ cr) ->
  exists suffix, cr_data cr = cr_data acc ++ suffix.
Proof. exact while_loop_output_prefix. Qed.
Print Assumptions C06_while_loop_output_prefix.

(* at the level of the REPEAT / WHILE block command *)
Theorem C06_block_compile_loop_absorbs :
  forall fo child cx cur bc cname cmd num argument code_block s s' cr,
  b_kind bc = BKRepeat \/ b_kind bc = BKWhile ->
  block_compile fo child cx cur bc cname cmd num argument code_block s = (s', IOk _ (RComp cr)) ->
  cr_sig cr = SNormal \/ cr_sig cr = SReturn.
Proof. exact block_compile_loop_absorbs. Qed.
Print Assumptions C06_block_compile_loop_absorbs.
