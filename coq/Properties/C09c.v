(* C09c -- "every failure is a compile error of the documented family" -- for the CORE FRAGMENT,
   against the error judgement of Spec/CoreErr.v.
   Statements only; proofs in Proofs/CoreErrFacts.v (on the specification alone) and
   Proofs/CoreErrRefine.v (the interpreter).

   1. On the specification: whenever [fails] is derivable the class is one of
        UnacceptableVarName (VAR x e with x not an identifier),
        InvalidArguments    (REPEAT count not a number / not integral / outside 0..20000),
        ExceededLimit       (WHILE beyond 20001 evaluations of its condition),
        or a class that the expression evaluator [tokenize] reports for some expression;
      and the chain is not empty (there is always a line to blame).
   2. On the interpreter (C10d): a program with a [fails] derivation makes Compiler.compile return
      IErr of that class WITH a trace (Some _) -- never a crash (ICrash), never "unmodelled"
      (IUnmod), never an error without location.

   3. TOTALITY (C09c_core_total): the two judgements are EXHAUSTIVE.  For every program whose VAR
      names are identifiers (names_ok_list; implied by wf_list) and whose expressions are TAME,
      from every IF flag, store and first line, EITHER the success judgement of Spec/CoreLang.v OR
      the failure judgement of Spec/CoreErr.v is derivable.  Proved on the two specifications alone
      (Proofs/CoreTotal.v): structural induction on statements; for a loop, induction on the
      distance of the iteration number to 20000 -- a REPEAT iteration starts only when its count
      was just checked to be <= 20000; a WHILE beyond the bound is a failure (ExceededLimit).
        tame_expr fo e    for ALL variables, [tokenize fo vars e] answers Ok or Err.  Since the
                          evaluator never crashes (ExprTotal.tokenize_never_crashes) this only
                          excludes the answer Unmodelled (C09c_tame_means_modelled);
        prints fo e       the values of e can be printed (py_str is Some) -- for `$NAME e`;
        tame_list fo p    every expression of p (conditions, counts, `$`-arguments, VAR right-hand
                          sides) is tame, `$`-arguments also print.
      The hypothesis is needed because the interpreter has two more outcomes (ICrash, IUnmod =
      outside the modelled fragment) that neither judgement describes.
   4. With the two refinement theorems (C05c, C10d): on such a program, within the stack limit,
      Compiler.compile returns EXACTLY the success of a derivation or the located error of a
      derivation; never ICrash, never IUnmod; and CONVERSELY  compile = IOk c  implies a success
      derivation with that output and final store,  compile = IErr e t  implies a failure
      derivation with that class whose chain is the trace t. *)
From Coq Require Import String NArith ZArith List Bool.
From DS Require Import Base PyStr Values Expr TabParse Tables Constants Interp ScopeProofs.
From DS Require Import CoreLang CoreWf CoreRefine CoreErr CoreErrLines CoreErrRefine CoreErrFacts CoreErrFamily CoreTotal.
Import ListNotations.

Arguments IOk {A}. Arguments IErr {A}. Arguments ICrash {A}. Arguments IUnmod {A}.

Theorem C09c_core_classes :
  forall fo sys,
  (forall f vs n stm er a ch, fails fo sys f vs n stm er a ch -> core_class fo er /\ ch <> []) /\
  (forall f vs n p er a ch, fails_list fo sys f vs n p er a ch -> core_class fo er /\ ch <> []) /\
  (forall b vs n arms els er a ch, fails_arms fo sys b vs n arms els er a ch -> core_class fo er /\ ch <> []) /\
  (forall f c e body n k vs er a ch, fails_repeat fo sys f c e body n k vs er a ch -> core_class fo er /\ ch <> []) /\
  (forall c e body n k vs er a ch, fails_while fo sys c e body n k vs er a ch -> core_class fo er /\ ch <> []).
Proof. exact fails_class_all. Qed.
Print Assumptions C09c_core_classes.

(* a failing core program is a located compile error of the family -- not a crash, not unmodelled *)
Theorem C09c_core_failure_is_a_located_compile_error :
  forall fo o fs file p er a ch,
  fails_prog fo p er a ch -> wfx_list p -> (Z.of_nat (nesting_list p) < stack_limit o)%Z ->
  core_class fo er /\
  exists tr, tr <> [] /\
    compile_items fo o fs file (items_of p) = (mkGlob [] [], IErr er (Some tr)).
Proof. exact failure_is_located_compile_error. Qed.
Print Assumptions C09c_core_failure_is_a_located_compile_error.

(* ================================================================== TOTALITY, on the specifications alone *)
Theorem C09c_core_total : forall fo sys p, names_ok_list p -> tame_list fo p ->
  forall f vs n,
    (exists sg f' vs' out, exec_list fo sys f vs p sg f' vs' out) \/
    (exists er a ch, fails_list fo sys f vs n p er a ch).
Proof. exact core_total. Qed.
Print Assumptions C09c_core_total.

Theorem C09c_core_total_prog : forall fo p, wf_list p -> tame_list fo p ->
  (exists sg f' vs' out, runs fo p sg f' vs' out) \/ (exists er a ch, fails_prog fo p er a ch).
Proof. exact core_total_prog. Qed.
Print Assumptions C09c_core_total_prog.

Theorem C09c_tame_means_modelled : forall fo e,
  (forall vars, tokenize fo vars e <> Unmodelled) -> tame_expr fo e.
Proof. exact tame_expr_of_modelled. Qed.
Print Assumptions C09c_tame_means_modelled.

(* the hypotheses are satisfiable: REPEAT 2 / $STRING 1+1 // VAR x 7 *)
Theorem C09c_tame_example : forall fo, tame_list fo prog_tame /\ wf_list prog_tame.
Proof. intro fo. exact (conj (prog_tame_tame fo) prog_tame_wf). Qed.
Print Assumptions C09c_tame_example.

(* ================================================================== ... and for the interpreter *)
Theorem C09c_core_compile_total : forall fo o fs file p,
  wf_list p -> tame_list fo p -> (Z.of_nat (nesting_list p) < stack_limit o)%Z ->
  (exists sg f' vs' out ol, runs fo p sg f' vs' out /\ map o_text ol = out /\
     compile_items fo o fs file (items_of p) =
     (mkGlob [] (stray_warnings sg),
      IOk (mkCompiled fo ol (stray_warnings sg) (mkEnv fo (initial_sys fo) vs' (flag_var fo f') []) []))) \/
  (exists er a ch tr, fails_prog fo p er a ch /\ shape file a ch tr /\
     compile_items fo o fs file (items_of p) = (mkGlob [] [], IErr er (Some tr))).
Proof. exact core_compile_total. Qed.
Print Assumptions C09c_core_compile_total.

Theorem C09c_compile_ok_has_derivation : forall fo o fs file p g c,
  wf_list p -> tame_list fo p -> (Z.of_nat (nesting_list p) < stack_limit o)%Z ->
  compile_items fo o fs file (items_of p) = (g, IOk c) ->
  exists sg f' vs' out, runs fo p sg f' vs' out /\ map o_text (Interp.out fo c) = out /\
    final_env fo c = mkEnv fo (initial_sys fo) vs' (flag_var fo f') [].
Proof. exact compile_ok_has_derivation. Qed.
Print Assumptions C09c_compile_ok_has_derivation.

Theorem C09c_compile_err_has_derivation : forall fo o fs file p g er t,
  wf_list p -> tame_list fo p -> (Z.of_nat (nesting_list p) < stack_limit o)%Z ->
  compile_items fo o fs file (items_of p) = (g, IErr er t) ->
  exists a ch tr, fails_prog fo p er a ch /\ t = Some tr /\ shape file a ch tr.
Proof. exact compile_err_has_derivation. Qed.
Print Assumptions C09c_compile_err_has_derivation.

Theorem C09c_compile_never_crashes : forall fo o fs file p,
  wf_list p -> tame_list fo p -> (Z.of_nat (nesting_list p) < stack_limit o)%Z ->
  (forall k, snd (compile_items fo o fs file (items_of p)) <> ICrash k) /\
  snd (compile_items fo o fs file (items_of p)) <> IUnmod.
Proof. exact compile_never_crashes. Qed.
Print Assumptions C09c_compile_never_crashes.
