(* C12c -- "START f behaves exactly as if the text of f stood at that point": statements only.

   Run A (the import):      exec_cmds (run d) cx (pre ++ Ln c n :: post) acc s
   Run B (the pasted text): exec_cmds (run d) cx (pre ++ body ++ post)   acc s
   where [Ln c n] is a START line (any casing, inline argument, no `$`, no block) of a stack whose
   file is [file], whose argument resolves to [target], and [body] is the parsed text of [target].

   Vocabulary (Proofs/PasteBase.v, PasteLift.v, PasteTop.v):
     clean body        no START-family line anywhere in [body] (blocks and FUNC bodies included)
     no_lead_blk l     [l] does not begin with a block (it would attach to the preceding line)
     funcs_filed e     every function of [e] records a file or is [clean]
     print_texts g     the (text, line number) of the print records, oldest first (file tags dropped)
     warning_texts g   the distinct warning texts in order of first appearance (traces dropped;
                       the de-duplication of the model compares traces, so multiplicities are not claimed)
     funcs_agree       same function names in the same order, same parameters and code; the recorded
                       file is equal, or is [target] in A and [file] in B (functions defined by f)
     paste_outcome wt  A ends with EStackOverflow (its pile is one frame longer), or with ECircular
                       (its pile also holds [target]: f is re-imported through a function of the
                       importer), or: equal print_texts, equal warning_texts, and both succeed with the
                       SAME cret (output lines with tags, signal) and equal e_sys / e_user (as lists, so
                       every lookup agrees) / funcs_agree (and equal e_temp when wt = true), or both fail
                       with the same error class / crash kind.

   The unrestricted claim is FALSE of the model; the hypotheses are needed (Proofs/PasteExamples.v,
   evaluated): the $IF_SUCCESS flag lives in e_temp, a child stack starts WITHOUT it and leaves the
   parent's untouched, pasted text shares it ([flag_before], [flag_after]); RETURN in f ends only f in
   A but the whole stack in B ([ret]). *)
From Coq Require Import NArith ZArith List Bool Lia.
From DS Require Import Base PyStr Values Expr TabParse Tables Constants Interp.
From DS Require Import ScopeProofs StartLaws StartLines PasteBase PasteLift PasteTop PasteFlat PasteExamples.
Import ListNotations.

(* general [post] *)
Theorem start_paste :
  forall (fo : FloatOps) (d : nat) (o : options) (fs : fsys) (pile : list frame) (file target : path)
         (c : str) (n : Z) (cmd a cname : str) (sc : simple_cls) (text : str) (body : list item),
  let cx := mkCtx o fs pile (Some file) in
  (* the START line and its target *)
  start_line cx c cmd a cname sc -> upper cmd = s_START -> is_blank c = false ->
  resolve_start file (strip a) = Ok target -> fs target = Some text -> circ cx target = false ->
  prepare_text text = TOk body ->
  (* f contains no START-family line (it would resolve against a different file) *)
  clean body ->
  (* enough model depth: holds for the children of Compiler.compile (d = stack_limit - 1, pile = []) *)
  (stack_limit o <= Z.of_nat (length pile) + 2 + Z.of_nat d)%Z ->
  forall (pre post : list item) (acc acc1 : list oline) (s s1 : st fo),
  no_lead_blk body -> no_lead_blk post ->
  (* the common prefix ends normally in state s1 *)
  @exec_cmds fo (@run fo d) cx pre acc s = (s1, IOk (mkCret acc1 SNormal)) ->
  env_wf fo (@s_env fo s1) -> funcs_filed fo (@s_env fo s1) ->
  (* no IF / ELIF / ELSE was executed in this stack before the START *)
  @e_temp fo (@s_env fo s1) = [] ->
  (* the pasted body is not left by RETURN / BREAK / CONTINUE ... *)
  (forall sB crB, @exec_cmds fo (@run fo d) cx body acc1 s1 = (sB, IOk crB) -> cr_sig crB = SNormal) ->
  (* ... and leaves no $IF_SUCCESS flag behind (no IF / ELIF / ELSE at its top level) *)
  (forall sB crB, @exec_cmds fo (@run fo d) cx body acc1 s1 = (sB, IOk crB) -> @e_temp fo (@s_env fo sB) = []) ->
  paste_outcome fo true target file
    (@exec_cmds fo (@run fo d) cx (pre ++ Ln c n :: post) acc s)
    (@exec_cmds fo (@run fo d) cx (pre ++ body ++ post) acc s).
Proof. exact start_paste_thm. Qed.
Print Assumptions start_paste.

(* the START line is the last command of its stack: f may leave a flag; e_temp is then the only
   difference (A: the importer's, i.e. []; B: f's) *)
Theorem start_paste_last :
  forall (fo : FloatOps) (d : nat) (o : options) (fs : fsys) (pile : list frame) (file target : path)
         (c : str) (n : Z) (cmd a cname : str) (sc : simple_cls) (text : str) (body : list item),
  let cx := mkCtx o fs pile (Some file) in
  start_line cx c cmd a cname sc -> upper cmd = s_START -> is_blank c = false ->
  resolve_start file (strip a) = Ok target -> fs target = Some text -> circ cx target = false ->
  prepare_text text = TOk body -> clean body ->
  (stack_limit o <= Z.of_nat (length pile) + 2 + Z.of_nat d)%Z ->
  forall (pre : list item) (acc acc1 : list oline) (s s1 : st fo),
  no_lead_blk body ->
  @exec_cmds fo (@run fo d) cx pre acc s = (s1, IOk (mkCret acc1 SNormal)) ->
  env_wf fo (@s_env fo s1) -> funcs_filed fo (@s_env fo s1) -> @e_temp fo (@s_env fo s1) = [] ->
  (forall sB crB, @exec_cmds fo (@run fo d) cx body acc1 s1 = (sB, IOk crB) -> cr_sig crB = SNormal) ->
  paste_outcome fo false target file
    (@exec_cmds fo (@run fo d) cx (pre ++ [Ln c n]) acc s)
    (@exec_cmds fo (@run fo d) cx (pre ++ body) acc s).
Proof. exact start_paste_last_thm. Qed.
Print Assumptions start_paste_last.

(* the simulation behind both: the same code under two contexts (piles of different length and
   content, files equal or (target, file) for clean code), related globs and environments *)
Theorem paste_simulation :
  forall (fo : FloatOps) (o : options) (fs : fsys) (tA tB : path) (dA dB : nat)
         (pileA pileB : list frame) (fA fB : option path) (gA gB : glob) (eA eB : env fo) (code : list item),
  (stack_limit o <= Z.of_nat (length pileA) + 1 + Z.of_nat dA)%Z ->
  (stack_limit o <= Z.of_nat (length pileB) + 1 + Z.of_nat dB)%Z ->
  (length pileB <= length pileA)%nat ->
  incl (live_files (mkCtx o fs pileB fB)) (live_files (mkCtx o fs pileA fA)) ->
  In (Some tB) (live_files (mkCtx o fs pileA fA)) ->
  mode tA tB fA fB code -> Rg gA gB -> Renv fo tA tB eA eB ->
  postR fo tA tB eB (@run fo dA (mkCtx o fs pileA fA) gA eA code) (@run fo dB (mkCtx o fs pileB fB) gB eB code).
Proof. exact rel_run. Qed.
Print Assumptions paste_simulation.

(* the copy-in / merge-back of START is the identity on tables that only grew *)
Theorem merge_back_identity :
  forall (fo : FloatOps) (tA tB : path) (p cA eB : env fo),
  Renv fo tA tB cA eB -> ext fo p eB -> env_wf fo eB ->
  Renv_nt fo tA tB (@append_env fo p cA) eB /\ @e_temp fo (@append_env fo p cA) = @e_temp fo p.
Proof. exact merge_back. Qed.
Print Assumptions merge_back_identity.

(* stage 1, fully syntactic: a FLAT imported text (simple commands only: no block command, no
   RETURN / BREAK / CONTINUE, no START-family line; unknown commands allowed) *)
Theorem start_paste_flat :
  forall (fo : FloatOps) (d : nat) (o : options) (fs : fsys) (pile : list frame) (file target : path)
         (c : str) (n : Z) (cmd a cname : str) (sc : simple_cls) (text : str) (body : list item),
  let cx := mkCtx o fs pile (Some file) in
  start_line cx c cmd a cname sc -> upper cmd = s_START -> is_blank c = false ->
  resolve_start file (strip a) = Ok target -> fs target = Some text -> circ cx target = false ->
  prepare_text text = TOk body -> flat body ->
  (stack_limit o <= Z.of_nat (length pile) + 2 + Z.of_nat d)%Z ->
  forall (pre post : list item) (acc acc1 : list oline) (s s1 : st fo),
  no_lead_blk post ->
  @exec_cmds fo (@run fo d) cx pre acc s = (s1, IOk (mkCret acc1 SNormal)) ->
  env_wf fo (@s_env fo s1) -> funcs_filed fo (@s_env fo s1) -> @e_temp fo (@s_env fo s1) = [] ->
  paste_outcome fo true target file
    (@exec_cmds fo (@run fo d) cx (pre ++ Ln c n :: post) acc s)
    (@exec_cmds fo (@run fo d) cx (pre ++ body ++ post) acc s).
Proof. exact start_paste_flat_thm. Qed.
Print Assumptions start_paste_flat.

(* a flat text ends normally and never touches the temp table, under any child runner *)
Theorem flat_body_quiet :
  forall (fo : FloatOps) (child : runner fo) (cx : ctx) (body : list item) (acc : list oline)
         (s s' : st fo) (cr : cret),
  flat body -> @exec_cmds fo child cx body acc s = (s', IOk cr) ->
  cr_sig cr = SNormal /\ @e_temp fo (@s_env fo s') = @e_temp fo (@s_env fo s).
Proof. exact flat_exec_cmds. Qed.
Print Assumptions flat_body_quiet.

(* evaluated evidence (main.txt imports lib.txt; [run_main lib main] = (output texts, print texts)):
   the good case, and the three ways the unrestricted claim fails *)
Theorem paste_agrees_example :
  run_main [86;65;82;32;121;32;120;43;49;10;83;84;82;73;78;71;32;104;105;10;80;82;73;78;84;32;112]%N
           [86;65;82;32;120;32;49;10;83;84;65;82;84;32;108;105;98;10;36;83;84;82;73;78;71;32;121]%N
  = run_main [86;65;82;32;121;32;120;43;49;10;83;84;82;73;78;71;32;104;105;10;80;82;73;78;84;32;112]%N
             [86;65;82;32;120;32;49;10;86;65;82;32;121;32;120;43;49;10;83;84;82;73;78;71;32;104;105;10;80;82;73;78;84;32;112;10;36;83;84;82;73;78;71;32;121]%N.
Proof. exact (eq_trans ok_agree_import (eq_sym ok_agree_pasted)). Qed.
Print Assumptions paste_agrees_example.

(* the importer's flag is set before the START: f starts without it, pasted text shares it
   lib: 'ELSE\n    STRING b' | importing main: 'IF TRUE\n    STRING a\nSTART lib' | pasted main: 'IF TRUE\n    STRING a\nELSE\n    STRING b' *)
Theorem paste_fails_flag_before :
  run_main [69;76;83;69;10;32;32;32;32;83;84;82;73;78;71;32;98]%N
           [73;70;32;84;82;85;69;10;32;32;32;32;83;84;82;73;78;71;32;97;10;83;84;65;82;84;32;108;105;98]%N
  <> run_main [69;76;83;69;10;32;32;32;32;83;84;82;73;78;71;32;98]%N
              [73;70;32;84;82;85;69;10;32;32;32;32;83;84;82;73;78;71;32;97;10;69;76;83;69;10;32;32;32;32;83;84;82;73;78;71;32;98]%N.
Proof. exact flag_before_differs. Qed.
Print Assumptions paste_fails_flag_before.

(* f leaves a flag: the importer does not see it, pasted text does
   lib: 'IF TRUE\n    STRING a' | importing main: 'START lib\nELSE\n    STRING b' | pasted main: 'IF TRUE\n    STRING a\nELSE\n    STRING b' *)
Theorem paste_fails_flag_after :
  run_main [73;70;32;84;82;85;69;10;32;32;32;32;83;84;82;73;78;71;32;97]%N
           [83;84;65;82;84;32;108;105;98;10;69;76;83;69;10;32;32;32;32;83;84;82;73;78;71;32;98]%N
  <> run_main [73;70;32;84;82;85;69;10;32;32;32;32;83;84;82;73;78;71;32;97]%N
              [73;70;32;84;82;85;69;10;32;32;32;32;83;84;82;73;78;71;32;97;10;69;76;83;69;10;32;32;32;32;83;84;82;73;78;71;32;98]%N.
Proof. exact flag_after_differs. Qed.
Print Assumptions paste_fails_flag_after.

(* RETURN ends only f in the import, the whole stack when pasted
   lib: 'RETURN' | importing main: 'START lib\nSTRING after' | pasted main: 'RETURN\nSTRING after' *)
Theorem paste_fails_ret :
  run_main [82;69;84;85;82;78]%N
           [83;84;65;82;84;32;108;105;98;10;83;84;82;73;78;71;32;97;102;116;101;114]%N
  <> run_main [82;69;84;85;82;78]%N
              [82;69;84;85;82;78;10;83;84;82;73;78;71;32;97;102;116;101;114]%N.
Proof. exact ret_differs. Qed.
Print Assumptions paste_fails_ret.
