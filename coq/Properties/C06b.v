(* C06b -- REPEAT / WHILE unrolled.  Statements only; proofs in Proofs/LoopUnroll.v (the loops),
   Proofs/LoopBlock.v (the REPEAT / WHILE line in Stack.run), witnesses in Proofs/ChainLoopExamples.v.

   Specification functions (Proofs/LoopUnroll.v):

     repeat_spec remaining var code count acc :=            (structural on [remaining])
       0     => ret acc
       S r   => cr <- run_child code file false (bind_counter var count);
                let (sg, brk) := loop_signal (cr_sig cr) in
                let acc' := mkCret (cr_data acc ++ cr_data cr) sg in
                if brk then ret acc' else repeat_spec r var code (count + 1) acc'

     while_spec remaining var cond code count acc :=
       0     => raise ExceededLimitError
       S r   => r0 <- run_child_with code file false (bind_counter var count) (while_pre cond);
                None    => ret acc                          (condition false)
                Some cr => as above, with while_spec r ... (count + 1) acc'

     while_pre cond ce := v <- tokenize (all_vars ce) cond; Ok (truthy v)
       -- run_child_with applies it to the CHILD environment of the iteration, after bind_counter
     loop_signal: CONTINUE -> (Normal, go on); BREAK -> (Normal, stop); RETURN -> (Return, stop)
     outputs crs m := cr_data (crs 0) ++ ... ++ cr_data (crs (m-1))

   "Along an execution": sts k is the state in which iteration k starts, crs k what its body
   returned; the hypotheses describe exactly the states that are reached. *)
From Coq Require Import String NArith ZArith List Bool.
From DS Require Import Base PyStr Values Expr TabParse Tables Constants Interp ScopeProofs LimitProofs.
From DS Require Import ChainProofs LoopUnroll LoopBlock ChainLoopExamples.
Import ListNotations.

(* ================================================================== REPEAT *)
(* repeat_unroll, general form: P k s describes the states in which iteration k may start; there
   the count expression evaluates to n and leaves the state alone; P need only be kept by
   iterations after which the loop goes on.  Any fuel >= loop_fuel (block_compile uses loop_fuel). *)
Theorem C06b_repeat_unroll :
  forall fo child cx cur (P : Z -> st fo -> Prop) var_name argument code n,
  (forall k s, (0 <= k <= n)%Z -> P k s -> tokenize_count fo cx cur argument s = (s, IOk _ n)) ->
  (forall k s s' cr, (0 <= k < n)%Z -> P k s ->
     run_child fo child cx cur code (c_file cx) false (bind_counter fo var_name k) s = (s', IOk _ cr) ->
     snd (loop_signal (cr_sig cr)) = false -> P (k + 1)%Z s') ->
  forall extra acc s, (0 <= n)%Z -> P 0%Z s ->
  repeat_loop fo child cx cur (loop_fuel + extra) var_name argument code 0 acc s =
  repeat_spec fo child cx cur (Z.to_nat n) var_name code 0 acc s.
Proof. exact repeat_unroll_lemma. Qed.
Print Assumptions C06b_repeat_unroll.

(* the count expression evaluates to n in every state (n is then within 0..20000) *)
Theorem C06b_repeat_unroll_const :
  forall fo child cx cur var_name argument code n,
  (forall s, tokenize_count fo cx cur argument s = (s, IOk _ n)) ->
  forall extra acc s,
  repeat_loop fo child cx cur (loop_fuel + extra) var_name argument code 0 acc s =
  repeat_spec fo child cx cur (Z.to_nat n) var_name code 0 acc s.
Proof. exact repeat_unroll_const_lemma. Qed.
Print Assumptions C06b_repeat_unroll_const.

(* from any counter value, with any sufficient fuel *)
Theorem C06b_repeat_loop_unroll_inv :
  forall fo child cx cur (P : Z -> st fo -> Prop) var_name argument code n,
  (forall k s, (0 <= k <= n)%Z -> P k s -> tokenize_count fo cx cur argument s = (s, IOk _ n)) ->
  (forall k s s' cr, (0 <= k < n)%Z -> P k s ->
     run_child fo child cx cur code (c_file cx) false (bind_counter fo var_name k) s = (s', IOk _ cr) ->
     snd (loop_signal (cr_sig cr)) = false -> P (k + 1)%Z s') ->
  forall fuel count acc s,
  (0 <= count <= n)%Z -> P count s -> (n - count <= Z.of_nat fuel)%Z ->
  repeat_loop fo child cx cur fuel var_name argument code count acc s =
  repeat_spec fo child cx cur (Z.to_nat (n - count)) var_name code count acc s.
Proof. exact repeat_loop_unroll_inv. Qed.
Print Assumptions C06b_repeat_loop_unroll_inv.

(* what the specification does: m iterations none of which stops the loop *)
Theorem C06b_repeat_spec_all :
  forall fo child cx cur m var_name code (sts : nat -> st fo) (crs : nat -> cret) count acc,
  (forall k, (k < m)%nat ->
     run_child fo child cx cur code (c_file cx) false (bind_counter fo var_name (count + Z.of_nat k)%Z) (sts k)
     = (sts (S k), IOk _ (crs k))) ->
  (forall k, (k < m)%nat -> snd (loop_signal (cr_sig (crs k))) = false) ->
  repeat_spec fo child cx cur m var_name code count acc (sts 0%nat) =
  (sts m, IOk _ (mkCret (cr_data acc ++ outputs crs m)
                        (match m with O => cr_sig acc | S _ => SNormal end))).
Proof. exact repeat_spec_all. Qed.
Print Assumptions C06b_repeat_spec_all.

(* ... and iteration j is the first that stops it *)
Theorem C06b_repeat_spec_stop :
  forall fo child cx cur j m var_name code (sts : nat -> st fo) (crs : nat -> cret) count acc,
  (j < m)%nat ->
  (forall k, (k <= j)%nat ->
     run_child fo child cx cur code (c_file cx) false (bind_counter fo var_name (count + Z.of_nat k)%Z) (sts k)
     = (sts (S k), IOk _ (crs k))) ->
  (forall k, (k < j)%nat -> snd (loop_signal (cr_sig (crs k))) = false) ->
  snd (loop_signal (cr_sig (crs j))) = true ->
  repeat_spec fo child cx cur m var_name code count acc (sts 0%nat) =
  (sts (S j), IOk _ (mkCret (cr_data acc ++ outputs crs (S j)) (fst (loop_signal (cr_sig (crs j)))))).
Proof. exact repeat_spec_stop. Qed.
Print Assumptions C06b_repeat_spec_stop.

(* corollary: REPEAT n whose n bodies end normally (or by CONTINUE): exactly n runs, counter
   0 .. n-1 in order, the output is the concatenation of the n outputs in order *)
Theorem C06b_repeat_all_iterations :
  forall fo child cx cur var_name argument code (n : nat) (sts : nat -> st fo) (crs : nat -> cret),
  (forall k, (k <= n)%nat -> tokenize_count fo cx cur argument (sts k) = (sts k, IOk _ (Z.of_nat n))) ->
  (forall k, (k < n)%nat ->
     run_child fo child cx cur code (c_file cx) false (bind_counter fo var_name (Z.of_nat k)) (sts k)
     = (sts (S k), IOk _ (crs k))) ->
  (forall k, (k < n)%nat -> cr_sig (crs k) = SNormal \/ cr_sig (crs k) = SContinue) ->
  forall extra acc, cr_sig acc = SNormal ->
  repeat_loop fo child cx cur (loop_fuel + extra) var_name argument code 0 acc (sts 0%nat) =
  (sts n, IOk _ (mkCret (cr_data acc ++ outputs crs n) SNormal)).
Proof. exact repeat_all_iterations_lemma. Qed.
Print Assumptions C06b_repeat_all_iterations.

(* BREAK / RETURN in iteration j < n: iterations 0..j ran, all their output (that of iteration j
   included) is kept, iterations j+1.. do not run; BREAK is absorbed, RETURN handed on *)
Theorem C06b_repeat_stops_at :
  forall fo child cx cur var_name argument code (n : nat) (sts : nat -> st fo) (crs : nat -> cret),
  (forall k, (k <= n)%nat -> tokenize_count fo cx cur argument (sts k) = (sts k, IOk _ (Z.of_nat n))) ->
  forall j, (j < n)%nat ->
  (forall k, (k <= j)%nat ->
     run_child fo child cx cur code (c_file cx) false (bind_counter fo var_name (Z.of_nat k)) (sts k)
     = (sts (S k), IOk _ (crs k))) ->
  (forall k, (k < j)%nat -> cr_sig (crs k) = SNormal \/ cr_sig (crs k) = SContinue) ->
  (cr_sig (crs j) = SBreak \/ cr_sig (crs j) = SReturn) ->
  forall extra acc,
  repeat_loop fo child cx cur (loop_fuel + extra) var_name argument code 0 acc (sts 0%nat) =
  (sts (S j), IOk _ (mkCret (cr_data acc ++ outputs crs (S j))
                            (match cr_sig (crs j) with SReturn => SReturn | _ => SNormal end))).
Proof. exact repeat_stops_at_lemma. Qed.
Print Assumptions C06b_repeat_stops_at.

(* ================================================================== WHILE *)
(* while_unroll: unconditional *)
Theorem C06b_while_unroll :
  forall fo child cx cur extra var_name cond code acc s,
  while_loop fo child cx cur (loop_fuel + extra) var_name cond code 0 acc s =
  while_spec fo child cx cur (Z.to_nat 20001) var_name cond code 0 acc s.
Proof. exact while_unroll_lemma. Qed.
Print Assumptions C06b_while_unroll.

Theorem C06b_while_loop_unroll :
  forall fo child cx cur fuel var_name cond code count acc s,
  (20001 - count <= Z.of_nat fuel)%Z ->
  while_loop fo child cx cur fuel var_name cond code count acc s =
  while_spec fo child cx cur (Z.to_nat (20001 - count)) var_name cond code count acc s.
Proof. exact while_loop_unroll. Qed.
Print Assumptions C06b_while_loop_unroll.

(* one iteration: the counter is bound in a fresh copy of the parent's environment, the condition
   is evaluated in THAT environment, the body runs iff it is true *)
Theorem C06b_while_iteration :
  forall fo child cx cur var_name cond code count s s' r,
  run_child_with fo child cx cur code (c_file cx) false (bind_counter fo var_name count) (while_pre fo cond) s
    = (s', IOk _ r) ->
  exists cenv1 v,
    bind_counter fo var_name count (append_env fo (empty_env fo) (s_env fo s)) = Ok cenv1 /\
    tokenize fo (all_vars fo cenv1) cond = Ok v /\
    ((r = None /\ truthy fo v = false /\
      s' = mkSt fo (s_g fo s) (update_from_env fo (s_env fo s) cenv1) (s_line2 fo s)) \/
     (exists cr g' cenv2, r = Some cr /\ truthy fo v = true /\
        child (mkCtx (c_opts cx) (c_fs cx) (here cx cur (s_line2 fo s)) (c_file cx)) (s_g fo s) cenv1 code
          = (g', IOk _ (cr, cenv2)) /\
        s' = mkSt fo g' (update_from_env fo (s_env fo s) cenv2) (s_line2 fo s))).
Proof. exact while_iteration_inv. Qed.
Print Assumptions C06b_while_iteration.

(* m iterations with a true condition and a body that does not stop the loop, then the
   condition is false *)
Theorem C06b_while_all_iterations :
  forall fo child cx cur m var_name cond code (sts : nat -> st fo) (crs : nat -> cret) s_end,
  (Z.of_nat m <= 20000)%Z ->
  (forall k, (k < m)%nat ->
     run_child_with fo child cx cur code (c_file cx) false (bind_counter fo var_name (Z.of_nat k)) (while_pre fo cond) (sts k)
     = (sts (S k), IOk _ (Some (crs k)))) ->
  (forall k, (k < m)%nat -> cr_sig (crs k) = SNormal \/ cr_sig (crs k) = SContinue) ->
  run_child_with fo child cx cur code (c_file cx) false (bind_counter fo var_name (Z.of_nat m)) (while_pre fo cond) (sts m)
     = (s_end, IOk _ None) ->
  forall extra acc, cr_sig acc = SNormal ->
  while_loop fo child cx cur (loop_fuel + extra) var_name cond code 0 acc (sts 0%nat) =
  (s_end, IOk _ (mkCret (cr_data acc ++ outputs crs m) SNormal)).
Proof. exact while_all_iterations_lemma. Qed.
Print Assumptions C06b_while_all_iterations.

Theorem C06b_while_stops_at :
  forall fo child cx cur j var_name cond code (sts : nat -> st fo) (crs : nat -> cret),
  (Z.of_nat j <= 20000)%Z ->
  (forall k, (k <= j)%nat ->
     run_child_with fo child cx cur code (c_file cx) false (bind_counter fo var_name (Z.of_nat k)) (while_pre fo cond) (sts k)
     = (sts (S k), IOk _ (Some (crs k)))) ->
  (forall k, (k < j)%nat -> cr_sig (crs k) = SNormal \/ cr_sig (crs k) = SContinue) ->
  (cr_sig (crs j) = SBreak \/ cr_sig (crs j) = SReturn) ->
  forall extra acc,
  while_loop fo child cx cur (loop_fuel + extra) var_name cond code 0 acc (sts 0%nat) =
  (sts (S j), IOk _ (mkCret (cr_data acc ++ outputs crs (S j))
                            (match cr_sig (crs j) with SReturn => SReturn | _ => SNormal end))).
Proof. exact while_stops_at_lemma. Qed.
Print Assumptions C06b_while_stops_at.

(* 20001 iterations that all go on: ExceededLimitError, raised in the state they left *)
Theorem C06b_while_limit :
  forall fo child cx cur var_name cond code (sts : nat -> st fo) (crs : nat -> cret),
  (forall k, (Z.of_nat k < 20001)%Z ->
     run_child_with fo child cx cur code (c_file cx) false (bind_counter fo var_name (Z.of_nat k)) (while_pre fo cond) (sts k)
     = (sts (S k), IOk _ (Some (crs k)))) ->
  (forall k, (Z.of_nat k < 20001)%Z -> cr_sig (crs k) = SNormal \/ cr_sig (crs k) = SContinue) ->
  forall extra acc,
  while_loop fo child cx cur (loop_fuel + extra) var_name cond code 0 acc (sts 0%nat) =
  (sts (Z.to_nat 20001), IErr _ EExceededLimit (Some (here cx cur (s_line2 fo (sts (Z.to_nat 20001)))))).
Proof. exact while_limit_lemma. Qed.
Print Assumptions C06b_while_limit.

(* ================================================================== the loop line in Stack.run *)
(* REPEAT [var,]count followed by a non-empty block: the loop of the model with loop_fuel, current
   line = that line; its output is appended and the stack goes on unless the loop returned RETURN *)
Theorem C06b_repeat_line :
  forall fo child cx a n body rest acc s var_name count_expr,
  is_blank a = false -> body <> [] ->
  split_loop_arg (strip a) = (var_name, count_expr) -> counter_ok var_name ->
  exec_cmds fo child cx (Ln (s_REPEAT ++ 32%N :: a) n :: Blk body :: rest) acc s =
  bindM fo (repeat_loop fo child cx (s_REPEAT ++ 32%N :: a, n) loop_fuel var_name count_expr body 0
                        (mkCret [] SNormal))
        (after_branch fo child cx rest acc) (clear_line2 fo s).
Proof. exact repeat_line_lemma. Qed.
Print Assumptions C06b_repeat_line.

Theorem C06b_while_line :
  forall fo child cx a n body rest acc s var_name cond,
  is_blank a = false -> body <> [] ->
  split_loop_arg (strip a) = (var_name, cond) ->
  exec_cmds fo child cx (Ln (s_WHILE ++ 32%N :: a) n :: Blk body :: rest) acc s =
  bindM fo (while_loop fo child cx (s_WHILE ++ 32%N :: a, n) loop_fuel var_name cond body 0
                       (mkCret [] SNormal))
        (after_branch fo child cx rest acc) (clear_line2 fo s).
Proof. exact while_line_lemma. Qed.
Print Assumptions C06b_while_line.

(* both layers: REPEAT m whose bodies all end normally / by CONTINUE *)
Theorem C06b_repeat_line_all :
  forall fo child cx a n body rest acc s var_name count_expr (m : nat) (sts : nat -> st fo) (crs : nat -> cret),
  is_blank a = false -> body <> [] ->
  split_loop_arg (strip a) = (var_name, count_expr) -> counter_ok var_name ->
  sts 0%nat = clear_line2 fo s ->
  (forall k, (k <= m)%nat ->
     tokenize_count fo cx (s_REPEAT ++ 32%N :: a, n) count_expr (sts k) = (sts k, IOk _ (Z.of_nat m))) ->
  (forall k, (k < m)%nat ->
     run_child fo child cx (s_REPEAT ++ 32%N :: a, n) body (c_file cx) false
       (bind_counter fo var_name (Z.of_nat k)) (sts k) = (sts (S k), IOk _ (crs k))) ->
  (forall k, (k < m)%nat -> cr_sig (crs k) = SNormal \/ cr_sig (crs k) = SContinue) ->
  exec_cmds fo child cx (Ln (s_REPEAT ++ 32%N :: a) n :: Blk body :: rest) acc s =
  exec_cmds fo child cx rest (acc ++ outputs crs m) (sts m).
Proof. exact repeat_line_all_lemma. Qed.
Print Assumptions C06b_repeat_line_all.

(* BREAK in iteration j ends THIS loop only: the enclosing stack goes on with the commands after
   the block, and everything emitted up to the break is kept *)
Theorem C06b_repeat_line_break :
  forall fo child cx a n body rest acc s var_name count_expr (m : nat) (sts : nat -> st fo) (crs : nat -> cret),
  is_blank a = false -> body <> [] ->
  split_loop_arg (strip a) = (var_name, count_expr) -> counter_ok var_name ->
  sts 0%nat = clear_line2 fo s ->
  (forall k, (k <= m)%nat ->
     tokenize_count fo cx (s_REPEAT ++ 32%N :: a, n) count_expr (sts k) = (sts k, IOk _ (Z.of_nat m))) ->
  forall j, (j < m)%nat ->
  (forall k, (k <= j)%nat ->
     run_child fo child cx (s_REPEAT ++ 32%N :: a, n) body (c_file cx) false
       (bind_counter fo var_name (Z.of_nat k)) (sts k) = (sts (S k), IOk _ (crs k))) ->
  (forall k, (k < j)%nat -> cr_sig (crs k) = SNormal \/ cr_sig (crs k) = SContinue) ->
  cr_sig (crs j) = SBreak ->
  exec_cmds fo child cx (Ln (s_REPEAT ++ 32%N :: a) n :: Blk body :: rest) acc s =
  exec_cmds fo child cx rest (acc ++ outputs crs (S j)) (sts (S j)).
Proof. exact repeat_line_break_lemma. Qed.
Print Assumptions C06b_repeat_line_break.

Theorem C06b_repeat_line_return :
  forall fo child cx a n body rest acc s var_name count_expr (m : nat) (sts : nat -> st fo) (crs : nat -> cret),
  is_blank a = false -> body <> [] ->
  split_loop_arg (strip a) = (var_name, count_expr) -> counter_ok var_name ->
  sts 0%nat = clear_line2 fo s ->
  (forall k, (k <= m)%nat ->
     tokenize_count fo cx (s_REPEAT ++ 32%N :: a, n) count_expr (sts k) = (sts k, IOk _ (Z.of_nat m))) ->
  forall j, (j < m)%nat ->
  (forall k, (k <= j)%nat ->
     run_child fo child cx (s_REPEAT ++ 32%N :: a, n) body (c_file cx) false
       (bind_counter fo var_name (Z.of_nat k)) (sts k) = (sts (S k), IOk _ (crs k))) ->
  (forall k, (k < j)%nat -> cr_sig (crs k) = SNormal \/ cr_sig (crs k) = SContinue) ->
  cr_sig (crs j) = SReturn ->
  exec_cmds fo child cx (Ln (s_REPEAT ++ 32%N :: a) n :: Blk body :: rest) acc s =
  (sts (S j), IOk _ (mkCret (acc ++ outputs crs (S j)) SReturn)).
Proof. exact repeat_line_return_lemma. Qed.
Print Assumptions C06b_repeat_line_return.

(* ---- computed witnesses *)
Open Scope string_scope.

Theorem C06b_repeat_counter : forall fo,
  texts fo (run_text fo (prog ["REPEAT i,3"; T "$STRING i"; "STRING end"]))
  = Some [lit "STRING 0"; lit "STRING 1"; lit "STRING 2"; lit "STRING end"].
Proof. exact repeat_counter. Qed.
Print Assumptions C06b_repeat_counter.

Theorem C06b_break_innermost_only : forall fo,
  texts fo (run_text fo (prog ["REPEAT 2"; T "REPEAT 3"; T (T "STRING a"); T (T "BREAKLOOP");
                               T (T "STRING b"); T "STRING x"; "STRING end"]))
  = Some [lit "STRING a"; lit "STRING x"; lit "STRING a"; lit "STRING x"; lit "STRING end"].
Proof. exact break_innermost_only. Qed.
Print Assumptions C06b_break_innermost_only.

Theorem C06b_continue_current_iteration_only : forall fo,
  texts fo (run_text fo (prog ["REPEAT i,3"; T "STRING a"; T "IF i==1"; T (T "CONTINUELOOP");
                               T "STRING b"; "STRING end"]))
  = Some [lit "STRING a"; lit "STRING b"; lit "STRING a"; lit "STRING a"; lit "STRING b"; lit "STRING end"].
Proof. exact continue_current_iteration_only. Qed.
Print Assumptions C06b_continue_current_iteration_only.

Theorem C06b_while_counter : forall fo,
  texts fo (run_text fo (prog ["WHILE i,i<3"; T "$STRING i"; "STRING end"]))
  = Some [lit "STRING 0"; lit "STRING 1"; lit "STRING 2"; lit "STRING end"].
Proof. exact while_counter. Qed.
Print Assumptions C06b_while_counter.
