(* C13 -- a START-family command never re-enters a file that is being compiled; importing the same
   file again, or along another path, is accepted.  Statements only. *)
From Coq Require Import NArith ZArith List Bool Lia.
From DS Require Import Base PyStr Values Expr TabParse Tables Constants Interp.
From DS Require Import StackLift TraceShape PipelineProofs StartLaws ResolveSpec StartLines NoReentry NoReentryCtx.
Import ListNotations.

(* ------------------------------------------------------------------ (a) no re-entry *)
(* the test of RKStart is membership of the target in the files of the live stacks *)
Theorem circularity_test_is_membership : forall cx cur l2 target,
  existsb (fun fr => opt_eqb path_eqb (fr_file fr) (Some target)) (here cx cur l2) = true
  <-> In (Some target) (live_files cx).
Proof. exact circ_test_membership. Qed.
Print Assumptions circularity_test_is_membership.

(* the stack a START-family command starts: its file is the file of no frame of its pile *)
Theorem started_stack_is_not_live : forall cx cur l2 target,
  circ cx target = false ->
  ~ In (c_file (start_ctx cx cur l2 target)) (map fr_file (c_pile (start_ctx cx cur l2 target))).
Proof. exact start_ctx_no_reentry. Qed.
Print Assumptions started_stack_is_not_live.

(* one stack, arbitrary child: the stack cannot tell two children apart that agree on the legal
   calls ([line_call_nr]: block / RUN / START of a file that is not live) -- it makes no other *)
Theorem stack_makes_only_legal_calls : forall (fo : FloatOps) (c1 c2 : runner fo) cx cmds,
  (forall cur l2 file g e code,
     line_call_nr cx cmds cur file code ->
     c1 (mkCtx (c_opts cx) (c_fs cx) (here cx cur l2) file) g e code =
     c2 (mkCtx (c_opts cx) (c_fs cx) (here cx cur l2) file) g e code) ->
  forall g e, run_with fo c1 cx g e cmds = run_with fo c2 cx g e cmds.
Proof. exact run_with_only_legal_calls. Qed.
Print Assumptions stack_makes_only_legal_calls.

(* a legal call made by a START-family line does not re-enter *)
Theorem legal_start_call_does_not_reenter : forall cx c cb file code cmd more cname sc cur l2,
  child_call_nr cx c cb file code ->
  split_ws1 c = cmd :: more -> find_command palette cmd cb = Some (cname, Simple sc) -> s_run sc = RKStart ->
  exists target text,
    file = Some target /\ c_fs cx target = Some text /\ prepare_text text = TOk code /\
    ~ In (Some target) (map fr_file (c_pile (mkCtx (c_opts cx) (c_fs cx) (here cx cur l2) file))).
Proof. exact start_call_no_reentry. Qed.
Print Assumptions legal_start_call_does_not_reenter.

(* the whole interpreter, any depth: every stack it starts is reachable through legal calls
   ([nr_reach]) -- replacing the behaviour of any other stack by anything changes nothing *)
Theorem interpreter_starts_only_legal_stacks : forall (fo : FloatOps) bad badr cx0 cmds0,
  (forall cx code, nr_reach cx0 cmds0 cx code -> bad cx code = false) ->
  forall d cx cmds g e, nr_reach cx0 cmds0 cx cmds ->
  run fo d cx g e cmds = run_poisoned fo bad badr d cx g e cmds.
Proof. exact run_starts_only_legal_stacks. Qed.
Print Assumptions interpreter_starts_only_legal_stacks.

Theorem reachable_start_step_does_not_reenter : forall cx0 cmds0 cx cmds cur l2 file code cb cmd more cname sc,
  nr_reach cx0 cmds0 cx cmds ->
  In (cur, cb) (line_blocks cmds) -> child_call_nr cx (fst cur) cb file code ->
  split_ws1 (fst cur) = cmd :: more -> find_command palette cmd cb = Some (cname, Simple sc) -> s_run sc = RKStart ->
  let cx' := mkCtx (c_opts cx) (c_fs cx) (here cx cur l2) file in
  nr_reach cx0 cmds0 cx' code /\ ~ In (c_file cx') (map fr_file (c_pile cx')).
Proof. exact nr_reach_start_no_reentry. Qed.
Print Assumptions reachable_start_step_does_not_reenter.

(* the same with a test that only looks at the context of a stack: [reentrant_start cx] = the pile
   of cx ends with a START-family line (the one that started cx) and the file of cx is the file of
   a frame of that pile.  Such a stack is never started: substituting ANY behaviour for them, at
   every depth, gives back the interpreter *)
Theorem reentrant_start_means : forall cx, reentrant_start cx = true ->
  exists pre fr, c_pile cx = pre ++ [fr] /\ is_start_line_b (fst (fr_line fr)) = true /\
                 exists f, In f (c_pile cx) /\ opt_eqb path_eqb (fr_file f) (c_file cx) = true.
Proof. exact reentrant_start_spec. Qed.
Print Assumptions reentrant_start_means.

Theorem interpreter_never_reenters : forall (fo : FloatOps) (badr : runner fo) d cx0 g e cmds0,
  reentrant_start cx0 = false ->
  run fo d cx0 g e cmds0 = run_poisoned fo (fun cx _ => reentrant_start cx) badr d cx0 g e cmds0.
Proof. exact run_never_reenters. Qed.
Print Assumptions interpreter_never_reenters.

Theorem compiler_never_reenters : forall (fo : FloatOps) (badr : runner fo) o fs file cmds,
  compile_items fo o fs file cmds =
  match run_poisoned fo (fun cx _ => reentrant_start cx) badr (run_depth o) (mkCtx o fs [] file) (mkGlob [] []) (initial_env fo) cmds with
  | (g, IOk (cr, e)) =>
      let g' := match s_sig_warning (cr_sig cr) with
                | Some w => add_warning (mkWarn w None) g
                | None => g end in
      (g', IOk (mkCompiled fo (cr_data cr) (rev (g_warnings g')) e (rev (g_prints g'))))
  | (g, IErr er t) => (g, IErr er t)
  | (g, ICrash k) => (g, ICrash k)
  | (g, IUnmod) => (g, IUnmod)
  end.
Proof. exact compile_never_reenters. Qed.
Print Assumptions compiler_never_reenters.

(* whether a line is a START-family line does not depend on the block that follows it *)
Theorem start_dispatch_ignores_block : forall cmd cb cb' cname sc,
  find_command palette cmd cb = Some (cname, Simple sc) -> s_run sc = RKStart ->
  find_command palette cmd cb' = Some (cname, Simple sc).
Proof. exact start_dispatch_any_block. Qed.
Print Assumptions start_dispatch_ignores_block.

(* ------------------------------------------------------------------ (b) sequential imports, diamonds *)
(* the verdict depends on (pile, file of the stack, target) only *)
Theorem circularity_depends_only_on_pile_file_target : forall cx1 cx2 cur1 cur2 l1 l2 target,
  c_pile cx1 = c_pile cx2 -> c_file cx1 = c_file cx2 ->
  existsb (fun fr => opt_eqb path_eqb (fr_file fr) (Some target)) (here cx1 cur1 l1) =
  existsb (fun fr => opt_eqb path_eqb (fr_file fr) (Some target)) (here cx2 cur2 l2).
Proof. exact circularity_depends_on_pile_file_target. Qed.
Print Assumptions circularity_depends_only_on_pile_file_target.

(* a START that succeeded, repeated in the same stack (any line, any of the three words, any
   state, any child): past the test and the parse again *)
Theorem repeated_import_passes_the_test : forall (fo : FloatOps) child cx cur cname sc name l s s1 r,
  s_run sc = RKStart ->
  run_compile fo child cx cur cname sc name (Some l) s = (s1, IOk r) ->
  exists target commands,
    circ cx target = false /\ below_stack_limit cx /\
    forall child' cur' name' s2,
      run_compile fo child' cx cur' cname sc name' (Some l) s2 = start_body fo child' cx cur' name' target commands s2.
Proof. exact sequential_imports_ok. Qed.
Print Assumptions repeated_import_passes_the_test.

(* ... with the real interpreter as the child: never the CircularStructureError of that line *)
Theorem repeated_import_not_circular : forall (fo : FloatOps) d child cx cur cname sc name l s s1 r,
  s_run sc = RKStart ->
  run_compile fo child cx cur cname sc name (Some l) s = (s1, IOk r) ->
  forall cur' name' s2 s3 t,
    run_compile fo (run fo d) cx cur' cname sc name' (Some l) s2 = (s3, IErr ECircular t) ->
    forall l2, t <> Some (here cx cur' l2).
Proof. exact sequential_import_run. Qed.
Print Assumptions repeated_import_not_circular.

(* the same for a whole line `WORD name` run twice *)
Theorem repeated_import_line_not_circular :
  forall (fo : FloatOps) (child child' : runner fo) cx c n n' cmd a cname sc s s1 cr s2 s3 e t l2,
  start_line cx c cmd a cname sc ->
  exec_line fo child cx c n None s = (s1, IOk cr) ->
  trace_runner fo child' ->
  exec_line fo child' cx c n' None s2 = (s3, IErr e t) ->
  t <> Some (here cx (c, n') l2).
Proof. exact sequential_start_lines. Qed.
Print Assumptions repeated_import_line_not_circular.

(* a file that is not live is never refused as circular, whatever was imported before (diamonds) *)
Theorem import_of_non_live_file_not_circular :
  forall (fo : FloatOps) child cx cur cname sc name l file target text s s' e t l2,
  s_run sc = RKStart -> c_file cx = Some file ->
  resolve_start file (content_text (l_content l)) = Ok target -> c_fs cx target = Some text ->
  ~ In (Some target) (live_files cx) ->
  trace_runner fo child ->
  run_compile fo child cx cur cname sc name (Some l) s = (s', IErr e t) ->
  e = ECircular -> t <> Some (here cx cur l2).
Proof. exact diamond_ok. Qed.
Print Assumptions import_of_non_live_file_not_circular.
