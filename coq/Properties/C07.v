(* C07 -- RUN binds arguments positionally (the comma list); statements only. *)
From Coq Require Import NArith ZArith List Bool.
From DS Require Import Base PyStr Values Expr Tables Constants ExprAst TreeProofs MoreProofs.
Import ListNotations.

(* k >= 2 comma-separated values evaluate to the list of the k values in order, for EVERY k
   (the pinned tree had `left.append(right)` returning None for k >= 3) *)
Theorem comma_list_any_arity :
  forall (fo : FloatOps) (rec : str -> res (value fo)) v1 v2 vs,
    not_list fo v1 ->
    solve fo rec (comma_tree fo (Node OCComma comma (Leaf (PVal v1)) (Leaf (PVal v2))) vs) = Ok (VList (v1 :: v2 :: vs)).
Proof. exact comma_list. Qed.
Print Assumptions comma_list_any_arity.

(* and the precedence passes rebuild exactly that left-nested tree from the flat token list *)
Theorem comma_tokens_rebuilt :
  forall (fo : FloatOps) v1 v2 vs,
    build_tree fo (flatten fo (comma_tree fo (Node OCComma comma (Leaf (PVal v1)) (Leaf (PVal v2))) vs))
    = Ok (comma_tree fo (Node OCComma comma (Leaf (PVal v1)) (Leaf (PVal v2))) vs).
Proof. exact comma_tokens_build. Qed.
Print Assumptions comma_tokens_rebuilt.
