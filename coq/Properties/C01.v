(* C01 -- plain Ducky/Flipper scripts pass through unchanged.  Statements only. *)
From Coq Require Import NArith ZArith List Bool.
From DS Require Import Base PyStr Values TabParse Interp Tables Constants PipelineProofs.
Import ListNotations.
Arguments IOk {A}. Arguments s_g {fo}. Arguments s_env {fo}. Arguments mkSt {fo}.

(* every key that takes no argument (hand-pinned list), written alone in ANY casing of its name, is
   dispatched by the generated palette to a class whose pipeline emits exactly the upper-cased key,
   with no error and no warning (the glob is unchanged), whatever the state *)
Theorem noarg_key_passthrough :
  forall (fo : FloatOps) (child : runner fo) (cx : ctx) (k cmd : str),
    In k pinned_noarg_keys -> upper cmd = k -> starts_dollar cmd = false ->
    exists cname sc,
      find_command palette cmd None = Some (cname, Simple sc) /\
      forall cur tg n s,
        simple_compile fo child cx cur cname tg sc cmd n None None s =
        (mkSt (s_g s) (s_env s) (Some cur), IOk (mkCret [mkO tg k] SNormal)).
Proof. exact noarg_key_line. Qed.
Print Assumptions noarg_key_passthrough.

(* STRING / STRINGLN in any casing keep their text exactly (no trimming of the text itself) *)
Theorem string_text_kept :
  forall (fo : FloatOps) (child : runner fo) (cx : ctx) (k cmd a : str),
    (k = s_STRING \/ k = s_STRINGLN) -> upper cmd = k -> starts_dollar cmd = false -> a <> [] ->
    exists cname sc,
      find_command palette cmd None = Some (cname, Simple sc) /\
      forall cur tg n s,
        simple_compile fo child cx cur cname tg sc cmd n (Some a) None s =
        (mkSt (s_g s) (s_env s) (Some cur), IOk (mkCret [mkO tg (k ++ [32%N] ++ a)] SNormal)).
Proof. exact string_line. Qed.
Print Assumptions string_text_kept.

(* case independence of dispatch: two spellings with the same upper-casing select the same class *)
Theorem dispatch_case_independent :
  forall pal cmd k cb, upper cmd = k -> upper k = k -> starts_dollar cmd = false -> starts_dollar k = false ->
    find_command pal cmd cb = find_command pal k cb.
Proof. exact find_command_upper. Qed.
Print Assumptions dispatch_case_independent.
