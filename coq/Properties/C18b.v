(* C18 (whole program) -- "when compilation fails the prints executed before the failure are still
   available; PRINT lines are captured in execution order".  Statements only.
   g_prints / g_warnings are kept newest first: "added ++ old" = nothing is dropped or reordered. *)
From Coq Require Import NArith ZArith List Bool.
From DS Require Import Base PyStr Values TabParse Interp StackLift PrintsMono.
Import ListNotations.

(* a stack, for ANY runner of the stacks above it that has the same property, and ANY result *)
Theorem prints_mono : forall (fo : FloatOps) (child : runner fo) (cx : ctx),
  (forall cx' g e c g' res, child cx' g e c = (g', res) -> exists added, g_prints g' = added ++ g_prints g) ->
  forall cmds acc s s' r, exec_cmds fo child cx cmds acc s = (s', r) ->
  exists added, g_prints (s_g fo s') = added ++ g_prints (s_g fo s).
Proof. exact PrintsMono.prints_mono. Qed.
Print Assumptions prints_mono.

Theorem prints_mono_line : forall (fo : FloatOps) (child : runner fo) (cx : ctx),
  (forall cx' g e c g' res, child cx' g e c = (g', res) -> exists added, g_prints g' = added ++ g_prints g) ->
  forall c n cb s s' r, exec_line fo child cx c n cb s = (s', r) ->
  exists added, g_prints (s_g fo s') = added ++ g_prints (s_g fo s).
Proof. exact PrintsMono.prints_mono_line. Qed.
Print Assumptions prints_mono_line.

(* the interpreter at every depth *)
Theorem run_prints_mono : forall (fo : FloatOps) d cx g e cmds g' res,
  run fo d cx g e cmds = (g', res) -> exists added, g_prints g' = added ++ g_prints g.
Proof. exact PrintsMono.run_prints_mono. Qed.
Print Assumptions run_prints_mono.

(* what a completed line printed stays, below whatever is printed later, whatever happens later *)
Theorem prints_survive_failure : forall (fo : FloatOps) (child : runner fo) (cx : ctx),
  (forall cx' g e c g' res, child cx' g e c = (g', res) -> exists added, g_prints g' = added ++ g_prints g) ->
  forall c n rest acc s s' r,
  is_blank c = false ->
  exec_cmds fo child cx (Ln c n :: rest) acc s = (s', r) ->
  exists s1 r1 added1 added2,
    exec_line fo child cx c n (match rest with Blk b :: _ => Some b | _ => None end)
              (mkSt fo (s_g fo s) (s_env fo s) None) = (s1, r1) /\
    g_prints (s_g fo s1) = added1 ++ g_prints (s_g fo s) /\
    g_prints (s_g fo s') = added2 ++ added1 ++ g_prints (s_g fo s).
Proof. exact PrintsMono.prints_survive_failure. Qed.
Print Assumptions prints_survive_failure.

(* Compiler.compile: the prints reported are those of the run of the main stack, success or not;
   on success the record lists them in execution order *)
Theorem compile_items_prints : forall (fo : FloatOps) o fs file cmds g res,
  compile_items fo o fs file cmds = (g, res) ->
  exists g0 res0,
    run fo (run_depth o) (mkCtx o fs [] file) (mkGlob [] []) (initial_env fo) cmds = (g0, res0) /\
    g_prints g = g_prints g0 /\ incl (g_warnings g0) (g_warnings g) /\
    (forall c, res = IOk _ c -> prints fo c = rev (g_prints g0)).
Proof. exact PrintsMono.compile_items_prints. Qed.
Print Assumptions compile_items_prints.

(* warnings: every old warning is still present *)
Theorem warnings_mono : forall (fo : FloatOps) (child : runner fo) (cx : ctx),
  (forall cx' g e c g' res, child cx' g e c = (g', res) -> incl (g_warnings g) (g_warnings g')) ->
  forall cmds acc s s' r, exec_cmds fo child cx cmds acc s = (s', r) ->
  incl (g_warnings (s_g fo s)) (g_warnings (s_g fo s')).
Proof. exact PrintsMono.warnings_mono. Qed.
Print Assumptions warnings_mono.

Theorem run_warnings_mono : forall (fo : FloatOps) d cx g e cmds g' res,
  run fo d cx g e cmds = (g', res) -> incl (g_warnings g) (g_warnings g').
Proof. exact PrintsMono.run_warnings_mono. Qed.
Print Assumptions run_warnings_mono.
