(* C13 -- import cycles are rejected.  Statements only. *)
From Coq Require Import NArith ZArith List Bool.
From DS Require Import Base PyStr Values TabParse Interp MoreProofs.
Import ListNotations.

(* a START-family command whose resolved target is the file of any stack of the live pile
   (the current one included) is a CircularStructureError carrying the pile as its trace *)
Theorem cycle_rejected :
  forall (fo : FloatOps) child cx cur cname sc name a num orig file target text s,
  s_run sc = RKStart -> c_file cx = Some file -> resolve_start file (content_text a) = Ok target -> c_fs cx target = Some text ->
  existsb (fun fr => opt_eqb path_eqb (fr_file fr) (Some target)) (here cx cur None) = true ->
  run_compile fo child cx cur cname sc name (Some (mkLine a num orig)) s = (s, IErr ECircular (Some (here cx cur (s_line2 s)))).
Proof. exact start_cycle_rejected. Qed.
Print Assumptions cycle_rejected.
