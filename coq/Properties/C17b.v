(* C17b -- compilations are independent of one another, NOW ALSO CHARACTERISED BY THE SPECIFICATION.
   Statements only; proofs in Proofs/CoreAllConverse.v.

   The judgements of Spec/CoreAll.v and Spec/CoreAllErr.v mention no state other than their
   explicit inputs.  [spec_result_is fo prog o entry r]: r is the result of compiling the file
   [entry] of the program [prog] under the options o AS DEFINED BY THE JUDGEMENTS -- a success
   (UOk: signal, function table, flag, store, output lines, events) with a [uruns] derivation, or
   a failure (UFail: class, chain, events) with a [ufails] derivation, with the room that the stack
   limit of o leaves.  It is a function of (prog, o, entry): it EXISTS (totality, on tame
   programs), it is UNIQUE (determinism + disjointness), and the interpreter's answer READS AS IT
   ([observes]: output texts, final variables / flag / functions, prints, warnings, glob; or class,
   trace = chain, glob) -- whatever else the file system holds, whatever was compiled before.

   job_for dir prog j entry: the job j compiles the entry file of prog: its file system holds
   the program (prog_ok, prog_closed), its file is the entry's path, its text the entry's text,
   its stack limit >= 1.  run_history: C17 (Model/World.v). *)
From Coq Require Import String NArith ZArith List Bool.
From DS Require Import Base PyStr Values Expr TabParse Tables Constants Interp World ScopeProofs ImportGraph.
From DS Require Import CoreLang CoreFunc CoreErr CoreAll CoreAllLines CoreAllBase CoreAllRefine CoreAllTop CoreAllExample.
From DS Require Import CoreAllErr CoreAllErrLines CoreAllErrRefine CoreAllErrExample.
From DS Require Import CoreAllDet CoreAllTotal CoreAllConverse CoreAllConverseExample.
Import ListNotations.

Arguments IOk {A}. Arguments IErr {A}.
Arguments e_sys : clear implicits. Arguments e_user : clear implicits. Arguments e_temp : clear implicits.
Arguments e_funcs : clear implicits. Arguments mkEnv : clear implicits.

(* what the two definitions say *)
Theorem C17b_spec_result_meaning : forall fo prog o entry,
  (forall sg F' f' vs' out ev,
     spec_result_is fo prog o entry (UOk sg F' f' vs' out ev) <->
     uruns fo prog (include_comments o) (supress_command_not_exist o) entry (room_of_limit (stack_limit o)) sg F' f' vs' out ev) /\
  (forall er ch ev,
     spec_result_is fo prog o entry (UFail er ch ev) <->
     ufails fo prog (include_comments o) (supress_command_not_exist o) entry (room_of_limit (stack_limit o)) er ch ev).
Proof. exact spec_result_meaning. Qed.
Print Assumptions C17b_spec_result_meaning.

Theorem C17b_observes_meaning : forall fo dir res,
  (forall sg F' f' vs' out ev,
     observes fo dir res (UOk sg F' f' vs' out ev) <->
     exists ol Fi, map o_text ol = map line_text out /\ utab_rel dir F' Fi /\
       res = (CoreAllBase.apply_evs dir ev (mkGlob [] []),
              IOk (mkCompiled fo ol (map (CoreAllBase.conc_warning dir) (warnings_of ev))
                     (mkEnv fo (initial_sys fo) vs' (flag_var fo f') Fi)
                     (map (CoreAllBase.conc_print dir) (prints_of ev))))) /\
  (forall er ch ev,
     observes fo dir res (UFail er ch ev) <->
     res = (CoreAllBase.apply_evs dir ev (mkGlob [] []), IErr er (Some (map (CoreAllBase.conc_frame dir) ch)))).
Proof. exact observes_meaning. Qed.
Print Assumptions C17b_observes_meaning.

(* the result of the specification exists ... *)
Theorem C17b_spec_result_exists : forall fo dir prog fs, prog_ok dir prog fs ->
  forall o entry stmts,
  tame_prog fo prog -> lookup entry prog = Some stmts -> exists r, spec_result_is fo prog o entry r.
Proof. exact spec_result_exists. Qed.
Print Assumptions C17b_spec_result_exists.

(* ... is unique ... *)
Theorem C17b_spec_result_unique : forall fo dir prog fs, prog_ok dir prog fs ->
  forall o entry r1 r2,
  spec_result_is fo prog o entry r1 -> spec_result_is fo prog o entry r2 -> r1 = r2.
Proof. exact spec_result_unique. Qed.
Print Assumptions C17b_spec_result_unique.

(* ... and is what the interpreter returns *)
Theorem C17b_compile_is_spec_result : forall fo dir prog fs, prog_ok dir prog fs -> prog_closed dir prog fs ->
  forall o entry stmts r,
  (1 <= stack_limit o)%Z -> lookup entry prog = Some stmts -> spec_result_is fo prog o entry r ->
  observes fo dir (compile_items fo o fs (Some (file_of dir entry)) (uitems_of stmts)) r.
Proof. exact compile_is_spec_result. Qed.
Print Assumptions C17b_compile_is_spec_result.

(* the rest of the file system does not matter *)
Theorem C17b_independent_of_file_system : forall fo dir prog fs1 fs2 o entry stmts,
  prog_ok dir prog fs1 -> prog_closed dir prog fs1 -> prog_ok dir prog fs2 -> prog_closed dir prog fs2 ->
  tame_prog fo prog -> (1 <= stack_limit o)%Z -> lookup entry prog = Some stmts ->
  exists r, spec_result_is fo prog o entry r /\
    observes fo dir (compile_items fo o fs1 (Some (file_of dir entry)) (uitems_of stmts)) r /\
    observes fo dir (compile_items fo o fs2 (Some (file_of dir entry)) (uitems_of stmts)) r.
Proof. exact compile_independent_of_fs. Qed.
Print Assumptions C17b_independent_of_file_system.

(* in ANY history of compilations (C17) the result of a job for (prog, entry) is the
   specification's result for (prog, options of the job, entry) *)
Theorem C17b_history_result_is_spec_result : forall fo dir prog pre post j w entry r,
  job_for dir prog j entry -> spec_result_is fo prog (j_opts j) entry r ->
  exists res, nth_error (snd (run_history fo w (pre ++ j :: post))) (length pre) = Some res /\
              observes fo dir res r.
Proof. exact history_result_is_spec_result. Qed.
Print Assumptions C17b_history_result_is_spec_result.

(* two histories, two jobs for the same (program, options, entry): both answers read as THE result
   of the specification *)
Theorem C17b_two_histories_same_result : forall fo dir prog pre1 post1 w1 j1 pre2 post2 w2 j2 entry,
  job_for dir prog j1 entry -> job_for dir prog j2 entry -> j_opts j1 = j_opts j2 -> tame_prog fo prog ->
  (exists stmts, lookup entry prog = Some stmts) ->
  exists r res1 res2,
    spec_result_is fo prog (j_opts j1) entry r /\
    (forall r', spec_result_is fo prog (j_opts j1) entry r' -> r' = r) /\
    nth_error (snd (run_history fo w1 (pre1 ++ j1 :: post1))) (length pre1) = Some res1 /\
    nth_error (snd (run_history fo w2 (pre2 ++ j2 :: post2))) (length pre2) = Some res2 /\
    observes fo dir res1 r /\ observes fo dir res2 r.
Proof. exact two_histories_same_result. Qed.
Print Assumptions C17b_two_histories_same_result.

(* witnesses: the specification's result of the circular-import program and of the recursive
   program under the limit 8 (C10e) is THE failure of their derivations *)
Theorem C17b_spec_result_examples : forall fo inc sup,
  (forall r, spec_result_is fo r_prog (r_opts inc sup) n_main r -> r = UFail EStackOverflow r_chain []) /\
  (forall r, spec_result_is fo b_prog (ex_opts inc sup) n_main r ->
             r = UFail ECircular b_chain [EvPrint (S_ "here") 1 n_lib]).
Proof. exact spec_result_examples. Qed.
Print Assumptions C17b_spec_result_examples.
