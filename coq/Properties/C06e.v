(* C06e -- REPEAT / WHILE / BREAKLOOP / CONTINUELOOP against the reference semantics
   Spec/CoreLang.v.  Statements only; proofs in Proofs/CoreRefine.v, witnesses in
   Proofs/CoreExample.v.  Vocabulary: see Properties/C05c.v.

   The loop judgements of the specification:
     exec_repeat fo sys f c e body k vs vs' out    REPEAT [c,]e from iteration k on: the count e is
         evaluated in the enclosing store (flag f) BEFORE EVERY iteration and once after the last,
         must be in 0..20000; iteration k runs the body on  with_counter c k vs  (no flag); the
         enclosing store becomes  copy_back vs vs1 ; Broke ends the loop, Continued the iteration
     exec_while fo sys c e body k vs vs' out       WHILE [c,]e from iteration k on (k <= 20000): the
         condition is evaluated in  with_counter c k vs  with NO flag (inside the iteration's
         block); false: the enclosing store becomes  copy_back vs (with_counter c k vs)  *)
From Coq Require Import String NArith ZArith List Bool.
From DS Require Import Base PyStr Values Expr TabParse Tables Constants Interp ScopeProofs.
From DS Require Import ChainLoopExamples CoreLang CoreWf CoreRefine CoreExample.
Import ListNotations.

Arguments IOk {A}. Arguments s_line2 {fo}.

(* repeat_loop of the model, any sufficient fuel (block_compile gives loop_fuel = 20003), from
   any iteration k, any accumulated output a *)
Theorem C06e_repeat_loop_refines :
  forall fo sys, nodup_keys sys ->
  forall f c e body k vs vs' out,
  exec_repeat fo sys f c e body k vs vs' out ->
  forall d cx cur n fuel a s g F,
    R fo sys g F f vs s -> CoreWf.counter_ok c -> body <> [] -> wf_list body ->
    fits d cx (S (nesting_list body)) -> (loop_max - k < Z.of_nat fuel)%Z ->
    exists s' ol, R fo sys g F f vs' s' /\ map o_text ol = out /\ s_line2 s' = s_line2 s /\
      repeat_loop fo (child_of fo d) cx cur fuel c e (items_from n body) k (mkCret a SNormal) s =
      (s', IOk (mkCret (a ++ ol) SNormal)).
Proof. exact refine_repeat. Qed.
Print Assumptions C06e_repeat_loop_refines.

Theorem C06e_while_loop_refines :
  forall fo sys, nodup_keys sys ->
  forall c e body k vs vs' out,
  exec_while fo sys c e body k vs vs' out ->
  forall d cx cur n fuel a s g F f,
    R fo sys g F f vs s -> CoreWf.counter_ok c -> body <> [] -> wf_list body ->
    fits d cx (S (nesting_list body)) -> (loop_max - k < Z.of_nat fuel)%Z ->
    exists s' ol, R fo sys g F f vs' s' /\ map o_text ol = out /\ s_line2 s' = s_line2 s /\
      while_loop fo (child_of fo d) cx cur fuel c e (items_from n body) k (mkCret a SNormal) s =
      (s', IOk (mkCret (a ++ ol) SNormal)).
Proof. exact refine_while. Qed.
Print Assumptions C06e_while_loop_refines.

Theorem C06e_loop_fuel_enough : (loop_max - 0 < Z.of_nat loop_fuel)%Z.
Proof. exact loop_fuel_enough. Qed.
Print Assumptions C06e_loop_fuel_enough.

(* ---- computed witnesses: a derivation in the specification, and the interpreter's result
        (texts, user variables, temp variables, warnings) *)
Open Scope string_scope.

(* the count is evaluated again before every iteration:
     VAR n 3 / REPEAT n / (VAR n n-1 ; STRING x)        two lines, n ends as 1 *)
Theorem C06e_count_is_reevaluated : forall fo,
  (exists f', runs fo prog_recount Normal f' [(lit "n", VInt 1)] [lit "STRING x"; lit "STRING x"]) /\
  result fo prog_recount = Some ([lit "STRING x"; lit "STRING x"], [(lit "n", VInt 1)], [], []).
Proof. exact count_is_reevaluated. Qed.
Print Assumptions C06e_count_is_reevaluated.

(* a counter named like an outer variable overwrites it:
     VAR i 7 / REPEAT i,2 / (STRING x) / $STRING i      "STRING 1" *)
Theorem C06e_counter_overwrites_outer : forall fo,
  (exists f', runs fo prog_counter Normal f' [(lit "i", VInt 1)] [lit "STRING x"; lit "STRING x"; lit "STRING 1"]) /\
  result fo prog_counter = Some ([lit "STRING x"; lit "STRING x"; lit "STRING 1"], [(lit "i", VInt 1)], [], []).
Proof. exact counter_overwrites_outer. Qed.
Print Assumptions C06e_counter_overwrites_outer.

(* ... even by a WHILE whose condition is false at once:
     VAR i 7 / WHILE i,FALSE / (STRING x) / $STRING i   "STRING 0" *)
Theorem C06e_while_false_still_binds : forall fo,
  (exists f', runs fo prog_while0 Normal f' [(lit "i", VInt 0)] [lit "STRING 0"]) /\
  result fo prog_while0 = Some ([lit "STRING 0"], [(lit "i", VInt 0)], [], []).
Proof. exact while_false_still_binds. Qed.
Print Assumptions C06e_while_false_still_binds.

(* WHILE i,i<10 / (IF i==1 / CONTINUELOOP ; IF i==3 / BREAKLOOP ; $STRING i) / STRING end *)
Theorem C06e_signals : forall fo,
  (exists f', runs fo prog_signals Normal f' [] [lit "STRING 0"; lit "STRING 2"; lit "STRING end"]) /\
  wf_list prog_signals /\
  result fo prog_signals = Some ([lit "STRING 0"; lit "STRING 2"; lit "STRING end"], [], [], []).
Proof. exact signals_example. Qed.
Print Assumptions C06e_signals.
