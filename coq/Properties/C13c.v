(* C13 at the level of WHOLE IMPORT GRAPHS -- statements only.

   Vocabulary (Spec/ImportGraph.v):
     graph            = list (file name * list (word * file name)): each file with its imports in
                        order; word = VStart | VCode | VEnv (START / STARTCODE / STARTENV);
                        [plain_graph] builds one from (file, the files it STARTs);
     graph_ok g       : every name is a non-empty word over a-z A-Z 0-9 _;
     file_of dir n    = dir/n.txt;   file_text n imps = "STRING n" then one line "<WORD> m" per import;
     graph_fs dir g   : the file system that holds exactly these files;
     compile_entry fo o dir g entry imps
                      = Compiler.compile (compile_text) of the entry file on that file system;
     link             = (importing file, line number, word, imported file);  frames dir chain =
                        the stack frames (file, importing line, the same line as line_2) of a chain;
     gtraverse L g e  : the depth-first traversal with stack limit L (gvisit with enough fuel);
     reach / edge / cycle_reachable / closed_from / is_chain / preorder: graph vocabulary;
     accepted out     = the compiled result whose output lines are "STRING n" for n in out, no
                        warning, no print, the initial environment.
   Everything holds for every FloatOps, every options value, every folder [dir]. *)
From Coq Require Import NArith ZArith List Bool Lia.
From DS Require Import Base PyStr Values Expr TabParse Tables Constants Interp.
From DS Require Import StartLaws PasteExamples ImportGraph GraphText GraphRun GraphTheory GraphRing GraphCompile GraphExamples.
Import ListNotations.

(* ------------------------------------------------------------------ 1. the abstraction is faithful *)
(* the file system denoted by the graph holds, under dir/n.txt, the text of n *)
Theorem graph_file_system : forall dir g n,
  graph_fs dir g (file_of dir n) = option_map (file_text n) (lookup n g).
Proof. exact graph_fs_file. Qed.
Print Assumptions graph_file_system.

(* the tab parser turns that text into the marker line followed by the import lines, numbered from 1 *)
Theorem graph_file_parses : forall n imps, name_ok n = true -> imports_ok imps ->
  prepare_text (file_text n imps) = TOk (node_items n imps).
Proof. exact prepare_file_text. Qed.
Print Assumptions graph_file_parses.

(* `<WORD> m` written in dir/n.txt resolves to dir/m.txt *)
Theorem graph_import_resolves : forall dir n m, name_ok m = true ->
  resolve_start (file_of dir n) m = Ok (file_of dir m).
Proof. exact resolve_name. Qed.
Print Assumptions graph_import_resolves.

(* the interpreter at any depth d that the limit cannot exhaust, started on file n below the chain
   [links], does what the traversal does *)
Theorem interpreter_performs_the_traversal : forall (fo : FloatOps) o dir g,
  graph_ok g ->
  forall fuel d links n imps g0,
  (stack_limit o <= Z.of_nat (length links) + 1 + Z.of_nat d)%Z ->
  lookup n g = Some imps ->
  gvisit (stack_limit o) g fuel links n <> GFuel ->
  run fo d (ctx_of o dir g links n) g0 (initial_env fo) (node_items n imps)
  = (g0, ires_of fo dir (gvisit (stack_limit o) g fuel links n)).
Proof. exact gvisit_run. Qed.
Print Assumptions interpreter_performs_the_traversal.

Theorem traversal_never_out_of_fuel : forall L g entry, gtraverse L g entry <> GFuel.
Proof. exact gtraverse_no_fuel. Qed.
Print Assumptions traversal_never_out_of_fuel.

(* Compiler.compile of the entry = the verdict of the traversal; no print, no warning *)
Theorem compile_is_the_traversal : forall (fo : FloatOps) o dir g entry imps,
  graph_ok g -> lookup entry g = Some imps ->
  compile_entry fo o dir g entry imps = (mkGlob [] [], verdict_of fo dir (gtraverse (stack_limit o) g entry)).
Proof. exact compile_graph. Qed.
Print Assumptions compile_is_the_traversal.

Theorem accepted_output_texts : forall (fo : FloatOps) l, map o_text (out fo (accepted fo l)) = map marker_ln l.
Proof. exact accepted_texts. Qed.
Print Assumptions accepted_output_texts.

(* ------------------------------------------------------------------ 2. acyclic graphs are accepted *)
(* rank strictly decreasing along every edge that can be reached (diamonds, repeated imports are
   covered), every reachable import exists, limit > longest chain counted in edges (the limit counts
   the entry file): IOk, and the output is the pre-order unfolding -- a file reached along two paths
   is compiled once per path *)
Theorem acyclic_accepts : forall (fo : FloatOps) o dir g entry imps (rank : str -> nat),
  graph_ok g -> lookup entry g = Some imps ->
  (forall n m, reach g entry n -> edge g n m -> lookup m g <> None /\ (rank m < rank n)%nat) ->
  (Z.of_nat (rank entry) < stack_limit o)%Z ->
  compile_entry fo o dir g entry imps = (mkGlob [] [], IOk (accepted fo (preorder (rank entry) g entry))).
Proof. exact GraphCompile.acyclic_accepts. Qed.
Print Assumptions acyclic_accepts.

(* the unfolding does not depend on the fuel beyond the rank *)
Theorem preorder_fuel_irrelevant : forall g entry (rank : str -> nat),
  (forall n m, reach g entry n -> edge g n m -> lookup m g <> None /\ (rank m < rank n)%nat) ->
  forall f1 f2 n, reach g entry n -> (rank n <= f1)%nat -> (rank n <= f2)%nat -> preorder f1 g n = preorder f2 g n.
Proof. exact preorder_stable. Qed.
Print Assumptions preorder_fuel_irrelevant.

(* ------------------------------------------------------------------ 3. cycles are rejected *)
(* the traversal reaches an import of a live file before any other error: ECircular, compilation
   stops (no output at all), and the trace is the chain: a simple path of the graph from the entry,
   one frame per live file, the last frame is the re-entering line and its target is a file of the chain *)
Theorem cycle_rejects : forall (fo : FloatOps) o dir g entry imps ch,
  graph_ok g -> lookup entry g = Some imps ->
  gtraverse (stack_limit o) g entry = GCircular ch ->
  compile_entry fo o dir g entry imps = (mkGlob [] [], IErr ECircular (Some (frames dir ch))) /\
  exists pre l, ch = pre ++ [l] /\ is_chain g entry ch /\ NoDup (map lk_file ch) /\
                In (lk_target l) (map lk_file ch) /\
                map fr_file (frames dir ch) = map (fun l => Some (file_of dir (lk_file l))) ch.
Proof. exact GraphCompile.cycle_rejects. Qed.
Print Assumptions cycle_rejects.

Theorem trace_lines_are_the_import_lines : forall dir ch,
  map fr_line (frames dir ch) = map (fun l => (edge_ln (lk_var l) (lk_target l), lk_num l)) ch.
Proof. exact frames_lines. Qed.
Print Assumptions trace_lines_are_the_import_lines.

(* x -> ... following first imports through distinct files, the first import of the last one is a
   file t of the path: rejected; the chain is the whole path (the cycle may be entered anywhere
   and may sit behind a prefix) *)
Theorem first_import_cycle_rejected : forall (fo : FloatOps) o dir g x p' t imps,
  graph_ok g -> lookup x g = Some imps ->
  first_path g (x :: p') t -> NoDup (x :: p') -> In t (x :: p') ->
  (Z.of_nat (length (x :: p')) <= stack_limit o)%Z ->
  compile_entry fo o dir g x imps =
  (mkGlob [] [], IErr ECircular (Some (frames dir (map (first_link g) (x :: p'))))).
Proof. exact GraphCompile.first_import_cycle_rejected. Qed.
Print Assumptions first_import_cycle_rejected.

(* the ring of the k files  a ++ e :: b  (each imports the next, the last the first), entered at e,
   with a limit that allows k files *)
Theorem ring_rejected : forall (fo : FloatOps) o dir a e b,
  Forall (fun n => name_ok n = true) (a ++ e :: b) -> NoDup (a ++ e :: b) ->
  (Z.of_nat (length (a ++ e :: b)) <= stack_limit o)%Z ->
  compile_entry fo o dir (ring (a ++ e :: b)) e [(VStart, hd (hd e a) b)] =
  (mkGlob [] [], IErr ECircular (Some (frames dir (ring_links (e :: b ++ a) e)))).
Proof. exact GraphCompile.ring_rejected. Qed.
Print Assumptions ring_rejected.

Theorem self_import_rejected : forall (fo : FloatOps) o dir a, name_ok a = true -> (1 <= stack_limit o)%Z ->
  compile_entry fo o dir [(a, [(VStart, a)])] a [(VStart, a)] =
  (mkGlob [] [], IErr ECircular (Some [frame_of_link dir (mkLink a 2%Z VStart a)])).
Proof. exact GraphCompile.self_import_rejected. Qed.
Print Assumptions self_import_rejected.

(* ... at the level of the traversal for EVERY limit (zero, negative): the circularity test comes
   before the limit test *)
Theorem self_import_circular_any_limit : forall L a v rest,
  gtraverse L [(a, (v, a) :: rest)] a = GCircular [mkLink a 2%Z v a].
Proof. exact self_import_any_limit. Qed.
Print Assumptions self_import_circular_any_limit.

Theorem self_import_rejected_any_limit : forall (fo : FloatOps) o dir a v rest,
  graph_ok [(a, (v, a) :: rest)] ->
  compile_entry fo o dir [(a, (v, a) :: rest)] a ((v, a) :: rest) =
  (mkGlob [] [], IErr ECircular (Some [frame_of_link dir (mkLink a 2%Z v a)])).
Proof. exact GraphCompile.self_import_rejected_any_limit. Qed.
Print Assumptions self_import_rejected_any_limit.

Theorem two_cycle_rejected : forall (fo : FloatOps) o dir a b, name_ok a = true -> name_ok b = true -> a <> b ->
  (2 <= stack_limit o)%Z ->
  compile_entry fo o dir [(a, [(VStart, b)]); (b, [(VStart, a)])] a [(VStart, b)] =
  (mkGlob [] [], IErr ECircular (Some [frame_of_link dir (mkLink a 2%Z VStart b); frame_of_link dir (mkLink b 2%Z VStart a)])) /\
  compile_entry fo o dir [(a, [(VStart, b)]); (b, [(VStart, a)])] b [(VStart, a)] =
  (mkGlob [] [], IErr ECircular (Some [frame_of_link dir (mkLink b 2%Z VStart a); frame_of_link dir (mkLink a 2%Z VStart b)])).
Proof. exact GraphCompile.two_cycle_rejected. Qed.
Print Assumptions two_cycle_rejected.

(* ------------------------------------------------------------------ 4. the decision *)
(* no side condition on the graph at all: exactly one of four verdicts, each error with its chain *)
Theorem compile_graph_total : forall (fo : FloatOps) o dir g entry imps,
  graph_ok g -> lookup entry g = Some imps ->
  (exists out, compile_entry fo o dir g entry imps = (mkGlob [] [], IOk (accepted fo out)) /\
               ~ cycle_reachable g entry /\ closed_from g entry) \/
  (exists pre l, is_chain g entry (pre ++ [l]) /\ NoDup (map lk_file (pre ++ [l])) /\
     ((compile_entry fo o dir g entry imps = (mkGlob [] [], IErr ECircular (Some (frames dir (pre ++ [l])))) /\
       In (lk_target l) (map lk_file (pre ++ [l]))) \/
      (compile_entry fo o dir g entry imps = (mkGlob [] [], IErr EInvalidArguments (Some (frames dir (pre ++ [l])))) /\
       lookup (lk_target l) g = None) \/
      (compile_entry fo o dir g entry imps = (mkGlob [] [], IErr EStackOverflow (Some (frames dir (pre ++ [l])))) /\
       (stack_limit o <= Z.of_nat (length (pre ++ [l])))%Z /\
       lookup (lk_target l) g <> None /\ ~ In (lk_target l) (map lk_file (pre ++ [l]))))).
Proof. exact GraphCompile.compile_graph_total. Qed.
Print Assumptions compile_graph_total.

(* every reachable import exists and the limit exceeds the number of files: IOk iff no cycle can
   be reached, otherwise ECircular with the chain *)
Theorem decide : forall (fo : FloatOps) o dir g entry imps,
  graph_ok g -> lookup entry g = Some imps -> closed_from g entry ->
  (Z.of_nat (length g) < stack_limit o)%Z ->
  (exists out, compile_entry fo o dir g entry imps = (mkGlob [] [], IOk (accepted fo out)) /\ ~ cycle_reachable g entry) \/
  (exists pre l, compile_entry fo o dir g entry imps = (mkGlob [] [], IErr ECircular (Some (frames dir (pre ++ [l])))) /\
     cycle_reachable g entry /\ is_chain g entry (pre ++ [l]) /\ NoDup (map lk_file (pre ++ [l])) /\
     In (lk_target l) (map lk_file (pre ++ [l]))).
Proof. exact GraphCompile.decide. Qed.
Print Assumptions decide.

Theorem accepted_iff_no_cycle : forall (fo : FloatOps) o dir g entry imps,
  graph_ok g -> lookup entry g = Some imps -> closed_from g entry ->
  (Z.of_nat (length g) < stack_limit o)%Z ->
  ((exists gl c, compile_entry fo o dir g entry imps = (gl, IOk c)) <-> ~ cycle_reachable g entry).
Proof. exact GraphCompile.accepted_iff_no_cycle. Qed.
Print Assumptions accepted_iff_no_cycle.

(* one direction needs nothing: whatever the limit, an accepted graph has no reachable cycle and no
   dangling import *)
Theorem accepted_no_cycle : forall (fo : FloatOps) o dir g entry imps gl c,
  graph_ok g -> lookup entry g = Some imps ->
  compile_entry fo o dir g entry imps = (gl, IOk c) -> ~ cycle_reachable g entry /\ closed_from g entry.
Proof. exact GraphCompile.accepted_no_cycle. Qed.
Print Assumptions accepted_no_cycle.

(* ------------------------------------------------------------------ START / STARTCODE / STARTENV *)
(* the circularity verdict of one command does not depend on the word, the child runner, the state *)
Theorem circular_verdict_ignores_word :
  forall (fo : FloatOps) (child1 child2 : runner fo) cx cur cname sc name1 name2 l file target text s1 s2,
  s_run sc = RKStart -> c_file cx = Some file ->
  resolve_start file (content_text (l_content l)) = Ok target -> c_fs cx target = Some text ->
  circ cx target = true ->
  run_compile fo child1 cx cur cname sc name1 (Some l) s1 = (s1, IErr ECircular (Some (here cx cur (s_line2 s1)))) /\
  run_compile fo child2 cx cur cname sc name2 (Some l) s2 = (s2, IErr ECircular (Some (here cx cur (s_line2 s2)))).
Proof. exact GraphCompile.circular_verdict_ignores_word. Qed.
Print Assumptions circular_verdict_ignores_word.

(* whole graphs: replacing the words of the imports by others changes neither the class of the
   verdict nor the chain (only the words inside it); all theorems above hold for every labelling *)
Theorem verdict_ignores_words : forall L f g fuel links n,
  same_verdict f (gvisit L g fuel links n) (gvisit L (relabel f g) fuel (map (relabel_link f) links) n).
Proof. exact GraphCompile.verdict_ignores_words. Qed.
Print Assumptions verdict_ignores_words.

(* ------------------------------------------------------------------ 5. non-vacuity: the model itself, vm_compute *)
Theorem diamond_is_accepted :
  compile_entry fo0 o0 dir0 diamond na [(VStart, nb); (VStart, nc)]
  = (mkGlob [] [], IOk (accepted fo0 [na; nb; nd; nc; nd])).
Proof. exact diamond_full. Qed.
Print Assumptions diamond_is_accepted.

Theorem repeated_import_is_accepted :
  show_graph (compile_entry fo0 o0 dir0 twice na [(VStart, nb); (VStart, nb)]) = inl (map marker_ln [na; nb; nb]).
Proof. exact repeated_import_accepted. Qed.
Print Assumptions repeated_import_is_accepted.

Theorem ring3_is_rejected_with_the_chain :
  show_graph (compile_entry fo0 o0 dir0 (ring [na; nb; nc]) na [(VStart, nb)])
  = inr (Some ECircular, [(f_txt na, edge_ln VStart nb, 2%Z); (f_txt nb, edge_ln VStart nc, 2%Z); (f_txt nc, edge_ln VStart na, 2%Z)]).
Proof. exact ring3_rejected. Qed.
Print Assumptions ring3_is_rejected_with_the_chain.

Theorem cycle_behind_a_prefix_is_rejected :
  show_graph (compile_entry fo0 o0 dir0 lasso_g na [(VStart, nb); (VStart, nc)])
  = inr (Some ECircular, [(f_txt na, edge_ln VStart nc, 3%Z); (f_txt nc, edge_ln VStart na, 2%Z)]).
Proof. exact cycle_after_prefix. Qed.
Print Assumptions cycle_behind_a_prefix_is_rejected.

(* findings, on the model: the limit counts the entry file; a ring longer than the limit is a
   StackOverflowError, not a CircularStructureError; a missing file is InvalidArgumentsError *)
Theorem ring3_with_limit_2_overflows :
  show_graph (compile_entry fo0 (lim 2) dir0 (ring [na; nb; nc]) na [(VStart, nb)])
  = inr (Some EStackOverflow, [(f_txt na, edge_ln VStart nb, 2%Z); (f_txt nb, edge_ln VStart nc, 2%Z)]).
Proof. exact ring3_limit_2. Qed.
Print Assumptions ring3_with_limit_2_overflows.

Theorem diamond_needs_limit_3 :
  show_graph (compile_entry fo0 (lim 3) dir0 diamond na [(VStart, nb); (VStart, nc)]) = inl (map marker_ln [na; nb; nd; nc; nd]) /\
  show_graph (compile_entry fo0 (lim 2) dir0 diamond na [(VStart, nb); (VStart, nc)])
  = inr (Some EStackOverflow, [(f_txt na, edge_ln VStart nb, 2%Z); (f_txt nb, edge_ln VStart nd, 2%Z)]).
Proof. exact (conj diamond_limit_3 diamond_limit_2). Qed.
Print Assumptions diamond_needs_limit_3.

Theorem missing_file_is_invalid_arguments :
  show_graph (compile_entry fo0 o0 dir0 dangling na [(VStart, nb)])
  = inr (Some EInvalidArguments, [(f_txt na, edge_ln VStart nb, 2%Z)]).
Proof. exact missing_file. Qed.
Print Assumptions missing_file_is_invalid_arguments.

Theorem mixed_words :
  show_graph (compile_entry fo0 o0 dir0 mixed na [(VEnv, nb); (VCode, nc)]) = inl (map marker_ln [na; nc; nd]) /\
  show_graph (compile_entry fo0 o0 dir0 mixed_ring na [(VEnv, nb)])
  = inr (Some ECircular, [(f_txt na, edge_ln VEnv nb, 2%Z); (f_txt nb, edge_ln VCode na, 2%Z)]).
Proof. exact (conj mixed_accepted mixed_ring_rejected). Qed.
Print Assumptions mixed_words.
