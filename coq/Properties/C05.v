(* C05 -- IF / ELIF / ELSE chains and the $IF_SUCCESS flag.  Statements only; proofs live in Proofs/.
   with_flag b s   : s with $IF_SUCCESS := b in the temp table (nothing else changed)
   ensure_flag s   : s if the flag exists, otherwise with_flag false s
   flag_of s       : truthiness of the flag, false when absent
   norm_arg a      : strip a for a non-empty argument
   run_branch      : run the child stack on the code block and wrap the result as RComp *)
From Coq Require Import NArith ZArith List Bool.
From DS Require Import Base PyStr Values Expr TabParse Tables Constants Interp ScopeProofs.
Import ListNotations.

Theorem C05_palette_if_class :
  exists bc, lookup s_If palette = Some (Block bc) /\ is_if_class bc /\
             b_names bc = [s_IF; [69;76;73;70]%N; s_ELSE].
Proof. exact palette_if_class. Qed.
Print Assumptions C05_palette_if_class.

Theorem C05_tokenizeM_state : forall fo cx cur a s s' x, tokenizeM fo cx cur a s = (s', x) -> s' = s.
Proof. exact tokenizeM_state. Qed.
Print Assumptions C05_tokenizeM_state.

Theorem C05_elif_skipped_when_flag :
  forall fo child cx cur bc cname cmd num a code_block s v,
  is_if_class bc ->
  str_eqb (upper cmd) s_IF = false -> str_eqb (upper cmd) s_ELSE = false ->
  a <> [] ->
  lookup if_success (e_temp fo (s_env fo s)) = Some (VBool true) ->
  tokenizeM fo cx cur (strip a) s = (s, IOk _ v) ->
  block_compile fo child cx cur bc cname cmd num (Some a) code_block s = (s, IOk _ RNone).
Proof. exact elif_skipped_when_flag. Qed.
Print Assumptions C05_elif_skipped_when_flag.

Theorem C05_elif_skipped_when_flag_gen :
  forall fo child cx cur bc cname cmd num a code_block s v,
  is_if_class bc ->
  str_eqb (upper cmd) s_IF = false -> str_eqb (upper cmd) s_ELSE = false ->
  flag_of fo s = true ->
  tokenizeM fo cx cur (norm_arg a) s = (s, IOk _ v) ->
  block_compile fo child cx cur bc cname cmd num (Some a) code_block s = (s, IOk _ RNone).
Proof. exact elif_skipped_when_flag_gen. Qed.
Print Assumptions C05_elif_skipped_when_flag_gen.

Theorem C05_else_skipped_when_flag :
  forall fo child cx cur bc cname cmd num code_block s,
  is_if_class bc ->
  str_eqb (upper cmd) s_ELSE = true ->
  lookup if_success (e_temp fo (s_env fo s)) = Some (VBool true) ->
  block_compile fo child cx cur bc cname cmd num None code_block s = (s, IOk _ RNone).
Proof. exact else_skipped_when_flag. Qed.
Print Assumptions C05_else_skipped_when_flag.

Theorem C05_if_resets_flag :
  forall fo child cx cur bc cname cmd num a code_block s v,
  is_if_class bc ->
  str_eqb (upper cmd) s_IF = true ->
  tokenizeM fo cx cur (norm_arg a) (ensure_flag fo s) = (ensure_flag fo s, IOk _ v) ->
  truthy fo v = false ->
  exists s', block_compile fo child cx cur bc cname cmd num (Some a) code_block s = (s', IOk _ RNone) /\
             lookup if_success (e_temp fo (s_env fo s')) = Some (VBool false) /\
             s_g fo s' = s_g fo s /\ s_line2 fo s' = s_line2 fo s /\
             e_sys fo (s_env fo s') = e_sys fo (s_env fo s) /\ e_user fo (s_env fo s') = e_user fo (s_env fo s) /\
             e_funcs fo (s_env fo s') = e_funcs fo (s_env fo s) /\
             (forall k, str_eqb k if_success = false ->
                        lookup k (e_temp fo (s_env fo s')) = lookup k (e_temp fo (s_env fo s))).
Proof. exact if_resets_flag_after. Qed.
Print Assumptions C05_if_resets_flag.

Theorem C05_if_resets_flag_state :
  forall fo child cx cur bc cname cmd num a code_block s v,
  is_if_class bc ->
  str_eqb (upper cmd) s_IF = true ->
  tokenizeM fo cx cur (norm_arg a) (ensure_flag fo s) = (ensure_flag fo s, IOk _ v) ->
  truthy fo v = false ->
  block_compile fo child cx cur bc cname cmd num (Some a) code_block s = (with_flag fo false s, IOk _ RNone).
Proof. exact if_resets_flag. Qed.
Print Assumptions C05_if_resets_flag_state.

Theorem C05_if_taken :
  forall fo child cx cur bc cname cmd num a code_block s v,
  is_if_class bc ->
  str_eqb (upper cmd) s_IF = true ->
  tokenizeM fo cx cur (norm_arg a) (ensure_flag fo s) = (ensure_flag fo s, IOk _ v) ->
  truthy fo v = true ->
  block_compile fo child cx cur bc cname cmd num (Some a) code_block s =
  run_branch fo child cx cur code_block (with_flag fo true s).
Proof. exact if_taken. Qed.
Print Assumptions C05_if_taken.

Theorem C05_if_taken_flag_after :
  forall fo child cx cur bc cname cmd num a code_block s v s' r,
  is_if_class bc ->
  str_eqb (upper cmd) s_IF = true ->
  tokenizeM fo cx cur (norm_arg a) (ensure_flag fo s) = (ensure_flag fo s, IOk _ v) ->
  truthy fo v = true ->
  block_compile fo child cx cur bc cname cmd num (Some a) code_block s = (s', IOk _ r) ->
  lookup if_success (e_temp fo (s_env fo s')) = Some (VBool true).
Proof. exact if_taken_flag_after. Qed.
Print Assumptions C05_if_taken_flag_after.

Theorem C05_else_runs_when_no_flag :
  forall fo child cx cur bc cname cmd num code_block s,
  is_if_class bc ->
  str_eqb (upper cmd) s_ELSE = true ->
  flag_of fo s = false ->
  block_compile fo child cx cur bc cname cmd num None code_block s =
  run_branch fo child cx cur code_block (with_flag fo true s).
Proof. exact else_runs_when_no_flag. Qed.
Print Assumptions C05_else_runs_when_no_flag.

Theorem C05_elif_taken :
  forall fo child cx cur bc cname cmd num a code_block s v,
  is_if_class bc ->
  str_eqb (upper cmd) s_IF = false -> str_eqb (upper cmd) s_ELSE = false ->
  flag_of fo s = false ->
  tokenizeM fo cx cur (norm_arg a) (ensure_flag fo s) = (ensure_flag fo s, IOk _ v) ->
  truthy fo v = true ->
  block_compile fo child cx cur bc cname cmd num (Some a) code_block s =
  run_branch fo child cx cur code_block (with_flag fo true s).
Proof. exact elif_taken. Qed.
Print Assumptions C05_elif_taken.

Theorem C05_elif_not_taken :
  forall fo child cx cur bc cname cmd num a code_block s v,
  is_if_class bc ->
  str_eqb (upper cmd) s_IF = false -> str_eqb (upper cmd) s_ELSE = false ->
  flag_of fo s = false ->
  tokenizeM fo cx cur (norm_arg a) (ensure_flag fo s) = (ensure_flag fo s, IOk _ v) ->
  truthy fo v = false ->
  block_compile fo child cx cur bc cname cmd num (Some a) code_block s = (ensure_flag fo s, IOk _ RNone).
Proof. exact elif_not_taken. Qed.
Print Assumptions C05_elif_not_taken.

(* a branch that ran to completion leaves the flag true in the parent *)
Theorem C05_run_branch_flag_after :
  forall fo child cx cur code_block s s' r,
  run_branch fo child cx cur code_block (with_flag fo true s) = (s', IOk _ r) ->
  lookup if_success (e_temp fo (s_env fo s')) = Some (VBool true) /\
  (exists cr, r = RComp cr) /\
  e_temp fo (s_env fo s') = e_temp fo (s_env fo (with_flag fo true s)) /\
  e_funcs fo (s_env fo s') = e_funcs fo (s_env fo s) /\
  s_line2 fo s' = s_line2 fo s.
Proof. exact run_branch_flag_after. Qed.
Print Assumptions C05_run_branch_flag_after.

Theorem C05_flag_exists_after :
  forall fo child cx cur bc cname cmd num argument code_block s s' r,
  is_if_class bc ->
  block_compile fo child cx cur bc cname cmd num argument code_block s = (s', IOk _ r) ->
  has_key if_success (e_temp fo (s_env fo s')) = true.
Proof. exact block_compile_if_flag_exists. Qed.
Print Assumptions C05_flag_exists_after.

(* inside the block the chain state starts afresh *)
Theorem C05_block_starts_without_flag : forall fo (parent : env fo),
  lookup if_success (e_temp fo (append_env fo (empty_env fo) parent)) = None.
Proof. exact entry_no_flag. Qed.
Print Assumptions C05_block_starts_without_flag.
